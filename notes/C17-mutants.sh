#!/bin/bash
# mutation test driver for C17 (scratch copy /tmp/geo-repo). usage: c17-mutants.sh [name...]
export GOFLAGS=-mod=mod GOPROXY=off GOSUMDB=off GOTOOLCHAIN=local
R=/tmp/geo-repo
cd /work/geo
restore() { cp /repo/osmgeojson/convert.go /repo/osmgeojson/build_polygon.go /repo/osmgeojson/options.go $R/osmgeojson/; cp /repo/internal/mputil/join.go $R/internal/mputil/; cp /repo/tag.go $R/; }
py() { python3 - "$@"; }
sub() { # file, old, new  (exact, must occur)
python3 - "$1" "$2" "$3" <<'EOF'
import sys
p,old,new=sys.argv[1:4]
s=open(p).read()
if old not in s:
    print("MUTANT PATTERN NOT FOUND in",p); sys.exit(3)
open(p,'w').write(s.replace(old,new,1))
EOF
}
C=$R/osmgeojson/convert.go; B=$R/osmgeojson/build_polygon.go; O=$R/osmgeojson/options.go; J=$R/internal/mputil/join.go; T=$R/tag.go
apply() {
case "$1" in
M01) sub $C '			len(ctx.relationMember[node.FeatureID()]) == 0 &&
' '' ;;
M02) sub $C 'if ctx.noRelationMembership && m.Type != osm.TypeNode {' 'if ctx.noRelationMembership {' ;;
M03) sub $C '	if !ctx.noRelationMembership {
		relations := ctx.relationMember[e.FeatureID()]' '	if !ctx.noRelationMembership && !ctx.noMeta {
		relations := ctx.relationMember[e.FeatureID()]' ;;
M04) sub $C '	f.Properties["id"] = int(n.ID)' '	if !ctx.noID {
		f.Properties["id"] = int(n.ID)
	}' ;;
M05) sub $C '		reorient(p)
' '' ;;
M06) sub $C '		if len(ls) == 0 {
			continue
		}

		lines = append(lines, mputil.Segment{' '		if len(ls) <= 2 {
			continue
		}

		lines = append(lines, mputil.Segment{' ;;
M07) sub $J '			if foundAt < len(segments)/2 {' '			if false {'
     sub $J '				for i := foundAt + 1; i < len(segments); i++ {
					segments[i-1] = segments[i]
				}' '' ;;
M08) sub $C '	ls, tainted := ctx.wayToLineString(w)
	if len(ls) <= 1 {' '	w.Tags.SortByKeyValue()
	ls, tainted := ctx.wayToLineString(w)
	if len(ls) <= 1 {' ;;
M09) sub $C '	for _, way := range ctx.osm.Ways {
		// should skip only skippable relation members' '	for _, way := range ctx.wayMap {
		// should skip only skippable relation members' ;;
M10) sub $T '	"tiger:tlid":        true,
' '' ;;
M11) sub $C 'f := geojson.NewFeature(orb.Point{n.Lon, n.Lat})' 'f := geojson.NewFeature(orb.Point{n.Lat, n.Lon})' ;;
M12) sub $C '	if ls[0] != ls[len(ls)-1] {
		return orb.Ring(append(ls, ls[0]))
	}' '' ;;
M13) sub $B '		if len(mp) == 1 {
			geometry = mp[0]
		}' '		if len(mp) == 1 && !ctx.includeInvalidPolygons {
			geometry = mp[0]
		}' ;;
M14) sub $C '		if wn.Lon != 0 || wn.Lat != 0 {
			ls = append(ls, orb.Point{wn.Lon, wn.Lat})
		} else if n := ctx.getNode(wn.ID); n != nil {' '		if n := ctx.getNode(wn.ID); n != nil {' ;;
M15) sub $C '	for _, relation := range ctx.osm.Relations {
		var tags map[string]string
		for _, m := range relation.Members {' '	var tags map[string]string
	for _, relation := range ctx.osm.Relations {
		for _, m := range relation.Members {' ;;
M16) sub $B '			ctx.skippable[outerWay.ID] = struct{}{}

' '' ;;
M17) sub $C '		if e.UserID != 0 {
			meta["uid"] = e.UserID
		}

	case *osm.Relation:' '		if e.UserID != 0 {
			meta["uid"] = e.ChangesetID
		}

	case *osm.Relation:' ;;
M18) sub $O '		ctx.noID = yes
' '		ctx.noID = true
' ;;
M20) sub $J '				} else if last.Equal(segment.Last()) {
					// reverse it and it'"'"'ll fit at the end
					segment.Reverse()
' '				} else if last.Equal(segment.Last()) {
					// reverse it and it'"'"'ll fit at the end
' ;;
M21) sub $C '	ctx.wayMember = make(map[osm.NodeID]struct{}, len(ctx.osm.Nodes))
	for _, w := range ctx.osm.Ways {
		for i := range w.Nodes {' '	ctx.wayMember = make(map[osm.NodeID]struct{}, len(ctx.osm.Nodes))
	for _, w := range ctx.osm.Ways {
		for i := range w.Nodes[:len(w.Nodes)*3/4] {' ;;
M22) sub $C '		if !hasInterestingTags(way.Tags, nil) {
			ctx.skippable[way.ID] = struct{}{}
		}

		ls, t := ctx.wayToLineString(way)' '		ctx.skippable[way.ID] = struct{}{}

		ls, t := ctx.wayToLineString(way)' ;;
M23) sub $C '	lineSections := mputil.Join(lines)' '	lineSections := make([]mputil.MultiSegment, 0, len(lines))
	for _, l := range lines {
		lineSections = append(lineSections, mputil.MultiSegment{l})
	}' ;;
M24) sub $C '	if n.Lon == 0 && n.Lat == 0 && n.Version == 0 {' '	if n.Lon == 0 && n.Lat == 0 {' ;;
M25) sub $C '	case *osm.Relation:
		if !e.Timestamp.IsZero() {
			meta["timestamp"] = e.Timestamp
		}
' '	case *osm.Relation:
' ;;
M26) sub $C '				Role: m.Role,' '				Role: relation.Members[0].Role,' ;;
M27) sub $C '	if w.Polygon() {
		p := orb.Polygon{toRing(ls)}' '	if len(w.Nodes) > 3 && w.Nodes[0].ID == w.Nodes[len(w.Nodes)-1].ID && len(w.Tags) > 0 {
		p := orb.Polygon{toRing(ls)}' ;;
M28) sub $C '	f.Properties["tags"] = w.Tags.Map()

	if tainted {' '	if !tainted {
		f.Properties["tags"] = w.Tags.Map()
	}

	if tainted {' ;;
M29) sub $C '!osm.UninterestingTags[k] &&' '!osm.UninterestingTags[k] && v != "" &&' ;;
M30) sub $C '	features := make([]*geojson.Feature, 0, len(ctx.osm.Relations)+len(ctx.osm.Ways))' '	features := make([]*geojson.Feature, 0, len(ctx.osm.Relations)+len(ctx.osm.Ways))
	if ctx.includeInvalidPolygons {
		for _, n := range ctx.osm.Nodes {
			if n.Version == 0 {
				n.Version = 1
			}
		}
	}' ;;
M31) sub $C '		if _, skip := ctx.skippable[way.ID]; skip {
			continue
		}' '		if _, skip := ctx.skippable[way.ID]; skip && !ctx.noMeta {
			continue
		}' ;;
*) echo "unknown mutant $1"; return 3 ;;
esac
}
names="$@"
[ -z "$names" ] && names="M01 M02 M03 M04 M05 M06 M07 M08 M09 M10 M11 M12 M13 M14 M15 M16 M17 M18 M20 M21 M22 M23 M24"
for m in $names; do
  restore
  if ! apply $m; then echo "$m: APPLY FAILED"; continue; fi
  tests=pass
  (cd $R && go test -vet=off ./osmgeojson/ ./internal/mputil/ . >/tmp/geo-mut-test.log 2>&1) || tests=FAIL
  if grep -q "build failed\|cannot\|undefined" /tmp/geo-mut-test.log && ! grep -q "^ok\|^--- FAIL" /tmp/geo-mut-test.log; then tests=BUILD-FAIL; fi
  out=$(VERIF_REPO=$R ./check.sh C17 quick 2>&1)
  nv=$(echo "$out" | grep -o "violations=[0-9]*" | head -1)
  keys=$(echo "$out" | grep "key:" | sed 's/.*key: //' | sed -E 's#C17/option/[^/]*/#C17/option/*/#' | sort | uniq -c | sort -rn | awk '{print $2"("$1")"}' | head -8 | tr '\n' ' ')
  echo "$m: repo-tests=$tests $nv :: $keys"
done
restore
