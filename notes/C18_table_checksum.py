# second, independent transcription of tyrasd/osm-polygon-features polygon-features.json
# (written from the published list, "area: all" entry left out because the property statement
# treats the area tag separately); used only to compute the counts/checksum embedded in c18.go
PF = [
 ("building","all",[]),
 ("highway","whitelist",["services","rest_area","escape","elevator"]),
 ("natural","blacklist",["coastline","cliff","ridge","arete","tree_row"]),
 ("landuse","all",[]),
 ("waterway","whitelist",["riverbank","dock","boatyard","dam"]),
 ("amenity","all",[]),
 ("leisure","all",[]),
 ("barrier","whitelist",["city_wall","ditch","hedge","retaining_wall","wall","spikes"]),
 ("railway","whitelist",["station","turntable","roundhouse","platform"]),
 ("boundary","all",[]),
 ("man_made","blacklist",["cutline","embankment","pipeline"]),
 ("power","whitelist",["plant","substation","generator","transformer"]),
 ("place","all",[]),
 ("shop","all",[]),
 ("aeroway","blacklist",["taxiway"]),
 ("tourism","all",[]),
 ("historic","all",[]),
 ("public_transport","all",[]),
 ("office","all",[]),
 ("building:part","all",[]),
 ("military","all",[]),
 ("ruins","all",[]),
 ("area:highway","all",[]),
 ("craft","all",[]),
 ("golf","all",[]),
 ("indoor","all",[]),
]
def fnv(s):
    h=0xcbf29ce484222325
    for b in s.encode():
        h^=b; h=(h*0x100000001b3)&0xffffffffffffffff
    return h
tot=0; n={"all":[0,0],"whitelist":[0,0],"blacklist":[0,0]}
for k,kind,vals in PF:
    n[kind][0]+=1; n[kind][1]+=len(vals)
    for v in (vals or [""]):
        tot=(tot+fnv(k+"\x1f"+kind+"\x1f"+v))&0xffffffffffffffff
print(len(PF), n, hex(tot))
# compare with the library's embedded JSON (content only)
import re,json
src=open('/repo/polygon.go').read()
j=json.loads(re.search(r'polygonJSON = \[\]byte\(`(.*?)`\)',src,re.S).group(1))
lib=[(e["key"],e["polygon"],e.get("values",[])) for e in j]
print("same content as library table:", sorted((k,c,tuple(sorted(v))) for k,c,v in lib)==sorted((k,c,tuple(sorted(v))) for k,c,v in PF))
