#!/usr/bin/env python3
# development aid: mutation-test C03/C04 against a scratch copy.
# Prepare the base first:  cp -r /repo /tmp/xml-repo && rm -rf /tmp/xml-repo/.git
# and apply the osm.go patch of notes/C04.md to it (otherwise the known Bounds keys show up
# in every C04 row). Usage: python3 notes/c03c04_mutants.py [M03 M12 ...]; delete /tmp/xml-repo
# and /tmp/xml-mut afterwards.
import subprocess, shutil, os, sys, re, json
BASE='/tmp/xml-repo'
MUT='/tmp/xml-mut'
env=dict(os.environ, GOFLAGS='-mod=mod', GOPROXY='off', GOSUMDB='off', GOTOOLCHAIN='local')
M=[
 ('M01 scanner drops user objects','osmxml/scanner.go','		case "user":\n			u := &osm.User{}\n			err = s.decoder.DecodeElement(&u, &se)\n			s.next = u\n',''),
 ('M02 diff create action ignores <way>','diff.go','		case "way":\n			w := &Way{}\n			if err := d.DecodeElement(&w, &start); err != nil {\n				return err\n			}\n			a.OSM = &OSM{Ways: Ways{w}}\n',''),
 ('M03 Update.Reverse attr renamed (both directions)','update.go','`xml:"reverse,attr,omitempty"','`xml:"reversed,attr,omitempty"'),
 ('M04 Member.Orientation attr renamed','relation.go','`xml:"orientation,attr,omitempty"','`xml:"orient,attr,omitempty"'),
 ('M05 ChangesetComment uid read from id','changeset.go','UserID    UserID    `xml:"uid,attr"','UserID    UserID    `xml:"id,attr"'),
 ('M06 NoteComment user_url element renamed','note.go','`xml:"user_url"','`xml:"userurl"'),
 ('M07 WayNode lon attr renamed','way.go','Lon         float64     `xml:"lon,attr,omitempty"`','Lon         float64     `xml:"lng,attr,omitempty"`'),
 ('M08 Change.Delete element renamed','change.go','Delete *OSM `xml:"delete"','Delete *OSM `xml:"remove"'),
 ('M09 OSM.Notes element renamed','osm.go','Notes      Notes      `xml:"note"`','Notes      Notes      `xml:"notes"`'),
 ('M10 User languages path renamed','user.go','`xml:"languages>lang"','`xml:"languages>language"'),
 ('M11 Node.Committed attr misspelt','node.go','`xml:"committed,attr,omitempty"','`xml:"commited,attr,omitempty"'),
 ('M12 Change keeps only the last block of an action (custom UnmarshalXML)','change.go','// MarshalXML implements the xml.Marshaller method to allow for the\n// correct wrapper/start element case and attr data.\nfunc (c Change) MarshalXML',
  '''// UnmarshalXML decodes an osmChange.
func (c *Change) UnmarshalXML(d *xml.Decoder, start xml.StartElement) error {
	for _, attr := range start.Attr {
		switch attr.Name.Local {
		case "version":
			c.Version = attr.Value
		case "generator":
			c.Generator = attr.Value
		case "copyright":
			c.Copyright = attr.Value
		case "attribution":
			c.Attribution = attr.Value
		case "license":
			c.License = attr.Value
		}
	}
	for {
		token, err := d.Token()
		if err != nil {
			break
		}
		se, ok := token.(xml.StartElement)
		if !ok {
			continue
		}
		var dst **OSM
		switch se.Name.Local {
		case "create":
			dst = &c.Create
		case "modify":
			dst = &c.Modify
		case "delete":
			dst = &c.Delete
		default:
			if err := d.Skip(); err != nil {
				return err
			}
			continue
		}
		*dst = &OSM{}
		if err := d.DecodeElement(*dst, &se); err != nil {
			return err
		}
	}
	return nil
}

// MarshalXML implements the xml.Marshaller method to allow for the
// correct wrapper/start element case and attr data.
func (c Change) MarshalXML'''),
 ('M13 note date parsed with a 12h layout','note.go','const dateLayout = "2006-01-02 15:04:05 MST"','const dateLayout = "2006-01-02 03:04:05 MST"'),
 ('M14 scanner decodes relation without members (DecodeElement into copy then drops)','osmxml/scanner.go','			s.next = relation\n','			relation.Members = nil\n			s.next = relation\n'),
 ('M15 marshal drops users of an OSM','osm.go','	if err := e.Encode(o.Notes); err != nil {\n		return err\n	}\n\n	return e.Encode(o.Users)','	return e.Encode(o.Notes)'),
 ('M16 discussion with a single comment omitted','changeset.go','	if len(csd.Comments) == 0 {\n		return nil','	if len(csd.Comments) <= 1 {\n		return nil'),
 ('M17 note date marshalled as RFC3339','note.go','return e.EncodeElement(d.Format(dateLayout), start)','return e.EncodeElement(d.Format(time.RFC3339), start)'),
 ('M18 diff marshal writes <new> content under old name twice','diff.go','marshalInnerChange(e, "new", a.New)','marshalInnerChange(e, "new", a.Old)'),
 ('M19 osmChange marshal writes delete block from Modify','change.go','marshalInnerChange(e, "delete", c.Delete)','marshalInnerChange(e, "delete", c.Modify)'),
 ('M20 OSM license attribute written as licence','osm.go','start.Attr = append(start.Attr, xml.Attr{Name: xml.Name{Local: "license"}, Value: o.License})','start.Attr = append(start.Attr, xml.Attr{Name: xml.Name{Local: "licence"}, Value: o.License})'),
 ('M21 osmChange marshal forgets generator','change.go','	if c.Generator != "" {\n		start.Attr = append(start.Attr, xml.Attr{Name: xml.Name{Local: "generator"}, Value: c.Generator})\n	}\n',''),
 ('M22 diff create action marshals nodes and ways only','osm.go','	if err := e.Encode(o.Ways); err != nil {\n		return err\n	}\n\n	return e.Encode(o.Relations)\n}','	return e.Encode(o.Ways)\n}'),
 ('M23 WayNode version attr renamed symmetrically (vers)','way.go','Version     int         `xml:"version,attr,omitempty"`\n	ChangesetID ChangesetID `xml:"changeset,attr,omitempty"`\n	Lat         float64     `xml:"lat,attr,omitempty"`','Version     int         `xml:"vers,attr,omitempty"`\n	ChangesetID ChangesetID `xml:"changeset,attr,omitempty"`\n	Lat         float64     `xml:"lat,attr,omitempty"`'),
 ('M24 Way.Bounds omitted on marshal (xml:"-" would also stop decode: use omitempty field rename)','way.go','Bounds *Bounds `xml:"bounds,omitempty" json:"bounds,omitempty"`','Bounds *Bounds `xml:"bound,omitempty" json:"bounds,omitempty"`'),
 ('M25 scanner stops handling <bounds>','osmxml/scanner.go','		case "bounds":\n			bounds := &osm.Bounds{}\n			err = s.decoder.DecodeElement(&bounds, &se)\n			s.next = bounds\n',''),
 ('M26 Action type attr read case-folded to lower? (type taken from last attr)','diff.go','			a.Type = ActionType(attr.Value)\n			break','			a.Type = ActionType(attr.Value)'),
 ('M27 Note.ID read from an attribute instead of the <id> element','note.go','ID          NoteID              `xml:"id"','ID          NoteID              `xml:"id,attr"'),
 ('M28 Member nested nd renamed','relation.go','Nodes WayNodes `xml:"nd"','Nodes WayNodes `xml:"node"'),
 ('M29 Bounds minlon/maxlon swapped symmetrically','bounds.go','	MinLon float64 `xml:"minlon,attr"`\n	MaxLon float64 `xml:"maxlon,attr"`','	MinLon float64 `xml:"maxlon,attr"`\n	MaxLon float64 `xml:"minlon,attr"`'),
 ('M30 Changeset min_lat/max_lat swapped symmetrically','changeset.go','	MinLat        float64              `xml:"min_lat,attr"','	MinLat        float64              `xml:"max_lat,attr"'),
 ('M31 discussion comments marshalled as <comments>','changeset.go','t := xml.StartElement{Name: xml.Name{Local: "comment"}}','t := xml.StartElement{Name: xml.Name{Local: "comments"}}'),
 ('M32 scanner matches element names case-sensitively and only lower-case is fine; mutant: scanner treats <old> content as skipped','osmxml/scanner.go','		default:\n			continue Loop','		case "old":\n			if err := s.decoder.Skip(); err != nil {\n				s.err = err\n				return false\n			}\n			continue Loop\n		default:\n			continue Loop'),
]
only=sys.argv[1:] 
rows=[]
for name,f,old,new in M:
    tag=name.split()[0]
    if only and tag not in only: continue
    shutil.rmtree(MUT,ignore_errors=True); shutil.copytree(BASE,MUT)
    p=os.path.join(MUT,f); s=open(p).read()
    if old not in s:
        print(tag,'PATTERN NOT FOUND'); continue
    open(p,'w').write(s.replace(old,new,1))
    b=subprocess.run(['go','build','./...'],cwd=MUT,env=env,capture_output=True,text=True)
    if b.returncode!=0:
        print(tag,'DOES NOT BUILD',b.stderr[:300]); continue
    t=subprocess.run(['go','test','-vet=off','.','./osmxml/','./osmapi/','./osmgeojson/','./annotate/...','./replication/'],cwd=MUT,env=env,capture_output=True,text=True)
    suite='pass' if t.returncode==0 else 'FAIL'
    if suite=='FAIL':
        fails=re.findall(r'--- FAIL: (\S+)',t.stdout)
        suite+='('+','.join(fails[:3])+')'
    res={}
    for prop in ('C03','C04'):
        r=subprocess.run(['./check.sh',prop,'quick'],cwd='/work/xml',env=dict(env,VERIF_REPO=MUT),capture_output=True,text=True)
        keys=re.findall(r'  key: (.*)',r.stdout)
        res[prop]=(r.returncode,keys)
    rows.append((name,suite,res))
    print(f"{name}\n   suite={suite}\n   C03 exit={res['C03'][0]} keys={res['C03'][1][:6]}\n   C04 exit={res['C04'][0]} keys={res['C04'][1][:6]}",flush=True)
