import subprocess, sys, shutil, os, re
SRC='/repo'; DST='/tmp/area-repo'
def rd(f): return open(os.path.join(SRC,f)).read()
def rep(s,a,b,count=1):
    assert a in s, a
    return s.replace(a,b,count)
M = {
 'M01-no-init-sort': ('polygon.go', lambda s: rep(s,'		sort.StringSlice(p.Values).Sort()\n','		_ = p\n')),
 'M02-misspell-riverbank': ('polygon.go', lambda s: rep(s,'"riverbank"','"river_bank"')),
 'M03-railway-blacklist': ('polygon.go', lambda s: rep(s,'"key": "railway",\n        "polygon": "whitelist"','"key": "railway",\n        "polygon": "blacklist"')),
 'M04-len-lt-3': ('polygon.go', lambda s: rep(s,'len(w.Nodes) <= 3','len(w.Nodes) < 3')),
 'M05-area-empty-hastag': ('polygon.go', lambda s: rep(s,'} else if area != "" {','} else if w.Tags.HasTag("area") {')),
 'M06-stop-at-first-key': ('polygon.go', lambda s: rep(s,'''				return true
			}
		} else if c.Condition == conditionBlacklist''','''				return true
			}
			return false
		} else if c.Condition == conditionBlacklist''')),
 'M07-no-ignored-only-for-lists': ('polygon.go', lambda s: rep(s,'''		if c.Condition == conditionAll {
			return true''','''		if c.Condition == conditionAll && v != "" {
			return true''').replace('if v == "" || v == "no" {\n			continue','if v == "" || (v == "no" && c.Condition != conditionAll) {\n			continue')),
 'M08-closed-int32': ('polygon.go', lambda s: rep(s,'w.Nodes[0].ID != w.Nodes[len(w.Nodes)-1].ID','int32(w.Nodes[0].ID) != int32(w.Nodes[len(w.Nodes)-1].ID)')),
 'M09-sort-skips-highway': ('polygon.go', lambda s: rep(s,'for _, p := range polyConditions {\n		sort','for _, p := range polyConditions[2:] {\n		sort')),
 'M10-drop-golf': ('polygon.go', lambda s: rep(s,'''    {
        "key": "golf",
        "polygon": "all"
    },
''','')),
 'M11-relation-no-boundary': ('polygon.go', lambda s: rep(s,'return t == "multipolygon" || t == "boundary"','return t == "multipolygon"')),
 'M12-relation-equalfold': ('polygon.go', lambda s: rep(rep(s,'return t == "multipolygon" || t == "boundary"','return strings.EqualFold(t, "multipolygon") || strings.EqualFold(t, "boundary")'),'"sort"\n','"sort"\n	"strings"\n')),
 'M13-whitelist-offbyone': ('polygon.go', lambda s: rep(s,'if index != len(c.Values) && c.Values[index] == v {','if index < len(c.Values)-1 && c.Values[index] == v {')),
 'M14-sort-reverse': ('polygon.go', lambda s: rep(s,'sort.StringSlice(p.Values).Sort()','sort.Sort(sort.Reverse(sort.StringSlice(p.Values)))')),
 'M15-area-no-ignored-for-all-keys': ('polygon.go', lambda s: rep(rep(s,'''	if area := w.Tags.Find("area"); area == "no" {
		return false
	} else if area != "" {
		return true
	}
''','''	area := w.Tags.Find("area")
	if area != "" && area != "no" {
		return true
	}
'''),'''		if c.Condition == conditionAll {
			return true''','''		if area == "no" && c.Condition != conditionAll {
			continue
		}
		if c.Condition == conditionAll {
			return true''')),
 'M16-blacklist-no-len-guard': ('polygon.go', lambda s: rep(s,'if index == len(c.Values) || c.Values[index] != v {','if c.Values[index] != v {')),
 'M17-find-prefix': ('tag.go', lambda s: rep(rep(s,'''func (ts Tags) Find(k string) string {
	for _, t := range ts {
		if t.Key == k {''','''func (ts Tags) Find(k string) string {
	for _, t := range ts {
		if strings.HasPrefix(t.Key, k) && (len(t.Key) == len(k) || t.Key[len(k)] == ':') {'''),'"sort"\n','"sort"\n	"strings"\n')),
 'M18-no-casefold': ('polygon.go', lambda s: rep(rep(s,'if v == "" || v == "no" {','if v == "" || strings.EqualFold(strings.TrimSpace(v), "no") {'),'"sort"\n','"sort"\n	"strings"\n')),
 'M19-closed-first-eq-any': ('polygon.go', lambda s: rep(s,'''	if w.Nodes[0].ID != w.Nodes[len(w.Nodes)-1].ID {
		// must be closed
		return false
	}''','''	if w.Nodes[0].ID != w.Nodes[len(w.Nodes)-1].ID && w.Nodes[0].ID != w.Nodes[len(w.Nodes)-2].ID {
		// must be closed
		return false
	}''')),
 'M20-aeroway-taxiway-to-runway': ('polygon.go', lambda s: rep(s,'"taxiway"','"runway"')),
 'M21-area-no-only-first-tag': ('polygon.go', lambda s: rep(s,'if area := w.Tags.Find("area"); area == "no" {','if area := w.Tags.Find("area"); area == "no" && w.Tags[0].Key == "area" {')),
 'M23-area-no-prefix': ('polygon.go', lambda s: rep(rep(s,'area := w.Tags.Find("area"); area == "no" {','area := w.Tags.Find("area"); strings.HasPrefix(area, "no") {'),'"sort"\n','"sort"\n	"strings"\n')),
 'M24-no-value-returns-false': ('polygon.go', lambda s: rep(s,'''		if v == "" || v == "no" {
			continue
		}''','''		if v == "" {
			continue
		}
		if v == "no" {
			return false
		}''')),
 'M25-whitelist-prefix-match': ('polygon.go', lambda s: rep(rep(s,'if index != len(c.Values) && c.Values[index] == v {','if index != len(c.Values) && strings.HasPrefix(c.Values[index], v) {'),'"sort"\n','"sort"\n	"strings"\n')),
 'M26-len-le-4': ('polygon.go', lambda s: rep(s,'len(w.Nodes) <= 3','len(w.Nodes) <= 4')),
 'M22-drop-last-value-spikes': ('polygon.go', lambda s: rep(s,'            "wall",\n            "spikes"','            "wall"')),
}
which = sys.argv[1:] or sorted(M)
for name in which:
    f, fn = M[name]
    for g in ('polygon.go','tag.go'):
        shutil.copy(os.path.join(SRC,g), os.path.join(DST,g))
    open(os.path.join(DST,f),'w').write(fn(rd(f)))
    env=dict(os.environ, GOFLAGS='-mod=mod', GOPROXY='off', GOSUMDB='off', GOTOOLCHAIN='local')
    t=subprocess.run(['go','test','-vet=off','.'],cwd=DST,env=env,capture_output=True,text=True)
    tests='tests-pass' if t.returncode==0 else 'TESTS-FAIL'
    if t.returncode!=0 and 'build failed' in t.stdout+t.stderr: tests='BUILD-FAIL '+(t.stdout+t.stderr)[-300:]
    r=subprocess.run(['./check.sh','C18','quick'],cwd='/work/area',env=dict(os.environ,VERIF_REPO=DST),capture_output=True,text=True)
    out=r.stdout+r.stderr
    viol=[l for l in out.splitlines() if l.startswith('VIOLATION')]
    summ=[l for l in out.splitlines() if l.startswith('SUMMARY')]
    m=re.search(r'violations=(\d+)',summ[0]) if summ else None
    kinds=set()
    for l in out.splitlines():
        mm=re.search(r'key=(C18/[a-z]+)',l)
        if mm: kinds.add(mm.group(1))
    import json
    cov=json.load(open('/work/area/evidence/C18.json'))['coverage']
    by={k[len('violations_in_'):]:v for k,v in cov.items() if k.startswith('violations_in_')}
    print(f"{name}: {tests}; by={by}")
    continue
    print(f"{name}: {tests}; exit={r.returncode} violations={m.group(1) if m else '?'} first={viol[0][:200] if viol else '-'}")
for g in ('polygon.go','tag.go'):
    shutil.copy(os.path.join(SRC,g), os.path.join(DST,g))
