#!/usr/bin/env python3
"""mkmanifest.py — regenerates MANIFEST.json from the table below (kept in one place so that the
manifest is always schema-valid and in step with the checks that exist)."""
import json, os
root = os.path.dirname(os.path.abspath(__file__))
props = [json.loads(l) for l in open(os.path.join(root, 'properties.jsonl'))]

# id -> (level, technique, text, note)
CHECKS = {
 'C10': ('exploration', 'reference-model monitor over a boundary sweep of the id API',
         'Every swept (kind, ref, version) is pushed through every public construction/conversion/String/Parse path and compared with the tuple itself; order is decided for all pairs of the swept set, the Sort helpers against an independent sort, malformed strings from a table plus mutation grammar. Exploration is the right level: the functions are pure, the defects live at bit-field boundaries which the sweep enumerates completely, the rest is sampled.',
         'trusted: Go integer arithmetic and sort; the harness tuple order. Not covered: refs >= 2^40, negative refs, versions >= 2^16 (outside the statement).'),
}
CHECKS.update({
 'C01': ('exploration', 'reference-model monitor: independent PBF writer, model-derived expectation compared with Scan/Object/Header',
         'Every generated file is scanned through the public API and every delivered field compared with the value the format defines (from the writer\'s model, exact integer nanodegrees, tolerance 1e-10). Systematic present/absent toggles of all 33 optional parts at block, group and element level on the same decoder, header fields one by one, plus PRNG files, decoder counts {1,2,5,16}, chunked readers, both zlib back-ends; thorough adds -race and -asan builds.',
         'trusted: the harness writer (protowire, compress/zlib). Not covered: plain Node groups, zero-node dense groups, LZMA blobs, files beyond the generated size classes.'),
 'C02': ('exploration', 'schedule perturbation at reader/decoder-callback/consumer + Go race detector + event-log exactly-once monitor',
         'Files of 12-60 blocks are scanned with 1..32 decoders while delays are injected in the io.Reader (reader goroutine), in the Filter callbacks (decoder goroutines) and in the consumer loop; the oracle compares the delivered sequence with the model, checks exactly-once filter delivery, compares every retained object at delivery and after the scan, and fails on any race report with a library frame. The evidence counts distinct block-completion permutations and runs with inversions. Schedules are sampled.',
         'trusted: Go race detector (happens-before, only on executed paths). Schedules not produced by the perturbation plans are not covered.'),
 'C06': ('fault_enumeration', 'exhaustive cut-point and damage-class enumeration in crash/hang-isolated child processes',
         'All byte offsets of small files are used as cut points; 43 damage classes are applied to header/first/middle/last block; a non-EOF I/O error is injected at every Read call. Oracle: exactly the objects of the intact blocks, error iff the cut is not a block boundary / the damage is detectable, the very injected error for I/O faults; a child that dies or wedges is the observation crash/hang.',
         'trusted: block layout reported by the harness writer; hang classification by goroutine dump. asan build (thorough) watches native zlib on corrupt compressed data.'),
 'C08': ('exploration', 'monitors inside the Filter callbacks + subsequence oracle + post-return snapshot comparison',
         'Filter callbacks log every call and compare the element they are handed with the model element at that file position; the delivered sequence must be the model sequence filtered by the same pure predicate and skip flags; every returned object is snapshotted at return and compared after the scan. 8 skip masks x 9 predicate classes per type x decoders {1,3,8}.',
         'trusted: the PBF model (validated by C01). Predicates are pure and never retain their argument.'),
 'C09': ('fault_enumeration', 'offset monitor after every Scan against the writer\'s block layout + resume scans at every reported offset',
         'Every stop position k of each file is observed (both offsets read after every Scan and compared with the block layout), a second scanner is started at every distinct reported offset and at the previous offset and must deliver exactly the model suffix with a nil header; real Scan x k, Close, resume histories for sampled k; skip masks create fully empty blocks; decoders {1,2,4,16}.',
         'trusted: block layout from the harness writer. After the terminal Scan only the resume consequence is asserted.'),
})
CHECKS.update({
 'C13': ('exploration', 'reference-model monitor over generated (change, histories, option) triples with a recording/fault-injecting datasource wrapper',
         'annotate.Change is executed on fresh deep copies of generated triples (unsorted, gapped, duplicated, missing histories; every mix of the nine action/kind cells; with and without the ignore option; injected non-not-found errors) and the diff is compared with an independent reference of the documented pairing rule, ordering, visibility and typed errors; every history over versions 1..6 is enumerated; a second run checks determinism.',
         'trusted: the reference max-below search (12 lines). Not asserted: order inside one (action, kind) cell, which of several failing elements is reported, versions <= 0.'),
 'C18': ('exploration', 'exhaustive enumeration against an own hash-map copy of the polygon-features rules',
         'Way.Polygon/Relation.Polygon are evaluated on every listed key x every listed value of any key (plus near-misses, unlisted, empty, no) x area classes, all ordered pairs of rule keys, tag permutations, unrelated tags and the closed/length preconditions, and compared with a reference evaluator over hash maps (no sort, no binary search). Exhaustive over the rule table, so every per-value lookup result is decided.',
         'trusted: the content of the rule table (pinned by key/value counts and a checksum from a second transcription). A rule key with an empty value is run but not asserted (statement and library differ from osmtogeojson there).'),
})
CHECKS.update({
 'C07': ('fault_enumeration', 'porcupine linearizability check of recorded call histories + counting/endless readers + goroutine-dump monitor + Go race detector',
         'Every stop position k=0..N+1 of small PBF and XML inputs x stop kind (Close, cancel from the scanning goroutine, cancel from a concurrent goroutine overlapping further Scans) x decoder count is executed and its call history checked for linearizability against a 60-line sequential scanner model; counting readers measure what is consumed after the stop (300-block files) and an endless reader with a logical byte budget turns never-stops-reading into a counted observation; goroutine dumps after Close/cancel; cancellations issued from the reader callback or a timer while the consumer is slow or waiting run under the race detector; histories with an injected I/O error check the error precedence.',
         'trusted: porcupine v1.3.0, Go race detector, the 25% read-ahead allowance. Interleavings are sampled; a watchdog firing with runnable goroutines is inconclusive.'),
})
CHECKS.update({
 'C03': ('exploration', 'reference-model monitor: independent OSM-XML writer with layout noise, whole-document decode and streaming scanner compared with the model and with each other',
         'Documents are written from a model with explicit document order by a writer that shares nothing with the library (150 optional features, 12 noise classes: attribute order, whitespace, comments, PIs, CDATA, self-closing vs paired tags, unknown attributes/elements, entity and character-reference escaping); xml.Unmarshal into OSM/Change/Diff and osmxml.Scanner (chunked reader) must both equal the model, and each other kind by kind.',
         'trusted: the harness XML writer and Go encoding/xml tokenisation. Unknown wrapper elements around OSM-named elements at container level are not generated (ambiguous). "]]>" inside attribute values is a Go encoding/xml limit: probed, not asserted.'),
 'C04': ('exploration', 'round-trip monitor (xml.Marshal -> xml.Unmarshal / osmxml.Scanner) with a vocabulary checker over the marshalled tokens',
         'Generated values of all seven object kinds and OSM/Change/Diff containers, including top-level bounds in OSM and in every osmChange block and all annotations, are marshalled, tokenised against an OSM XML vocabulary table, unmarshalled and compared with the original (canonical dump), and read back by the streaming scanner. Every violation is shrunk to a single-feature input.',
         'trusted: eq.Dump equality (empty discussion == nil by design of the marshaller; note dates have whole seconds). Strings restricted to XML 1.0 characters.'),
 'C05': ('exploration', 'shape monitor on generic JSON parse + round trip + independently written osmjson documents, under default and recording user-installed codec',
         'osm.OSM/Change/element values are marshalled and shape-checked on a generic parse (elements[], type, tags object, nodes id array, members never null), round-tripped, and independently written osmjson documents (version number/string/absent, unknown keys, noise) are unmarshalled and compared with the model up to tag order and way-node annotations; every step runs under the default codec and under a recording harness codec installed through the public Custom JSON hooks (also marshaler-only / unmarshaler-only), results must be equal and the hooks consulted.',
         'trusted: the harness JSON text writer; json-iterator cannot run on this toolchain (reflect2 crash) so the installed codec is a harness type over encoding/json. Tags.UnmarshalJSON bypassing the installed unmarshaler is recorded, not asserted (results equal).'),
 'C11': ('exploration', 'reference-model monitor over generated edit histories + independent time-travel oracle (ApplyUpdatesUpTo on clones)',
         'annotate.Ways/Relations run on generated histories (commit-time and timestamp+threshold regimes, repeats, deletions, children entering/leaving, same-instant edits, options, filters); annotated children, update lists and error classes are compared with an independent reference (strict on well-separated histories, acceptable-set oracle on mixed windows), and for sampled t every child after ApplyUpdatesUpTo(t) must be the version current at t.',
         'trusted: the reference model in internal/hist (~400 lines). Mixed threshold windows and versions on the next parent\'s instant are only checked permissively; mixed-regime histories are run, not asserted.'),
 'C12': ('exploration', 'determinism monitor: 12 runs on deep clones with the datasource recording map-iteration order + update-order oracle',
         'Each input is annotated 12 times on deep clones; all runs must succeed with identical canonical dumps or all fail; every update list must be ordered by (index, time, version). The recording datasource exposes the iteration order of the child map, so the evidence reports how many distinct hash orders were actually seen. Workloads are biased to same-second versions, repeated children and >12 updates per parent, plus an enumerated (versions-in-one-second x indexes) grid.',
         'trusted: eq.Clone/eq.Dump. Hash orders are sampled (up to 12 per input), not enumerated.'),
 'C16': ('exploration', 'ground-truth generator with exact integer geometry predicates; oracle over Convert output and annotate orientations across four input variants',
         'Ground-truth polygon sets (1-4 outers, 0-3 holes, validated by the generator\'s own exact predicates) are cut, reversed and shuffled; the converted feature must be exactly the truth\'s rings (cyclic vertex sequence, closed, outer CCW / inner CW by own signed area, each outer with exactly its holes), identical across node-object vs way-node coordinates and with/without orientation annotations, and annotate.Relations must mark each way with its true direction. Small n-gons are enumerated over every cut set x reversal mask x member permutation.',
         'trusted: the generator\'s int64 predicates (self-tested). Normalised across variants: ring start vertex, hole order, polygon order only.'),
 'C17': ('exploration', 'reference-rule monitor over generated data sets x all 16 option sets, with determinism (byte-identical JSON) and input-immutability snapshots',
         'Each data set is converted under all 16 option combinations three times; the FeatureCollection JSON is checked against an independent reference of the documented rules (one feature per element at most, type/id/tags/meta/memberships, node rule both directions, way coordinates / closed CCW rings, route edge multiset), each option must remove exactly its documented key, repeats must be byte-identical and the input must equal its deep snapshot.',
         'trusted: the reference rules in c17.go. Grey zones (run, counted, not asserted): way vertex at (0,0) for unlocated nodes, negative ids, an outer way shared by two tagless multipolygons.'),
 'C20': ('exploration', 'fake API v0.6 server (httptest) logging every request with one atomic sequence shared with the rate-limiter monitor',
         'Every endpoint x arguments x options x base URL x limiter mode x status/body is called against a local server that records method, path and query; the oracle checks exactly one GET to the documented path (queries as parameter sets, bbox numerically), limiter Wait ordered before the request and no request after a limiter error, returned elements equal to what the server wrote (independent XML writer), status-to-typed-error mapping with NotFound only for 404, no partial data with an error, and exactly-one-element calls. Thorough enumerates the whole product.',
         'trusted: the endpoint table written from the API v0.6 documentation. bbox decimals beyond 1e-6 are not asserted (the statement promises no precision).'),
})
CHECKS.update({
 'C19': ('fault_enumeration', 'fake planet server (httptest) with exact-path routing, request log and a logical request budget; exhaustive missing-file patterns for small ranges',
         'For ranges 1..N (N<=9 quick, <=11 thorough) every subset of present state files (404 for the others) x every query position x the four streams is looked up through the public *StateAt API against a local server that answers only the documented planet paths and turns non-termination into a counted budget overrun (HTTP 500); the result must be the first present state at or after t (newest when later than all) within the loose request budget; larger and high-offset ranges with gap runs next to the probes are sampled; the three timestamp formats, the changeset off-by-one and data URLs are checked.',
         'trusted: the fake server\'s layout table (three-level zero-padded paths, state.txt/state.yaml). Offset windows with a missing prefix longer than 5 000 files are not queried at or before their first present state.'),
})
CHECKS.update({
 'C15': ('exploration', 'reference-model monitor over enumerated and generated (element, update list, t) triples, with shrinking',
         'Way/Relation.ApplyUpdatesUpTo, Updates.UpTo and Way.LineStringAt are executed on every update list up to length 3 (4 in thorough) over 0-3 children and on generated lists (0-12 children, 0-30 updates, duplicate timestamps, 1 ns neighbours, index-sorted / time-sorted / shuffled / interleaved storage) at every distinct instant, and compared with an independent model: exact state and pending list, typed out-of-range error, composability for per-child time-ordered lists, LineStringAt against apply+LineString on fully annotated ways, and the consumer path through annotate.Relations.',
         'trusted: the 60-line reference model. Negative indexes, partially annotated ways and element state after an out-of-range error are outside the statement: run, counted, not asserted.'),
})
CHECKS.update({
 'C14': ('exploration', 'exhaustive small reference graphs + stop sweeps, with goroutine-state deadlock/leak monitors and an independent reachability oracle',
         'Every reference graph on up to 3 relations (thorough: 4, 83 521 graphs incl. all 65 536 self-loop digraphs) in three member layouts is iterated for every ordered request selection, and random graphs up to 14 relations with several versions, colliding non-relation members and missing histories; the emitted sequence is checked for duplicates, ids without history, missing requested ids and child-before-parent order (own DFS) whenever the reachable sub-graph is acyclic; Close / cancel / datasource failure after every number of Next calls must end the iteration: never-ends is decided from goroutine states (scenario goroutine blocked in Close/Next, every annotate goroutine blocked or gone, no counter moving), leaks after Close/cancel from goroutine dumps.',
         'trusted: the DFS reference; goroutine-state classification (25 polls without movement). The Err/CompletedIndex data race on o.err is outside the statement (reported as inconclusive under -race).'),
})
PENDING = 'check not built yet in this revision of /verif (planned in DESIGN.md section 4); no verdict is claimed'

checks, na = [], []
for p in props:
    i = p['id']
    if i in CHECKS:
        lvl, tech, text, note = CHECKS[i]
        checks.append({
            'property_id': i,
            'quick_cmd': f'./check.sh {i} quick',
            'thorough_cmd': f'./check.sh {i} thorough',
            'evidence_file': f'/verif/evidence/{i}.json',
            'replay_cmd_template': './check.sh replay {path}',
            'engine': 'vcheck',
            'level_claimed': {'category': lvl, 'text': text, 'design_ref': f'DESIGN.md section 4, {i}'},
            'level_note': note,
            'technique': tech,
        })
    else:
        na.append({'property_id': i, 'reason': PENDING})
m = {
 'version': 1,
 'setup_cmd': './check.sh build-all',
 'hooks': {
   'guard': 'verif',
   'enable': 'every variant is built with `go build -tags verif` (see check.sh); the module replace directive points at /repo, so the current working tree is compiled',
   'baseline_off_cmd': "cd /repo && GOFLAGS=-mod=mod GOPROXY=off GOSUMDB=off go test -json -vet=off -count=1 -timeout 25m ./...",
   'source_commits': [],
   'add_only': True,
 },
 'engines': [{'name': 'vcheck', 'path': '/verif/cmd/vcheck', 'serves_properties': sorted(CHECKS),
              'kind_free_text': 'Go supervisor + child processes executing PRNG-determined case lists against the real library; monitors at the public API boundary; build variants plain / -race / CGO_ENABLED=0 / -asan'}],
 'checks': checks,
 'not_applicable': na,
 'notes': 'Runtime monitoring and sanitizers only. See DESIGN.md. known_findings.json lists fixed and open genuine defects.',
}
json.dump(m, open(os.path.join(root, 'MANIFEST.json'), 'w'), indent=1)
print('wrote MANIFEST.json with', len(checks), 'checks,', len(na), 'not applicable')
