#!/usr/bin/env python3
"""mkmanifest.py — regenerates MANIFEST.json from the table below (kept in one place so that the
manifest is always schema-valid and in step with the checks that exist)."""
import json, os
root = os.path.dirname(os.path.abspath(__file__))
props = [json.loads(l) for l in open(os.path.join(root, 'properties.jsonl'))]

# id -> (level, technique, text, note)
CHECKS = {
 'C10': ('exploration', 'reference-model monitor over a boundary sweep of the id API',
         'Every swept (kind, ref, version) is pushed through every public construction/conversion/String/Parse path and compared with the tuple itself; order is decided for all pairs of the swept set, the Sort helpers against an independent sort, malformed strings from a table plus mutation grammar. Exploration is the right level: the functions are pure, the defects live at bit-field boundaries which the sweep enumerates completely, the rest is sampled.',
         'trusted: Go integer arithmetic and sort; the harness tuple order. Not covered: refs >= 2^40, negative refs, versions >= 2^16 (outside the statement).'),
}
PENDING = 'check not built yet in this revision of /verif (planned in DESIGN.md section 4); no verdict is claimed'

checks, na = [], []
for p in props:
    i = p['id']
    if i in CHECKS:
        lvl, tech, text, note = CHECKS[i]
        checks.append({
            'property_id': i,
            'quick_cmd': f'./check.sh {i} quick',
            'thorough_cmd': f'./check.sh {i} thorough',
            'evidence_file': f'/verif/evidence/{i}.json',
            'replay_cmd_template': './check.sh replay {path}',
            'engine': 'vcheck',
            'level_claimed': {'category': lvl, 'text': text, 'design_ref': f'DESIGN.md section 4, {i}'},
            'level_note': note,
            'technique': tech,
        })
    else:
        na.append({'property_id': i, 'reason': PENDING})
m = {
 'version': 1,
 'setup_cmd': './check.sh build-all',
 'hooks': {
   'guard': 'verif',
   'enable': 'every variant is built with `go build -tags verif` (see check.sh); the module replace directive points at /repo, so the current working tree is compiled',
   'baseline_off_cmd': "cd /repo && GOFLAGS=-mod=mod GOPROXY=off GOSUMDB=off go test -json -vet=off -count=1 -timeout 25m ./...",
   'source_commits': [],
   'add_only': True,
 },
 'engines': [{'name': 'vcheck', 'path': '/verif/cmd/vcheck', 'serves_properties': sorted(CHECKS),
              'kind_free_text': 'Go supervisor + child processes executing PRNG-determined case lists against the real library; monitors at the public API boundary; build variants plain / -race / CGO_ENABLED=0 / -asan'}],
 'checks': checks,
 'not_applicable': na,
 'notes': 'Runtime monitoring and sanitizers only. See DESIGN.md. known_findings.json lists fixed and open genuine defects.',
}
json.dump(m, open(os.path.join(root, 'MANIFEST.json'), 'w'), indent=1)
print('wrote MANIFEST.json with', len(checks), 'checks,', len(na), 'not applicable')
