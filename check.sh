#!/bin/bash
# check.sh <property id> [quick|thorough]   — rebuilds the needed build variants from /repo's
# current working tree (pulled in through the replace directive) and runs the check.
# check.sh replay <file>                     — re-executes one recorded case.
set -u
cd "$(dirname "$0")"
export VERIF_ROOT="$PWD"
export GOFLAGS=-mod=mod GOPROXY=off GOSUMDB=off GOTOOLCHAIN=local
mkdir -p .work/bin
TAGS="-tags verif"
# VERIF_REPO=<dir> (development aid only, never used by MANIFEST commands): build against a
# scratch copy of paulmach/osm instead of /repo, without touching go.mod.
if [ -n "${VERIF_REPO:-}" ]; then
  sed "s#=> /repo#=> ${VERIF_REPO}#" go.mod > .work/alt.mod
  cp go.sum .work/alt.sum
  TAGS="$TAGS -modfile=$PWD/.work/alt.mod"
fi

build() { # variant
  case "$1" in
    plain) go build $TAGS -o .work/bin/vcheck ./cmd/vcheck ;;
    race)  go build $TAGS -race -o .work/bin/vcheck.race ./cmd/vcheck ;;
    nocgo) CGO_ENABLED=0 go build $TAGS -o .work/bin/vcheck.nocgo ./cmd/vcheck ;;
    asan)  go build $TAGS -asan -o .work/bin/vcheck.asan ./cmd/vcheck ;;
    *) echo "unknown variant $1" >&2; return 2 ;;
  esac
}

if [ "${1:-}" = "build-all" ]; then
  for v in plain race nocgo asan; do build $v || exit 2; done
  exit 0
fi

if [ "${1:-}" = "replay" ]; then
  file="$2"
  v=$(python3 -c "import json,sys; print(json.load(open(sys.argv[1]))['case'].get('variant') or 'plain')" "$file")
  build plain || exit 2
  [ "$v" = plain ] || build "$v" || exit 2
  bin=.work/bin/vcheck; [ "$v" = plain ] || bin=.work/bin/vcheck.$v
  exec $bin replay "$file"
fi

id="$1"; tier="${2:-${VERIF_TIER:-quick}}"
if ! build plain; then echo "BROKEN-CHECK property=$id build failed"; exit 2; fi
for v in $(.work/bin/vcheck variants "$id" "$tier"); do
  [ "$v" = plain ] && continue
  if ! build "$v"; then echo "BROKEN-CHECK property=$id build of variant $v failed"; exit 2; fi
done
exec .work/bin/vcheck run "$id" --tier "$tier"
