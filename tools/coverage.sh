#!/bin/bash
# tools/coverage.sh [tier] — statement coverage of paulmach/osm reached by the checks' workloads
# (not a verdict: it shows which library code the monitors never saw executing, i.e. where the
# workloads have gaps). Builds an instrumented vcheck (go build -cover) for every variant slot,
# runs all checks, prints per-package percentages and writes the uncovered blocks per file to
# .work/coverage-uncovered.txt. Restores the normal binaries afterwards (check.sh rebuilds them).
set -u
cd "$(dirname "$0")/.."
export VERIF_ROOT="$PWD" GOFLAGS=-mod=mod GOPROXY=off GOSUMDB=off GOTOOLCHAIN=local
tier=${1:-quick}
pk=github.com/paulmach/osm
pkgs=$pk,$pk/osmpbf,$pk/osmxml,$pk/annotate,$pk/annotate/internal/core,$pk/annotate/shared,$pk/internal/mputil,$pk/osmgeojson,$pk/osmapi,$pk/replication,verif/cmd/vcheck
mkdir -p .work/bin .work/cov && rm -rf .work/cov/*
go build -tags verif -cover -coverpkg=$pkgs -o .work/bin/vcheck.covbin ./cmd/vcheck || exit 2
for v in vcheck vcheck.race vcheck.nocgo vcheck.asan; do cp .work/bin/vcheck.covbin .work/bin/$v; done
for id in $(python3 -c "import json;print(' '.join(x['property_id'] for x in json.load(open('MANIFEST.json'))['checks']))"); do
  GOCOVERDIR=$PWD/.work/cov .work/bin/vcheck run $id --tier $tier 2>&1 | grep -E "^SUMMARY" | cut -c1-100
done
go tool covdata percent -i=.work/cov | grep -v "verif/"
go tool covdata textfmt -i=.work/cov -o .work/cov.txt
python3 - <<'PY'
import re,collections
unc=collections.defaultdict(list); tot=collections.Counter(); cov=collections.Counter()
for l in open('.work/cov.txt'):
    m=re.match(r'(.*):(\d+)\.\d+,(\d+)\.\d+ (\d+) (\d+)',l)
    if not m or 'verif/' in m.group(1): continue
    f=m.group(1).replace('github.com/paulmach/osm/',''); n=int(m.group(4))
    tot[f]+=n
    if m.group(5)!='0': cov[f]+=n
    else: unc[f].append('%s-%s'%(m.group(2),m.group(3)))
with open('.work/coverage-uncovered.txt','w') as o:
    for f in sorted(tot):
        o.write('%-44s %5.1f%%  %s\n'%(f,100*cov[f]/max(1,tot[f]),' '.join(sorted(set(unc[f]),key=lambda s:int(s.split('-')[0])))))
print('uncovered blocks per file: .work/coverage-uncovered.txt')
PY
rm -f .work/bin/vcheck .work/bin/vcheck.race .work/bin/vcheck.nocgo .work/bin/vcheck.asan .work/bin/vcheck.covbin
git checkout -- evidence 2>/dev/null
