#!/usr/bin/env python3
"""tools/seedmatrix.py [names...] — re-runs every stored seeded change against the check of its
property (and any extra checks listed in meta.json) and refreshes seeded/<name>/meta.json.
Scratch mode by default (SEED_INPLACE=1 applies each patch to /repo and undoes it)."""
import os, sys, json, subprocess, re
root = os.path.dirname(os.path.dirname(os.path.abspath(__file__)))
names = sys.argv[1:] or sorted(os.listdir(os.path.join(root, 'seeded')))
env = dict(os.environ)
if env.get('SEED_INPLACE') != '1':
    env['SEED_SCRATCH'] = '1'
env['LINES_MAX'] = '8'
tier = env.get('SEED_TIER', 'quick')
rows = []
for n in names:
    d = os.path.join(root, 'seeded', n)
    mp = os.path.join(d, 'meta.json')
    if not os.path.exists(mp):
        continue
    meta = json.load(open(mp))
    checks = list(meta.get('checks', {}).keys()) or [meta['property']]
    for c in checks:
        out = subprocess.run([os.path.join(root, 'tools/seedcheck.sh'), d, c, tier], capture_output=True, text=True, env=env).stdout
        m = re.search(r'violations=(\d+)', out)
        keys = re.findall(r'key: (.*)', out)
        meta['checks'][c] = {'violations': int(m.group(1)) if m else None, 'caught': bool(m and int(m.group(1)) > 0),
                             'first_keys': keys[:5], 'summary': (out.splitlines() or [''])[0][:300], 'tier': tier}
        rows.append((n, c, meta['checks'][c]['caught'], meta['checks'][c]['violations']))
        print(n, c, 'CAUGHT' if meta['checks'][c]['caught'] else 'MISSED', meta['checks'][c]['violations'], flush=True)
    json.dump(meta, open(mp, 'w'), indent=1)
missed = [r for r in rows if not r[2]]
print('total', len(rows), 'missed', len(missed), missed)
