#!/bin/bash
# tools/seedcheck.sh <seed dir> <check id> [tier]   — applies the seeded change to /repo, runs the
# check, and undoes the change straight afterwards.
set -u
d=$(readlink -f "$1"); id=$2; tier=${3:-quick}
cd "$(dirname "$0")/.."
git -C /repo diff --quiet || { echo "/repo has uncommitted changes"; exit 2; }
git -C /repo apply $d/patch.diff || exit 2
trap 'git -C /repo checkout -- . ' EXIT
./check.sh $id $tier 2>&1 | grep -E "SUMMARY|key:|BROKEN|KNOWN" | cut -c1-260 | head -${LINES_MAX:-12}
