#!/bin/bash
# tools/seedcheck.sh <seed dir> <check id> [tier]
# Runs a check against a seeded change. Default: apply the patch to /repo itself
# (git -C /repo apply), run, and undo it straight afterwards (git -C /repo checkout -- .).
# With SEED_SCRATCH=1 a throw-away copy of /repo is patched instead and the check is built
# against it (VERIF_REPO), so that nothing else using /repo at the same time is disturbed.
set -u
d=$(readlink -f "$1"); id=$2; tier=${3:-quick}
cd "$(dirname "$0")/.."
if [ "${SEED_SCRATCH:-0}" = 1 ]; then
  sc=/tmp/sc-$$; rm -rf $sc; mkdir -p $sc; (cd /repo && git archive HEAD | tar -x -C $sc)
  trap 'rm -rf $sc' EXIT
  (cd $sc && patch -p1 -s < $d/patch.diff) || exit 2
  VERIF_REPO=$sc ./check.sh $id $tier 2>&1 | grep -E "SUMMARY|key:|BROKEN|KNOWN" | cut -c1-260 | head -${LINES_MAX:-12}
else
  git -C /repo diff --quiet || { echo "/repo has uncommitted changes"; exit 2; }
  git -C /repo apply $d/patch.diff || exit 2
  trap 'git -C /repo checkout -- . ' EXIT
  ./check.sh $id $tier 2>&1 | grep -E "SUMMARY|key:|BROKEN|KNOWN" | cut -c1-260 | head -${LINES_MAX:-12}
fi
