#!/usr/bin/env python3
"""tools/seedkeep.py <src dir> <name> <property> [check ids...]
Confirms a seeded change (tools/seedverify.sh), runs the given checks against it
(tools/seedcheck.sh, scratch mode unless SEED_INPLACE=1), and stores it as
/verif/seeded/<name>/ {patch.diff, demonstration, README.md, meta.json}."""
import sys, os, subprocess, json, shutil, re
src, name, prop = sys.argv[1], sys.argv[2], sys.argv[3]
checks = sys.argv[4:] or [prop]
root = os.path.dirname(os.path.dirname(os.path.abspath(__file__)))
dst = os.path.join(root, 'seeded', name)
os.makedirs(dst, exist_ok=True)
for f in os.listdir(src):
    p = os.path.join(src, f)
    if os.path.isdir(p):
        shutil.copytree(p, os.path.join(dst, f), dirs_exist_ok=True)
    else:
        shutil.copy(p, dst)
ver = subprocess.run([os.path.join(root, 'tools/seedverify.sh'), dst], capture_output=True, text=True).stdout
ok_without = 'demo WITHOUT patch\n   passes' in ver
ok_with = 'demo WITH patch\n   fails' in ver
suite_block = ver.split('== existing suite WITH patch')[1].split('(suite done')[0].strip() if '== existing suite WITH patch' in ver and '(suite done' in ver else 'n/a'
env = dict(os.environ)
if env.get('SEED_INPLACE') != '1':
    env['SEED_SCRATCH'] = '1'
env['LINES_MAX'] = '8'
results = {}
for c in checks:
    out = subprocess.run([os.path.join(root, 'tools/seedcheck.sh'), dst, c, env.get('SEED_TIER', 'quick')], capture_output=True, text=True, env=env).stdout
    m = re.search(r'violations=(\d+)', out)
    keys = re.findall(r'key: (.*)', out)
    results[c] = {'violations': int(m.group(1)) if m else None, 'caught': bool(m and int(m.group(1)) > 0), 'first_keys': keys[:5], 'summary': (out.splitlines() or [''])[0][:300]}
readme = ''
if os.path.exists(os.path.join(dst, 'README.md')):
    readme = open(os.path.join(dst, 'README.md')).read()
meta = {
    'name': name, 'property': prop,
    'needs_to_manifest': os.environ.get('SEED_NEEDS', ''),
    'mechanism': os.environ.get('SEED_MECH', ''),
    'confirmed': {'demo_passes_without_change': ok_without, 'demo_fails_with_change': ok_with,
                  'existing_suite_with_change': 'passes' if suite_block == '' else suite_block[:500]},
    'ran': ['tools/seedverify.sh seeded/%s' % name] + ['tools/seedcheck.sh seeded/%s %s %s' % (name, c, env.get('SEED_TIER', 'quick')) for c in checks],
    'checks': results,
}
json.dump(meta, open(os.path.join(dst, 'meta.json'), 'w'), indent=1)
print(name, 'demo without:', 'pass' if ok_without else 'FAIL', '| with:', 'fail' if ok_with else 'PASSES', '| suite:', 'passes' if suite_block == '' else 'FAILS', '|',
      ' '.join('%s:%s' % (c, 'CAUGHT(%s)' % r['violations'] if r['caught'] else 'MISSED') for c, r in results.items()))
