#!/usr/bin/env python3
"""tools/seedtable.py — prints the DESIGN.md section 10 table from seeded/*/meta.json and, with
--write, replaces the block between the SEEDTABLE markers in DESIGN.md."""
import os, sys, json
root = os.path.dirname(os.path.dirname(os.path.abspath(__file__)))
rows = []
for n in sorted(os.listdir(os.path.join(root, 'seeded'))):
    mp = os.path.join(root, 'seeded', n, 'meta.json')
    if not os.path.exists(mp):
        continue
    m = json.load(open(mp))
    caught = []
    for c, r in sorted(m['checks'].items()):
        if r.get('caught'):
            k = (r.get('first_keys') or ['?'])[0]
            if len(k) > 70:
                k = k[:67] + '…'
            caught.append('%s (`%s`)' % (c, k))
        else:
            caught.append('%s: **missed**' % c)
    note = m.get('history', '')
    rows.append('| %s | %s | %s | %s |%s' % (n, m.get('mechanism', '').replace('|', '\\|'), m.get('needs_to_manifest', '').replace('|', '\\|'),
                                            '; '.join(caught), (' ' + note + ' |') if note else ''))
head = '| seeded change | mechanism | needs, to manifest | caught by (first key) |\n|---|---|---|---|\n'
table = head + '\n'.join(rows) + '\n'
if '--write' in sys.argv:
    p = os.path.join(root, 'DESIGN.md')
    s = open(p).read()
    a, b = '<!-- SEEDTABLE BEGIN -->', '<!-- SEEDTABLE END -->'
    if a in s:
        s = s[:s.index(a) + len(a)] + '\n' + table + s[s.index(b):]
        open(p, 'w').write(s)
        print('DESIGN.md updated with', len(rows), 'rows')
else:
    print(table)
