#!/bin/bash
# tools/benignmatrix.sh [names...] — runs every stored behaviour-preserving patch (benign/<name>/)
# against the quick checks of the properties its files can influence; any line other than
# "done ..." is a false alarm of the machinery. The check list per patch comes from the files
# the patch touches.
cd "$(dirname "$0")/.."
names="$*"; [ -n "$names" ] || names=$(ls benign)
for n in $names; do
  d=benign/$n; [ -f $d/patch.diff ] || continue
  files=$(grep '^+++ b/' $d/patch.diff | sed 's|^+++ b/||')
  ids=""
  for f in $files; do
    case "$f" in
      osmpbf/*) ids="$ids C01 C02 C06 C07 C08 C09" ;;
      osmxml/*) ids="$ids C03 C04 C07" ;;
      annotate/*) ids="$ids C11 C12 C13 C14 C16" ;;
      osmgeojson/*|internal/mputil/*) ids="$ids C16 C17" ;;
      replication/*) ids="$ids C19" ;;
      osmapi/*) ids="$ids C20" ;;
      polygon.go) ids="$ids C18 C17 C16" ;;
      update.go) ids="$ids C15 C11 C12 C03 C04" ;;
      element.go|object.go|feature.go) ids="$ids C10 C11 C13 C14" ;;
      way.go|relation.go|node.go) ids="$ids C03 C04 C05 C15 C11 C12 C16 C17" ;;
      *.go) ids="$ids C03 C04 C05 C13" ;;
    esac
  done
  ids=$(echo $ids | tr ' ' '\n' | sort -u | tr '\n' ' ')
  echo "== $n: $ids"
  tools/benigncheck.sh $d $ids
done
echo ALLDONE
