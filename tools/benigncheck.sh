#!/bin/bash
# tools/benigncheck.sh <dir with patch.diff> [check ids...]   — runs checks (default: all in
# MANIFEST.json) against a throw-away copy of /repo with a behaviour-preserving patch applied;
# any VIOLATION here is a false alarm of the machinery.
set -u
d=$(readlink -f "$1"); shift
cd "$(dirname "$0")/.."
ids="$*"; [ -n "$ids" ] || ids=$(python3 -c "import json;print(' '.join(x['property_id'] for x in json.load(open('MANIFEST.json'))['checks']))")
sc=/tmp/bc-$$; rm -rf $sc; mkdir -p $sc; (cd /repo && git archive HEAD | tar -x -C $sc)
trap 'rm -rf $sc' EXIT
(cd $sc && patch -p1 -s < $d/patch.diff) || { echo "patch failed"; exit 2; }
for id in $ids; do
  VERIF_REPO=$sc ./check.sh $id quick 2>&1 | grep -E "^SUMMARY|key:|what:|BROKEN" | sed -E 's/^SUMMARY property=(C[0-9]+).*violations=([0-9]+) known=[0-9]+ inconclusive=([0-9]+) crashes=([0-9]+) hangs=([0-9]+) races=([0-9]+).*/\1 violations=\2 inconclusive=\3 crashes=\4 hangs=\5 races=\6/' | cut -c1-300 | grep -v " violations=0 inconclusive=0 crashes=0 hangs=0 races=0"
done
echo "done $(basename $(dirname $d))/$(basename $d)"
