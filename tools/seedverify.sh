#!/bin/bash
# tools/seedverify.sh <seed dir>   (dir holds patch.diff and the demo test file(s))
# Confirms, in a throw-away worktree of /repo, that (1) the patch applies and builds, (2) the
# repository's own suite (the 406 stable tests: everything outside osmpbf) still passes with
# it, (3) the demonstration fails with the patch and passes without it.
set -u
d=$(readlink -f "$1"); wt=/tmp/sv-$$
export GOFLAGS=-mod=mod GOPROXY=off GOSUMDB=off GOTOOLCHAIN=local
git -C /repo worktree add -q --detach $wt HEAD || exit 2
trap 'git -C /repo worktree remove --force $wt' EXIT
cd $wt
demo_pkgs=""
for f in $d/*_test.go $d/_*/*_test.go; do
  [ -e "$f" ] || continue
  pkg=$(grep -m1 '^package ' $f | awk '{print $2}')
  dest=$(cat $d/demo_dir 2>/dev/null || true)
  if [ -z "$dest" ]; then
    case "$pkg" in
      osm|osm_test) dest=. ;;
      *) dest=$(find . -type d -name "${pkg%_test}" | grep -v internal/osmpbf | head -1) ;;
    esac
  fi
  cp $f $dest/; demo_pkgs="$demo_pkgs ./$dest"
done
demo_pkgs=$(echo $demo_pkgs | tr ' ' '\n' | sort -u | tr '\n' ' ')
run_demo() { # returns 0 if demo passes
  if [ -d $d/demo ]; then mkdir -p _seeddemo && cp -r $d/demo/* _seeddemo/ && go run ./_seeddemo >/tmp/sv-demo.$$ 2>&1; r=$?; rm -rf _seeddemo; return $r; fi
  go test -vet=off -count=1 -run 'Seed|seed|Demo|demo' $demo_pkgs >/tmp/sv-demo.$$ 2>&1
}
echo "== demo WITHOUT patch"; if run_demo; then echo "   passes (expected)"; else echo "   FAILS (unexpected)"; tail -5 /tmp/sv-demo.$$; fi
git apply $d/patch.diff || { echo "patch does not apply"; exit 1; }
go build ./... || { echo "does not build"; exit 1; }
echo "== existing suite WITH patch"; go test -vet=off -count=1 -skip '(?i)seed|demo' $(go list ./... | grep -v '/osmpbf$') 2>&1 | grep -v "^ok\|no test files" | head -10; echo "   (suite done; lines above, if any, are failures)"; go test -vet=off -count=1 -run XXX ./osmpbf/ >/dev/null 2>&1 || echo "osmpbf does not compile"
echo "== demo WITH patch"; if run_demo; then
  # some changes are pure data races: the demonstration only fails under the race detector
  if go test -race -vet=off -count=1 -run 'Seed|seed|Demo|demo' $demo_pkgs >/tmp/sv-demo.$$ 2>&1; then echo "   PASSES (unexpected: change not demonstrated)"; else echo "   fails (expected) under -race only"; grep -m2 -E "DATA RACE|FAIL" /tmp/sv-demo.$$ | cut -c1-200; fi
else echo "   fails (expected)"; grep -m3 -E "^\s+\S+_test.go|FAIL|panic" /tmp/sv-demo.$$ | cut -c1-200; fi
rm -f /tmp/sv-demo.$$
