package props

import (
	"context"
	"errors"
	"fmt"
	"math"
	"math/bits"
	"net/http"
	"net/url"
	"os"
	"sort"
	"strconv"
	"strings"
	"time"

	"github.com/paulmach/osm"
	"github.com/paulmach/osm/replication"

	"verif/internal/fw"
	"verif/internal/gen"
	"verif/internal/srv"
)

// C19 — replication state lookup by time terminates with the first state at or after t.
//
// Monitor shape: a fake planet server (internal/srv) serves a replication directory whose
// content the check knows exactly (present set S, strictly increasing timestamps, current =
// max S). The library's Datasource is pointed at it through BaseURL/Client; the oracle looks
// at (a) the returned sequence number and state, (b) the requests the server received
// (paths, count against a logical budget). The expected answer comes from a reference
// written from the property statement: the smallest n in S with T_n >= t, else max S.

// ---------------------------------------------------------------------------------------
// directory model

type c19Dir struct {
	stream  string
	tsid    uint64 // 0 = regular timestamps (a function of stream and n only)
	step    int64  // seconds between consecutive sequence numbers (before jitter)
	present []uint64
	min     uint64 // lowest sequence number the stream can have (1)
	prefix  string
	altFmt  bool // changeset files: vary Z / +00:00 and same-number state files
	// secs, when set, gives T_n = base + secs[n-1] seconds for n = 1..len(secs) (skewed
	// timestamp assignments of large directories); missing marks the absent files.
	secs    []int64
	missing map[uint64]bool
	gzip    bool // the server applies Content-Encoding: gzip to state files when asked
}

func c19Mix(a, b uint64) uint64 {
	z := a ^ (b+0x9E3779B97F4A7C15)*0xBF58476D1CE4E5B9
	z = (z ^ (z >> 30)) * 0xBF58476D1CE4E5B9
	z = (z ^ (z >> 27)) * 0x94D049BB133111EB
	return z ^ (z >> 31)
}

var c19Base = map[string]time.Time{
	srv.Minute:     time.Date(2012, 9, 12, 8, 15, 45, 0, time.UTC),
	srv.Hour:       time.Date(2013, 7, 14, 12, 0, 0, 0, time.UTC),
	srv.Day:        time.Date(2012, 9, 13, 0, 0, 0, 0, time.UTC),
	srv.Changesets: time.Date(2016, 9, 7, 10, 45, 2, 0, time.UTC),
}

func c19RegularStep(stream string) int64 {
	switch stream {
	case srv.Hour:
		return 3600
	case srv.Day:
		return 86400
	case srv.Changesets:
		return 61
	}
	return 60
}

// timeOf gives T_n: strictly increasing in n with gaps of at least 2 s. Interval streams have
// whole seconds (their state files cannot carry more), the changeset stream nanoseconds.
func (d *c19Dir) timeOf(n uint64) time.Time {
	base := c19Base[d.stream]
	if d.secs != nil {
		if n < 1 || n > uint64(len(d.secs)) {
			return time.Time{}
		}
		t := base.Add(time.Duration(d.secs[n-1]) * time.Second)
		if d.stream == srv.Changesets {
			t = t.Add(time.Duration(c19Mix(d.tsid, n) % 1_000_000_000))
		}
		return t
	}
	var jit, nanos int64
	if d.tsid != 0 {
		base = base.Add(time.Duration(d.tsid%2500) * 24 * time.Hour).Add(time.Duration(d.tsid>>12%86400) * time.Second)
		if d.step > 3 {
			jit = int64(c19Mix(d.tsid, n) % uint64(d.step-2))
		}
		nanos = int64(c19Mix(d.tsid^0xabcdef, n) % 1_000_000_000)
		switch c19Mix(d.tsid, n^0x55) % 8 {
		case 0:
			nanos = 0
		case 1:
			nanos = 999_999_999
		case 2:
			nanos = nanos / 1_000_000 * 1_000_000
		}
	} else {
		nanos = int64(n * 123_456_789 % 1_000_000_000)
	}
	if d.stream != srv.Changesets {
		nanos = 0
	}
	return base.Add(time.Duration(int64(n)*d.step+jit) * time.Second).Add(time.Duration(nanos))
}

func (d *c19Dir) current() uint64 { return d.present[len(d.present)-1] }

func (d *c19Dir) stateFile(n uint64) srv.StateFile {
	sf := srv.StateFile{Time: d.timeOf(n)}
	switch d.stream {
	case srv.Minute:
		// realistic magnitudes: 2016 values, values crossing 2^31 (the planet since about
		// 2019) and 2^32 inside the directory, and today's (~6e9)
		sf.Txn = true
		base := int64(1<<31 - 50)
		if d.tsid != 0 {
			base = []int64{836_000_000, 1<<31 - 300, 1<<32 - 900, 6_100_000_000}[d.tsid>>7%4]
		}
		sf.TxnMax = base + int64(n%5000)*13
		sf.TxnMaxQueried = sf.TxnMax - int64(n%3)
		// size and key order of the file: the only unbounded line is txnActiveList (the
		// transactions open when the file was written); with ~90 ids the file passes 1 KiB.
		h := c19Mix(d.tsid+5, n)
		active, ready := 0, 0
		if d.tsid == 0 { // enumerated directories: a function of n alone
			sf.Order = []int{1, 0, 2}[n%3]
			active = []int{0, 1, 40, 120}[n%4]
			if n == 5 {
				active, ready = 700, 3
			}
		} else {
			sf.Order = int(h >> 16 % 7) // 0..2 fixed orders, 3..6 permutations
			switch c := h % 32; {
			case c < 8:
			case c < 16:
				active = 1
			case c < 22:
				active, ready = 3, 1
			case c < 27:
				active = 40
			case c < 30:
				active, ready = 120, 2
			case c < 31:
				active, ready = 700, 40
			default:
				active = 300
				if h>>8%8 == 0 {
					active = 5800 // about 64 KiB
				}
			}
			switch h >> 24 % 8 {
			case 0:
				sf.Extra = []string{"#written by osmosis", "osmosisVersion=0.48.3"}
			case 1:
				sf.Extra = []string{"", "replicationLag=0"}
			}
		}
		for j := int64(active); j > 0; j-- {
			sf.TxnActive = append(sf.TxnActive, sf.TxnMax-j*17-1)
		}
		for j := int64(ready); j > 0; j-- {
			sf.TxnReady = append(sf.TxnReady, sf.TxnMax-j*17)
		}
	case srv.Hour, srv.Day:
		if d.tsid != 0 {
			h := c19Mix(d.tsid+5, n)
			sf.Order = int(h >> 16 % 4)
			if h>>24%8 == 0 {
				sf.Extra = []string{"#merged", "unknownKey=1"}
			}
		}
	case srv.Changesets:
		sf.Format = srv.FmtYamlZ
		if n%2 == 1 {
			sf.Format = srv.FmtYamlOff
		}
		if d.altFmt {
			h := c19Mix(d.tsid+77, n)
			if h%2 == 0 {
				sf.Format = srv.FmtYamlZ
			} else {
				sf.Format = srv.FmtYamlOff
			}
			sf.YamlSeqSame = h%5 == 0
		}
	}
	return sf
}

func (d *c19Dir) serverDir() *srv.Dir {
	if d.secs != nil {
		return &srv.Dir{Stream: d.stream, Current: d.current(), GzipText: d.gzip, Lookup: func(n uint64) (srv.StateFile, bool) {
			if n < 1 || n > uint64(len(d.secs)) || d.missing[n] {
				return srv.StateFile{}, false
			}
			return d.stateFile(n), true
		}}
	}
	sd := &srv.Dir{Stream: d.stream, States: make(map[uint64]srv.StateFile, len(d.present)), Current: d.current(), GzipText: d.gzip}
	for _, n := range d.present {
		sd.States[n] = d.stateFile(n)
	}
	return sd
}

// c19SetString renders a present set compactly and exactly: 1-10,20-40.
func c19SetString(s []uint64) string {
	var b strings.Builder
	for i := 0; i < len(s); {
		j := i
		for j+1 < len(s) && s[j+1] == s[j]+1 {
			j++
		}
		if b.Len() > 0 {
			b.WriteByte(',')
		}
		if j > i {
			fmt.Fprintf(&b, "%d-%d", s[i], s[j])
		} else {
			fmt.Fprintf(&b, "%d", s[i])
		}
		i = j + 1
	}
	return b.String()
}

// queryTime maps a query position to an instant. Positions over the k present states:
// 0 before the first, 2i+1 exactly at state i, 2i+2 strictly between state i and i+1
// (i < k-1), 2k after the last. v selects where in a gap (just after, middle, just before).
func (d *c19Dir) queryTime(q int, v int) time.Time {
	k := len(d.present)
	switch {
	case q == 0:
		return d.timeOf(d.present[0]).Add(-time.Duration(1+v*1800) * time.Second)
	case q == 2*k:
		return d.timeOf(d.present[k-1]).Add(time.Duration(1+v*1800)*time.Second + time.Duration(v))
	case q%2 == 1:
		return d.timeOf(d.present[q/2])
	}
	a, b := d.timeOf(d.present[q/2-1]), d.timeOf(d.present[q/2])
	switch v {
	case 0:
		return a.Add(time.Nanosecond)
	case 1:
		return a.Add(b.Sub(a) / 2)
	}
	return b.Add(-time.Nanosecond)
}

func c19PosClass(q, k int) string {
	switch {
	case q == 0:
		return "before"
	case q == 2*k:
		return "after"
	case q == 1:
		return "at-first"
	case q == 2*k-1:
		return "at-last"
	case q%2 == 1:
		return "at"
	}
	return "between"
}

// c19Expected is the reference: the smallest present n with T_n >= t, else the newest.
func (d *c19Dir) expected(t time.Time) uint64 {
	if d.secs != nil { // large directory: timestamps increase, so bisect the present list
		i := sort.Search(len(d.present), func(i int) bool { return !d.timeOf(d.present[i]).Before(t) })
		if i < len(d.present) {
			return d.present[i]
		}
		return d.current()
	}
	for _, n := range d.present {
		if !d.timeOf(n).Before(t) {
			return n
		}
	}
	return d.current()
}

func c19Log2Ceil(n uint64) int {
	if n <= 1 {
		return 0
	}
	return bits.Len64(n - 1)
}

// budget is the logical request budget of one lookup:
// (ceil(log2 range) + 2) * (missing + 4), range = min..current, missing = the absent state
// files of the range. For directories with a long missing prefix (offset cases, windowed)
// and a query later than the first present state the prefix cannot have to be stepped over
// file by file; it then counts with ceil(log2 range) files (one per halving of a bound
// search) instead of its full length, so that a non-terminating search is still cut short.
func (d *c19Dir) budget(t time.Time, windowed bool) (budget, rng, missing int) {
	cur := d.current()
	rng = int(cur - d.min + 1)
	l := c19Log2Ceil(uint64(rng))
	missing = rng - len(d.present)
	if windowed && d.timeOf(d.present[0]).Before(t) {
		if m := int(cur-d.present[0]+1) - len(d.present) + l; m < missing {
			missing = m
		}
	}
	return (l + 2) * (missing + 4), rng, missing
}

// ---------------------------------------------------------------------------------------
// the fake server of this process and the library calls

var (
	c19Planet *srv.Planet // cases run one after the other in a process
)

func c19Server() *srv.Planet {
	if c19Planet == nil {
		c19Planet = srv.NewPlanet()
	}
	return c19Planet
}

var c19DsCount int

// c19Datasource makes a Datasource for the loaded directory, alternately as a struct literal
// and through the constructor; the client stamps and tracks what it hands to the library.
func c19StopServer() {
	if c19Planet != nil {
		c19Planet.Close()
		c19Planet = nil
	}
}

func c19Datasource(p *srv.Planet) *replication.Datasource {
	c19DsCount++
	if c19DsCount%2 == 0 {
		ds := replication.NewDatasource(p.Client())
		ds.BaseURL = p.BaseURL()
		return ds
	}
	return &replication.Datasource{BaseURL: p.BaseURL(), Client: p.Client()}
}

// c19Sess changes how c19Lookup talks to the library for the kinds that need it: one
// Datasource reused over a directory that advances (Swap inside one epoch instead of Load),
// or a connection-limited client with a watchdog deadline.
type c19Sess struct {
	ds       *replication.Datasource
	client   *http.Client
	deadline time.Duration
	conns    int
	hung     bool
}

var c19Session *c19Sess

// c19Panic turns a panic of the library on the calling goroutine into an error, so that the
// lookup it happened in is reported and the rest of the case still runs.
type c19Panic struct{ v any }

func (e c19Panic) Error() string { return fmt.Sprintf("panic in the library: %v", e.v) }

func c19StateAt(ds *replication.Datasource, stream string, t time.Time) (rn uint64, rs *replication.State, rerr error) {
	defer func() {
		if x := recover(); x != nil {
			rn, rs, rerr = 0, nil, c19Panic{x}
		}
	}()
	ctx := context.Background()
	if c19Session != nil && c19Session.deadline > 0 {
		var cancel context.CancelFunc
		ctx, cancel = context.WithTimeout(ctx, c19Session.deadline)
		defer cancel()
	}
	switch stream {
	case srv.Minute:
		n, s, err := ds.MinuteStateAt(ctx, t)
		return uint64(n), s, err
	case srv.Hour:
		n, s, err := ds.HourStateAt(ctx, t)
		return uint64(n), s, err
	case srv.Day:
		n, s, err := ds.DayStateAt(ctx, t)
		return uint64(n), s, err
	}
	n, s, err := ds.ChangesetStateAt(ctx, t)
	return uint64(n), s, err
}

func c19State(ds *replication.Datasource, stream string, n uint64) (rs *replication.State, rerr error) {
	defer func() {
		if x := recover(); x != nil {
			rs, rerr = nil, c19Panic{x}
		}
	}()
	ctx := context.Background()
	switch stream {
	case srv.Minute:
		return ds.MinuteState(ctx, replication.MinuteSeqNum(n))
	case srv.Hour:
		return ds.HourState(ctx, replication.HourSeqNum(n))
	case srv.Day:
		return ds.DayState(ctx, replication.DaySeqNum(n))
	}
	return ds.ChangesetState(ctx, replication.ChangesetSeqNum(n))
}

func c19CurrentState(ds *replication.Datasource, stream string) (rn uint64, rs *replication.State, rerr error) {
	defer func() {
		if x := recover(); x != nil {
			rn, rs, rerr = 0, nil, c19Panic{x}
		}
	}()
	ctx := context.Background()
	switch stream {
	case srv.Minute:
		n, s, err := ds.CurrentMinuteState(ctx)
		return uint64(n), s, err
	case srv.Hour:
		n, s, err := ds.CurrentHourState(ctx)
		return uint64(n), s, err
	case srv.Day:
		n, s, err := ds.CurrentDayState(ctx)
		return uint64(n), s, err
	}
	n, s, err := ds.CurrentChangesetState(ctx)
	return uint64(n), s, err
}

var c19KeyLog = os.Getenv("VERIF_C19_KEYLOG") // development aid: append every violation key to this file

func c19Violate(res *fw.Result, key, what string, detail any) {
	key += c19TZ // the process zone is part of the input
	res.Violate(key, what, detail)
	if c19KeyLog != "" {
		if f, err := os.OpenFile(c19KeyLog, os.O_APPEND|os.O_CREATE|os.O_WRONLY, 0o644); err == nil {
			f.WriteString(key + "\n")
			f.Close()
		}
	}
}

// c19CheckState compares a returned state with the file the server holds.
func c19CheckState(d *c19Dir, n uint64, st *replication.State) string {
	if st == nil {
		return "nil state"
	}
	if st.SeqNum != n {
		return fmt.Sprintf("state.SeqNum=%d, want %d", st.SeqNum, n)
	}
	sf := d.stateFile(n)
	if !st.Timestamp.Equal(sf.Time) {
		return fmt.Sprintf("state.Timestamp=%s, file of %d says %s", st.Timestamp.UTC().Format(time.RFC3339Nano), n, sf.Time.Format(time.RFC3339Nano))
	}
	if d.stream == srv.Minute && (int64(st.TxnMax) != sf.TxnMax || int64(st.TxnMaxQueried) != sf.TxnMaxQueried) {
		return fmt.Sprintf("txnMax/txnMaxQueried=%d/%d, file says %d/%d", st.TxnMax, st.TxnMaxQueried, sf.TxnMax, sf.TxnMaxQueried)
	}
	return ""
}

// c19TransportError reports an error raised by the HTTP client while performing a request
// (connection trouble, a cancellation), as opposed to a status code, a URL that does not
// parse or a state file that does not decode.
func c19TransportError(err error) bool {
	var ue *url.Error
	return err != nil && errors.As(err, &ue) && ue.Op != "parse"
}

type c19LookupObs struct {
	Stream   string    `json:"stream"`
	Present  string    `json:"present"`
	Query    string    `json:"query_time"`
	Position string    `json:"position"`
	Expected uint64    `json:"expected"`
	Got      uint64    `json:"got"`
	Err      string    `json:"err,omitempty"`
	Requests int       `json:"requests"`
	Budget   int       `json:"budget"`
	Log      []srv.Req `json:"log,omitempty"`
}

// c19PastExtremes / c19FutureExtremes are query instants far outside the time any state was
// written at: "before all" and "after all" must hold for them as for any other instant. They
// include the edges of the int64 nanosecond range (1677-09-21T00:12:43.145224192Z …
// 2262-04-11T23:47:16.854775807Z), the zero time.Time and seconds ±2^40 from the epoch.
var c19PastExtremes = []struct {
	name string
	t    time.Time
}{
	{"zero", time.Time{}},
	{"y1000", time.Date(1000, 6, 15, 12, 0, 0, 0, time.UTC)},
	{"y1500", time.Date(1500, 1, 1, 0, 0, 0, 1, time.UTC)},
	{"y1677-below-int64ns", time.Date(1677, 9, 21, 0, 12, 43, 0, time.UTC)},
	{"y1677-above-int64ns", time.Date(1677, 9, 21, 0, 12, 44, 0, time.UTC)},
	{"y1678", time.Date(1678, 1, 1, 0, 0, 0, 0, time.UTC)},
	{"unix-2^40", time.Unix(-1<<40, 0).UTC()},
}

var c19FutureExtremes = []struct {
	name string
	t    time.Time
}{
	{"y2262-below-int64ns", time.Date(2262, 4, 11, 23, 47, 16, 0, time.UTC)},
	{"y2262-above-int64ns", time.Date(2262, 4, 11, 23, 47, 17, 0, time.UTC)},
	{"y2263", time.Date(2263, 1, 1, 0, 0, 0, 0, time.UTC)},
	{"y2300", time.Date(2300, 2, 28, 12, 0, 0, 0, time.UTC)},
	{"y3000", time.Date(3000, 1, 1, 0, 0, 0, 0, time.UTC)},
	{"y9999", time.Date(9999, 12, 31, 23, 59, 59, 999999999, time.UTC)},
	{"unix+2^40", time.Unix(1<<40, 0).UTC()},
}

const c19NExt = 7 // len of both lists

// c19RandV draws the variant of a query: place inside a gap (v%3), representation of the
// instant (v/3%6) and, for the positions before all / after all, in half of the cases one of
// the extreme instants (v/18, 0 = none).
func c19RandV(r *gen.R, q, k int) int {
	v := r.Intn(3) + 3*r.Intn(len(c19Reps))
	if (q == 0 || q == 2*k) && r.Chance(0.5) {
		v += 18 * (1 + r.Intn(c19NExt))
	}
	return v
}

// c19Reps are representations of one instant as a time.Time: the API takes a time.Time, and
// values that are Equal need not be == (location pointer, monotonic reading).
var c19Reps = []string{"utc", "unix", "+05:30", "-08:00", "local", "mono"}

func c19Rep(t time.Time, rep int) time.Time {
	var out time.Time
	switch c19Reps[rep%len(c19Reps)] {
	case "unix":
		out = time.Unix(t.Unix(), int64(t.Nanosecond())) // Local, even in a UTC zone
	case "+05:30":
		out = t.In(time.FixedZone("IST", 5*3600+1800))
	case "-08:00":
		out = t.In(time.FixedZone("", -8*3600))
	case "local":
		out = t.Local()
	case "mono": // derived from time.Now(): carries a monotonic clock reading
		now := time.Now()
		out = now.Add(t.Sub(now))
	default:
		return t
	}
	if !out.Equal(t) { // (duration overflow for instants centuries away)
		return t
	}
	return out
}

// c19Lookup runs one (S, t) input through the library and the oracle. inKey identifies the
// input; windowed selects the budget rule for offset directories.
func c19Lookup(res *fw.Result, p *srv.Planet, sd *srv.Dir, d *c19Dir, q, v int, inKey, sigPrefix string, windowed bool) *c19LookupObs {
	// v carries the place inside a gap (v%3) and the representation of the instant (v/3)
	rep := v / 3 % len(c19Reps)
	t := d.queryTime(q, v%3)
	extName := ""
	if ext := v / 18; ext > 0 && ext <= c19NExt {
		switch q {
		case 0:
			t, extName = c19PastExtremes[ext-1].t, c19PastExtremes[ext-1].name
		case 2 * len(d.present):
			t, extName = c19FutureExtremes[ext-1].t, c19FutureExtremes[ext-1].name
		}
	}
	tq := c19Rep(t, rep) // same instant, another time.Time value
	want := d.expected(t)
	budget, rng, missing := d.budget(t, windowed)
	run := func() (uint64, *replication.State, error) {
		if c19Session != nil && c19Session.ds != nil {
			p.Swap(sd, budget) // same epoch, same base URL, same Datasource
			return c19StateAt(c19Session.ds, d.stream, tq)
		}
		p.Load(sd, budget, d.prefix)
		if c19Session != nil && c19Session.client != nil {
			return c19StateAt(&replication.Datasource{BaseURL: p.BaseURL(), Client: c19Session.client}, d.stream, tq)
		}
		return c19StateAt(c19Datasource(p), d.stream, tq)
	}
	got, st, err := run()
	count, log, unexpected, perSeq := p.Observed()
	// A lookup that fails inside the HTTP client's transport (not with a status the server
	// sent) while the server stayed within the budget is run again, in a fresh epoch: net/http
	// can hand the cancellation error of an earlier, cancelled request to an unrelated later
	// request that was given the same connection. A failure that is the library's own doing
	// repeats; only one that persists is judged.
	for try := 0; try < 2 && c19TransportError(err) && !errors.Is(err, context.DeadlineExceeded) && count <= budget && len(unexpected) == 0; try++ {
		res.Add("lookups_repeated_after_transport_error", 1)
		got, st, err = run()
		count, log, unexpected, perSeq = p.Observed()
	}
	handed, closedBodies := p.Bodies()

	k := len(d.present)
	obs := &c19LookupObs{Stream: d.stream, Present: c19SetString(d.present), Query: tq.Format(time.RFC3339Nano) + " (" + c19Reps[rep] + ")",
		Position: fmt.Sprintf("q%d/%s", q, c19PosClass(q, k)), Expected: want, Got: got, Requests: count, Budget: budget}
	if err != nil {
		obs.Err = err.Error()
	}
	detail := func() any {
		o := *obs
		o.Log = log
		if len(o.Log) > 120 {
			o.Log = append(append([]srv.Req{}, log[:60]...), log[len(log)-60:]...)
		}
		return o
	}
	// every response body handed to the library must have been closed when the lookup
	// returns: an unclosed body keeps its connection checked out (net/http), so with any
	// connection-limited client the search stops making progress after a few missing files
	if handed != closedBodies {
		c19Violate(res, inKey+"/unclosed", fmt.Sprintf("%d of %d response bodies were not closed when the lookup returned (each keeps a connection); S={%s}", handed-closedBodies, handed, obs.Present), detail())
	}
	res.Add("response_bodies_tracked", handed)
	switch {
	case err != nil && errors.Is(err, context.DeadlineExceeded) && c19Session != nil && c19Session.deadline > 0:
		c19Session.hung = true
		if handed != closedBodies {
			c19Violate(res, inKey+"/hang", fmt.Sprintf("lookup did not terminate within %s (normally milliseconds) with a client limited to %d connections: %d requests seen, %d response bodies unclosed; S={%s} t=%s",
				c19Session.deadline, c19Session.conns, count, handed-closedBodies, obs.Present, obs.Query), detail())
		} else {
			res.Inconc("lookup hit the %s watchdog with every body closed (%d requests): %s", c19Session.deadline, count, inKey)
		}
	case len(unexpected) > 0:
		c19Violate(res, inKey+"/path", fmt.Sprintf("request outside the planet layout: %s", unexpected[0]), detail())
	case count > budget:
		c19Violate(res, inKey+"/budget", fmt.Sprintf("lookup used more than the budget of %d requests (range %d, %d missing): non-termination or linear scan; S={%s} t=%s ended with err=%v",
			budget, rng, missing, obs.Present, obs.Query, err), detail())
	case errors.As(err, new(c19Panic)):
		c19Violate(res, inKey+"/panic", fmt.Sprintf("%v; S={%s} t=%s", err, obs.Present, obs.Query), detail())
	case err != nil:
		c19Violate(res, inKey+"/error", fmt.Sprintf("lookup failed although every answer was 200 or 404: %v; S={%s} t=%s", err, obs.Present, obs.Query), detail())
	case got != want || st == nil || st.SeqNum != want:
		sn := uint64(0)
		if st != nil {
			sn = st.SeqNum
		}
		c19Violate(res, inKey+"/wrong", fmt.Sprintf("S={%s} t=%s (%s): returned %d (state.SeqNum %d), first state at or after t is %d",
			obs.Present, obs.Query, obs.Position, got, sn, want), detail())
	default:
		if why := c19CheckState(d, want, st); why != "" {
			c19Violate(res, inKey+"/state", fmt.Sprintf("right sequence number %d but wrong state: %s", want, why), detail())
		}
	}
	res.Event(int64(count))
	res.Add("requests_total", int64(count))
	res.Add("lookups", 1)
	res.SetMax("requests", int64(count))
	res.SetMax("budget_used_permille", int64(count*1000/budget))
	stepped := 0
	for n := range perSeq {
		if _, ok := sd.Get(n); !ok {
			stepped++
		}
	}
	res.SetMax("missing_files_probed", int64(stepped))
	minState, prefixOnly := "min-present", ""
	if d.present[0] != d.min {
		minState = "min-missing"
		prefixOnly = "/scattered-gaps"
		if int(d.current()-d.present[0]+1) == k {
			prefixOnly = "/prefix-gap-only"
		}
	}
	mc := missing
	if mc > 12 {
		mc = 12 + c19Log2Ceil(uint64(mc))
	}
	pos := c19PosClass(q, k)
	if extName != "" {
		pos += "!" + extName
	}
	if q%2 == 1 { // query equal to a state's time: the representation of the instant matters
		pos += "@" + c19Reps[rep]
	}
	res.Eval(fmt.Sprintf("%s/%s/r%d/m%d/%s/%s%s", sigPrefix, d.stream, c19Log2Ceil(uint64(rng)), mc, pos, minState, prefixOnly))
	return obs
}

// ---------------------------------------------------------------------------------------
// cases

var c19NMax = map[string]int{"quick": 9, "thorough": 11}

const c19EnumChunk = 128

func c19Cases(tier string, seed uint64) []fw.Case {
	var cs []fw.Case
	nmax := c19NMax[tier]
	if nmax == 0 {
		nmax = 9
	}
	// exhaustive part: independent of the seed
	for si := range srv.Streams {
		for n := 1; n <= nmax; n++ {
			total := 1 << uint(n-1)
			for lo := 0; lo < total; lo += c19EnumChunk {
				hi := lo + c19EnumChunk
				if hi > total {
					hi = total
				}
				cs = append(cs, fw.Case{Kind: "enum", P: map[string]int64{"stream": int64(si), "n": int64(n), "lo": int64(lo), "hi": int64(hi), "tz": int64((n + lo/c19EnumChunk + si) % len(c19Zones))}})
			}
		}
	}
	nRand, nOff, nFmt, nData := 64, 48, 8, 4
	if tier == "thorough" {
		nRand, nOff, nFmt, nData = 2400, 1200, 64, 32
	}
	for i := 0; i < nRand; i++ {
		cs = append(cs, fw.Case{Kind: "rand", Seed: gen.Sub(seed, "c19rand", i), P: map[string]int64{"stream": int64(i % 4), "tz": int64((i/4 + i/16) % len(c19Zones))}})
	}
	for i := 0; i < nOff; i++ {
		cs = append(cs, fw.Case{Kind: "offset", Seed: gen.Sub(seed, "c19off", i), P: map[string]int64{"stream": int64(i % 4), "tz": int64((i/4 + i/16) % len(c19Zones)), "site": int64(i / 4 % len(c19Sites))}})
	}
	nSkew := 32
	if tier == "thorough" {
		nSkew = 480
	}
	for i := 0; i < nSkew; i++ {
		cs = append(cs, fw.Case{Kind: "skew", Seed: gen.Sub(seed, "c19skew", i), P: map[string]int64{"stream": int64(i % 4), "tz": int64((i/4 + i/16) % len(c19Zones)), "profile": int64(i / 4 % len(c19SkewProfiles))}})
	}
	nGrow, nConn := 16, 8
	if tier == "thorough" {
		nGrow, nConn = 200, 48
	}
	for i := 0; i < nGrow; i++ {
		cs = append(cs, fw.Case{Kind: "grow", Seed: gen.Sub(seed, "c19grow", i), P: map[string]int64{"stream": int64(i % 4), "tz": int64((i/4 + i/16) % len(c19Zones))}})
	}
	for i := 0; i < nConn; i++ {
		cs = append(cs, fw.Case{Kind: "conn", Seed: gen.Sub(seed, "c19conn", i), P: map[string]int64{"stream": int64(i % 4), "tz": int64((i/4 + i/16) % len(c19Zones)), "conns": int64(1 + i/4%2)}})
	}
	for i := 0; i < nFmt; i++ {
		cs = append(cs, fw.Case{Kind: "format", Seed: gen.Sub(seed, "c19fmt", i), P: map[string]int64{"stream": int64(i % 4), "tz": int64((i/4 + i/16) % len(c19Zones))}})
	}
	for i := 0; i < nData; i++ {
		cs = append(cs, fw.Case{Kind: "data", Seed: gen.Sub(seed, "c19data", i), P: map[string]int64{"stream": int64(i % 4), "tz": int64((i/4 + i/16) % len(c19Zones))}})
	}
	return fw.Number(cs)
}

// c19Zones are process time zones (time.Local) a case can run under: what a state file says
// does not depend on where the process runs.
var c19Zones = []*time.Location{nil, time.FixedZone("IST", 5*3600+1800), time.FixedZone("EST", -5*3600), time.FixedZone("NZST", 12*3600)}

var c19TZ string // "/tz=<zone>" while a case runs with time.Local replaced

func c19Exec(c fw.Case) *fw.Result {
	res := fw.NewResult()
	if z := c19Zones[int(c.Int("tz"))%len(c19Zones)]; z != nil {
		// time.Local is read by every time.Now(), also on the goroutines of the fake server:
		// the server is shut down (Close waits for them) before the zone is switched and a
		// fresh one serves this case; the same on the way back. Nothing of the library runs
		// between lookups.
		c19StopServer()
		old := time.Local
		time.Local = z
		c19TZ = "/tz=" + z.String()
		defer func() {
			c19StopServer()
			time.Local = old
			c19TZ = ""
		}()
	}
	p := c19Server()
	res.Put("process_zones", time.Local.String())
	defer func() { res.Add("state_files_sent_gzip_encoded", p.TakeGzipped()) }()
	stream := srv.Streams[int(c.Int("stream"))%4]
	switch c.Kind {
	case "enum":
		c19ExecEnum(res, p, stream, int(c.Int("n")), int(c.Int("lo")), int(c.Int("hi")))
	case "rand":
		c19ExecRand(res, p, stream, c.Seed)
	case "offset":
		c19ExecOffset(res, p, stream, c.Seed, int(c.Int("site")))
	case "skew":
		c19ExecSkew(res, p, stream, c.Seed, int(c.Int("profile")))
	case "grow":
		c19ExecGrow(res, p, stream, c.Seed)
	case "conn":
		c19ExecConn(res, p, stream, c.Seed, int(c.Int("conns")))
	case "format":
		c19ExecFormat(res, p, stream, c.Seed)
	case "data":
		c19ExecData(res, p, stream, c.Seed)
	}
	// requests the server received after the lookup they belong to had returned (a client may
	// cancel a request in flight; its handler can still run later): observed, not judged
	res.Add("late_requests_of_finished_lookups", p.TakeLate())
	res.Add("lookups_repeated_after_transport_error", 0)
	return res
}

// enum: range 1..N, every subset of 1..N-1 present (N, the current state, always is), every
// query position. Nothing depends on the seed; the key names the input exactly.
func c19ExecEnum(res *fw.Result, p *srv.Planet, stream string, n, lo, hi int) {
	var first *c19LookupObs
	for mask := lo; mask < hi; mask++ {
		d := &c19Dir{stream: stream, step: c19RegularStep(stream), min: 1, gzip: mask%3 == 1}
		for i := 1; i < n; i++ {
			if mask>>(uint(i-1))&1 == 1 {
				d.present = append(d.present, uint64(i))
			}
		}
		d.present = append(d.present, uint64(n))
		sd := d.serverDir()
		k := len(d.present)
		for q := 0; q <= 2*k; q++ {
			// a query equal to a state's time is made twice: as the UTC value and in one other
			// representation of the same instant; the other positions rotate through all of them
			reps := []int{(mask*5 + q) % len(c19Reps)}
			if q%2 == 1 {
				reps = []int{0, 1 + (mask+q)%(len(c19Reps)-1)}
			}
			var obs *c19LookupObs
			for _, rep := range reps {
				key := fmt.Sprintf("C19/lookup/stream=%s/N=%d/S=%s/t=q%d", stream, n, c19SetString(d.present), q)
				if rep != 0 {
					key += "@" + c19Reps[rep]
				}
				obs = c19Lookup(res, p, sd, d, q, (mask+q)%3+3*rep, key, "enum", false)
			}
			// before all / after all: also one of the extreme instants, rotating with the subset
			if q == 0 || q == 2*k {
				ext := 1 + (mask+n)%c19NExt
				name := c19PastExtremes[ext-1].name
				if q != 0 {
					name = c19FutureExtremes[ext-1].name
				}
				key := fmt.Sprintf("C19/lookup/stream=%s/N=%d/S=%s/t=q%d!%s", stream, n, c19SetString(d.present), q, name)
				c19Lookup(res, p, sd, d, q, 3*((mask+q)%len(c19Reps))+18*ext, key, "enum", false)
			}
			if first == nil && mask == lo+(hi-lo)/2 && q == k {
				first = obs
				_, first.Log, _, _ = p.Observed()
			}
		}
	}
	res.Add("enumerated_present_sets", int64(hi-lo))
	res.Sample = map[string]any{"stream": stream, "range": fmt.Sprintf("1..%d", n), "subset_masks": fmt.Sprintf("[%d,%d)", lo, hi), "one_lookup": first}
}

// c19Prefixes are base-URL path prefixes of mirrors: plain ones and hostile-but-valid ones
// with percent escapes (a space, a literal percent sign, an unnecessarily escaped letter, a
// proxied URL, UTF-8). Whatever the caller supplies as BaseURL has to arrive unharmed.
var c19Prefixes = []string{"/mirror", "/pub/osm/planet", "/a/b/c", "/pub/OpenStreetMap%20mirror", "/100%25/osm", "/m%41p",
	"/fetch/https%3A%2F%2Fplanet.osm.org", "/a%20b/c%2Bd/%E2%9C%93", "/~user/osm-mirror_v1.0/planet.osm.org", "/%64%73/x"}

// c19GapRuns knocks runs of state files out next to the probe sequence of a binary search
// between lo and hi that homes in on target, and next to the bounds and the target.
func c19GapRuns(r *gen.R, missing map[uint64]bool, lo, hi, target uint64) {
	var probes []uint64
	a, b := lo, hi
	for a+1 < b {
		m := (a + b) / 2
		probes = append(probes, m)
		if m < target {
			a = m
		} else {
			b = m
		}
	}
	// the bound search that starts at 1 and halves the distance to the upper bound
	for x := lo; x+1 < hi; x = (x + hi) / 2 {
		probes = append(probes, (x+hi)/2)
	}
	probes = append(probes, lo, lo+1, hi-1, target, target+1)
	if target > lo {
		probes = append(probes, target-1)
	}
	knock := func(from, to uint64) {
		for x := from; x <= to && x < hi; x++ {
			if x >= lo {
				missing[x] = true
			}
		}
	}
	nruns := r.Range(1, 5)
	for i := 0; i < nruns; i++ {
		m := probes[r.Intn(len(probes))]
		l := uint64(r.Pick(1, 1, 2, 3, 5, 8, 13, 21))
		switch r.Intn(5) {
		case 0: // run ending just below the probe (probe itself present)
			if m > l {
				knock(m-l, m-1)
			}
		case 1: // run starting just above the probe
			knock(m+1, m+l)
		case 2: // run covering the probe, extending downwards
			if m+1 > l {
				knock(m+1-l, m)
			}
		case 3: // run covering the probe, extending upwards
			knock(m, m+l-1)
		default: // run around the probe
			if m > l/2 {
				knock(m-l/2, m+l/2)
			}
		}
	}
}

func c19Positions(r *gen.R, k int, maxPos int) []int {
	all := 2*k + 1
	if all <= maxPos {
		out := make([]int, all)
		for i := range out {
			out[i] = i
		}
		return out
	}
	seen := map[int]bool{0: true, 1: true, 2: true, 2 * k: true, 2*k - 1: true, 2*k - 2: true}
	for len(seen) < maxPos {
		seen[r.Intn(all)] = true
	}
	var out []int
	for q := range seen {
		if q >= 0 && q < all {
			out = append(out, q)
		}
	}
	sort.Ints(out)
	return out
}

// rand: ranges 1..N for 12 <= N <= 400 with random density plus gap runs next to the probe
// sequence; the first state file present or missing.
func c19ExecRand(res *fw.Result, p *srv.Planet, stream string, seed uint64) {
	r := gen.New(seed, "c19rand")
	var sample any
	for di := 0; di < 6; di++ {
		n := uint64(r.Pick(12, 16, 17, 31, 32, 33, 40, 50, 64, 100, 127, 128, 129, 200, 257, 400))
		if r.Chance(0.5) {
			n = uint64(r.Range(12, 400))
		}
		d := &c19Dir{stream: stream, tsid: r.Uint64() | 1, step: 60, min: 1, altFmt: true}
		d.gzip = d.tsid>>21%3 == 0
		if r.Chance(0.3) {
			d.step = c19RegularStep(stream)
		}
		if r.Chance(0.3) {
			d.prefix = r.PickS(c19Prefixes...)
		}
		missing := map[uint64]bool{}
		density := []float64{0, 0, 0.02, 0.1, 0.3, 0.6, 0.9}[r.Intn(7)]
		for x := uint64(1); x < n; x++ {
			if r.Chance(density) {
				missing[x] = true
			}
		}
		target := uint64(r.Range(1, int(n)))
		for g := r.Range(1, 3); g > 0; g-- {
			c19GapRuns(r, missing, 1, n, target)
			target = uint64(r.Range(1, int(n)))
		}
		switch r.Intn(4) {
		case 0:
			missing[1] = true
		case 1:
			delete(missing, 1)
		case 2: // a missing prefix
			for x := uint64(1); x < uint64(r.Range(2, int(n)-1)); x++ {
				missing[x] = true
			}
		}
		for x := uint64(1); x <= n; x++ {
			if !missing[x] || x == n {
				d.present = append(d.present, x)
			}
		}
		sd := d.serverDir()
		k := len(d.present)
		for _, q := range c19Positions(r, k, 16) {
			v := c19RandV(r, q, k)
			key := fmt.Sprintf("C19/lookup/stream=%s/ts=%x/step=%d/S=%s/t=q%d.%d", stream, d.tsid, d.step, c19SetString(d.present), q, v)
			obs := c19Lookup(res, p, sd, d, q, v, key, "rand", false)
			if sample == nil && q > 2 {
				_, obs.Log, _, _ = p.Observed()
				if len(obs.Log) > 40 {
					obs.Log = obs.Log[:40]
				}
				sample = obs
			}
		}
	}
	res.Sample = sample
}

// c19Sites are the places where offset windows start: just below the first and second
// directory level boundaries, at the documented window of the task (1 999 990 …), at the
// first changeset state of the real planet, and in a high directory.
var c19Sites = []uint64{990, 1_990, 999_985, 1_999_990, 2_007_990, 123_456_780, 5_999_990, 990}

// offset: a window of 20..60 sequence numbers at a high offset, everything below missing
// (the shape of the real changeset stream and of pruned mirrors), gaps inside the window.
// Queries at or before the first present state are only made when the missing prefix is
// short (site 990/1990): an exact search is allowed by the property to step over every
// missing file below, which would be millions of requests per lookup.
func c19ExecOffset(res *fw.Result, p *srv.Planet, stream string, seed uint64, site int) {
	r := gen.New(seed, "c19off")
	var sample any
	start := c19Sites[site%len(c19Sites)]
	for di := 0; di < 4; di++ {
		w := uint64(r.Range(20, 60))
		lo := start + uint64(r.Intn(6))
		hi := lo + w
		d := &c19Dir{stream: stream, tsid: r.Uint64() | 1, step: 60, min: 1, altFmt: true}
		d.gzip = d.tsid>>21%3 == 0
		missing := map[uint64]bool{}
		if r.Chance(0.7) {
			density := []float64{0.05, 0.2, 0.5}[r.Intn(3)]
			for x := lo + 1; x < hi; x++ {
				if r.Chance(density) {
					missing[x] = true
				}
			}
		}
		if r.Chance(0.8) {
			c19GapRuns(r, missing, lo, hi, lo+uint64(r.Intn(int(w))))
		}
		delete(missing, lo) // the window starts with a present state
		for x := lo; x <= hi; x++ {
			if !missing[x] || x == hi {
				d.present = append(d.present, x)
			}
		}
		sd := d.serverDir()
		k := len(d.present)
		short := lo < 5000
		for _, q := range c19Positions(r, k, 14) {
			if q <= 1 && !short {
				continue
			}
			v := c19RandV(r, q, k)
			key := fmt.Sprintf("C19/lookup/stream=%s/ts=%x/step=%d/S=%s/t=q%d.%d", stream, d.tsid, d.step, c19SetString(d.present), q, v)
			obs := c19Lookup(res, p, sd, d, q, v, key, "offset", true)
			if sample == nil && q > 2 {
				_, obs.Log, _, _ = p.Observed()
				if len(obs.Log) > 60 {
					obs.Log = obs.Log[:60]
				}
				sample = obs
			}
		}
		res.Put("offset_sites", strconv.FormatUint(start, 10))
	}
	res.Sample = sample
}

// c19SkewProfiles are the skewed timestamp assignments of the large directories: the
// sequence numbers are dense (gap-free or nearly so) but wall-clock time is spread very
// unevenly over them, which is what defeats a search that guesses positions from timestamps.
var c19SkewProfiles = []string{"pause-newest", "pause-oldest", "slow-start", "exp-up", "exp-down", "two-clusters", "bursts", "steady"}

// c19SkewSecs gives the seconds since the stream's base for states 1..n. It depends only on
// its arguments, so (profile, n, pause, aux) names the timestamp assignment exactly.
func c19SkewSecs(profile string, n int, pause int64, aux uint64) []int64 {
	secs := make([]int64, n)
	for i := range secs {
		secs[i] = 60 * int64(i+1)
	}
	add := func(from int, by int64) { // shift states from index from on
		for i := from; i < n; i++ {
			secs[i] += by
		}
	}
	const k = 20.0
	switch profile {
	case "pause-newest": // replication stood still before the newest aux%3+1 states
		add(n-1-int(aux%3), pause)
	case "pause-oldest": // the first aux%3+1 states are much older than the rest
		add(1+int(aux%3), pause)
	case "slow-start": // the first states of a feed are far apart (cf. minute 1-3)
		add(1, pause)
		add(2, pause*3/4)
		add(3, pause/4)
	case "exp-up": // ever longer intervals
		for i := range secs {
			secs[i] = 2*int64(i+1) + int64(float64(pause)*math.Expm1(k*float64(i+1)/float64(n))/math.Expm1(k))
		}
	case "exp-down": // ever shorter intervals
		for i := range secs {
			secs[i] = 2*int64(i+1) + pause - int64(float64(pause)*math.Expm1(k*float64(n-1-i)/float64(n))/math.Expm1(k))
		}
	case "two-clusters": // two dense clusters far apart, split at 1/2, 1/10 or 9/10
		add(n*[]int{5, 1, 9}[aux%3]/10, pause)
	case "bursts": // bursts of states separated by pauses of varying length
		b := n / int(5+aux%36)
		for j := b; j < n; j += b {
			add(j, pause/int64(1+c19Mix(aux, uint64(j))%8)/8)
		}
	}
	return secs
}

// skew: large gap-free and sparse-gap ranges (1 000 … 100 000 states, the server computes
// the state files) with skewed timestamp assignments; queries in the dense parts, at both
// ends, and around and inside the pauses. The oracle is the usual one: exact answer and the
// request budget, which is logarithmic in the range however the timestamps are spread.
func c19ExecSkew(res *fw.Result, p *srv.Planet, stream string, seed uint64, pi int) {
	r := gen.New(seed, "c19skew")
	profile := c19SkewProfiles[pi%len(c19SkewProfiles)]
	var sample any
	for di := 0; di < 2; di++ {
		n := r.Pick(1000, 1024, 2000, 5000, 10_000, 30_000, 65_536, 100_000)
		if r.Chance(0.4) {
			n = r.Range(1000, 100_000)
		}
		pause := int64(r.Pick(30, 365, 3650)) * 86400
		aux := uint64(r.Intn(1000))
		d := &c19Dir{stream: stream, min: 1, step: 60, secs: c19SkewSecs(profile, n, pause, aux), missing: map[uint64]bool{}}
		d.tsid = c19Mix(uint64(n)<<20^uint64(pause), aux) | 1
		d.gzip = d.tsid>>21%3 == 0
		gapMode := r.Intn(5)
		switch gapMode {
		case 0: // scattered single files
			for g := r.Range(1, 20); g > 0; g-- {
				d.missing[uint64(r.Range(2, n-1))] = true
			}
		case 1: // runs next to the probes of a bisection
			c19GapRuns(r, d.missing, 2, uint64(n), uint64(r.Range(2, n)))
		case 2: // the first state and the first 1-3 probes of a bound search that halves the
			// distance from 1 to the newest state are missing, everything else is there
			x := uint64(1)
			for j := r.Range(1, 3); j >= 0; j-- {
				d.missing[x] = true
				x = (x + uint64(n)) / 2
			}
		}
		if gapMode != 2 {
			delete(d.missing, 1)
		}
		delete(d.missing, uint64(n))
		var miss []uint64
		for x := uint64(1); x <= uint64(n); x++ {
			if d.missing[x] {
				miss = append(miss, x)
			} else {
				d.present = append(d.present, x)
			}
		}
		sd := d.serverDir()
		kk := len(d.present)
		// where the time skew sits: the widest interval between neighbouring present states
		wide, wideAt := int64(0), 0
		for i := 1; i < kk; i++ {
			if g := d.secs[d.present[i]-1] - d.secs[d.present[i-1]-1]; g > wide {
				wide, wideAt = g, i
			}
		}
		idx := map[int]bool{}
		for _, i := range []int{0, 1, 2, 3, kk / 4, kk / 2, 3 * kk / 4, kk - 5, kk - 4, kk - 3, kk - 2, kk - 1,
			wideAt - 3, wideAt - 2, wideAt - 1, wideAt, wideAt + 1, r.Intn(kk), r.Intn(kk)} {
			if i >= 0 && i < kk {
				idx[i] = true
			}
		}
		qs := map[int]bool{0: true, 2 * kk: true}
		for i := range idx {
			if r.Chance(0.5) {
				qs[2*i+1] = true
			}
			if i+1 < kk {
				qs[2*i+2] = true
			}
		}
		var order []int
		for q := range qs {
			order = append(order, q)
		}
		sort.Ints(order)
		for _, q := range order {
			v := c19RandV(r, q, kk)
			key := fmt.Sprintf("C19/lookup/stream=%s/skew=%s/pause=%d/aux=%d/N=%d/missing=%s/t=q%d.%d", stream, profile, pause, aux, n, c19SetString(miss), q, v)
			obs := c19Lookup(res, p, sd, d, q, v, key, "skew-"+profile, false)
			obs.Present = fmt.Sprintf("1-%d without {%s}", n, c19SetString(miss))
			if sample == nil && q > 2*kk-8 {
				_, obs.Log, _, _ = p.Observed()
				if len(obs.Log) > 40 {
					obs.Log = obs.Log[:40]
				}
				sample = map[string]any{"profile": profile, "pause_s": pause, "aux": aux, "widest_interval_s": wide, "lookup": obs}
			}
		}
		res.Put("skew_profiles", profile)
		res.SetMax("skew_range", int64(n))
	}
	res.Sample = sample
}

// grow: one Datasource value is used for several lookups while the directory of the server
// advances between them, as it does on the live planet: states are appended (the current
// state file is rewritten), a former gap is filled. The base URL stays the same (one epoch,
// Swap). Every call has to answer from the directory as it is at the time of the call.
func c19ExecGrow(res *fw.Result, p *srv.Planet, stream string, seed uint64) {
	r := gen.New(seed, "c19grow")
	defer func() { c19Session = nil }()
	var sample any
	for di := 0; di < 3; di++ {
		n0 := uint64(r.Range(2, 60))
		tmpl := c19Dir{stream: stream, tsid: r.Uint64() | 1, step: 60, min: 1, altFmt: true}
		tmpl.gzip = tmpl.tsid>>21%3 == 0
		if r.Chance(0.3) {
			tmpl.prefix = r.PickS(c19Prefixes...)
		}
		missing := map[uint64]bool{}
		density := []float64{0, 0, 0.1, 0.3}[r.Intn(4)]
		for x := uint64(1); x < n0; x++ {
			if r.Chance(density) {
				missing[x] = true
			}
		}
		var gap uint64 // a gap that is filled later
		if n0 > 3 && r.Chance(0.6) {
			gap = uint64(r.Range(2, int(n0)-1))
			missing[gap] = true
		}
		top := n0
		ds := replication.NewDatasource(p.Client())
		if r.Chance(0.25) {
			ds = &replication.Datasource{Client: p.Client()}
		}
		p.Load(&srv.Dir{Stream: stream, States: map[uint64]srv.StateFile{}, Current: 1}, 1, tmpl.prefix)
		ds.BaseURL = p.BaseURL()
		c19Session = &c19Sess{ds: ds}
		hist := ""
		steps := r.Range(2, 4)
		for step := 0; step <= steps; step++ {
			var added []uint64
			if step > 0 {
				// the directory advances
				for a := r.Range(1, 5); a > 0; a-- {
					top++
					if a > 1 && r.Chance(0.2) {
						missing[top] = true
					} else {
						added = append(added, top)
					}
				}
				if gap != 0 && r.Chance(0.5) {
					delete(missing, gap)
					added = append(added, gap)
					gap = 0
				}
			}
			d := tmpl
			d.present = nil
			for x := uint64(1); x <= top; x++ {
				if !missing[x] || x == top {
					d.present = append(d.present, x)
				}
			}
			sd := d.serverDir()
			k := len(d.present)
			hist += "|" + c19SetString(d.present)
			// a direct look at the current state and at the new files between the searches
			if step > 0 && r.Chance(0.7) {
				p.Swap(sd, 8)
				cn, cst, cerr := c19CurrentState(ds, stream)
				_, log, _, _ := p.Observed()
				if cerr != nil || cn != d.current() || cst == nil || !cst.Timestamp.Equal(d.timeOf(d.current())) {
					c19Violate(res, fmt.Sprintf("C19/grow/stream=%s/ts=%x/hist=%s/current", stream, d.tsid, hist),
						fmt.Sprintf("after the directory advanced to {%s} the current state is reported as %d (%+v, err %v), the server says %d", c19SetString(d.present), cn, cst, cerr, d.current()), log)
				}
				res.Eval("grow/" + stream + "/current-between")
			}
			qs := map[int]bool{2 * k: true, 2*k - 1: true, r.Intn(2*k + 1): true, r.Intn(2*k + 1): true}
			if k > 1 {
				qs[2*k-2] = true
			}
			for _, a := range added { // queries at and just below the new files
				i := sort.Search(k, func(i int) bool { return d.present[i] >= a })
				qs[2*i+1] = true
				qs[2*i] = true
			}
			var order []int
			for q := range qs {
				if q >= 0 && q <= 2*k {
					order = append(order, q)
				}
			}
			sort.Ints(order)
			for _, q := range order {
				v := c19RandV(r, q, k)
				key := fmt.Sprintf("C19/lookup/stream=%s/ts=%x/step=%d/grow=%d/hist=%s/t=q%d.%d", stream, d.tsid, d.step, step, hist, q, v)
				obs := c19Lookup(res, p, sd, &d, q, v, key, fmt.Sprintf("grow%d", min(step, 2)), false)
				if sample == nil && step == 1 && q == 2*k {
					sample = map[string]any{"directories_so_far": hist, "added": added, "lookup": obs}
				}
			}
			res.Add("directory_advances", 1)
		}
		c19Session = nil
	}
	res.Sample = sample
}

// c19NotFoundPage is what a web server sends with a 404.
const c19NotFoundPage = "<html>\r\n<head><title>404 Not Found</title></head>\r\n<body>\r\n<center><h1>404 Not Found</h1></center>\r\n<hr><center>nginx/1.18.0 (Ubuntu)</center>\r\n</body>\r\n</html>\r\n"

// conn: the client given to the library may hold only one or two connections to the server,
// and the server sends an error page with its 404s (as real servers do). A response body that
// is not closed keeps its connection, so a search that leaks the bodies of the missing files it
// steps over stops making progress after one or two of them. The deciding observation is the
// deterministic one (bodies handed out vs closed at return); the context deadline, far above
// the milliseconds a lookup takes, only ends a lookup that is stuck.
func c19ExecConn(res *fw.Result, p *srv.Planet, stream string, seed uint64, conns int) {
	r := gen.New(seed, "c19conn")
	client := p.LimitedClient(conns)
	defer client.CloseIdleConnections()
	c19Session = &c19Sess{client: client, deadline: 15 * time.Second, conns: conns}
	defer func() { c19Session = nil }()
	var sample any
	for di := 0; di < 3 && !c19Session.hung; di++ {
		n := uint64(r.Range(20, 200))
		d := &c19Dir{stream: stream, tsid: r.Uint64() | 1, step: 60, min: 1, altFmt: true}
		d.gzip = d.tsid>>21%3 == 0
		missing := map[uint64]bool{}
		density := []float64{0, 0.05, 0.3}[r.Intn(3)]
		for x := uint64(1); x < n; x++ {
			if r.Chance(density) {
				missing[x] = true
			}
		}
		for g := r.Range(1, 3); g > 0; g-- {
			c19GapRuns(r, missing, 1, n, uint64(r.Range(1, int(n))))
		}
		if r.Chance(0.5) {
			delete(missing, 1)
		}
		for x := uint64(1); x <= n; x++ {
			if !missing[x] || x == n {
				d.present = append(d.present, x)
			}
		}
		sd := d.serverDir()
		sd.NotFoundBody = []byte(c19NotFoundPage)
		if r.Chance(0.3) {
			sd.NotFoundBody = []byte(strings.Repeat(c19NotFoundPage, 60)) // a 10 KiB error page
		}
		k := len(d.present)
		for _, q := range c19Positions(r, k, 10) {
			if c19Session.hung {
				break
			}
			v := c19RandV(r, q, k)
			key := fmt.Sprintf("C19/lookup/stream=%s/ts=%x/step=%d/conns=%d/S=%s/t=q%d.%d", stream, d.tsid, d.step, conns, c19SetString(d.present), q, v)
			obs := c19Lookup(res, p, sd, d, q, v, key, fmt.Sprintf("conn%d", conns), false)
			if sample == nil && obs.Requests > 6 {
				sample = map[string]any{"max_conns_per_host": conns, "not_found_body_bytes": len(sd.NotFoundBody), "lookup": obs}
			}
		}
	}
	res.Sample = sample
}

var c19EdgeTimes = []time.Time{
	time.Date(2016, 7, 16, 6, 14, 2, 0, time.UTC),
	time.Date(2016, 7, 2, 22, 46, 1, 422137422, time.UTC),
	time.Date(2016, 2, 29, 23, 59, 59, 999999999, time.UTC),
	time.Date(2012, 9, 12, 8, 15, 45, 1, time.UTC),
	time.Date(2019, 12, 31, 23, 59, 59, 0, time.UTC),
	time.Date(2020, 1, 1, 0, 0, 0, 0, time.UTC),
	time.Date(2021, 10, 10, 10, 10, 10, 100000000, time.UTC),
	time.Date(2024, 3, 31, 1, 30, 0, 120000, time.UTC),
	time.Date(2007, 1, 1, 0, 0, 0, 999000000, time.UTC),
	time.Date(1970, 1, 1, 0, 0, 0, 0, time.UTC),
	time.Date(1970, 1, 1, 0, 0, 1, 1, time.UTC),
	time.Date(2001, 9, 9, 1, 46, 40, 0, time.UTC),
	time.Date(2038, 1, 19, 3, 14, 7, 999999999, time.UTC),
	time.Date(2038, 1, 19, 3, 14, 8, 0, time.UTC),
	time.Date(2106, 2, 7, 6, 28, 16, 500, time.UTC),
	time.Date(2262, 4, 12, 0, 0, 0, 0, time.UTC), // beyond the int64 nanosecond range
	time.Date(2999, 12, 31, 23, 59, 59, 999999999, time.UTC),
	time.Date(9999, 12, 31, 23, 59, 59, 0, time.UTC),
}

// c19TxnMagnitudes are transaction ids a minute state file can carry: osmosis writes the
// 64-bit txid_current() (epoch included); the planet's values passed 2^31 about 2019.
var c19TxnMagnitudes = []int64{1, 836_439_235, 1<<31 - 1, 1 << 31, 1<<31 + 1, 3_000_000_000, 1<<32 - 1, 1 << 32, 1<<32 + 1, 6_123_456_789, 1 << 53, 1<<62 + 12345}

// format: single state files fetched through the public per-stream functions, each
// documented timestamp layout, edge instants; missing files must give NotFound errors.
func c19ExecFormat(res *fw.Result, p *srv.Planet, stream string, seed uint64) {
	r := gen.New(seed, "c19fmt")
	ds := c19Datasource(p)
	pf := ""
	load := func(sd *srv.Dir, budget int) {
		p.Load(sd, budget, pf)
		ds.BaseURL = p.BaseURL()
	}
	seqs := []uint64{1, 2, 9, 10, 99, 100, 999, 1000, 1001, 9999, 99_999, 999_999, 1_000_000, 1_000_001, 1_999_999, 2_000_000, 2_007_990, 2_008_004, 6_123_456, 10_000_000, 123_456_789, 999_999_999}
	for i := 0; i < 10; i++ {
		seqs = append(seqs, uint64(r.Int64Range(1, 999_999_999)))
	}
	// numbers the three-level path cannot carry are only served as the current state
	// (state.txt / state.yaml), whose path does not contain the number
	seqs = append(seqs, 1<<31-1, 1<<31, 1<<32-1, 1<<32, 1<<32+5, 1<<40, 1<<53+1, 1<<62)
	shift := int(seed % 11)
	checked := 0
	for i, n := range seqs {
		var tm time.Time
		curOnly := n >= 1_000_000_000
		pf = ""
		if i%3 == 1 { // a mirror below a (possibly percent-escaped) path
			pf = c19Prefixes[(i/3+shift)%len(c19Prefixes)]
		}
		if i < len(c19EdgeTimes) || curOnly {
			tm = c19EdgeTimes[(i+int(seed%7))%len(c19EdgeTimes)]
		} else {
			tm = time.Unix(r.Int64Range(1_100_000_000, 1_900_000_000), r.Int64Range(0, 999_999_999)).UTC()
		}
		if stream != srv.Changesets {
			tm = tm.Truncate(time.Second)
		}
		formats := []string{srv.FmtProps}
		if stream == srv.Changesets {
			formats = []string{srv.FmtYamlZ, srv.FmtYamlOff}
		}
		for _, f := range formats {
			for _, same := range []bool{false, true} {
				if same && stream != srv.Changesets {
					continue
				}
				sf := srv.StateFile{Time: tm, Format: f, YamlSeqSame: same}
				txnKey := ""
				if stream == srv.Minute {
					sf.Txn = true
					sf.TxnMax = c19TxnMagnitudes[(i+shift)%len(c19TxnMagnitudes)]
					sf.TxnMaxQueried = sf.TxnMax - int64(i%4)
					if i%5 == 4 { // the two fields are independent
						sf.TxnMaxQueried = c19TxnMagnitudes[(i*5+3+shift)%len(c19TxnMagnitudes)]
					}
					switch i % 4 {
					case 1:
						sf.TxnActive = []int64{sf.TxnMax - 1}
					case 2:
						sf.TxnActive = []int64{sf.TxnMax - 2, sf.TxnMax - 1, sf.TxnMax}
						sf.TxnReady = []int64{sf.TxnMax - 3, sf.TxnMax - 4}
					case 3:
						for j := int64(300); j > 0; j-- {
							sf.TxnActive = append(sf.TxnActive, sf.TxnMax-j)
						}
					}
					txnKey = fmt.Sprintf("/txn=%d,%d,active=%d", sf.TxnMax, sf.TxnMaxQueried, len(sf.TxnActive))
				}
				sd := &srv.Dir{Stream: stream, States: map[uint64]srv.StateFile{n: sf}, Current: n, GzipText: i%3 == 2}
				key := fmt.Sprintf("C19/state/stream=%s/fmt=%s/n=%d/time=%s%s/prefix=%s", stream, f, n, tm.Format(time.RFC3339Nano), txnKey, pf)
				if sd.GzipText {
					key += "/gzip"
				}
				check := func(what string, gotN uint64, st *replication.State, err error, wantPath string) {
					count, log, unexpected, _ := p.Observed()
					detail := map[string]any{"file": string(srv.RenderState(stream, n, sf, what == "current")), "log": log}
					switch {
					case len(unexpected) > 0:
						c19Violate(res, key+"/"+what+"/path", "request outside the planet layout: "+unexpected[0], detail)
					case count != 1 || log[0].Path != wantPath:
						c19Violate(res, key+"/"+what+"/path", fmt.Sprintf("expected exactly one request for %s, server saw %v", wantPath, log), detail)
					case err != nil:
						c19Violate(res, key+"/"+what+"/error", fmt.Sprintf("state file in a documented layout rejected: %v", err), detail)
					case st == nil || st.SeqNum != n || gotN != n:
						c19Violate(res, key+"/"+what+"/seq", fmt.Sprintf("sequence number %d (state %+v), want %d", gotN, st, n), detail)
					case !st.Timestamp.Equal(tm):
						c19Violate(res, key+"/"+what+"/time", fmt.Sprintf("decoded %s, file says %s", st.Timestamp.UTC().Format(time.RFC3339Nano), tm.Format(time.RFC3339Nano)), detail)
					case stream == srv.Minute && (int64(st.TxnMax) != sf.TxnMax || int64(st.TxnMaxQueried) != sf.TxnMaxQueried):
						c19Violate(res, key+"/"+what+"/txn", fmt.Sprintf("txnMax/txnMaxQueried %d/%d, file says %d/%d", st.TxnMax, st.TxnMaxQueried, sf.TxnMax, sf.TxnMaxQueried), detail)
					}
					res.Event(int64(count))
					checked++
				}
				curName := "state.txt"
				if stream == srv.Changesets {
					curName = "state.yaml"
				}
				if !curOnly {
					load(sd, 4)
					st, err := c19State(ds, stream, n)
					gotN := uint64(0)
					if st != nil {
						gotN = st.SeqNum
					}
					check("file", gotN, st, err, c19Unescape(pf)+"/replication/"+stream+"/"+srv.SeqPath(n)+".state.txt")
				}
				load(sd, 4)
				cn, cst, cerr := c19CurrentState(ds, stream)
				check("current", cn, cst, cerr, c19Unescape(pf)+"/replication/"+stream+"/"+curName)
				res.Eval(fmt.Sprintf("state/%s/%s/same=%v/seqbits%d/txnbits%d/active%d/y%d/ns%s", stream, f, same, bits.Len64(n), bits.Len64(uint64(sf.TxnMax)), len(sf.TxnActive), tm.Year()/100, c19NanoClass(tm)))
			}
		}
		if curOnly {
			continue
		}
		// a missing neighbour: 404 must surface as a NotFound error, a 500 as another error
		sd := &srv.Dir{Stream: stream, States: map[uint64]srv.StateFile{}, Current: n}
		load(sd, 4)
		st, err := c19State(ds, stream, n)
		if err == nil || !replication.NotFound(err) || st != nil {
			c19Violate(res, fmt.Sprintf("C19/state/stream=%s/n=%d/missing", stream, n), fmt.Sprintf("missing state file: got state %+v err %v (NotFound=%v)", st, err, replication.NotFound(err)), nil)
		}
		load(sd, 0)
		st, err = c19State(ds, stream, n)
		if err == nil || replication.NotFound(err) || st != nil {
			c19Violate(res, fmt.Sprintf("C19/state/stream=%s/n=%d/status500", stream, n), fmt.Sprintf("HTTP 500: got state %+v err %v (NotFound=%v)", st, err, replication.NotFound(err)), nil)
		}
		res.Eval("state/" + stream + "/missing+500")
	}
	pf = ""
	if stream != srv.Changesets {
		checked += c19FormatLayouts(res, p, ds, stream, r, seed)
	}
	res.Add("state_files_decoded", int64(checked))
	res.Sample = map[string]any{"stream": stream, "sequence_numbers": seqs[:8], "example_file": string(srv.RenderState(stream, 2010580, srv.StateFile{Time: c19EdgeTimes[1], Txn: true, TxnMax: 6123456789, TxnMaxQueried: 6123456789, TxnActive: []int64{6123456001, 6123456700}}, false))}
}

func c19Unescape(prefix string) string {
	if dec, err := url.PathUnescape(prefix); err == nil {
		return dec
	}
	return prefix
}

// c19FormatLayouts serves properties state files of realistic size and shape: txnActiveList /
// txnReadyList of up to thousands of ids (bodies of 1 to 64 KiB), every key order incl. the
// planet's (timestamp after the long line), unknown keys, comment and blank lines, CRLF. Every
// field the public State exposes must still equal the file.
func c19FormatLayouts(res *fw.Result, p *srv.Planet, ds *replication.Datasource, stream string, r *gen.R, seed uint64) int {
	sizes := [][2]int{{0, 0}, {1, 0}, {89, 0}, {95, 3}, {120, 0}, {700, 40}, {3000, 500}, {5800, 0}}
	if stream != srv.Minute {
		sizes = [][2]int{{0, 0}} // hour and day files have no transaction lines
	}
	orders := []int{0, 1, 2, 3 + int(seed%97)}
	checked := 0
	for si, sz := range sizes {
		for _, order := range orders {
			for vi := 0; vi < 2; vi++ {
				n := uint64(r.Int64Range(1, 999_999_999))
				tm := time.Unix(r.Int64Range(1_100_000_000, 1_900_000_000), 0).UTC()
				sf := srv.StateFile{Time: tm, Order: order, CRLF: vi == 1}
				if (si+order+vi)%2 == 1 {
					sf.Extra = []string{"#a comment with = and \\: in it", "unknownKey=some value", "", "txnMaxx=12"}
				}
				if stream == srv.Minute {
					sf.Txn = true
					sf.TxnMax = c19TxnMagnitudes[(si+order+int(seed%11))%len(c19TxnMagnitudes)]
					if sf.TxnMax < 1_000_000 {
						sf.TxnMax = 6_123_456_789
					}
					sf.TxnMaxQueried = sf.TxnMax - int64(vi)
					for j := int64(sz[0]); j > 0; j-- {
						sf.TxnActive = append(sf.TxnActive, sf.TxnMax-j*3)
					}
					for j := int64(sz[1]); j > 0; j-- {
						sf.TxnReady = append(sf.TxnReady, sf.TxnMax-j*3-1)
					}
				}
				body := srv.RenderState(stream, n, sf, false)
				key := fmt.Sprintf("C19/state/stream=%s/layout=order%d,active%d,ready%d,crlf=%v,extra%d/n=%d", stream, order, sz[0], sz[1], sf.CRLF, len(sf.Extra), n)
				sd := &srv.Dir{Stream: stream, States: map[uint64]srv.StateFile{n: sf}, Current: n, GzipText: (si+vi)%2 == 0}
				if sd.GzipText {
					key += "/gzip"
				}
				for _, what := range []string{"file", "current"} {
					p.Load(sd, 4, "")
					ds.BaseURL = p.BaseURL()
					var st *replication.State
					var err error
					if what == "file" {
						st, err = c19State(ds, stream, n)
					} else {
						_, st, err = c19CurrentState(ds, stream)
					}
					count, log, _, _ := p.Observed()
					detail := map[string]any{"file_bytes": len(body), "file_head": string(body[:min(len(body), 300)]), "log": log}
					switch {
					case err != nil:
						c19Violate(res, key+"/"+what+"/error", fmt.Sprintf("valid %d byte state file rejected: %v", len(body), err), detail)
					case st == nil || st.SeqNum != n:
						c19Violate(res, key+"/"+what+"/seq", fmt.Sprintf("state %+v, file says sequence %d", st, n), detail)
					case !st.Timestamp.Equal(tm):
						c19Violate(res, key+"/"+what+"/time", fmt.Sprintf("%d byte file: decoded %s, file says %s", len(body), st.Timestamp.UTC().Format(time.RFC3339Nano), tm.Format(time.RFC3339Nano)), detail)
					case sf.Txn && (int64(st.TxnMax) != sf.TxnMax || int64(st.TxnMaxQueried) != sf.TxnMaxQueried):
						c19Violate(res, key+"/"+what+"/txn", fmt.Sprintf("%d byte file: txnMax/txnMaxQueried %d/%d, file says %d/%d", len(body), st.TxnMax, st.TxnMaxQueried, sf.TxnMax, sf.TxnMaxQueried), detail)
					}
					res.Event(int64(count))
					checked++
				}
				res.SetMax("state_file_bytes", int64(len(body)))
				res.Eval(fmt.Sprintf("layout/%s/order%d/kib%d/crlf=%v/extra=%v", stream, min(order, 3), c19Log2Ceil(uint64(len(body)/1024+1)), sf.CRLF, len(sf.Extra) > 0))
			}
		}
	}
	return checked
}

func c19NanoClass(t time.Time) string {
	ns := t.Nanosecond()
	switch {
	case ns == 0:
		return "0"
	case ns%1_000_000 == 0:
		return "ms"
	case ns%1000 == 0:
		return "us"
	}
	return "ns"
}

// data: the sequence-numbered data files are requested at exactly the planet path and the
// body served for that number is what comes back.
func c19ExecData(res *fw.Result, p *srv.Planet, stream string, seed uint64) {
	r := gen.New(seed, "c19data")
	ds := c19Datasource(p)
	ctx := context.Background()
	seqs := []uint64{1, 9, 10, 999, 1000, 1001, 999_999, 1_000_000, 1_000_001, 1_999_999, 2_000_000, 2_007_990, 12_345_678, 123_456_789, 999_999_999}
	for i := 0; i < 10; i++ {
		seqs = append(seqs, uint64(r.Int64Range(1, 999_999_999)))
	}
	for _, n := range seqs {
		prefix := ""
		if r.Chance(0.4) {
			prefix = r.PickS(c19Prefixes...)
		}
		id := int64(n)*3 + 1
		sd := &srv.Dir{Stream: stream, States: map[uint64]srv.StateFile{}, Current: n, Data: map[uint64][]byte{}}
		ext := ".osc.gz"
		if stream == srv.Changesets {
			ext = ".osm.gz"
			sd.Data[n] = srv.Gzip(fmt.Sprintf(`<?xml version="1.0" encoding="UTF-8"?>
<osm version="0.6" generator="replicate_changesets.rb">
  <changeset id="%d" created_at="2016-09-07T11:11:04Z" closed_at="2016-09-07T11:11:19Z" open="false" num_changes="3" user="u" uid="7" comments_count="0"/>
  <changeset id="%d" created_at="2016-09-07T11:11:17Z" open="true" num_changes="45" user="v" uid="8" comments_count="0"/>
</osm>`, id, id+1))
		} else {
			sd.Data[n] = srv.Gzip(fmt.Sprintf(`<?xml version='1.0' encoding='UTF-8'?>
<osmChange version="0.6" generator="Osmosis 0.47">
  <modify>
    <node id="%d" version="2" timestamp="2016-07-16T06:13:01Z" uid="1" user="a" changeset="5" lat="1.5" lon="2.5"/>
  </modify>
  <create>
    <node id="%d" version="1" timestamp="2016-07-16T06:13:02Z" uid="1" user="a" changeset="5" lat="3.5" lon="4.5"/>
  </create>
</osmChange>`, id, id+1))
		}
		p.Load(sd, 4, prefix)
		ds.BaseURL = p.BaseURL()
		var gotIDs []int64
		var err error
		switch stream {
		case srv.Minute, srv.Hour, srv.Day:
			var ch *osm.Change
			switch stream {
			case srv.Minute:
				ch, err = ds.Minute(ctx, replication.MinuteSeqNum(n))
			case srv.Hour:
				ch, err = ds.Hour(ctx, replication.HourSeqNum(n))
			default:
				ch, err = ds.Day(ctx, replication.DaySeqNum(n))
			}
			if ch != nil && ch.Modify != nil && ch.Create != nil {
				for _, nd := range ch.Modify.Nodes {
					gotIDs = append(gotIDs, int64(nd.ID))
				}
				for _, nd := range ch.Create.Nodes {
					gotIDs = append(gotIDs, int64(nd.ID))
				}
			}
		default:
			var css osm.Changesets
			css, err = ds.Changesets(ctx, replication.ChangesetSeqNum(n))
			for _, c := range css {
				gotIDs = append(gotIDs, int64(c.ID))
			}
		}
		count, log, unexpected, _ := p.Observed()
		wantPath := c19Unescape(prefix) + "/replication/" + stream + "/" + srv.SeqPath(n) + ext
		key := fmt.Sprintf("C19/data/stream=%s/n=%d/prefix=%s", stream, n, prefix)
		switch {
		case len(unexpected) > 0:
			c19Violate(res, key+"/path", "request outside the planet layout: "+unexpected[0], log)
		case count != 1 || log[0].Path != wantPath:
			c19Violate(res, key+"/path", fmt.Sprintf("expected exactly one request for %s, server saw %v", wantPath, log), log)
		case err != nil:
			c19Violate(res, key+"/error", fmt.Sprintf("data file served with 200 but the call failed: %v", err), log)
		case len(gotIDs) != 2 || gotIDs[0] != id || gotIDs[1] != id+1:
			c19Violate(res, key+"/content", fmt.Sprintf("content of sequence %d not returned: ids %v, want [%d %d]", n, gotIDs, id, id+1), log)
		}
		res.Event(int64(count))
		res.Eval(fmt.Sprintf("data/%s/digits%d/prefix=%v", stream, len(strconv.FormatUint(n, 10)), prefix != ""))
		// a missing data file is a NotFound error
		p.Load(&srv.Dir{Stream: stream, States: map[uint64]srv.StateFile{}, Current: n}, 4, prefix)
		ds.BaseURL = p.BaseURL()
		switch stream {
		case srv.Minute:
			_, err = ds.Minute(ctx, replication.MinuteSeqNum(n))
		case srv.Hour:
			_, err = ds.Hour(ctx, replication.HourSeqNum(n))
		case srv.Day:
			_, err = ds.Day(ctx, replication.DaySeqNum(n))
		default:
			_, err = ds.Changesets(ctx, replication.ChangesetSeqNum(n))
		}
		if err == nil || !replication.NotFound(err) {
			c19Violate(res, key+"/missing", fmt.Sprintf("missing data file: err %v (NotFound=%v)", err, replication.NotFound(err)), nil)
		}
	}
	res.Add("data_files_fetched", int64(len(seqs)))
	res.Sample = map[string]any{"stream": stream, "sequence_numbers": seqs[:10], "example_path": "/replication/" + stream + "/" + srv.SeqPath(2010580)}
}

func init() {
	fw.Register(&fw.Prop{
		ID:    "C19",
		Level: "fault_enumeration",
		Rule: "A case batches many (present set S, query time t) inputs for one stream. enum: range 1..N, every subset of 1..N-1 present " +
			"(current always present) x every query position (before first, at each, between each, after last) — independent of the seed. " +
			"rand: ranges up to 400 with random density and gap runs next to the probe sequence of a binary search; offset: windows at high " +
			"offsets crossing directory levels with everything below missing; format: single state files in each documented layout; data: " +
			"sequence-numbered data files; skew: gap-free and sparse-gap ranges of 1 000 to 100 000 states with skewed timestamp assignments (pauses, exponential spacing, clusters, bursts). Minute state files have realistic sizes (txnActiveList up to thousands of ids, 1-64 KiB), key orders, unknown keys, comments, CRLF (format); base URLs with percent-escaped path prefixes; grow: one Datasource reused while the directory advances inside one base URL; conn: connection-limited client and 404s with bodies; every response body handed to the library is tracked; a third of the directories are served with Content-Encoding: gzip when asked, three quarters of the cases run with time.Local set to a non-UTC zone; before-all / after-all queries also use extreme instants (zero time, years 1000..9999, the edges of the int64 nanosecond range, Unix(+-2^40)). Signature = kind/stream/log2(range)/missing-count class/query position class (for queries equal to a state's time also the representation of the instant: UTC, time.Unix, fixed zones, Local, monotonic reading)/first-state present or " +
			"missing (prefix-only or scattered gaps); a signature is non-trivial when a lookup was actually executed against the fake server.",
		Assumptions: []string{
			"The fake server models the planet layout from its documentation: /replication/<stream>/state.txt (state.yaml for changesets), NNN/NNN/NNN.state.txt, .osc.gz / .osm.gz; timestamps strictly increase with the sequence number; the current state is the newest present file.",
			"Changeset stream: the number inside a state file is one less than the name of the file it belongs to (state.yaml: newest file name - 1), as changesets.go documents for the planet; the earliest files that carry their own number are served too. The oracle expects the file name in both cases.",
			"Request budget per lookup = (ceil(log2 range)+2)*(missing+4) with range = 1..current; deliberately loose (catches non-termination and scans that are not explained by missing files, not constant factors). For offset windows the missing prefix only counts for queries at or before the first present state.",
			"Changeset directories never hold state files below 2 007 990 together with that file (ChangesetState documents that the planet has no state files before it), so a search may start at either 1 or 2 007 990.",
			"Offset windows whose missing prefix is longer than 5000 files are not queried at or before their first present state: the property lets an exact search step over every missing file there (millions of requests), so neither outcome could be judged cheaply.",
			"Not asserted: order or exact number of probes, error texts, which requests are repeated, behaviour for directories whose timestamps are not increasing or whose state.txt names a missing file, sequence numbers >= 10^9, a nil Datasource.Client.",
			"Every lookup carries its own epoch in the base URL (/e<n>/…); requests arriving after their lookup returned (cancelled in flight) are counted, not judged. A lookup failing with a transport-level error is repeated up to twice and judged only if the failure persists.",
			"Every response body must be closed when a lookup returns (net/http: an unclosed body keeps its connection). The 15 s deadline of the conn kind is a watchdog: a lookup that hits it counts as not terminating only if bodies were left unclosed, otherwise it is inconclusive.",
			"A lookup that errors is a violation only because every response of the fake server within the budget is a 200 or a 404 in the documented layout.",
		},
		Cases:       c19Cases,
		Exec:        c19Exec,
		Workers:     12,
		HangSeconds: 120,
		Exhaustive:  func(tier string) bool { return true },
		Post: func(tier string, agg *fw.Agg) {
			agg.Extra["enumerated_range_max"] = c19NMax[tier]
			agg.Extra["streams"] = srv.Streams
		},
	})
}
