package props

// Shared plumbing of the XML checks C03 and C04: guarded calls into the library (a panic on
// the calling goroutine becomes an observation), the streaming scan, the normalisation the
// properties allow, and a structural "first difference" used for stable violation keys.

import (
	"context"
	"encoding/xml"
	"fmt"
	"io"
	"reflect"
	"runtime/debug"
	"strings"
	"time"

	"github.com/paulmach/osm"
	"github.com/paulmach/osm/osmxml"

	"verif/internal/eq"
	"verif/internal/fw"
	"verif/internal/mon"
)

// xmlGuard runs f and converts a panic into text.
func xmlGuard(f func()) (pan string) {
	defer func() {
		if x := recover(); x != nil {
			pan = fmt.Sprintf("panic: %v\n%s", x, debug.Stack())
		}
	}()
	f()
	return ""
}

// xmlUnmarshal decodes data into dst with encoding/xml (the library's struct tags and
// UnmarshalXML methods do the work).
func xmlUnmarshal(data []byte, dst any) (err error, pan string) {
	pan = xmlGuard(func() { err = xml.Unmarshal(data, dst) })
	return err, pan
}

// xmlMarshal encodes v.
func xmlMarshal(v any, indent bool) (data []byte, err error, pan string) {
	pan = xmlGuard(func() {
		if indent {
			data, err = xml.MarshalIndent(v, "", "  ")
		} else {
			data, err = xml.Marshal(v)
		}
	})
	return data, err, pan
}

// xmlScan runs the streaming scanner over data (served in chunks of at most chunk bytes when
// chunk>0) and returns the objects in the order they were delivered.
func xmlScan(data []byte, chunk int) (objs []osm.Object, err error, pan string) {
	rd := mon.NewReader(data)
	rd.Chunk = chunk
	return xmlScanFrom(rd)
}

// xmlReaderModes names the ways xmlHostileReader serves its data; all of them conform to the
// io.Reader contract.
var xmlReaderModes = []string{"whole", "one-byte", "half-of-request", "random-chunks", "data-with-eof", "zero-length-reads"}

// xmlHostileReader is a conforming but unhelpful io.Reader over a byte slice.
type xmlHostileReader struct {
	data  []byte
	pos   int
	mode  int
	calls int
	rnd   uint64
}

func (r *xmlHostileReader) next() uint64 { // xorshift, deterministic
	r.rnd ^= r.rnd << 13
	r.rnd ^= r.rnd >> 7
	r.rnd ^= r.rnd << 17
	return r.rnd
}

func (r *xmlHostileReader) Read(p []byte) (int, error) {
	r.calls++
	if len(p) == 0 {
		return 0, nil
	}
	if r.pos >= len(r.data) {
		return 0, io.EOF
	}
	n := len(p)
	switch r.mode {
	case 1:
		n = 1
	case 2:
		n = (len(p) + 1) / 2
	case 3:
		n = 1 + int(r.next()%uint64(len(p)))
		if r.next()%3 == 0 && n > 3 {
			n = 1 + int(r.next()%3)
		}
	case 4:
		if r.calls == 1 {
			n = 2 // short first read, the rest arrives together with io.EOF
		}
	case 5:
		if r.calls%2 == 0 {
			return 0, nil // "nothing happened" — allowed, callers must just try again
		}
		n = 1 + int(r.next()%5)
	}
	if rem := len(r.data) - r.pos; n > rem {
		n = rem
	}
	copy(p, r.data[r.pos:r.pos+n])
	r.pos += n
	if r.mode == 4 && r.pos >= len(r.data) {
		return n, io.EOF // data returned together with io.EOF
	}
	return n, nil
}

// xmlScanHostile runs the scanner over data served in the given mode (index of xmlReaderModes).
func xmlScanHostile(data []byte, mode int) (objs []osm.Object, err error, pan string) {
	return xmlScanFrom(&xmlHostileReader{data: data, mode: mode, rnd: 0x9E3779B97F4A7C15 ^ uint64(len(data))})
}

func xmlScanFrom(rd io.Reader) (objs []osm.Object, err error, pan string) {
	out := xmlScanStyled(rd, 0, 0)
	return out.Objs, out.Err, out.Pan
}

// xmlConsumerStyles names the ways the harness drives the scanner. All of them are legal uses
// of the bufio.Scanner-like API: read-only accessors (Err, Object) may be called at any time
// and any number of times, Object need not be called, Scan may be called again after it
// returned false. None of this may change what is delivered.
var xmlConsumerStyles = []string{"canonical", "err-after-every-scan", "err-once-after-kth-scan", "object-twice", "object-skipped-for-some", "scan-again-after-false"}

// xmlScanOut is what one scan delivered.
type xmlScanOut struct {
	Objs    []osm.Object
	Skipped []bool   // Object() was deliberately not called for this position (Objs[i] is nil)
	Proto   []string // call-protocol observations that contradict the API's contract
	Err     error
	Pan     string
}

// xmlScanStyled runs the scanner over rd with the given consumer style (index of
// xmlConsumerStyles); k parameterises the style.
func xmlScanStyled(rd io.Reader, style, k int) (out xmlScanOut) {
	out.Pan = xmlGuard(func() {
		s := osmxml.New(context.Background(), rd)
		defer s.Close()
		n := 0
		for s.Scan() {
			var o osm.Object
			skip := false
			switch style {
			case 3:
				o = s.Object()
				if o2 := s.Object(); eq.Dump(o) != eq.Dump(o2) {
					out.Proto = append(out.Proto, fmt.Sprintf("Object() called twice after the %d-th Scan returned different objects", n+1))
				}
			case 4:
				if n%3 == k%3 {
					skip = true
				} else {
					o = s.Object()
				}
			default:
				o = s.Object()
			}
			out.Objs = append(out.Objs, o)
			out.Skipped = append(out.Skipped, skip)
			n++
			if style == 1 || (style == 2 && n == 1+k%4) {
				_ = s.Err() // a look at the error state in mid-scan; its value is not judged
			}
			if n > 1_000_000 {
				out.Err = fmt.Errorf("harness: scanner delivered more than 1e6 objects")
				return
			}
		}
		out.Err = s.Err()
		if style == 5 {
			for i := 0; i < 2; i++ {
				if s.Scan() {
					out.Proto = append(out.Proto, "Scan returned true again after it had returned false")
					break
				}
			}
			if e2 := s.Err(); (e2 == nil) != (out.Err == nil) {
				out.Proto = append(out.Proto, fmt.Sprintf("Err changed from %v to %v by calling Scan after the end", out.Err, e2))
			}
		}
	})
	return out
}

var (
	discussionType = reflect.TypeOf((*osm.ChangesetDiscussion)(nil))
	changeType     = reflect.TypeOf(osm.Change{})
	timeT          = reflect.TypeOf(time.Time{})
	osmPtrType     = reflect.TypeOf((*osm.OSM)(nil))
)

// xmlNorm returns a deep copy of v with the distinctions the properties do not make removed:
// a changeset discussion without comments ≡ no discussion (the marshaller omits it by design),
// an osmChange block without any content ≡ no block.
func xmlNorm[T any](v T) T {
	c := eq.Clone(v)
	normWalk(reflect.ValueOf(&c).Elem())
	return c
}

func emptyOSM(o *osm.OSM) bool {
	return o != nil && o.Version == "" && o.Generator == "" && o.Copyright == "" && o.Attribution == "" && o.License == "" &&
		o.Bounds == nil && len(o.Nodes) == 0 && len(o.Ways) == 0 && len(o.Relations) == 0 &&
		len(o.Changesets) == 0 && len(o.Notes) == 0 && len(o.Users) == 0
}

func normWalk(v reflect.Value) {
	switch v.Kind() {
	case reflect.Ptr:
		if v.IsNil() {
			return
		}
		if v.Type() == discussionType && v.CanSet() {
			if d := v.Interface().(*osm.ChangesetDiscussion); len(d.Comments) == 0 {
				v.Set(reflect.Zero(v.Type()))
				return
			}
		}
		normWalk(v.Elem())
	case reflect.Interface:
		if !v.IsNil() {
			// interfaces hold pointers here; walk what they point to
			e := v.Elem()
			if e.Kind() == reflect.Ptr && !e.IsNil() {
				normWalk(e.Elem())
			}
		}
	case reflect.Struct:
		if v.Type() == timeT {
			return
		}
		if v.Type() == changeType && v.CanAddr() {
			c := v.Addr().Interface().(*osm.Change)
			if emptyOSM(c.Create) {
				c.Create = nil
			}
			if emptyOSM(c.Modify) {
				c.Modify = nil
			}
			if emptyOSM(c.Delete) {
				c.Delete = nil
			}
		}
		for i := 0; i < v.NumField(); i++ {
			if v.Type().Field(i).PkgPath != "" {
				continue
			}
			normWalk(v.Field(i))
		}
	case reflect.Slice, reflect.Array:
		for i := 0; i < v.Len(); i++ {
			normWalk(v.Index(i))
		}
	}
}

// xmlFirstDiff locates the first difference between two values whose canonical dumps differ.
// path is the concrete location ("Ways[2].Nodes[0].Lat"), class the location with indices
// dropped and reduced to "Type.Field" of the innermost named struct ("WayNode.Lat").
func xmlFirstDiff(want, got any) (path, class string) {
	return firstDiff(reflect.ValueOf(want), reflect.ValueOf(got), "", "value")
}

func dumpV(v reflect.Value) string {
	if !v.IsValid() {
		return "nil"
	}
	if !v.CanInterface() {
		return "?"
	}
	return eq.Dump(v.Interface())
}

func firstDiff(a, b reflect.Value, path, class string) (string, string) {
	for a.IsValid() && (a.Kind() == reflect.Ptr || a.Kind() == reflect.Interface) &&
		b.IsValid() && (b.Kind() == reflect.Ptr || b.Kind() == reflect.Interface) {
		if a.IsNil() && b.IsNil() {
			return path, class
		}
		// a container (*osm.OSM) that is nil on one side only: locate the difference as if nil
		// were an empty container, so that "block lost because its only content was lost"
		// is classified by the content
		if a.IsNil() || b.IsNil() {
			if a.Type() != b.Type() || a.Type() != osmPtrType {
				return path, class
			}
			z := reflect.New(a.Type().Elem())
			if a.IsNil() {
				a = z
			} else {
				b = z
			}
			if dumpV(a.Elem()) == dumpV(b.Elem()) {
				return path, class
			}
		}
		a, b = a.Elem(), b.Elem()
	}
	if !a.IsValid() || !b.IsValid() || a.Type() != b.Type() {
		return path, class
	}
	switch a.Kind() {
	case reflect.Struct:
		if a.Type() == timeT {
			return path, class
		}
		tn := a.Type().Name()
		for i := 0; i < a.NumField(); i++ {
			f := a.Type().Field(i)
			if f.Name == "XMLName" || f.PkgPath != "" {
				continue
			}
			if dumpV(a.Field(i)) != dumpV(b.Field(i)) {
				c := tn + "." + f.Name
				if tn == "" {
					c = class + "." + f.Name
				}
				p := path + "." + f.Name
				return firstDiff(a.Field(i), b.Field(i), strings.TrimPrefix(p, "."), c)
			}
		}
	case reflect.Slice:
		if a.Len() != b.Len() {
			return fmt.Sprintf("%s[len %d vs %d]", path, a.Len(), b.Len()), class
		}
		for i := 0; i < a.Len(); i++ {
			if dumpV(a.Index(i)) != dumpV(b.Index(i)) {
				return firstDiff(a.Index(i), b.Index(i), fmt.Sprintf("%s[%d]", path, i), class)
			}
		}
	}
	return path, class
}

// xmlObjKind names the kind of an object by its Go type.
func xmlObjKind(o osm.Object) string {
	switch o.(type) {
	case *osm.Bounds:
		return "bounds"
	case *osm.Node:
		return "node"
	case *osm.Way:
		return "way"
	case *osm.Relation:
		return "relation"
	case *osm.Changeset:
		return "changeset"
	case *osm.Note:
		return "note"
	case *osm.User:
		return "user"
	case nil:
		return "nil"
	}
	return fmt.Sprintf("%T", o)
}

// xmlPick returns the idx-th object of a kind from a decoded container (nil when absent).
func xmlPick(o *osm.OSM, kind string, idx int) osm.Object {
	if o == nil {
		return nil
	}
	switch kind {
	case "bounds":
		if idx == 0 && o.Bounds != nil {
			return o.Bounds
		}
	case "node":
		if idx < len(o.Nodes) {
			return o.Nodes[idx]
		}
	case "way":
		if idx < len(o.Ways) {
			return o.Ways[idx]
		}
	case "relation":
		if idx < len(o.Relations) {
			return o.Relations[idx]
		}
	case "changeset":
		if idx < len(o.Changesets) {
			return o.Changesets[idx]
		}
	case "note":
		if idx < len(o.Notes) {
			return o.Notes[idx]
		}
	case "user":
		if idx < len(o.Users) {
			return o.Users[idx]
		}
	}
	return nil
}

func xmlTrim(s string, n int) string {
	if len(s) <= n {
		return s
	}
	return s[:n] + fmt.Sprintf("…(%d more bytes)", len(s)-n)
}

// xmlMerge adds what a goroutine-local result observed to the case's result.
func xmlMerge(dst, src *fw.Result) {
	dst.Event(src.Events)
	for k, n := range src.Counts {
		dst.Add(k, n)
	}
	for _, v := range src.Violations {
		dst.Violate(v.Key, v.What, v.Detail)
	}
}

// xmlWith returns a copy of m with one more entry.
func xmlWith(m map[string]any, k string, v any) map[string]any {
	out := map[string]any{k: v}
	for kk, vv := range m {
		out[kk] = vv
	}
	return out
}
