package props

import (
	"context"
	"fmt"
	"strings"
	"time"

	"github.com/paulmach/osm"
	"github.com/paulmach/osm/annotate"

	"verif/internal/eq"
	"verif/internal/fw"
	"verif/internal/gen"
	"verif/internal/hist"
)

// C12 — annotation is deterministic and orders updates by index, time, version.
//
// Monitor shape: each generated input is annotated K = 12 times on deep clones; the recording
// datasource logs the order in which child histories are requested (that is the iteration
// order of the library's child-location map). Oracles: all runs succeed with identical
// canonical dumps or all fail; every update list is ordered by (index, time, version).

const c12K = 12

func c12Bucket(n int) string {
	switch {
	case n <= 1:
		return "1"
	case n == 2:
		return "2"
	}
	return "3+"
}

// c12Shape describes the failing parent version: the largest number of versions of one child
// that share a timestamp within one index, the largest number of indices one child sits at,
// and whether the list is longer than 12 (sort.Sort's insertion-sort cutoff).
func c12Shape(h *hist.H, i int, us osm.Updates) string {
	kind := "rel"
	if h.Way {
		kind = "way"
	}
	same := 0
	cnt := map[[2]int64]int{}
	for _, u := range us {
		k := [2]int64{int64(u.Index), u.Timestamp.UnixNano()}
		cnt[k]++
		if cnt[k] > same {
			same = cnt[k]
		}
	}
	occ := map[int]int{}
	maxOcc := 0
	for _, r := range h.Parents[i].Refs {
		occ[r.Child]++
		if occ[r.Child] > maxOcc {
			maxOcc = occ[r.Child]
		}
	}
	big := "updates<=12"
	if len(us) > 12 {
		big = "updates>12"
	}
	return fmt.Sprintf("%s/%s/same-second=%s/indices=%s/%s", kind, h.Regime, c12Bucket(same), c12Bucket(maxOcc), big)
}

// c12Input is one input of a session.
type c12Input struct {
	h       *hist.H
	id      string // identifies the input in the map-order set
	enumKey string // violation key suffix of an enumerated input ("" = use the shape)
}

type c12Obs struct {
	run       *hist.Run
	dump      string   // canonical dump taken the moment the call returned
	order     []string // order finding per parent version, taken the moment the call returned
	nUpd      []int
	fresh     bool // the input was rebuilt from the model (otherwise an eq.Clone of the first build)
	children  bool // the datasource was used in its AsChildren configuration
	sharedOpt bool // the ChildFilter option value of the session was reused
	seqNo     int  // position of the call in the session
	listTx    []string
}

// c12Session annotates every input K = 12 times in one process: round k visits the inputs in
// a (for k > 0 shuffled) order, so that other inputs run between two runs of one input; even
// rounds run on an eq.Clone of the input built first, odd rounds on an independently rebuilt
// equal input. Update order and the canonical dump are taken immediately after each call
// returns. Then the oracles are evaluated per input.
func c12Session(res *fw.Result, ins []c12Input, r *gen.R) { c12SessionK(res, ins, r, c12K) }

// c12SessionK is c12Session with K runs per input.
func c12SessionK(res *fw.Result, ins []c12Input, r *gen.R, K int) {
	n := len(ins)
	ways0 := make([]osm.Ways, n)
	rels0 := make([]osm.Relations, n)
	for i, in := range ins {
		if in.h.Way {
			ways0[i] = in.h.BuildWays()
		} else {
			rels0[i] = in.h.BuildRelations()
		}
	}
	obs := make([][]*c12Obs, n)
	seq := 0
	shared := hist.NewSharedFilter()
	for k := 0; k < K; k++ {
		order := make([]int, n)
		for i := range order {
			order[i] = i
		}
		if k > 0 && r != nil {
			r.Shuffle(n, func(a, b int) { order[a], order[b] = order[b], order[a] })
		}
		for _, i := range order {
			h := ins[i].h
			o := &c12Obs{fresh: k%2 == 1, seqNo: seq}
			seq++
			// rounds 2,3 of every four use the datasource's "children" configuration
			// (annotate.*AsChildrenDatasourcer): same result required
			asChildren := k%4 >= 2
			switch {
			case o.fresh && asChildren:
				o.run = h.ExecuteChildren()
			case o.fresh:
				o.run = h.Execute()
			case h.Filter != nil && k%3 == 1:
				// the ChildFilter option VALUE built once for the whole session and reused; the other
				// rounds build their options afresh. Same input, same verdicts => same result.
				o.run = h.ExecuteOnOpts(eq.Clone(ways0[i]), eq.Clone(rels0[i]), asChildren, shared)
				o.sharedOpt = true
			default:
				o.run = h.ExecuteOnWith(eq.Clone(ways0[i]), eq.Clone(rels0[i]), asChildren)
			}
			o.children = asChildren
			// observe at once: the result must be complete and ordered when the call returns
			if o.run.Panic == "" && o.run.Err == nil {
				for pi := range h.Parents {
					var us osm.Updates
					if h.Way {
						us = o.run.Ways[pi].Updates
					} else {
						us = o.run.Relations[pi].Updates
					}
					f := hist.OrderFinding(us)
					o.order = append(o.order, f)
					o.nUpd = append(o.nUpd, len(us))
					tx := ""
					if f != "" {
						tx = hist.UpdatesText(us)
						if len(tx) > 1500 {
							tx = tx[:1500] + " ..."
						}
					}
					o.listTx = append(o.listTx, tx)
				}
				if h.Way {
					o.dump = eq.Dump(o.run.Ways)
				} else {
					o.dump = eq.Dump(o.run.Relations)
				}
			}
			res.Event(int64(o.run.NCalls))
			obs[i] = append(obs[i], o)
		}
	}
	for i, in := range ins {
		c12Judge(res, in, obs[i])
	}
}

// c12One runs a session with a single input.
func c12One(res *fw.Result, h *hist.H, inputID string, enumKey string) {
	c12Session(res, []c12Input{{h: h, id: inputID, enumKey: enumKey}}, nil)
}

func c12SizeClass(n int) string {
	switch {
	case n <= 12:
		return "updates<=12"
	case n < 100:
		return "updates>12"
	}
	return "updates>=100"
}

// c12Judge evaluates the oracles on the K observations of one input.
func c12Judge(res *fw.Result, in c12Input, obs []*c12Obs) {
	h, inputID, enumKey := in.h, in.id, in.enumKey
	orders := map[string]bool{}
	nOK, nErr := 0, 0
	maxUpd, sameSecond := 0, 0
	detail := func(extra map[string]any) map[string]any {
		d := map[string]any{"history": h}
		if len(fw.JSON(h)) > 60000 {
			d["history"] = "omitted (large); regenerate from the case: " + h.Shape()
		}
		for k, v := range extra {
			d[k] = v
		}
		return d
	}
	runs := make([]*hist.Run, len(obs))
	for k, o := range obs {
		runs[k] = o.run
		orders[o.run.Order] = true
		if o.run.Panic != "" {
			res.Violate("C12/panic", "annotation panicked: "+o.run.Panic, detail(nil))
			return
		}
		if o.run.Err != nil {
			nErr++
		} else {
			nOK++
		}
	}
	for o := range orders {
		res.Put("map_orders", inputID+":"+o)
	}
	res.Add("inputs", 1)
	res.Add("runs", int64(len(obs)))
	res.SetMax("map_orders_per_input", int64(len(orders)))
	if len(orders) > 1 {
		res.Add("inputs_with_several_map_orders", 1)
	} else {
		res.Add("inputs_not_exercising_map_order", 1)
	}
	kind := "rel"
	if h.Way {
		kind = "way"
	}
	shapeOf := func(i int, us osm.Updates) string {
		if enumKey != "" {
			return enumKey
		}
		s := c12Shape(h, i, us)
		if len(us) >= 100 {
			s = strings.Replace(s, "updates>12", "updates>=100", 1)
		}
		if h.Polygon {
			s += "/polygon"
		}
		return s
	}
	outcome := "ok"
	switch {
	case nOK > 0 && nErr > 0:
		outcome = "split"
		res.Violate(fmt.Sprintf("C12/outcome-differs/%s/%s", kind, h.Regime),
			fmt.Sprintf("%d of %d runs on equal input succeeded and %d failed", nOK, len(obs), nErr),
			detail(map[string]any{"first_error": fmt.Sprint(firstErr(runs))}))
	case nErr > 0:
		outcome = "all-fail"
		res.Add("inputs_all_runs_fail", 1)
	default:
		// identical results, whatever ran in between and whether the input was cloned or rebuilt
		for k := 1; k < len(obs); k++ {
			if obs[k].dump != obs[0].dump {
				i, us := c12FirstDiffering(h, runs[0], runs[k])
				what := "update lists / annotations"
				if c12OnlyOrientation(h, runs[0], runs[k]) {
					what = "Member.Orientation only"
				}
				how := "clone of the first build"
				if obs[k].fresh {
					how = "independently rebuilt equal input"
				}
				if obs[k].children {
					how += ", AsChildren datasource"
				}
				if obs[k].sharedOpt {
					how += ", ChildFilter option value reused from earlier calls of the session"
				}
				res.Violate("C12/nondeterministic/"+shapeOf(i, us),
					fmt.Sprintf("run %d (%s, call %d of the session) differs from run 0 (call %d) on equal input in %s (map orders %q vs %q): %s",
						k, how, obs[k].seqNo, obs[0].seqNo, what, runs[0].Order, runs[k].Order, eq.Diff(obs[0].dump, obs[k].dump)),
					detail(map[string]any{"run0": c12Trim(runs[0].Observed()), "runK": c12Trim(runs[k].Observed())}))
				break
			}
		}
		// order of every update list as it was when the call returned
		reported := false
		for k, o := range obs {
			for i := range h.Parents {
				if o.nUpd[i] > maxUpd {
					maxUpd = o.nUpd[i]
				}
				res.Add("update_lists_checked", 1)
				if o.order[i] != "" && !reported {
					var us osm.Updates
					if h.Way {
						us = runs[k].Ways[i].Updates
					} else {
						us = runs[k].Relations[i].Updates
					}
					later := "the list is still unordered now"
					if hist.OrderFinding(us) == "" {
						later = "the same list is ordered now: it was still being modified after the call returned"
					}
					res.Violate("C12/order/"+shapeOf(i, us),
						fmt.Sprintf("parent version %d, run %d: update list (%d updates) not ordered by (index, time, version) when the call returned: %s (%s); list at return: %s",
							h.Parents[i].Version, k, o.nUpd[i], o.order[i], later, o.listTx[i]),
						detail(nil))
					reported = true
				}
			}
		}
		for i := range h.Parents {
			var us osm.Updates
			if h.Way {
				us = runs[0].Ways[i].Updates
			} else {
				us = runs[0].Relations[i].Updates
			}
			cnt := map[[2]int64]int{}
			for _, u := range us {
				kk := [2]int64{int64(u.Index), u.Timestamp.UnixNano()}
				cnt[kk]++
				if cnt[kk] > sameSecond {
					sameSecond = cnt[kk]
				}
			}
		}
	}
	res.SetMax("updates_per_parent", int64(maxUpd))
	res.SetMax("versions_sharing_index_and_second", int64(sameSecond))
	if maxUpd > 12 {
		res.Add("inputs_with_more_than_12_updates", 1)
	}
	if maxUpd >= 128 {
		res.Add("inputs_with_128_or_more_updates", 1)
	}
	if sameSecond > 1 {
		res.Add("inputs_with_same_second_versions_in_updates", 1)
	}
	if h.Polygon && outcome == "ok" {
		res.Add("polygon_relation_inputs_ok", 1)
		if c12HasUnresolvedWayMember(h, runs[0]) {
			res.Add("polygon_inputs_with_unresolved_way_member", 1)
		}
	}
	ord := "1"
	if len(orders) > 1 {
		ord = "n"
	}
	poly := ""
	if h.Polygon {
		poly = "/polygon"
	}
	res.Eval(fmt.Sprintf("%s/%s/eps%d/p%d/c%d/%s/orders=%s/%s/same=%s%s", kind, h.Regime, h.Eps, len(h.Parents), c12Bucket10(len(h.Children)), outcome, ord, c12SizeClass(maxUpd), c12Bucket(sameSecond), poly))
}

func c12Bucket10(n int) int {
	if n > 10 {
		return 10 + (n-10)/10*10
	}
	return n
}

func c12Trim(lines []string) []string {
	out := make([]string, len(lines))
	for i, l := range lines {
		if len(l) > 2000 {
			l = l[:2000] + " ..."
		}
		out[i] = l
	}
	return out
}

// c12OnlyOrientation: two runs differ only in Member.Orientation.
func c12OnlyOrientation(h *hist.H, a, b *hist.Run) bool {
	if h.Way {
		return false
	}
	skip := eq.Options{SkipFields: map[string]bool{"Member.Orientation": true}}
	return eq.DumpWith(a.Relations, skip) == eq.DumpWith(b.Relations, skip)
}

// c12HasUnresolvedWayMember: some way member of a visible version was left without annotation.
func c12HasUnresolvedWayMember(h *hist.H, run *hist.Run) bool {
	for i, rel := range run.Relations {
		if !h.Parents[i].Visible {
			continue
		}
		for j, m := range rel.Members {
			if m.Type == osm.TypeWay && (m.Version == 0 || h.Parents[i].Refs[j].Pre && m.Version >= hist.PreVersion) {
				return true
			}
		}
	}
	return false
}

// pipeDS serves annotated ways (the same objects every time) as member history.
type pipeDS struct {
	ways map[osm.WayID]osm.Ways
}

func (d *pipeDS) NodeHistory(context.Context, osm.NodeID) (osm.Nodes, error) {
	return nil, hist.ErrNotFound
}
func (d *pipeDS) WayHistory(_ context.Context, id osm.WayID) (osm.Ways, error) {
	if ws, ok := d.ways[id]; ok {
		return ws, nil
	}
	return nil, hist.ErrNotFound
}
func (d *pipeDS) RelationHistory(context.Context, osm.RelationID) (osm.Relations, error) {
	return nil, hist.ErrNotFound
}
func (d *pipeDS) NotFound(err error) bool { return err == hist.ErrNotFound }

func c12Pipeline(res *fw.Result, r *gen.R, id string) {
	reg := hist.Commit
	if r.Chance(0.4) {
		reg = hist.Stamp
	}
	nWays := r.Range(2, 5)
	ds := &pipeDS{ways: map[osm.WayID]osm.Ways{}}
	var latest time.Time
	var hs []*hist.H
	for w := 0; w < nWays; w++ {
		h := hist.Generate(r, hist.Params{Way: true, Regime: reg, Eps: 30, Mode: "clean", MaxParents: 3, MaxChildren: 6, MaxVers: 6})
		h.Stale = 0
		run := h.Execute()
		if run.Err != nil || run.Panic != "" {
			continue
		}
		wid := osm.WayID(800 + w)
		for _, wy := range run.Ways {
			wy.ID = wid
			if t := wy.CommittedAt(); t.After(latest) {
				latest = t
			}
			for _, u := range wy.Updates {
				if u.Timestamp.After(latest) && r.Chance(0.5) {
					latest = u.Timestamp
				}
			}
		}
		ds.ways[wid] = run.Ways
		hs = append(hs, h)
	}
	if len(ds.ways) == 0 {
		res.Eval("")
		return
	}
	dumpAll := func() (string, string) {
		var sb strings.Builder
		bad := ""
		for w := 0; w < nWays; w++ {
			for _, wy := range ds.ways[osm.WayID(800+w)] {
				sb.WriteString(eq.Dump(wy))
				sb.WriteByte('\n')
				if f := hist.OrderFinding(wy.Updates); f != "" && bad == "" {
					bad = fmt.Sprintf("way %d v%d: %s; list: %s", wy.ID, wy.Version, f, hist.UpdatesText(wy.Updates))
				}
			}
		}
		return sb.String(), bad
	}
	before, badBefore := dumpAll()
	if badBefore != "" {
		return // would already be reported by the other classes
	}
	// multipolygon relation versions over these ways, after (or amid) the ways' updates
	var rels osm.Relations
	nv := r.Range(1, 3)
	for v := 0; v < nv; v++ {
		at := latest.Add(time.Duration(v*1000+r.Intn(500)) * time.Second)
		rel := &osm.Relation{ID: 9100, Version: v + 1, Visible: true, Timestamp: at, ChangesetID: osm.ChangesetID(7000 + v),
			Tags: osm.Tags{{Key: "type", Value: []string{"multipolygon", "boundary"}[r.Intn(2)]}}}
		if reg == hist.Commit {
			c := at
			rel.Committed = &c
		}
		for w := 0; w < nWays; w++ {
			if _, ok := ds.ways[osm.WayID(800+w)]; ok && r.Chance(0.85) {
				rel.Members = append(rel.Members, osm.Member{Type: osm.TypeWay, Ref: int64(800 + w), Role: []string{"outer", "inner"}[r.Intn(2)]})
			}
		}
		rels = append(rels, rel)
	}
	var perr string
	err := func() (err error) {
		defer func() {
			if x := recover(); x != nil {
				perr = fmt.Sprint(x)
			}
		}()
		return annotate.Relations(context.Background(), rels, ds, annotate.IgnoreInconsistency(true), annotate.IgnoreMissingChildren(true))
	}()
	nUpd := 0
	for _, ws := range ds.ways {
		for _, wy := range ws {
			nUpd += len(wy.Updates)
		}
	}
	res.Event(int64(nUpd + len(rels)))
	res.Add("pipeline_inputs", 1)
	res.Add("pipeline_way_updates_watched", int64(nUpd))
	after, badAfter := dumpAll()
	detail := map[string]any{"way_histories": hs, "relations": eq.Dump(rels), "input": id}
	switch {
	case perr != "":
		res.Violate("C12/panic/pipeline", "annotate.Relations over annotated member ways panicked: "+perr, detail)
	case after != before:
		what := "annotate.Relations changed the member ways it was given as history: " + eq.Diff(before, after)
		if badAfter != "" {
			what += "; an update list that annotate.Ways returned ordered is now unordered: " + badAfter
		}
		res.Violate("C12/pipeline/member-way-updates-rewritten/"+reg.String(), what, detail)
	}
	res.Eval(fmt.Sprintf("pipeline/%s/ways%d/relv%d/err=%v", reg, len(ds.ways), nv, err != nil))
}

func firstErr(runs []*hist.Run) error {
	for _, r := range runs {
		if r.Err != nil {
			return r.Err
		}
	}
	return nil
}

func c12FirstDiffering(h *hist.H, a, b *hist.Run) (int, osm.Updates) {
	for i := range h.Parents {
		if h.Way {
			if eq.Dump(a.Ways[i]) != eq.Dump(b.Ways[i]) {
				return i, a.Ways[i].Updates
			}
		} else if eq.Dump(a.Relations[i]) != eq.Dump(b.Relations[i]) {
			return i, a.Relations[i].Updates
		}
	}
	return 0, nil
}

func c12Exec(c fw.Case) *fw.Result {
	res := fw.NewResult()
	switch c.Kind {
	case "enum":
		reg := hist.Commit
		if c.Int("stamp") == 1 {
			reg = hist.Stamp
		}
		n, idx := int(c.Int("n")), int(c.Int("idx"))
		zones := c.Int("zones") == 1
		h := hist.BurstZ(c.Int("way") == 1, reg, n, idx, zones)
		kind := "rel"
		if h.Way {
			kind = "way"
		}
		zs := ""
		if zones {
			zs = "/mixed-time-zones"
		}
		c12One(res, h, fmt.Sprintf("enum-%s-%s-%d-%d%s", kind, reg, n, idx, zs), fmt.Sprintf("enum/%s/%s/versions-in-one-second=%d/indices=%d%s", kind, reg, n-1, idx, zs))
		res.Sample = map[string]any{"history": h}
	case "random":
		n := int(c.Int("n"))
		var ins []c12Input
		for k := 0; k < n; k++ {
			r := gen.New(gen.Sub(c.Seed, "c12h", k), "c12")
			reg := hist.Commit
			eps := hist.Thresholds[r.Intn(len(hist.Thresholds))]
			if r.Chance(0.5) {
				reg = hist.Stamp
			}
			p := hist.Params{Way: r.Bool(), Regime: reg, Eps: eps, Mode: c.Str("mode"), MaxParents: 4, MaxChildren: 8, MaxVers: 16}
			if p.Mode == "any" {
				p.MaxParents, p.MaxVers = 6, 10
			}
			if r.Chance(0.3) {
				// more than 8 distinct children: the library's child-location map then spans several
				// hash buckets and its iteration order is no longer just a rotation
				p.MaxChildren = 14
			}
			h := hist.Generate(r, p)
			if p.Mode == "burst" {
				// no error exits: determinism of complete results is what is being looked at
				h.IgnoreInc = r.Chance(0.7)
			}
			if c.Str("mode") == "mixed" {
				h = hist.Generate(r, hist.Params{Way: p.Way, Regime: hist.Commit, Eps: eps, Mode: "burst", MaxParents: 4, MaxChildren: 6, MaxVers: 12})
				h.Mixed = true
				h.MixSec = h.Parents[r.Intn(len(h.Parents))].Sec + r.Int64Range(-100, 100)
				h.IgnoreInc = r.Chance(0.7)
			}
			ins = append(ins, c12Input{h: h, id: fmt.Sprintf("%x-%d", c.Seed, k)})
			if k == 0 {
				res.Sample = map[string]any{"history": h}
			}
		}
		c12Session(res, ins, gen.New(c.Seed, "c12session"))
	case "polygon":
		// multipolygon / boundary relations over way members (arcs of one ring, located nodes) in
		// outer/inner roles, with member ways that are missing, deleted or filtered out in some
		// versions, under every option combination
		n := int(c.Int("n"))
		modes := []string{"ignore", "missing", "filter", "any", "deletes", "clean"}
		var ins []c12Input
		for k := 0; k < n; k++ {
			r := gen.New(gen.Sub(c.Seed, "c12p", k), "c12poly")
			reg := hist.Commit
			if r.Chance(0.5) {
				reg = hist.Stamp
			}
			mode := modes[(k+int(c.Int("shift")))%len(modes)]
			h := hist.Generate(r, hist.Params{Polygon: true, Regime: reg, Eps: hist.Thresholds[r.Intn(len(hist.Thresholds))], Mode: mode, MaxParents: 5, MaxChildren: 8, MaxVers: 6})
			switch mode {
			case "missing":
				h.IgnoreMissing = r.Chance(0.85)
				h.IgnoreInc = r.Chance(0.6)
			case "deletes", "any":
				h.IgnoreInc = r.Chance(0.8)
				if mode == "any" {
					h.IgnoreMissing = r.Chance(0.7)
				}
			case "filter":
				h.IgnoreInc = r.Chance(0.5)
				h.IgnoreMissing = h.IgnoreMissing || r.Chance(0.5)
			}
			ins = append(ins, c12Input{h: h, id: fmt.Sprintf("%x-p%d", c.Seed, k)})
			if k == 0 {
				res.Sample = map[string]any{"history": h}
			}
		}
		c12Session(res, ins, gen.New(c.Seed, "c12session"))
	case "pipeline":
		// annotate.Ways on member ways, then the very same way objects serve as member history
		// for annotate.Relations on a multipolygon relation (orientation looks at the ways'
		// geometry at the relation's time): the ways' finished update lists must not change
		for k := 0; k < int(c.Int("n")); k++ {
			r := gen.New(gen.Sub(c.Seed, "c12pipe", k), "c12pipeline")
			c12Pipeline(res, r, fmt.Sprintf("%x-%d", c.Seed, k))
		}
	case "skew":
		// a later version with an earlier instant (clock skew), 13-200 updates on one index,
		// the position of the inversion swept
		reg := hist.Commit
		if c.Int("stamp") == 1 {
			reg = hist.Stamp
		}
		n, nIdx := int(c.Int("n")), int(c.Int("idx"))
		kind := "rel"
		if c.Int("way") == 1 {
			kind = "way"
		}
		var pos []int
		if n <= 24 {
			for p := 2; p <= n; p++ {
				pos = append(pos, p)
			}
		} else {
			for k := 0; k < 16; k++ {
				pos = append(pos, 2+k*(n-2)/15)
			}
		}
		var ins []c12Input
		for _, p := range pos {
			h := hist.Skew(c.Int("way") == 1, reg, n, nIdx, []int{p})
			ins = append(ins, c12Input{h: h, id: fmt.Sprintf("skew-%s-%s-%d-%d-%d", kind, reg, n, nIdx, p),
				enumKey: fmt.Sprintf("skew/%s/%s/updates-per-index=%d/indices=%d/inversion-at=%d", kind, reg, n, nIdx, p)})
		}
		// a few inversions in one list
		for _, ps := range [][]int{{2, n}, {3, n / 2, n - 1}, {n / 3, n/3 + 2, 2 * n / 3}} {
			h := hist.Skew(c.Int("way") == 1, reg, n, nIdx, ps)
			ins = append(ins, c12Input{h: h, id: fmt.Sprintf("skew-%s-%s-%d-%d-%v", kind, reg, n, nIdx, ps),
				enumKey: fmt.Sprintf("skew/%s/%s/updates-per-index=%d/indices=%d/inversions-at=%v", kind, reg, n, nIdx, ps)})
		}
		res.Add("skew_inputs", int64(len(ins)))
		c12Session(res, ins, nil)
		res.Sample = map[string]any{"history": ins[0].h}
	case "handover":
		// child A leaves the parent and is deleted in that very commit (or in between, with
		// IgnoreInconsistency) while child B enters; 36 runs per input
		var ins []c12Input
		for k := 0; k < int(c.Int("n")); k++ {
			r := gen.New(gen.Sub(c.Seed, "c12ho", k), "c12handover")
			reg := hist.Commit
			variant := k % 3
			if variant == 2 && r.Bool() {
				reg = hist.Stamp
			}
			h := hist.Handover(r, k%2 == 0, reg, variant)
			ins = append(ins, c12Input{h: h, id: fmt.Sprintf("%x-h%d", c.Seed, k)})
			if k == 0 {
				res.Sample = map[string]any{"history": h}
			}
		}
		res.Add("handover_inputs", int64(len(ins)))
		c12SessionK(res, ins, gen.New(c.Seed, "c12session"), 36)
	case "wide":
		// field widths of an update: 4097-70000 child positions, updates on both sides of powers
		// of two, versions beyond 16 bits, instants 2^36 s apart, sub-second ties
		r := gen.New(c.Seed, "c12wide")
		reg := hist.Commit
		if c.Int("stamp") == 1 {
			reg = hist.Stamp
		}
		h := hist.Wide(r, c.Int("way") == 1, reg, int(c.Int("positions")))
		kind := "rel"
		if h.Way {
			kind = "way"
		}
		c12Session(res, []c12Input{{h: h, id: fmt.Sprintf("%x-w", c.Seed), enumKey: fmt.Sprintf("wide/%s/%s/positions=%d", kind, reg, len(h.Parents[0].Refs))}}, nil)
		res.Add("wide_inputs", 1)
		res.SetMax("child_positions_per_parent", int64(len(h.Parents[0].Refs)))
		res.Sample = map[string]any{"shape": h.Shape(), "positions": len(h.Parents[0].Refs), "children": len(h.Children)}
	case "big":
		// parent versions with 100-2000 updates
		r := gen.New(c.Seed, "c12big")
		reg := hist.Commit
		if c.Int("stamp") == 1 {
			reg = hist.Stamp
		}
		var ins []c12Input
		for k := 0; k < int(c.Int("n")); k++ {
			target := int(c.Int("target"))
			if k > 0 {
				target = r.Range(100, 2000)
			}
			h := hist.Big(r, c.Int("way") == 1, reg, c.Str("shape"), target)
			ins = append(ins, c12Input{h: h, id: fmt.Sprintf("%x-b%d", c.Seed, k)})
			if k == 0 {
				res.Sample = map[string]any{"shape": h.Shape(), "target_updates": target, "parent_refs": len(h.Parents[0].Refs)}
			}
		}
		c12Session(res, ins, gen.New(c.Seed, "c12session"))
	}
	return res
}

func c12Cases(tier string, seed uint64) []fw.Case {
	nCases, per := 24, int64(10)
	if tier == "thorough" {
		nCases, per = 1920, 50
	}
	var cs []fw.Case
	// enumerated: n versions (n-1 of them in one second, after the parent) x child at idx indices
	for _, way := range []int64{1, 0} {
		for _, stamp := range []int64{0, 1} {
			for _, idx := range []int64{1, 2, 3, 4} {
				for n := int64(2); n <= 16; n++ {
					if tier != "thorough" && way == 0 && n%2 == 1 {
						continue
					}
					cs = append(cs, fw.Case{Kind: "enum", P: map[string]int64{"way": way, "stamp": stamp, "n": n, "idx": idx}})
					if (n-1)*idx > 12 && (tier == "thorough" || n%3 == 0) {
						// the same input with the shared second expressed in rotating time.Locations
						cs = append(cs, fw.Case{Kind: "enum", P: map[string]int64{"way": way, "stamp": stamp, "n": n, "idx": idx, "zones": 1}})
					}
				}
			}
		}
	}
	// polygon relations with unresolvable way members; big update lists (a subset under -race)
	nPoly, perPoly, nBig, perBig, nRace := 6, int64(12), 16, int64(2), 4
	if tier == "thorough" {
		nPoly, perPoly, nBig, perBig, nRace = 120, 24, 96, 4, 12
	}
	for i := 0; i < nPoly; i++ {
		cs = append(cs, fw.Case{Kind: "polygon", Seed: gen.Sub(seed, "c12poly", i), P: map[string]int64{"n": perPoly, "shift": int64(i)}})
	}
	targets := []int64{100, 127, 128, 129, 135, 200, 256, 400, 700, 1000, 1500, 2000}
	for i := 0; i < nBig+nRace; i++ {
		shape := "children"
		if i%2 == 1 {
			shape = "indexes"
		}
		c := fw.Case{Kind: "big", Seed: gen.Sub(seed, "c12big", i), S: map[string]string{"shape": shape},
			P: map[string]int64{"n": perBig, "target": targets[i%len(targets)], "way": int64((i / 2) % 2), "stamp": int64((i / 4) % 2)}}
		if i >= nBig {
			c.Variant = "race"
			c.P["target"] = targets[(4+i)%len(targets)]
		}
		cs = append(cs, c)
	}
	// clock skew (enumerated) and handover (a child deleted exactly when the parent drops it while another enters)
	skewN := []int64{13, 14, 20, 50, 200}
	for i, n := range skewN {
		cs = append(cs, fw.Case{Kind: "skew", P: map[string]int64{"n": n, "idx": 1, "way": 1, "stamp": 0}})
		cs = append(cs, fw.Case{Kind: "skew", P: map[string]int64{"n": n, "idx": 1 + int64(i%2), "way": int64(i % 2), "stamp": 1}})
		if tier == "thorough" {
			cs = append(cs, fw.Case{Kind: "skew", P: map[string]int64{"n": n + 3, "idx": 2, "way": 0, "stamp": 0}})
			cs = append(cs, fw.Case{Kind: "skew", P: map[string]int64{"n": n + 17, "idx": 1, "way": 1, "stamp": 1}})
		}
	}
	nHo := 4
	if tier == "thorough" {
		nHo = 40
	}
	for i := 0; i < nHo; i++ {
		cs = append(cs, fw.Case{Kind: "handover", Seed: gen.Sub(seed, "c12handover", i), P: map[string]int64{"n": 9}})
	}
	nPipe, perPipe := 6, int64(10)
	if tier == "thorough" {
		nPipe, perPipe = 60, 25
	}
	for i := 0; i < nPipe; i++ {
		cs = append(cs, fw.Case{Kind: "pipeline", Seed: gen.Sub(seed, "c12pipeline", i), P: map[string]int64{"n": perPipe}})
	}
	// wide parents (seed independent sizes; the random placement part depends on the seed)
	wide := []int64{4097, 4200, 8193, 16385, 33000, 65537, 65600, 70000}
	if tier == "thorough" {
		wide = append(wide, 4098, 5000, 8192, 12289, 20000, 32769, 40000, 50000, 61440, 65535, 65536, 65538, 66000, 69633)
	}
	for i, n := range wide {
		cs = append(cs, fw.Case{Kind: "wide", Seed: gen.Sub(seed, "c12wide", i), P: map[string]int64{"positions": n, "way": 0, "stamp": int64(i % 2)}})
		if i%3 == 0 { // OSM caps ways at 2000 nodes; the library does not, so ways are tried too
			cs = append(cs, fw.Case{Kind: "wide", Seed: gen.Sub(seed, "c12widew", i), P: map[string]int64{"positions": n, "way": 1, "stamp": int64((i + 1) % 2)}})
		}
	}
	if tier == "thorough" {
		cs = append(cs, fw.Case{Kind: "polygon", Variant: "race", Seed: gen.Sub(seed, "c12poly-race", 0), P: map[string]int64{"n": perPoly, "shift": 0}})
	}
	for i := 0; i < nCases; i++ {
		mode := "burst"
		switch i % 8 {
		case 5, 6:
			mode = "any"
		case 7:
			mode = "mixed"
		case 4:
			mode = "filter"
		}
		cs = append(cs, fw.Case{Kind: "random", Seed: gen.Sub(seed, "c12", i), P: map[string]int64{"n": per}, S: map[string]string{"mode": mode}})
	}
	return fw.Number(cs)
}

func init() {
	fw.Register(&fw.Prop{
		ID:    "C12",
		Level: "exploration",
		Rule: "each input (a generated history from the C11 generator biased to several versions of a child sharing one second, the same child at several indices, up to 16 versions per child, up to 14 children and more than 12 updates per parent version; " +
			"general and mixed-regime histories; 40% of the histories express their times in mixed time.Locations (same instants); plus the enumerated family (also with the shared second in rotating Locations): n-1 versions in one second after the parent x child at 1-4 indices, n=2..16, ways and relations, both regimes) " +
			"is annotated K=12 times on deep clones (eq.Clone) with a fresh recording datasource; oracles: all runs succeed or all fail; on success all canonical dumps (eq.Dump) are identical; " +
			"every update list of every run is ordered by index, then time, then version. The order of datasource history calls is recorded per run (map_orders_distinct counts distinct (input, order) pairs; " +
			"inputs whose 12 runs all saw one order are counted as not exercising map order). Signature = (parent kind, regime, threshold, #parents, #children, outcome, one/several map orders, >12 updates, versions sharing index and second).",
		Assumptions: []string{
			"when the runs fail, only 'all fail' is asserted: which inconsistency is reported first, and how far the input was annotated before the error, may depend on map order",
			"map iteration orders are sampled by repetition (12 runs); orders that did not occur are not covered",
			"equal timestamps are compared as instants; a list ordered by (index, time) whose equal-(index,time) runs have non-decreasing versions is accepted whatever the order of other fields",
		},
		Cases:           c12Cases,
		Exec:            c12Exec,
		RaceIsViolation: true,
	})
}
