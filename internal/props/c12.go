package props

import (
	"fmt"

	"github.com/paulmach/osm"

	"verif/internal/eq"
	"verif/internal/fw"
	"verif/internal/gen"
	"verif/internal/hist"
)

// C12 — annotation is deterministic and orders updates by index, time, version.
//
// Monitor shape: each generated input is annotated K = 12 times on deep clones; the recording
// datasource logs the order in which child histories are requested (that is the iteration
// order of the library's child-location map). Oracles: all runs succeed with identical
// canonical dumps or all fail; every update list is ordered by (index, time, version).

const c12K = 12

func c12Bucket(n int) string {
	switch {
	case n <= 1:
		return "1"
	case n == 2:
		return "2"
	}
	return "3+"
}

// c12Shape describes the failing parent version: the largest number of versions of one child
// that share a timestamp within one index, the largest number of indices one child sits at,
// and whether the list is longer than 12 (sort.Sort's insertion-sort cutoff).
func c12Shape(h *hist.H, i int, us osm.Updates) string {
	kind := "rel"
	if h.Way {
		kind = "way"
	}
	same := 0
	cnt := map[[2]int64]int{}
	for _, u := range us {
		k := [2]int64{int64(u.Index), u.Timestamp.Unix()}
		cnt[k]++
		if cnt[k] > same {
			same = cnt[k]
		}
	}
	occ := map[int]int{}
	maxOcc := 0
	for _, r := range h.Parents[i].Refs {
		occ[r.Child]++
		if occ[r.Child] > maxOcc {
			maxOcc = occ[r.Child]
		}
	}
	big := "updates<=12"
	if len(us) > 12 {
		big = "updates>12"
	}
	return fmt.Sprintf("%s/%s/same-second=%s/indices=%s/%s", kind, h.Regime, c12Bucket(same), c12Bucket(maxOcc), big)
}

// c12One annotates one input K times and evaluates the oracles. key is "" for generated
// inputs (the key is then built from the shape) or the enumerated input's own name.
func c12One(res *fw.Result, h *hist.H, inputID string, enumKey string) {
	var ways0 osm.Ways
	var rels0 osm.Relations
	if h.Way {
		ways0 = h.BuildWays()
	} else {
		rels0 = h.BuildRelations()
	}
	runs := make([]*hist.Run, c12K)
	dumps := make([]string, c12K)
	orders := map[string]bool{}
	nOK, nErr := 0, 0
	maxUpd, sameSecond := 0, 0
	detail := func(extra map[string]any) map[string]any {
		d := map[string]any{"history": h}
		for k, v := range extra {
			d[k] = v
		}
		return d
	}
	for k := 0; k < c12K; k++ {
		run := h.ExecuteOn(eq.Clone(ways0), eq.Clone(rels0))
		runs[k] = run
		res.Event(int64(run.NCalls))
		orders[run.Order] = true
		if run.Panic != "" {
			res.Violate("C12/panic", "annotation panicked: "+run.Panic, detail(nil))
			return
		}
		if run.Err != nil {
			nErr++
			continue
		}
		nOK++
		if h.Way {
			dumps[k] = eq.Dump(run.Ways)
		} else {
			dumps[k] = eq.Dump(run.Relations)
		}
	}
	for o := range orders {
		res.Put("map_orders", inputID+":"+o)
	}
	res.Add("inputs", 1)
	res.Add("runs", c12K)
	res.SetMax("map_orders_per_input", int64(len(orders)))
	if len(orders) > 1 {
		res.Add("inputs_with_several_map_orders", 1)
	} else {
		res.Add("inputs_not_exercising_map_order", 1)
	}
	kind := "rel"
	if h.Way {
		kind = "way"
	}
	outcome := "ok"
	switch {
	case nOK > 0 && nErr > 0:
		outcome = "split"
		res.Violate(fmt.Sprintf("C12/outcome-differs/%s/%s", kind, h.Regime),
			fmt.Sprintf("%d of %d runs on equal input succeeded and %d failed", nOK, c12K, nErr),
			detail(map[string]any{"first_error": fmt.Sprint(firstErr(runs))}))
	case nErr > 0:
		outcome = "all-fail"
		res.Add("inputs_all_runs_fail", 1)
	default:
		// identical results
		for k := 1; k < c12K; k++ {
			if dumps[k] != dumps[0] {
				i, us := c12FirstDiffering(h, runs[0], runs[k])
				key := enumKey
				if key == "" {
					key = c12Shape(h, i, us)
				}
				res.Violate("C12/nondeterministic/"+key,
					fmt.Sprintf("run %d differs from run 0 on equal input (map orders %q vs %q): %s", k, runs[0].Order, runs[k].Order, eq.Diff(dumps[0], dumps[k])),
					detail(map[string]any{"run0": runs[0].Observed(), "runK": runs[k].Observed()}))
				break
			}
		}
		// order of every update list (all runs: a scrambled list may appear only under some map orders)
		reported := false
		for k := 0; k < c12K && !reported; k++ {
			for i := range h.Parents {
				var us osm.Updates
				if h.Way {
					us = runs[k].Ways[i].Updates
				} else {
					us = runs[k].Relations[i].Updates
				}
				if len(us) > maxUpd {
					maxUpd = len(us)
				}
				cnt := map[[2]int64]int{}
				for _, u := range us {
					kk := [2]int64{int64(u.Index), u.Timestamp.Unix()}
					cnt[kk]++
					if cnt[kk] > sameSecond {
						sameSecond = cnt[kk]
					}
				}
				res.Add("update_lists_checked", 1)
				if f := hist.OrderFinding(us); f != "" {
					key := enumKey
					if key == "" {
						key = c12Shape(h, i, us)
					}
					res.Violate("C12/order/"+key,
						fmt.Sprintf("parent version %d, run %d: update list not ordered by (index, time, version): %s; list: %s", h.Parents[i].Version, k, f, hist.UpdatesText(us)),
						detail(map[string]any{"observed": runs[k].Observed()}))
					reported = true
					break
				}
			}
		}
	}
	res.SetMax("updates_per_parent", int64(maxUpd))
	res.SetMax("versions_sharing_index_and_second", int64(sameSecond))
	if maxUpd > 12 {
		res.Add("inputs_with_more_than_12_updates", 1)
	}
	if sameSecond > 1 {
		res.Add("inputs_with_same_second_versions_in_updates", 1)
	}
	ord := "1"
	if len(orders) > 1 {
		ord = "n"
	}
	big := "small"
	if maxUpd > 12 {
		big = "big"
	}
	res.Eval(fmt.Sprintf("%s/%s/eps%d/p%d/c%d/%s/orders=%s/%s/same=%s", kind, h.Regime, h.Eps, len(h.Parents), len(h.Children), outcome, ord, big, c12Bucket(sameSecond)))
}

func firstErr(runs []*hist.Run) error {
	for _, r := range runs {
		if r.Err != nil {
			return r.Err
		}
	}
	return nil
}

func c12FirstDiffering(h *hist.H, a, b *hist.Run) (int, osm.Updates) {
	for i := range h.Parents {
		if h.Way {
			if eq.Dump(a.Ways[i]) != eq.Dump(b.Ways[i]) {
				return i, a.Ways[i].Updates
			}
		} else if eq.Dump(a.Relations[i]) != eq.Dump(b.Relations[i]) {
			return i, a.Relations[i].Updates
		}
	}
	return 0, nil
}

func c12Exec(c fw.Case) *fw.Result {
	res := fw.NewResult()
	switch c.Kind {
	case "enum":
		reg := hist.Commit
		if c.Int("stamp") == 1 {
			reg = hist.Stamp
		}
		n, idx := int(c.Int("n")), int(c.Int("idx"))
		zones := c.Int("zones") == 1
		h := hist.BurstZ(c.Int("way") == 1, reg, n, idx, zones)
		kind := "rel"
		if h.Way {
			kind = "way"
		}
		zs := ""
		if zones {
			zs = "/mixed-time-zones"
		}
		c12One(res, h, fmt.Sprintf("enum-%s-%s-%d-%d%s", kind, reg, n, idx, zs), fmt.Sprintf("enum/%s/%s/versions-in-one-second=%d/indices=%d%s", kind, reg, n-1, idx, zs))
		res.Sample = map[string]any{"history": h}
	case "random":
		n := int(c.Int("n"))
		for k := 0; k < n; k++ {
			r := gen.New(gen.Sub(c.Seed, "c12h", k), "c12")
			reg := hist.Commit
			eps := hist.Thresholds[r.Intn(len(hist.Thresholds))]
			if r.Chance(0.5) {
				reg = hist.Stamp
			}
			p := hist.Params{Way: r.Bool(), Regime: reg, Eps: eps, Mode: c.Str("mode"), MaxParents: 4, MaxChildren: 8, MaxVers: 16}
			if p.Mode == "any" {
				p.MaxParents, p.MaxVers = 6, 10
			}
			if r.Chance(0.3) {
				// more than 8 distinct children: the library's child-location map then spans several
				// hash buckets and its iteration order is no longer just a rotation
				p.MaxChildren = 14
			}
			h := hist.Generate(r, p)
			if p.Mode == "burst" {
				// no error exits: determinism of complete results is what is being looked at
				h.IgnoreInc = r.Chance(0.7)
			}
			if c.Str("mode") == "mixed" {
				h = hist.Generate(r, hist.Params{Way: p.Way, Regime: hist.Commit, Eps: eps, Mode: "burst", MaxParents: 4, MaxChildren: 6, MaxVers: 12})
				h.Mixed = true
				h.MixSec = h.Parents[r.Intn(len(h.Parents))].Sec + r.Int64Range(-100, 100)
				h.IgnoreInc = r.Chance(0.7)
			}
			c12One(res, h, fmt.Sprintf("%x-%d", c.Seed, k), "")
			if k == 0 {
				res.Sample = map[string]any{"history": h}
			}
		}
	}
	return res
}

func c12Cases(tier string, seed uint64) []fw.Case {
	nCases, per := 24, int64(10)
	if tier == "thorough" {
		nCases, per = 1920, 50
	}
	var cs []fw.Case
	// enumerated: n versions (n-1 of them in one second, after the parent) x child at idx indices
	for _, way := range []int64{1, 0} {
		for _, stamp := range []int64{0, 1} {
			for _, idx := range []int64{1, 2, 3, 4} {
				for n := int64(2); n <= 16; n++ {
					if tier != "thorough" && way == 0 && n%2 == 1 {
						continue
					}
					cs = append(cs, fw.Case{Kind: "enum", P: map[string]int64{"way": way, "stamp": stamp, "n": n, "idx": idx}})
					if (n-1)*idx > 12 && (tier == "thorough" || n%3 == 0) {
						// the same input with the shared second expressed in rotating time.Locations
						cs = append(cs, fw.Case{Kind: "enum", P: map[string]int64{"way": way, "stamp": stamp, "n": n, "idx": idx, "zones": 1}})
					}
				}
			}
		}
	}
	for i := 0; i < nCases; i++ {
		mode := "burst"
		switch i % 8 {
		case 5, 6:
			mode = "any"
		case 7:
			mode = "mixed"
		}
		cs = append(cs, fw.Case{Kind: "random", Seed: gen.Sub(seed, "c12", i), P: map[string]int64{"n": per}, S: map[string]string{"mode": mode}})
	}
	return fw.Number(cs)
}

func init() {
	fw.Register(&fw.Prop{
		ID:    "C12",
		Level: "exploration",
		Rule: "each input (a generated history from the C11 generator biased to several versions of a child sharing one second, the same child at several indices, up to 16 versions per child, up to 14 children and more than 12 updates per parent version; " +
			"general and mixed-regime histories; 40% of the histories express their times in mixed time.Locations (same instants); plus the enumerated family (also with the shared second in rotating Locations): n-1 versions in one second after the parent x child at 1-4 indices, n=2..16, ways and relations, both regimes) " +
			"is annotated K=12 times on deep clones (eq.Clone) with a fresh recording datasource; oracles: all runs succeed or all fail; on success all canonical dumps (eq.Dump) are identical; " +
			"every update list of every run is ordered by index, then time, then version. The order of datasource history calls is recorded per run (map_orders_distinct counts distinct (input, order) pairs; " +
			"inputs whose 12 runs all saw one order are counted as not exercising map order). Signature = (parent kind, regime, threshold, #parents, #children, outcome, one/several map orders, >12 updates, versions sharing index and second).",
		Assumptions: []string{
			"when the runs fail, only 'all fail' is asserted: which inconsistency is reported first, and how far the input was annotated before the error, may depend on map order",
			"map iteration orders are sampled by repetition (12 runs); orders that did not occur are not covered",
			"equal timestamps are compared as instants; a list ordered by (index, time) whose equal-(index,time) runs have non-decreasing versions is accepted whatever the order of other fields",
		},
		Cases: c12Cases,
		Exec:  c12Exec,
	})
}
