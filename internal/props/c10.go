package props

import (
	"fmt"
	"sort"
	"strconv"
	"sync"

	"github.com/paulmach/osm"

	"verif/internal/fw"
	"verif/internal/gen"
)

// C10 — packed object/element/feature ids are lossless, ordered and parseable.
//
// Monitor shape: reference model evaluated on every swept input. The reference is the tuple
// (kind rank, ref, version) itself; the library's packing is only ever observed through its
// public constructors, accessors, String and Parse* functions and the three Sort helpers.

// user types embedding library elements (valid osm.Element implementations)
type c10MyNode struct {
	*osm.Node
	Note string
}
type c10MyWay struct{ *osm.Way }
type c10MyRelation struct{ *osm.Relation }

var c10Kinds = []osm.Type{osm.TypeBounds, osm.TypeNode, osm.TypeWay, osm.TypeRelation, osm.TypeChangeset, osm.TypeNote, osm.TypeUser}

func c10Rank(t osm.Type) int {
	for i, k := range c10Kinds {
		if k == t {
			return i
		}
	}
	return -1
}

func c10Refs(r *gen.R, nRandom int) []int64 {
	seen := map[int64]bool{}
	var out []int64
	add := func(v int64) {
		if v >= 0 && v < 1<<40 && !seen[v] {
			seen[v] = true
			out = append(out, v)
		}
	}
	add(0)
	add(1)
	add(2)
	for j := 1; j <= 40; j++ {
		add(1<<uint(j) - 1)
		add(1 << uint(j))
		add(1<<uint(j) + 1)
	}
	for i := 0; i < nRandom; i++ {
		bits := r.Range(1, 40)
		add(r.Int64Range(0, 1<<uint(bits)-1))
	}
	sort.Slice(out, func(i, j int) bool { return out[i] < out[j] })
	return out
}

func c10Versions(r *gen.R, nRandom int) []int {
	seen := map[int]bool{}
	var out []int
	for _, v := range []int{0, 1, 2, 255, 256, 32767, 32768, 65534, 65535} {
		seen[v] = true
		out = append(out, v)
	}
	for i := 0; i < nRandom; i++ {
		v := r.Intn(65536)
		if !seen[v] {
			seen[v] = true
			out = append(out, v)
		}
	}
	sort.Ints(out)
	return out
}

type c10Triple struct {
	kind osm.Type
	ref  int64
	ver  int
}

func c10Less(a, b c10Triple) bool {
	if ra, rb := c10Rank(a.kind), c10Rank(b.kind); ra != rb {
		return ra < rb
	}
	if a.ref != b.ref {
		return a.ref < b.ref
	}
	return a.ver < b.ver
}

func bitClass(v int64) string {
	n := 0
	for x := v; x > 0; x >>= 1 {
		n++
	}
	return strconv.Itoa(n)
}

func verClass(v int) string {
	switch {
	case v == 0:
		return "0"
	case v < 256:
		return "b1"
	case v < 32768:
		return "b2"
	case v < 65535:
		return "b2hi"
	}
	return "max"
}

// objectIDOf builds the object id through the public per-kind constructor.
func c10ObjectID(t c10Triple) osm.ObjectID {
	switch t.kind {
	case osm.TypeNode:
		return osm.NodeID(t.ref).ObjectID(t.ver)
	case osm.TypeWay:
		return osm.WayID(t.ref).ObjectID(t.ver)
	case osm.TypeRelation:
		return osm.RelationID(t.ref).ObjectID(t.ver)
	case osm.TypeChangeset:
		return osm.ChangesetID(t.ref).ObjectID()
	case osm.TypeNote:
		return osm.NoteID(t.ref).ObjectID()
	case osm.TypeUser:
		return osm.UserID(t.ref).ObjectID()
	case osm.TypeBounds:
		return (&osm.Bounds{}).ObjectID()
	}
	panic("kind")
}

func c10IsElement(k osm.Type) bool {
	return k == osm.TypeNode || k == osm.TypeWay || k == osm.TypeRelation
}

func c10CheckTriple(res *fw.Result, t c10Triple) {
	key := func(what string) string { return fmt.Sprintf("C10/%s/%s/%d/%d", what, t.kind, t.ref, t.ver) }
	elem := c10IsElement(t.kind)
	wantRef, wantVer := t.ref, t.ver
	if !elem {
		wantVer = 0 // these kinds have no version in their object id
	}
	if t.kind == osm.TypeBounds {
		wantRef = 0
	}
	oid := c10ObjectID(t)
	if oid.Type() != t.kind || oid.Ref() != wantRef || oid.Version() != wantVer {
		res.Violatef(key("object-decode"), "ObjectID of (%s,%d,%d) decodes to (%s,%d,%d)", t.kind, t.ref, t.ver, oid.Type(), oid.Ref(), oid.Version())
	}
	// string round trip
	s := oid.String()
	back, err := osm.ParseObjectID(s)
	if err != nil || back != oid {
		res.Violatef(key("object-string"), "ParseObjectID(%q) = %d, %v; want %d", s, back, err, oid)
	}
	// explicit textual form kind/ref:version
	txt := fmt.Sprintf("%s/%d:%d", t.kind, t.ref, t.ver)
	if p, err := osm.ParseObjectID(txt); err != nil || p != oid {
		res.Violatef(key("object-parse"), "ParseObjectID(%q) = %d, %v; want %d", txt, p, err, oid)
	}
	if t.ver == 0 || !elem {
		txt0 := fmt.Sprintf("%s/%d", t.kind, t.ref)
		if p, err := osm.ParseObjectID(txt0); err != nil || p != oid {
			res.Violatef(key("object-parse-nover"), "ParseObjectID(%q) = %d, %v; want %d", txt0, p, err, oid)
		}
	}
	res.Eval("obj/" + string(t.kind) + "/r" + bitClass(t.ref) + "/v" + verClass(t.ver))
	if !elem {
		// not an element: element and feature parsers must reject the kind
		if _, err := osm.ParseElementID(txt); err == nil {
			res.Violatef(key("element-parse-nonelement"), "ParseElementID(%q) accepted a non-element kind", txt)
		}
		if _, err := osm.ParseFeatureID(fmt.Sprintf("%s/%d", t.kind, t.ref)); err == nil {
			res.Violatef(key("feature-parse-nonelement"), "ParseFeatureID accepted kind %s", t.kind)
		}
		return
	}

	var fid osm.FeatureID
	var eid osm.ElementID
	var obj osm.Element
	switch t.kind {
	case osm.TypeNode:
		fid, eid = osm.NodeID(t.ref).FeatureID(), osm.NodeID(t.ref).ElementID(t.ver)
		obj = &osm.Node{ID: osm.NodeID(t.ref), Version: t.ver}
	case osm.TypeWay:
		fid, eid = osm.WayID(t.ref).FeatureID(), osm.WayID(t.ref).ElementID(t.ver)
		obj = &osm.Way{ID: osm.WayID(t.ref), Version: t.ver}
	case osm.TypeRelation:
		fid, eid = osm.RelationID(t.ref).FeatureID(), osm.RelationID(t.ref).ElementID(t.ver)
		obj = &osm.Relation{ID: osm.RelationID(t.ref), Version: t.ver}
	}
	if fid.Type() != t.kind || fid.Ref() != t.ref {
		res.Violatef(key("feature-decode"), "FeatureID decodes to (%s,%d)", fid.Type(), fid.Ref())
	}
	if eid.Type() != t.kind || eid.Ref() != t.ref || eid.Version() != t.ver {
		res.Violatef(key("element-decode"), "ElementID decodes to (%s,%d,%d)", eid.Type(), eid.Ref(), eid.Version())
	}
	// all conversion paths agree
	if eid.ObjectID() != oid || fid.ObjectID(t.ver) != oid || obj.ObjectID() != oid {
		res.Violatef(key("conv-object"), "object id conversion paths disagree: %d %d %d vs %d", eid.ObjectID(), fid.ObjectID(t.ver), obj.ObjectID(), oid)
	}
	if fid.ElementID(t.ver) != eid || obj.ElementID() != eid {
		res.Violatef(key("conv-element"), "element id conversion paths disagree")
	}
	if eid.FeatureID() != fid || obj.FeatureID() != fid {
		res.Violatef(key("conv-feature"), "feature id conversion paths disagree: %d %d vs %d", eid.FeatureID(), obj.FeatureID(), fid)
	}
	// typed extraction
	switch t.kind {
	case osm.TypeNode:
		if int64(eid.NodeID()) != t.ref || int64(fid.NodeID()) != t.ref {
			res.Violatef(key("typed"), "NodeID() extraction wrong")
		}
	case osm.TypeWay:
		if int64(eid.WayID()) != t.ref || int64(fid.WayID()) != t.ref {
			res.Violatef(key("typed"), "WayID() extraction wrong")
		}
	case osm.TypeRelation:
		if int64(eid.RelationID()) != t.ref || int64(fid.RelationID()) != t.ref {
			res.Violatef(key("typed"), "RelationID() extraction wrong")
		}
	}
	// member / way node paths
	switch t.kind {
	case osm.TypeNode:
		wn := osm.WayNode{ID: osm.NodeID(t.ref), Version: t.ver}
		if wn.ElementID() != eid || wn.FeatureID() != fid {
			res.Violatef(key("waynode"), "WayNode ids disagree")
		}
	}
	m := osm.Member{Type: t.kind, Ref: t.ref, Version: t.ver}
	if m.ElementID() != eid || m.FeatureID() != fid {
		res.Violatef(key("member"), "Member ids disagree")
	}
	// strings
	if p, err := osm.ParseElementID(eid.String()); err != nil || p != eid {
		res.Violatef(key("element-string"), "ParseElementID(%q) = %d, %v; want %d", eid.String(), p, err, eid)
	}
	if p, err := osm.ParseElementID(txt); err != nil || p != eid {
		res.Violatef(key("element-parse"), "ParseElementID(%q) = %d, %v; want %d", txt, p, err, eid)
	}
	if p, err := osm.ParseFeatureID(fid.String()); err != nil || p != fid {
		res.Violatef(key("feature-string"), "ParseFeatureID(%q) = %d, %v; want %d", fid.String(), p, err, fid)
	}
	if want := fmt.Sprintf("%s/%d", t.kind, t.ref); fid.String() != want {
		res.Violatef(key("feature-text"), "FeatureID.String() = %q want %q", fid.String(), want)
	}
	res.Eval("elem/" + string(t.kind) + "/r" + bitClass(t.ref) + "/v" + verClass(t.ver))
}

// c10Aliens are strings that are not ASCII digits; replace: substituted for one digit,
// otherwise inserted anywhere in the number (including before and after it).
var c10Aliens = []struct {
	class   string
	s       string
	replace bool
}{
	{"arabic-indic", "\u0663", true}, {"ext-arabic", "\u06f7", true}, {"devanagari", "\u0969", true},
	{"fullwidth", "\uff15", true}, {"bengali", "\u09ea", true}, {"thai", "\u0e52", true},
	{"math-bold", "\U0001d7d0", true}, {"superscript", "\u00b2", true}, {"roman", "\u2167", true},
	{"circled", "\u2460", true}, {"fraction", "\u00bd", true}, {"letter-o", "O", true}, {"letter-l", "l", true},
	{"tab", "\t", false}, {"newline", "\n", false}, {"cr", "\r", false}, {"space", " ", false},
	{"nbsp", "\u00a0", false}, {"ideographic-space", "\u3000", false}, {"zero-width", "\u200b", false},
	{"underscore", "_", false}, {"comma", ",", false}, {"dot", ".", false}, {"exponent", "e1", false},
	{"nul", "\x00", false}, {"bad-utf8", "\xff", false}, {"bom", "\ufeff", false}, {"minus-inside", "-", false},
}

var c10Malformed = []struct{ class, s string }{
	{"no-slash", "node"}, {"no-slash-num", "node123"}, {"empty", ""}, {"two-slash", "node/1/2"},
	{"two-slash-ver", "way/1/2:3"}, {"empty-ref", "node/"}, {"empty-ref-ver", "node/:3"},
	{"alpha-ref", "node/abc"}, {"alpha-ref-ver", "way/x1:2"}, {"alpha-ver", "node/1:x"},
	{"alpha-ver2", "relation/12:1a"}, {"three-colon", "node/1:2:3"}, {"unknown-kind", "nodes/1"},
	{"unknown-kind-ver", "area/1:1"}, {"empty-kind", "/1"}, {"empty-kind-ver", "/1:2"},
	{"upper-kind", "Node/1"}, {"space-kind", "node /1"}, {"float-ref", "node/1.5"},
	{"space-ref", "node/ 1"}, {"empty-ver", "node/1:"}, {"hex-ref", "way/0x10"},
}

func c10Exec(c fw.Case) *fw.Result {
	res := fw.NewResult()
	r := gen.New(c.Seed, "c10")
	nr, nv := int(c.Int("nrefs")), int(c.Int("nvers"))
	refs := c10Refs(r, nr)
	vers := c10Versions(r, nv)
	switch c.Kind {
	case "pack":
		kind := c10Kinds[c.Int("kind")]
		n := 0
		// the texts of many ids are also kept alive together (a list, map keys) and parsed
		// back only at the end: a text belongs to its id for good
		type kept struct {
			oid  osm.ObjectID
			text string
		}
		var texts []kept
		for _, ref := range refs {
			for _, v := range vers {
				c10CheckTriple(res, c10Triple{kind, ref, v})
				if len(texts) < 4000 {
					oid := c10ObjectID(c10Triple{kind, ref, v})
					texts = append(texts, kept{oid, oid.String()})
				}
				n++
			}
		}
		seenText := map[string]osm.ObjectID{}
		for _, k := range texts {
			if p, err := osm.ParseObjectID(k.text); err != nil || p != k.oid {
				res.Violatef("C10/"+string(kind)+"/kept-text", "the text %q obtained from ObjectID %d earlier now parses to %d, %v", k.text, k.oid, p, err)
				break
			}
			if o, dup := seenText[k.text]; dup && o != k.oid {
				res.Violatef("C10/"+string(kind)+"/kept-text-distinct", "distinct ids %d and %d have the same kept text %q", o, k.oid, k.text)
				break
			}
			seenText[k.text] = k.oid
		}
		res.Event(int64(n))
		res.Sample = map[string]any{"kind": kind, "refs": len(refs), "versions": len(vers), "first_refs": refs[:6], "last_refs": refs[len(refs)-3:]}
	case "order":
		// all element triples, sorted by the reference tuple order; the packed ids must be
		// strictly increasing along it (which decides the order claim for all pairs by
		// transitivity and also proves distinctness); plus explicit all-pairs on a window.
		var ts []c10Triple
		for _, k := range []osm.Type{osm.TypeNode, osm.TypeWay, osm.TypeRelation} {
			for _, ref := range refs {
				for _, v := range vers {
					ts = append(ts, c10Triple{k, ref, v})
				}
			}
		}
		sort.Slice(ts, func(i, j int) bool { return c10Less(ts[i], ts[j]) })
		for i := 1; i < len(ts); i++ {
			a, b := ts[i-1], ts[i]
			if !(c10ObjectID(a) < c10ObjectID(b)) {
				res.Violatef(fmt.Sprintf("C10/order/%v<%v", a, b), "object id order differs from tuple order: %v=%d, %v=%d", a, c10ObjectID(a), b, c10ObjectID(b))
			}
			ea, eb := osm.ElementID(c10ObjectID(a)), osm.ElementID(c10ObjectID(b))
			if !(ea < eb) {
				res.Violatef(fmt.Sprintf("C10/eorder/%v<%v", a, b), "element id order differs from tuple order")
			}
			if ea.FeatureID() > eb.FeatureID() {
				res.Violatef(fmt.Sprintf("C10/forder/%v<%v", a, b), "feature id order differs from tuple order")
			}
			res.Eval("")
		}
		// explicit pairs in a random window
		w := r.Perm(len(ts))
		if len(w) > 1500 {
			w = w[:1500]
		}
		pairs := 0
		for _, i := range w {
			for _, j := range w {
				a, b := ts[i], ts[j]
				if (c10ObjectID(a) < c10ObjectID(b)) != c10Less(a, b) {
					res.Violatef(fmt.Sprintf("C10/pair/%v,%v", a, b), "pair order mismatch")
				}
				pairs++
			}
		}
		res.Add("pairs_compared", int64(pairs))
		res.Event(int64(pairs + len(ts)))
		res.Eval("order/adjacent")
		res.Eval("order/pairs")
		// distinctness across all seven kinds
		seen := map[osm.ObjectID]c10Triple{}
		for _, k := range c10Kinds {
			for _, ref := range refs {
				for _, v := range vers {
					t := c10Triple{k, ref, v}
					if !c10IsElement(k) {
						t.ver = 0
					}
					if k == osm.TypeBounds {
						t.ref = 0
					}
					id := c10ObjectID(t)
					if prev, ok := seen[id]; ok && prev != t {
						res.Violatef(fmt.Sprintf("C10/collision/%v,%v", prev, t), "two distinct inputs share object id %d", id)
					}
					seen[id] = t
				}
			}
		}
		res.Add("ids_checked_distinct", int64(len(seen)))
		res.Eval("distinct/allkinds")
		res.Sample = map[string]any{"triples": len(ts), "pairs": pairs, "distinct_ids": len(seen)}
	case "sort":
		var ts []c10Triple
		for i := 0; i < int(c.Int("n")); i++ {
			k := []osm.Type{osm.TypeNode, osm.TypeWay, osm.TypeRelation}[r.Intn(3)]
			// few refs and versions so that ties on (kind, ref) are frequent
			ts = append(ts, c10Triple{k, refs[r.Intn(len(refs))], vers[r.Intn(len(vers))]})
		}
		// a third of the elements are user types that embed a library element (embedding
		// promotes the unexported marker method, so they are valid osm.Elements): the sort must
		// order by what ElementID() says, whatever the dynamic type
		wrapAt := func(i int) bool { return c.Int("wrap") == 1 && i%3 == 1 }
		// input arrangement: a sort may shortcut on what its input looks like
		arr := []string{"random", "sorted", "reversed", "history", "few-swaps", "by-version", "sorted-but-last"}[int(c.Int("arr"))%7]
		switch arr {
		case "sorted":
			sort.SliceStable(ts, func(i, j int) bool { return c10Less(ts[i], ts[j]) })
		case "reversed":
			sort.SliceStable(ts, func(i, j int) bool { return c10Less(ts[j], ts[i]) })
		case "history":
			// in order by kind and ref (as a history file is), the versions of one feature
			// in arbitrary order
			sort.SliceStable(ts, func(i, j int) bool {
				a, b := ts[i], ts[j]
				a.ver, b.ver = 0, 0
				return c10Less(a, b)
			})
		case "few-swaps":
			sort.SliceStable(ts, func(i, j int) bool { return c10Less(ts[i], ts[j]) })
			for k := 0; k < 1+len(ts)/50 && len(ts) > 1; k++ {
				i := r.Intn(len(ts) - 1)
				ts[i], ts[i+1] = ts[i+1], ts[i]
			}
		case "by-version":
			sort.SliceStable(ts, func(i, j int) bool { return ts[i].ver < ts[j].ver })
		case "sorted-but-last":
			sort.SliceStable(ts, func(i, j int) bool { return c10Less(ts[i], ts[j]) })
			if len(ts) > 1 {
				ts[0], ts[len(ts)-1] = ts[len(ts)-1], ts[0]
			}
		}
		res.Eval("sort-arrangement/" + arr)
		eids := make(osm.ElementIDs, len(ts))
		fids := make(osm.FeatureIDs, len(ts))
		els := make(osm.Elements, len(ts))
		for i, t := range ts {
			eids[i] = osm.ElementID(c10ObjectID(t))
			fids[i] = eids[i].FeatureID()
			switch t.kind {
			case osm.TypeNode:
				els[i] = &osm.Node{ID: osm.NodeID(t.ref), Version: t.ver}
				if wrapAt(i) {
					els[i] = &c10MyNode{Node: els[i].(*osm.Node), Note: "mine"}
				}
			case osm.TypeWay:
				els[i] = &osm.Way{ID: osm.WayID(t.ref), Version: t.ver}
				if wrapAt(i) {
					els[i] = &c10MyWay{Way: els[i].(*osm.Way)}
				}
			default:
				els[i] = &osm.Relation{ID: osm.RelationID(t.ref), Version: t.ver}
				if wrapAt(i) {
					els[i] = c10MyRelation{Relation: els[i].(*osm.Relation)}
				}
			}
		}
		// the collection helpers must agree with the per-element ids (before sorting)
		if ids := els.ElementIDs(); len(ids) == len(eids) {
			for i := range ids {
				if ids[i] != eids[i] {
					res.Violatef("C10/helpers/Elements.ElementIDs", "Elements.ElementIDs()[%d] = %v, element says %v", i, ids[i], eids[i])
					break
				}
			}
		} else if len(ts) > 0 {
			res.Violatef("C10/helpers/Elements.ElementIDs", "Elements.ElementIDs() has %d entries for %d elements", len(ids), len(eids))
		}
		if ids := els.FeatureIDs(); len(ids) == len(fids) {
			for i := range ids {
				if ids[i] != fids[i] {
					res.Violatef("C10/helpers/Elements.FeatureIDs", "Elements.FeatureIDs()[%d] = %v, element says %v", i, ids[i], fids[i])
					break
				}
			}
		}
		// per-kind collections: SortByIDVersion orders by id, then version
		var ns osm.Nodes
		var ws osm.Ways
		var rs osm.Relations
		for _, t := range ts {
			switch t.kind {
			case osm.TypeNode:
				ns = append(ns, &osm.Node{ID: osm.NodeID(t.ref), Version: t.ver})
			case osm.TypeWay:
				ws = append(ws, &osm.Way{ID: osm.WayID(t.ref), Version: t.ver})
			default:
				rs = append(rs, &osm.Relation{ID: osm.RelationID(t.ref), Version: t.ver})
			}
		}
		ns.SortByIDVersion()
		ws.SortByIDVersion()
		rs.SortByIDVersion()
		for i := 1; i < len(ns); i++ {
			if ns[i-1].ID > ns[i].ID || (ns[i-1].ID == ns[i].ID && ns[i-1].Version > ns[i].Version) {
				res.Violatef("C10/sort-nodes", "Nodes.SortByIDVersion: position %d (%d v%d) before (%d v%d)", i, ns[i-1].ID, ns[i-1].Version, ns[i].ID, ns[i].Version)
				break
			}
		}
		for i := 1; i < len(ws); i++ {
			if ws[i-1].ID > ws[i].ID || (ws[i-1].ID == ws[i].ID && ws[i-1].Version > ws[i].Version) {
				res.Violatef("C10/sort-ways", "Ways.SortByIDVersion out of order at %d", i)
				break
			}
		}
		for i := 1; i < len(rs); i++ {
			if rs[i-1].ID > rs[i].ID || (rs[i-1].ID == rs[i].ID && rs[i-1].Version > rs[i].Version) {
				res.Violatef("C10/sort-relations", "Relations.SortByIDVersion out of order at %d", i)
				break
			}
		}
		o := &osm.OSM{Nodes: ns, Ways: ws, Relations: rs}
		all := o.ElementIDs()
		if len(all) != len(ns)+len(ws)+len(rs) {
			res.Violatef("C10/helpers/OSM.ElementIDs", "OSM.ElementIDs() has %d entries for %d elements", len(all), len(ns)+len(ws)+len(rs))
		}
		nn, nw, nr := all.Counts()
		if nn != len(ns) || nw != len(ws) || nr != len(rs) {
			res.Violatef("C10/helpers/ElementIDs.Counts", "ElementIDs.Counts() = %d,%d,%d for %d nodes, %d ways, %d relations", nn, nw, nr, len(ns), len(ws), len(rs))
		}
		fn, fw2, fr := o.FeatureIDs().Counts()
		if fn != len(ns) || fw2 != len(ws) || fr != len(rs) {
			res.Violatef("C10/helpers/FeatureIDs.Counts", "FeatureIDs.Counts() = %d,%d,%d", fn, fw2, fr)
		}
		// a sort permutes: every object that went in comes out, exactly once (objects that
		// happen to carry the same kind, ref and version are still different objects)
		before := map[osm.Element]int{}
		for _, e := range els {
			before[e]++
		}
		eids.Sort()
		fids.Sort()
		els.Sort()
		after := map[osm.Element]int{}
		for _, e := range els {
			after[e]++
		}
		for e, n := range before {
			if after[e] != n {
				res.Violatef(fmt.Sprintf("C10/sort-els-not-a-permutation/%d", len(ts)), "Elements.Sort: object %v (%p) occurs %d times after the sort, %d before", e.ElementID(), e, after[e], n)
				break
			}
		}
		if len(after) != len(before) {
			res.Violatef(fmt.Sprintf("C10/sort-els-not-a-permutation/%d", len(ts)), "Elements.Sort: %d distinct objects after the sort, %d before", len(after), len(before))
		}
		sort.SliceStable(ts, func(i, j int) bool { return c10Less(ts[i], ts[j]) })
		for i, t := range ts {
			if eids[i].Type() != t.kind || eids[i].Ref() != t.ref || eids[i].Version() != t.ver {
				res.Violatef(fmt.Sprintf("C10/sort-eids/%d", len(ts)), "ElementIDs.Sort position %d is (%s,%d,%d), want %v", i, eids[i].Type(), eids[i].Ref(), eids[i].Version(), t)
				break
			}
			e := els[i].ElementID()
			if e.Type() != t.kind || e.Ref() != t.ref || e.Version() != t.ver {
				res.Violatef(fmt.Sprintf("C10/sort-els/%d", len(ts)), "Elements.Sort position %d wrong", i)
				break
			}
			if fids[i].Type() != t.kind || fids[i].Ref() != t.ref {
				res.Violatef(fmt.Sprintf("C10/sort-fids/%d", len(ts)), "FeatureIDs.Sort position %d wrong", i)
				break
			}
		}
		res.Event(int64(3 * len(ts)))
		res.Eval(fmt.Sprintf("sort/n%s", bitClass(int64(len(ts)))))
		if len(ts) > 0 {
			res.Sample = map[string]any{"n": len(ts), "first": fmt.Sprint(ts[0]), "last": fmt.Sprint(ts[len(ts)-1])}
		}
	case "sort-concurrent":
		// independent slices sorted at the same time on several goroutines: the sorts share
		// nothing the caller can see, so each must come out right
		G := int(c.Int("goroutines"))
		rounds := int(c.Int("rounds"))
		type bad struct{ key, msg string }
		bads := make([][]bad, G)
		var wg sync.WaitGroup
		start := make(chan struct{})
		for g := 0; g < G; g++ {
			wg.Add(1)
			go func(g int) {
				defer wg.Done()
				gr := gen.New(gen.Sub(c.Seed, "c10conc", g), "g")
				<-start
				for round := 0; round < rounds; round++ {
					n := 2 + gr.Intn(300)
					ts := make([]c10Triple, n)
					els := make(osm.Elements, n)
					eids := make(osm.ElementIDs, n)
					fids := make(osm.FeatureIDs, n)
					for i := range ts {
						k := []osm.Type{osm.TypeNode, osm.TypeWay, osm.TypeRelation}[gr.Intn(3)]
						ts[i] = c10Triple{k, int64(gr.Intn(40)), gr.Intn(5)}
						eids[i] = osm.ElementID(c10ObjectID(ts[i]))
						fids[i] = eids[i].FeatureID()
						switch k {
						case osm.TypeNode:
							els[i] = &osm.Node{ID: osm.NodeID(ts[i].ref), Version: ts[i].ver}
						case osm.TypeWay:
							els[i] = &osm.Way{ID: osm.WayID(ts[i].ref), Version: ts[i].ver}
						default:
							els[i] = &osm.Relation{ID: osm.RelationID(ts[i].ref), Version: ts[i].ver}
						}
					}
					els.Sort()
					eids.Sort()
					fids.Sort()
					sort.SliceStable(ts, func(i, j int) bool { return c10Less(ts[i], ts[j]) })
					for i, t := range ts {
						e := els[i].ElementID()
						if e.Type() != t.kind || e.Ref() != t.ref || e.Version() != t.ver {
							bads[g] = append(bads[g], bad{"C10/sort-concurrent/els", fmt.Sprintf("goroutine %d round %d: Elements.Sort position %d of %d is %v, want %v", g, round, i, n, e, t)})
							break
						}
						if eids[i].Type() != t.kind || eids[i].Ref() != t.ref || eids[i].Version() != t.ver {
							bads[g] = append(bads[g], bad{"C10/sort-concurrent/eids", fmt.Sprintf("goroutine %d round %d: ElementIDs.Sort position %d wrong", g, round, i)})
							break
						}
						if fids[i].Type() != t.kind || fids[i].Ref() != t.ref {
							bads[g] = append(bads[g], bad{"C10/sort-concurrent/fids", fmt.Sprintf("goroutine %d round %d: FeatureIDs.Sort position %d wrong", g, round, i)})
							break
						}
					}
				}
			}(g)
		}
		close(start)
		wg.Wait()
		for _, bs := range bads {
			for _, b := range bs {
				res.Violatef(b.key, "%s", b.msg)
			}
		}
		res.Event(int64(G * rounds))
		res.Add("concurrent_sorts", int64(3*G*rounds))
		res.Eval(fmt.Sprintf("sort-concurrent/g%d", G))
	case "reject":
		for _, m := range c10Malformed {
			if id, err := osm.ParseObjectID(m.s); err == nil {
				res.Violatef("C10/reject-object/"+m.class, "ParseObjectID(%q) accepted malformed text as %v", m.s, id)
			}
			if id, err := osm.ParseElementID(m.s); err == nil {
				res.Violatef("C10/reject-element/"+m.class, "ParseElementID(%q) accepted malformed text as %v", m.s, id)
			}
			if id, err := osm.ParseFeatureID(m.s); err == nil {
				res.Violatef("C10/reject-feature/"+m.class, "ParseFeatureID(%q) accepted malformed text as %v", m.s, id)
			}
			res.Eval("reject/" + m.class)
		}
		// a feature id has no version part
		for _, s := range []string{"node/1:2", "way/5:-"} {
			if id, err := osm.ParseFeatureID(s); err == nil {
				res.Violatef("C10/reject-feature/versioned", "ParseFeatureID(%q) accepted %v", s, id)
			}
		}
		// generated mutations of valid strings: drop / duplicate a separator, inject a letter
		for i := 0; i < 400; i++ {
			k := []osm.Type{osm.TypeNode, osm.TypeWay, osm.TypeRelation}[r.Intn(3)]
			ref := refs[r.Intn(len(refs))]
			v := vers[r.Intn(len(vers))]
			valid := fmt.Sprintf("%s/%d:%d", k, ref, v)
			var mut, class string
			switch r.Intn(5) {
			case 0:
				class, mut = "gen-noslash", fmt.Sprintf("%s%d:%d", k, ref, v)
			case 1:
				class, mut = "gen-dupslash", fmt.Sprintf("%s//%d:%d", k, ref, v)
			case 2:
				class, mut = "gen-letter-ref", fmt.Sprintf("%s/%d%c:%d", k, ref, 'a'+rune(r.Intn(26)), v)
			case 3:
				class, mut = "gen-letter-ver", fmt.Sprintf("%s/%d:%c%d", k, ref, 'a'+rune(r.Intn(26)), v)
			default:
				class, mut = "gen-kind", fmt.Sprintf("%s%c/%d:%d", k, 'a'+rune(r.Intn(26)), ref, v)
			}
			if id, err := osm.ParseObjectID(mut); err == nil {
				res.Violatef("C10/reject-object/"+class, "ParseObjectID(%q) (mutated from %q) accepted as %v", mut, valid, id)
			}
			if class == "gen-letter-ref" || class == "gen-letter-ver" {
				ok := c10Kinds[r.Intn(len(c10Kinds))]
				omut := string(ok) + mut[len(string(k)):]
				if id, err := osm.ParseObjectID(omut); err == nil {
					res.Violatef("C10/reject-object/"+class+"/"+string(ok), "ParseObjectID(%q) accepted as %v", omut, id)
				}
			}
			if id, err := osm.ParseElementID(mut); err == nil {
				res.Violatef("C10/reject-element/"+class, "ParseElementID(%q) accepted as %v", mut, id)
			}
			res.Eval("reject/" + class)
		}
		// one character of the number replaced by, or the number extended with, something that
		// is not an ASCII digit: decimal digits of other scripts, other numeric runes, white
		// space of every width, digit separators, exponents, NUL, broken UTF-8
		for i := 0; i < 300; i++ {
			k := []osm.Type{osm.TypeNode, osm.TypeWay, osm.TypeRelation}[r.Intn(3)]
			refS := fmt.Sprint(refs[r.Intn(len(refs))])
			verS := fmt.Sprint(vers[r.Intn(len(vers))])
			al := c10Aliens[r.Intn(len(c10Aliens))]
			inVer := r.Intn(2) == 0
			tgt := &refS
			if inVer {
				tgt = &verS
			}
			pos := r.Intn(len(*tgt) + 1)
			if al.replace && len(*tgt) > 0 {
				pos = r.Intn(len(*tgt))
				*tgt = (*tgt)[:pos] + al.s + (*tgt)[pos+1:]
			} else {
				if al.s == "-" && pos == 0 {
					pos = len(*tgt) // a leading sign is grey zone, a trailing one is malformed
				}
				*tgt = (*tgt)[:pos] + al.s + (*tgt)[pos:]
			}
			class := "gen-alien-" + al.class
			mut := fmt.Sprintf("%s/%s:%s", k, refS, verS)
			if id, err := osm.ParseObjectID(mut); err == nil {
				res.Violatef("C10/reject-object/"+class, "ParseObjectID(%q) accepted as %v", mut, id)
			}
			// the same malformed numbers under the kinds that are no elements: an object id of
			// a changeset, note, user or bounds has the same kind/ref[:version] shape
			ok := c10Kinds[r.Intn(len(c10Kinds))]
			omut := fmt.Sprintf("%s/%s:%s", ok, refS, verS)
			if id, err := osm.ParseObjectID(omut); err == nil {
				res.Violatef("C10/reject-object/"+class+"/"+string(ok), "ParseObjectID(%q) accepted as %v", omut, id)
			}
			if id, err := osm.ParseElementID(mut); err == nil {
				res.Violatef("C10/reject-element/"+class, "ParseElementID(%q) accepted as %v", mut, id)
			}
			if !inVer {
				fm := fmt.Sprintf("%s/%s", k, refS)
				if id, err := osm.ParseFeatureID(fm); err == nil {
					res.Violatef("C10/reject-feature/"+class, "ParseFeatureID(%q) accepted as %v", fm, id)
				}
				if id, err := osm.ParseObjectID(fm); err == nil {
					res.Violatef("C10/reject-object/"+class, "ParseObjectID(%q) accepted as %v", fm, id)
				}
			}
			res.Eval("reject/" + class)
		}
		// grey zone (signs, out-of-range numerals): executed, must not panic, not asserted
		for _, s := range []string{"node/-1", "node/+1", "node/1:-1", "node/1:65536", "node/1099511627776", "way/9223372036854775807:1", "node/1:+3"} {
			osm.ParseObjectID(s)
			osm.ParseElementID(s)
			osm.ParseFeatureID(s)
			res.Add("grey_zone_inputs_run", 1)
		}
		res.Event(int64(len(c10Malformed) + 400))
		res.Sample = map[string]any{"malformed_examples": []string{c10Malformed[0].s, c10Malformed[3].s, c10Malformed[9].s}}
	}
	return res
}

func init() {
	fw.Register(&fw.Prop{
		ID:    "C10",
		Level: "exploration",
		Rule: "sweep of (kind, ref, version): refs 0,1,2 and 2^j-1,2^j,2^j+1 for j=1..40 (<2^40) plus PRNG refs, versions at every byte/sign boundary plus PRNG versions, all seven kinds; " +
			"order decided for all pairs by tuple-sorting and checking strict increase, plus explicit pairs; Sort helpers against an independent tuple sort (and as a permutation of the very objects that went in; and on 8 goroutines sorting independent slices at once, plain and race builds) on inputs in seven arrangements (random, sorted, reversed, history order with shuffled versions, a few adjacent swaps, by version, sorted but for the ends); malformed strings from a fixed table and a mutation grammar (separators, letters, and 28 kinds of non-ASCII-digit characters substituted into or inserted around the numbers: digits of other scripts, other numeric runes, white space of every width, separators, exponents, NUL, broken UTF-8). " +
			"A signature is (id family, kind, bit length of ref, version byte class) or (sort size class) or (malformed class); distinct_nontrivial counts distinct signatures.",
		Assumptions: []string{
			"changeset, note, user and bounds object ids carry no version (their public constructors take none); version is compared as 0 for them, and bounds has the single ref 0",
			"signs, leading '+' and out-of-range numerals in id strings are a grey zone the property does not speak about: run, not asserted",
		},
		Cases: func(tier string, seed uint64) []fw.Case {
			nr, nv, sorts := int64(40), int64(8), 40
			if tier == "thorough" {
				nr, nv, sorts = 3000, 150, 6000
			}
			var cs []fw.Case
			for k := range c10Kinds {
				cs = append(cs, fw.Case{Kind: "pack", Seed: gen.Sub(seed, "c10refs", 0), P: map[string]int64{"kind": int64(k), "nrefs": nr, "nvers": nv}})
			}
			onr, onv := nr, nv
			if tier == "thorough" {
				onr, onv = 600, 40
			}
			cs = append(cs, fw.Case{Kind: "order", Seed: gen.Sub(seed, "c10refs", 0), P: map[string]int64{"nrefs": onr, "nvers": onv}})
			for i := 0; i < sorts; i++ {
				n := int64(2 + (i*7)%60)
				if i%10 == 9 {
					n = 500
				}
				if i%20 == 13 {
					n = int64(2048 + (i*37)%3000) // beyond any small-slice special case of a sort
				}
				cs = append(cs, fw.Case{Kind: "sort", Seed: gen.Sub(seed, "c10sort", i), P: map[string]int64{"n": n, "nrefs": 3, "nvers": 2, "arr": int64(i / 2), "wrap": int64(i % 4 / 3)}})
			}
			for i, v := range []string{"plain", "race"} {
				cs = append(cs, fw.Case{Kind: "sort-concurrent", Variant: v, Seed: gen.Sub(seed, "c10conc", i), P: map[string]int64{"goroutines": 8, "rounds": int64(150 - 100*i)}})
			}
			cs = append(cs, fw.Case{Kind: "reject", Seed: gen.Sub(seed, "c10rej", 0), P: map[string]int64{"nrefs": 10, "nvers": 5}})
			return fw.Number(cs)
		},
		Exec: c10Exec,
	})
}
