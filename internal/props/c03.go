package props

import (
	"fmt"
	"sort"
	"strings"
	"sync"

	"github.com/paulmach/osm"

	"verif/internal/eq"
	"verif/internal/fw"
	"verif/internal/gen"
	"verif/internal/mon"
	"verif/internal/xmlw"
)

// C03 — OSM XML decoding is faithful; the streaming scan equals the whole-document decode.
//
// Monitor shape: reference model. The independent writer (internal/xmlw) serialises a document
// *model* (osm structs as data carriers plus explicit document order) with layout noise; the
// oracle compares (1) xml.Unmarshal into osm.OSM / osm.Change / osm.Diff with what the model
// says the document contains, (2) the object sequence osmxml.Scanner delivers with the
// model's flat document order, and (3) the two decoders with each other, object by object,
// per container and kind.

var c03Roots = []string{"osm", "osmChange", "diff"}

// c03Check runs c03Run and attaches to every violation the smallest systematic document (one
// object with one optional part, no noise) that produces the same violation key, if any.
func c03Check(res *fw.Result, d *xmlw.Doc, text string, chunk int, detail map[string]any) {
	first := len(res.Violations)
	c03Run(res, d, text, chunk, detail)
	for i := first; i < len(res.Violations); i++ {
		if m, ok := res.Violations[i].Detail.(map[string]any); ok {
			if min := c03Minimal(d.Kind, res.Violations[i].Key); min != nil {
				m["minimal_input_with_same_key"] = min
			}
		}
	}
}

var (
	c03MinMu    sync.Mutex
	c03MinCache = map[string]map[string]any{}
)

// c03Minimal is memoised per key: a failing library produces the same key many times.
func c03Minimal(root, key string) map[string]any {
	c03MinMu.Lock()
	defer c03MinMu.Unlock()
	if m, ok := c03MinCache[root+"|"+key]; ok {
		return m
	}
	m := c03MinimalSearch(root, key)
	c03MinCache[root+"|"+key] = m
	return m
}

func c03MinimalSearch(root, key string) map[string]any {
	for _, kind := range xmlw.ObjectKinds {
		if root == "diff" && !(kind == "node" || kind == "way" || kind == "relation" || kind == "changeset") {
			continue
		}
		for _, f := range xmlw.Features(kind) {
			d := c03FeatureDoc(1, root, kind, f, "only")
			text, _, _, _ := d.Render(gen.New(1, "c03render"), xmlw.Noise{})
			tmp := fw.NewResult()
			c03Run(tmp, d, text, 0, nil)
			for _, viol := range tmp.Violations {
				if viol.Key == key {
					return map[string]any{"only_populated": f, "xml": text, "what": viol.What}
				}
			}
		}
	}
	return nil
}

// c03Run runs the three comparisons for one document; detail is attached to every violation.
func c03Run(res *fw.Result, d *xmlw.Doc, text string, chunk int, detail map[string]any) {
	data := []byte(text)
	root := d.Kind
	key := "C03/" + root
	flat := d.Flat()
	det := func(extra map[string]any) map[string]any {
		m := map[string]any{"xml": xmlTrim(text, 6000)}
		for k, v := range detail {
			m[k] = v
		}
		for k, v := range extra {
			m[k] = v
		}
		return m
	}

	// (1) whole-document decode
	var whole any
	var wantWhole any
	var err error
	var pan string
	switch root {
	case "osm":
		got := &osm.OSM{}
		err, pan = xmlUnmarshal(data, got)
		whole, wantWhole = got, d.ExpectOSM()
	case "osmChange":
		got := &osm.Change{}
		err, pan = xmlUnmarshal(data, got)
		whole, wantWhole = got, d.ExpectChange()
	case "diff":
		got := &osm.Diff{}
		err, pan = xmlUnmarshal(data, got)
		whole, wantWhole = got, d.ExpectDiff()
	}
	wholeOK := false
	switch {
	case pan != "":
		res.Violate(key+"/unmarshal/panic", "xml.Unmarshal panicked on a well-formed document", det(map[string]any{"panic": xmlTrim(pan, 3000)}))
	case err != nil:
		res.Violate(key+"/unmarshal/error", fmt.Sprintf("xml.Unmarshal of a well-formed %s document failed: %v", root, err), det(nil))
	default:
		w, g := eq.Dump(xmlNorm(wantWhole)), eq.Dump(xmlNorm(whole))
		if w != g {
			path, class := xmlFirstDiff(xmlNorm(wantWhole), xmlNorm(whole))
			res.Violate(key+"/unmarshal/"+class, fmt.Sprintf("whole-document decode differs from the document at %s: %s", path, eq.Diff(w, g)),
				det(map[string]any{"want": xmlTrim(w, 4000), "got": xmlTrim(g, 4000)}))
		} else {
			wholeOK = true
		}
	}
	res.Event(1)

	// (2) streaming scan against the model's document order
	// ... driven in one of six legal consumer styles chosen by the text (deterministic)
	style := (len(data)/7 + int(data[len(data)/3])) % len(xmlConsumerStyles)
	rd := mon.NewReader(data)
	rd.Chunk = chunk
	sc := xmlScanStyled(rd, style, len(data))
	objs, skipped, serr, span := sc.Objs, sc.Skipped, sc.Err, sc.Pan
	res.Event(int64(len(objs)))
	res.Add("scanner_consumer_"+xmlConsumerStyles[style], 1)
	detail = xmlWith(detail, "consumer", xmlConsumerStyles[style])
	for _, p := range sc.Proto {
		res.Violate(key+"/scanner/protocol", p, det(nil))
	}
	scanOK := false
	switch {
	case span != "":
		res.Violate(key+"/scanner/panic", "osmxml.Scanner panicked on a well-formed document", det(map[string]any{"panic": xmlTrim(span, 3000)}))
	case serr != nil:
		res.Violate(key+"/scanner/error", fmt.Sprintf("scanner stopped with error %v after %d of %d objects", serr, len(objs), len(flat)), det(nil))
	case len(objs) != len(flat):
		res.Violate(key+"/scanner/count", fmt.Sprintf("scanner delivered %d objects, the document holds %d (%s vs %s)", len(objs), len(flat),
			c03Kinds(objs), c03FlatKinds(flat)), det(nil))
	default:
		scanOK = true
		for i, o := range objs {
			if skipped[i] {
				continue
			}
			want := flat[i].Obj
			if xmlObjKind(o) != xmlObjKind(want) {
				scanOK = false
				res.Violate(key+"/scanner/order", fmt.Sprintf("object %d delivered by the scanner is a %s, document order has a %s (%s vs %s)", i,
					xmlObjKind(o), xmlObjKind(want), c03Kinds(objs), c03FlatKinds(flat)), det(nil))
				break
			}
			w, g := eq.Dump(xmlNorm(want)), eq.Dump(xmlNorm(o))
			if w != g {
				scanOK = false
				path, class := xmlFirstDiff(xmlNorm(want), xmlNorm(o))
				res.Violate(key+"/scanner/"+class, fmt.Sprintf("object %d (%s) delivered by the scanner differs from the document at %s: %s", i,
					xmlObjKind(want), path, eq.Diff(w, g)), det(map[string]any{"want": xmlTrim(w, 3000), "got": xmlTrim(g, 3000)}))
				break
			}
		}
	}

	// (3) the two decoders agree with each other, per container and kind. The model only
	// supplies the container each position of the document order belongs to.
	if err == nil && pan == "" && serr == nil && span == "" && len(objs) == len(flat) {
		counter := map[string]int{}
		for i, o := range objs {
			kind := xmlObjKind(flat[i].Obj)
			ck := fmt.Sprintf("%s/%d/%s", flat[i].Label, flat[i].Action, kind)
			idx := counter[ck]
			counter[ck]++
			if skipped[i] {
				continue
			}
			var cont *osm.OSM
			var fromWhole osm.Object
			switch v := whole.(type) {
			case *osm.OSM:
				cont = v
			case *osm.Change:
				switch flat[i].Label {
				case "create":
					cont = v.Create
				case "modify":
					cont = v.Modify
				case "delete":
					cont = v.Delete
				}
			case *osm.Diff:
				switch {
				case flat[i].Label == "changeset":
					if idx < len(v.Changesets) {
						fromWhole = v.Changesets[idx]
					}
				case flat[i].Action < len(v.Actions):
					a := v.Actions[flat[i].Action]
					switch flat[i].Label {
					case "direct":
						cont = a.OSM
					case "old":
						cont = a.Old
					case "new":
						cont = a.New
					}
				}
			}
			if fromWhole == nil {
				fromWhole = xmlPick(cont, kind, idx)
			}
			a, b := "nil", eq.Dump(xmlNorm(o))
			if fromWhole != nil {
				a = eq.Dump(xmlNorm(fromWhole))
			}
			if a != b {
				if wholeOK && scanOK {
					// cannot happen when both equal the model; kept as a harness self-check
					res.Violate(key+"/agree/harness", "decoders equal the model but not each other", det(nil))
				} else {
					res.Violate(key+"/agree/"+kind, fmt.Sprintf("scanner object %d (%s, container %q) differs from the %d-th %s of the whole-document decode: %s",
						i, kind, flat[i].Label, idx, kind, eq.Diff(a, b)), det(map[string]any{"whole": xmlTrim(a, 3000), "scanner": xmlTrim(b, 3000)}))
				}
				break
			}
		}
	}
}

func c03Kinds(objs []osm.Object) string {
	var s []string
	for i, o := range objs {
		if i >= 30 {
			s = append(s, "…")
			break
		}
		s = append(s, xmlObjKind(o))
	}
	return strings.Join(s, ",")
}

func c03FlatKinds(flat []xmlw.Labelled) string {
	var s []string
	for i, f := range flat {
		if i >= 30 {
			s = append(s, "…")
			break
		}
		s = append(s, xmlObjKind(f.Obj))
	}
	return strings.Join(s, ",")
}

// c03Signature is (root kind, element kinds present, block structure, optional-part class,
// noise classes used).
func c03Signature(d *xmlw.Doc, used []string, present, absent int) string {
	kinds := map[string]bool{}
	for _, f := range d.Flat() {
		kinds[xmlObjKind(f.Obj)] = true
	}
	var ks []string
	for k := range kinds {
		ks = append(ks, k)
	}
	sort.Strings(ks)
	structure := ""
	switch d.Kind {
	case "osmChange":
		seen := map[string]int{}
		last := ""
		inter := false
		for _, b := range d.Blocks {
			if seen[b.Action] > 0 && last != b.Action {
				inter = true
			}
			seen[b.Action]++
			last = b.Action
		}
		rep := false
		for _, n := range seen {
			if n > 1 {
				rep = true
			}
		}
		structure = fmt.Sprintf("blocks%d", len(seen))
		if rep {
			structure += "+repeated"
		}
		if inter {
			structure += "+interleaved"
		}
	case "diff":
		ts := map[string]bool{}
		for _, it := range d.Items {
			if it.Changeset == nil {
				ts[it.Type] = true
			}
		}
		var tl []string
		for t := range ts {
			tl = append(tl, t)
		}
		sort.Strings(tl)
		structure = strings.Join(tl, "+")
	}
	opt := "opt:none"
	if present+absent > 0 {
		switch r := float64(absent) / float64(present+absent); {
		case r == 0:
			opt = "opt:all-present"
		case r < 0.5:
			opt = "opt:mostly-present"
		case r < 1:
			opt = "opt:mostly-absent"
		default:
			opt = "opt:all-absent"
		}
	}
	var noise []string
	for _, u := range used {
		switch u {
		case "unkkids-in-object", "comment-in-text", "numforms", "ns-default", "ns-prefix-all", "ns-prefix-some", "ns-foreign-attrs-only", "ns-foreign-attrs":
		default:
			noise = append(noise, u)
		}
	}
	return d.Kind + "|" + strings.Join(ks, ",") + "|" + structure + "|" + opt + "|" + strings.Join(noise, ",")
}

func c03Observe(res *fw.Result, d *xmlw.Doc, text string, used []string, present, absent int) {
	res.Eval(c03Signature(d, used, present, absent))
	res.Add("documents", 1)
	res.Add("document_bytes", int64(len(text)))
	res.SetMax("document_bytes", int64(len(text)))
	res.Add("optional_parts_present", int64(present))
	res.Add("optional_parts_absent", int64(absent))
	for _, f := range d.Flat() {
		res.Add("objects_"+xmlObjKind(f.Obj), 1)
		res.Add("objects_compared", 1)
	}
	for _, u := range used {
		res.Add("noise_docs_"+u, 1)
		res.Put("noise_classes", u)
	}
	res.Put("roots", d.Kind)
	if d.Kind == "osmChange" {
		seen := map[string]int{}
		last, inter := "", false
		for _, b := range d.Blocks {
			if seen[b.Action] > 0 && last != b.Action {
				inter = true
			}
			seen[b.Action]++
			last = b.Action
		}
		for _, n := range seen {
			if n > 1 {
				res.Add("osmchange_docs_with_repeated_blocks", 1)
				break
			}
		}
		if inter {
			res.Add("osmchange_docs_with_interleaved_blocks", 1)
		}
	}
	if d.Kind == "diff" {
		for _, it := range d.Items {
			if it.Changeset == nil {
				res.Add("diff_actions_"+it.Type, 1)
			}
		}
	}
}

// c03FeatureDoc builds the systematic document for one feature: a single object of the kind
// with only that optional part populated (or all but it), below the given root.
func c03FeatureDoc(seed uint64, root, kind, feature, mode string) *xmlw.Doc {
	g := &xmlw.G{R: gen.New(seed, "c03feature"), Simple: true, MaxList: 2}
	if mode == "only" {
		g.Only = feature
	} else {
		g.AllBut = feature
	}
	obj := g.Object(kind)
	d := &xmlw.Doc{Kind: root}
	switch root {
	case "osm":
		d.Objects = []osm.Object{obj}
	case "osmChange":
		d.Blocks = []xmlw.Block{{Action: "modify", Objects: []osm.Object{obj}}}
	case "diff":
		if kind == "changeset" {
			d.Items = []xmlw.DiffItem{{Changeset: obj.(*osm.Changeset)}}
		} else {
			g2 := &xmlw.G{R: gen.New(seed, "c03feature.old"), Simple: true, MaxList: 2, Only: "none"}
			d.Items = []xmlw.DiffItem{{Type: "modify", Old: g2.Object(kind), New: obj}, {Type: "create", Elem: obj}}
		}
	}
	return d
}

var c03Chunks = []int{0, 0, 1, 7, 64, 4096}

func c03Exec(c fw.Case) *fw.Result {
	res := fw.NewResult()
	switch c.Kind {
	case "feature":
		root, kind, feature, mode := c.Str("root"), c.Str("kind"), c.Str("feature"), c.Str("mode")
		d := c03FeatureDoc(c.Seed, root, kind, feature, mode)
		text, used, present, absent := d.Render(gen.New(c.Seed, "c03render"), xmlw.Noise{})
		c03Check(res, d, text, 0, map[string]any{"systematic": mode + " " + feature, "root": root})
		res.Eval("feature|" + root + "|" + mode + "|" + feature)
		for _, u := range used {
			res.Put("noise_classes", u)
		}
		res.Add("documents", 1)
		res.Add("optional_parts_present", int64(present))
		res.Add("optional_parts_absent", int64(absent))
		res.Add("objects_compared", int64(len(d.Flat())))
		res.Sample = map[string]any{"root": root, "feature": feature, "mode": mode, "xml": xmlTrim(text, 1500)}
	case "noise":
		// one noise class alone (mode only) or all but one, on a well-populated random document
		r := gen.New(c.Seed, "c03noise")
		g := xmlw.NewG(r, 0.8)
		g.Nanos = true
		d := g.Doc(c.Str("root"), 8)
		var n xmlw.Noise
		if c.Str("mode") == "allbut" {
			n = xmlw.AllNoise()
			n.Set(c.Str("class"), false)
		} else {
			n.Set(c.Str("class"), true)
		}
		text, used, present, absent := d.Render(gen.New(c.Seed, "c03render"), n)
		c03Check(res, d, text, c03Chunks[int(c.Seed%uint64(len(c03Chunks)))], map[string]any{"noise": c.Str("mode") + " " + c.Str("class")})
		c03Observe(res, d, text, used, present, absent)
		res.Sample = map[string]any{"root": d.Kind, "noise": c.Str("mode") + " " + c.Str("class"), "objects": len(d.Flat()), "xml": xmlTrim(text, 1500)}
	case "probe":
		// Not asserted: "]]>" written literally inside an attribute value is well-formed XML
		// 1.0, but Go's encoding/xml (the tokenizer below both decoders) rejects it. The probe
		// only records what happens (and that nothing panics); if a decoder accepts the
		// document, what it returns must still be the document.
		d := &xmlw.Doc{Kind: c.Str("root")}
		n := &osm.Node{ID: 1, Tags: osm.Tags{{Key: "note", Value: "a]]>b"}}}
		switch d.Kind {
		case "osm":
			d.Objects = []osm.Object{n}
		case "osmChange":
			d.Blocks = []xmlw.Block{{Action: "create", Objects: []osm.Object{n}}}
		case "diff":
			d.Items = []xmlw.DiffItem{{Type: "create", Elem: n}}
		}
		text := d.RenderRawCDEnd(gen.New(c.Seed, "c03render"), xmlw.Noise{})
		got := &osm.OSM{}
		err, pan := xmlUnmarshal([]byte(text), got)
		objs, serr, span := xmlScan([]byte(text), 0)
		res.Event(2)
		if pan != "" || span != "" {
			res.Violate("C03/"+d.Kind+"/probe/panic", "decoder panicked on a literal ]]> inside an attribute value", map[string]any{"xml": text, "panic": xmlTrim(pan+span, 3000)})
		}
		if err != nil {
			res.Add("probe_cdend_in_attribute_rejected_by_unmarshal", 1)
		} else {
			res.Add("probe_cdend_in_attribute_accepted_by_unmarshal", 1)
		}
		if serr != nil {
			res.Add("probe_cdend_in_attribute_rejected_by_scanner", 1)
		} else {
			res.Add("probe_cdend_in_attribute_accepted_by_scanner", 1)
			if len(objs) != 1 || eq.Dump(objs[0]) != eq.Dump(osm.Object(n)) {
				res.Violate("C03/"+d.Kind+"/probe/accepted-but-wrong", "scanner accepted the document but did not deliver its node", map[string]any{"xml": text})
			}
		}
		res.Eval("")
		res.Sample = map[string]any{"root": d.Kind, "xml": text, "unmarshal_error": fmt.Sprint(err), "scanner_error": fmt.Sprint(serr)}
	case "concurrent":
		// independent documents decoded by many goroutines at once: decoding must not share
		// mutable package state (each result is still compared with its own model)
		n := int(c.Int("docs"))
		type job struct {
			d     *xmlw.Doc
			text  string
			chunk int
		}
		var jobs []job
		for i := 0; i < n; i++ {
			seed := gen.Sub(c.Seed, "c03cdoc", i)
			r := gen.New(seed, "c03random")
			root := c03Roots[r.Intn(len(c03Roots))]
			if i%2 == 0 {
				root = "osm" // notes, changesets and users only live under <osm>
			}
			g := xmlw.NewG(r, 0.85)
			g.MaxList = 5
			d := g.Doc(root, 12)
			if root == "osm" {
				// notes as the API writes them: the first comment repeats the creation date,
				// every document with its own dates
				for k := 0; k < 4; k++ {
					t := osm.Date{Time: r.Time()}
					d.Objects = append(d.Objects, &osm.Note{ID: osm.NoteID(9000 + i*10 + k), Lat: r.Coord(80), Lon: r.Coord(170), DateCreated: t, Status: osm.NoteOpen,
						Comments: []*osm.NoteComment{{Date: t, Action: osm.NoteCommentOpened, Text: "t" + r.Word(), HTML: "h" + r.Word()},
							{Date: osm.Date{Time: r.Time()}, Action: osm.NoteCommentComment, Text: "c" + r.Word(), HTML: "h" + r.Word()}}})
				}
			}
			text, _, _, _ := d.Render(gen.New(seed, "c03render"), xmlw.Noise{})
			jobs = append(jobs, job{d, text, c03Chunks[r.Intn(len(c03Chunks))]})
		}
		var wg sync.WaitGroup
		var locals []*fw.Result
		start := make(chan struct{})
		for g := 0; g < 16; g++ {
			wg.Add(1)
			local := fw.NewResult() // c03Check inspects the violations of its result: one per goroutine
			locals = append(locals, local)
			go func(g int) {
				defer wg.Done()
				<-start
				for rep := 0; rep < 3; rep++ {
					for i := range jobs {
						j := jobs[(i+g*5)%len(jobs)]
						c03Check(local, j.d, j.text, j.chunk, map[string]any{"concurrent": true, "goroutine": g})
					}
				}
			}(g)
		}
		close(start)
		wg.Wait()
		for _, l := range locals {
			xmlMerge(res, l)
		}
		res.Add("concurrent_decodes", int64(16*3*len(jobs)))
		res.Eval("concurrent|" + c.Variant)
		res.Sample = map[string]any{"goroutines": 16, "documents": len(jobs), "variant": c.Variant}
	case "long":
		c03Long(res, c)
	case "collisions":
		c03Collisions(res, c)
	case "globals":
		c03Globals(res, c)
	case "random":
		n := int(c.Int("docs"))
		for i := 0; i < n; i++ {
			seed := gen.Sub(c.Seed, "c03doc", i)
			r := gen.New(seed, "c03random")
			root := c03Roots[r.Intn(len(c03Roots))]
			p := []float64{0.15, 0.5, 0.5, 0.85, 1}[r.Intn(5)]
			g := xmlw.NewG(r, p)
			g.Nanos = r.Chance(0.3)
			g.MaxList = r.Pick(1, 3, 5)
			d := g.Doc(root, r.Pick(2, 6, 12))
			noise := xmlw.RandomNoise(r, []float64{0, 0.3, 0.6, 1}[r.Intn(4)])
			text, used, present, absent := d.Render(gen.New(seed, "c03render"), noise)
			chunk := c03Chunks[r.Intn(len(c03Chunks))]
			c03Check(res, d, text, chunk, map[string]any{"doc_seed": seed, "doc_index": i, "chunk": chunk, "noise": used})
			c03Observe(res, d, text, used, present, absent)
			if i == 0 {
				res.Sample = map[string]any{"root": d.Kind, "objects": len(d.Flat()), "noise": used, "chunk": chunk, "xml": xmlTrim(text, 1500)}
			}
		}
	}
	return res
}

func c03Cases(tier string, seed uint64) []fw.Case {
	var cs []fw.Case
	// systematic: every optional part of every object kind alone and all-but-it
	roots := []string{"osm"}
	reps := 1
	if tier == "thorough" {
		roots = c03Roots
		reps = 3
	}
	for rep := 0; rep < reps; rep++ {
		for _, root := range roots {
			for ki, kind := range xmlw.ObjectKinds {
				if root != "osm" && !(kind == "node" || kind == "way" || kind == "relation" || (kind == "changeset" && root == "diff")) {
					continue
				}
				for fi, f := range xmlw.Features(kind) {
					for _, mode := range []string{"only", "allbut"} {
						cs = append(cs, fw.Case{Kind: "feature", Seed: gen.Sub(seed, "c03f"+root+mode, ki*1000+fi*10+rep),
							S: map[string]string{"root": root, "kind": kind, "feature": f, "mode": mode}})
					}
				}
			}
		}
	}
	// systematic: every noise class alone and all-but-it, per root
	nreps := 1
	if tier == "thorough" {
		nreps = 12
	}
	for rep := 0; rep < nreps; rep++ {
		for ri, root := range c03Roots {
			for ni, class := range xmlw.NoiseNames {
				for mi, mode := range []string{"only", "allbut"} {
					if tier != "thorough" && mode == "allbut" && ri != ni%3 {
						continue
					}
					cs = append(cs, fw.Case{Kind: "noise", Seed: gen.Sub(seed, "c03n", ((rep*3+ri)*20+ni)*2+mi),
						S: map[string]string{"root": root, "class": class, "mode": mode}})
				}
			}
		}
	}
	for ri, root := range c03Roots {
		cs = append(cs, fw.Case{Kind: "probe", Seed: gen.Sub(seed, "c03p", ri), S: map[string]string{"root": root}})
	}
	// random documents, 10 per case
	n := 33
	if tier == "thorough" {
		n = 18000
	}
	for i := 0; i < n; i++ {
		cs = append(cs, fw.Case{Kind: "random", Seed: gen.Sub(seed, "c03r", i), P: map[string]int64{"docs": 10}})
	}
	// long documents: > 1024 elements per scanner, kinds interleaved
	for pi := range c03LongPatterns {
		sizes := []int64{int64(1100 + 350*pi)}
		if tier == "thorough" {
			sizes = []int64{1025, 2049, 3100, 5000}
		}
		for si, n := range sizes {
			cs = append(cs, fw.Case{Kind: "long", Seed: gen.Sub(seed, "c03long", pi*10+si), P: map[string]int64{"pattern": int64(pi), "n": n, "noise": int64((pi + si) % 2)}})
		}
	}
	// pairs of distinct strings with equal 32-bit fingerprints (12 functions), planted as
	// neighbouring tag values / keys / roles / user names
	for ri, root := range []string{"osm", "osmChange"} {
		cs = append(cs, fw.Case{Kind: "collisions", Seed: gen.Sub(seed, "xmlcoll", ri), S: map[string]string{"root": root}})
	}
	// process-global settings
	for gi := range xmlGlobals {
		docs := int64(6)
		if tier == "thorough" {
			docs = 60
		}
		cs = append(cs, fw.Case{Kind: "globals", Seed: gen.Sub(seed, "c03glob", gi), P: map[string]int64{"global": int64(gi), "docs": docs}})
	}
	for i, v := range []string{"plain", "race", "race"} {
		cs = append(cs, fw.Case{Kind: "concurrent", Variant: v, Seed: gen.Sub(seed, "c03conc", i), P: map[string]int64{"docs": 30}})
	}
	return fw.Number(cs)
}

func init() {
	fw.Register(&fw.Prop{
		ID:    "C03",
		Level: "exploration",
		Rule: "documents serialised by the independent OSM-XML writer from a model: (a) systematic — one object per document with exactly one optional part populated, and with all but one, for every optional part of bounds/node/way/relation/changeset/note/user (thorough: also inside an osmChange block and inside diff actions); " +
			"(b) each of 13 layout-noise classes (incl. XML namespaces: default namespace on the root, all / some element names prefixed, foreign-namespace attributes such as xsi:schemaLocation, xml:lang, xml:space, xml:base) alone and all-but-it on populated <osm>, osmChange and augmented-diff documents; (c) PRNG documents: kinds interleaved below <osm>, 0-6 repeated/interleaved create/modify/delete blocks, diff actions of all three types mixed with changesets, Unicode text incl. XML specials, tab/LF/CR, boundary code points, scanner fed in chunks of 1/7/64/4096 bytes or unchunked. " +
			"A signature is (root kind, object kinds present, block/action structure, optional-part class, noise classes used) for random and noise documents, and (root, mode, feature) for systematic ones; distinct_nontrivial counts distinct signatures.",
		Assumptions: []string{
			"an absent optional attribute or sub-element means the zero value of the corresponding struct field (what the API's structs document); a zero value may be written out or omitted",
			"a changeset <discussion> without comments ≡ no discussion, an empty create/modify/delete block ≡ no block (nil-vs-empty is not asserted)",
			"at most one <bounds> per container (osm root, or all blocks of one action type together): which of several wins is not specified",
			"unknown elements at container level (below the root, action blocks, diff actions, old/new) carry no OSM-named descendants: whether those are skipped or seen as objects is ambiguous and not asserted; inside objects unknown children may contain OSM-named elements",
			"unknown attribute and element names never equal a vocabulary name under any letter case or namespace prefix; attribute values never rely on attribute-value normalisation (tab/LF/CR always as character references, CR also in text)",
			"namespaces: the OSM format defines none, and both decoders are expected to identify elements by their local name whatever namespace a declaration puts them in (an xmlns declaration is one more unknown attribute); OSM attributes are never put into a namespace and foreign-namespace attributes never have an OSM local name (observed: Go's encoding/xml matches attributes by local name alone, so xml:id or o:version WOULD be read as id / version — ambiguous, not generated)",
			"numbers and dates are written in the canonical syntax of the API (decimal without exponent, RFC 3339 'Z' times with optional fraction, 'YYYY-MM-DD hh:mm:ss UTC' note dates); trailing zeros in decimals are the only numeric variation",
			"diff create actions hold exactly one element, old/new exactly one element each (the augmented-diff shape the API documents); the scanner is expected to deliver old before new, then the next action, i.e. plain document order",
			"the scanner is driven in six legal consumer styles chosen by the text (canonical; Err after every Scan; Err once after the k-th Scan; Object twice; Object not fetched for every third object, those positions are not compared; Scan called again after it returned false): read-only accessors and legal call orders must not change what is delivered; the value Err returns in mid-scan is not judged",
			"long documents (1100-5000 elements, six interleaving patterns): all delivered objects are retained and compared after the scan ended; process globals: the same expectations hold with time.Local set to +05:30 / -05:00 / a DST zone / +14:00, GOMAXPROCS=1 and a de_DE locale environment (settings are restored after the case; the cases run no goroutines)",
			"collisions: pairs of different equal-length strings with equal 32-bit fingerprints (12 common hash functions; found by a deterministic birthday search at first use) are planted as neighbouring tag values, tag keys, member roles and user names; they are ordinary strings and must come back as written",
			"encoding/xml itself (tokenizer, entity and character-reference decoding) is part of the execution under observation, not of the oracle",
			"a literal \"]]>\" inside an attribute value is well-formed XML but rejected by Go's encoding/xml tokenizer; the writer never emits it ('>' after ']' is always escaped in attribute values); three non-asserting probe cases record the rejection (probe_* counters)",
		},
		Cases:   c03Cases,
		Exec:    c03Exec,
		Workers: 12,
		// decoding independent documents with independent decoders shares nothing the caller
		// can see: a data race with a library frame in the concurrent cases means decoders
		// share mutable state, and what one of them returns then depends on the schedule
		// (the functional comparison alone catches that only on unlucky interleavings)
		RaceIsViolation: true,
	})
}
