package props

import (
	"context"
	"io"

	"github.com/paulmach/osm"
	"github.com/paulmach/osm/osmpbf"

	"verif/internal/gen"
	"verif/internal/pbfw"
)

// scanResult is what one complete scan through the public API delivered.
type scanResult struct {
	Objs    []osm.Object
	Header  *osmpbf.Header
	HdrErr  error
	Err     error
	Scanned int
	// Again: a consumer may call Scan once more after it has returned false; it must return
	// false again at once (a scanner that blocks here wedges the case: a hang), and Err must
	// not change. AgainTrue / AgainErrChanged record a breach.
	AgainTrue       bool
	AgainErrChanged bool
}

// pbfScan runs one scan of r with procs decoders; cfg may set skip flags / filters; each
// delivered object is passed to onObj (may be nil) right after Scan returned it.
func pbfScan(r io.Reader, procs int, askHeader bool, cfg func(*osmpbf.Scanner), onObj func(i int, o osm.Object, s *osmpbf.Scanner)) scanResult {
	return pbfScanCtx(context.Background(), r, procs, askHeader, cfg, onObj)
}

// pbfScanCtx is pbfScan with the caller's context (nil is documented as "background").
func pbfScanCtx(ctx context.Context, r io.Reader, procs int, askHeader bool, cfg func(*osmpbf.Scanner), onObj func(i int, o osm.Object, s *osmpbf.Scanner)) scanResult {
	s := osmpbf.New(ctx, r, procs)
	if cfg != nil {
		cfg(s)
	}
	var res scanResult
	if askHeader {
		res.Header, res.HdrErr = s.Header()
	}
	for s.Scan() {
		o := s.Object()
		if onObj != nil {
			onObj(len(res.Objs), o, s)
		}
		res.Objs = append(res.Objs, o)
	}
	res.Err = s.Err()
	for i := 0; i < 2; i++ {
		if s.Scan() {
			res.AgainTrue = true
		}
	}
	if e := s.Err(); (e == nil) != (res.Err == nil) {
		res.AgainErrChanged = true
	}
	s.Close()
	return res
}

// scanAgain reports a scanner that delivered something, or changed its verdict, when Scan was
// called again after it had returned false ("then stops").
func scanAgain(res interface {
	Violatef(key, format string, a ...interface{})
}, sr scanResult, key string) {
	if sr.AgainTrue {
		res.Violatef(key+"/scan-true-after-false", "Scan returned true again after it had returned false")
	}
	if sr.AgainErrChanged {
		res.Violatef(key+"/err-changed-after-false", "Err() changed between nil and non-nil when Scan was called again after false")
	}
}

// smallFileOpts are generator options for files with many small blocks.
func smallFileOpts(minB, maxB, maxElems int) pbfw.GenOpts {
	return pbfw.GenOpts{MinBlocks: minB, MaxBlocks: maxB, MaxGroups: 2, MaxElems: maxElems}
}

// expectObjs strips the expectations down to the osm objects.
func expectObjs(es []pbfw.Expect) []osm.Object {
	out := make([]osm.Object, len(es))
	for i, e := range es {
		out[i] = e.Obj
	}
	return out
}

func objID(o osm.Object) string {
	if o == nil {
		return "nil"
	}
	return o.ObjectID().String()
}

var _ = gen.New

func max1(v int) int {
	if v < 1 {
		return 1
	}
	return v
}
