package props

import (
	"context"
	"errors"
	"fmt"
	"io"
	"math"
	"net/http"
	"reflect"
	"sort"
	"strconv"
	"strings"
	"sync"
	"time"

	"github.com/paulmach/osm"
	"github.com/paulmach/osm/osmapi"

	"verif/internal/apixml"
	"verif/internal/eq"
	"verif/internal/fw"
	"verif/internal/gen"
	"verif/internal/mon"
	"verif/internal/srv"
)

// C20 — osmapi calls hit the documented endpoint and map statuses to typed errors.
//
// Monitor shape: a fake API v0.6 server (internal/srv) logs every request with a sequence
// number from the same atomic counter the monitored rate limiter uses. Per library call the
// oracle looks at (a) the requests the server saw, (b) the limiter's Wait calls, (c) the
// returned value and error. The expected URL comes from the endpoint table below, written
// from the API v0.6 documentation (https://wiki.openstreetmap.org/wiki/API_v0.6); response
// bodies come from the independent XML writer in internal/srv.

// ---------------------------------------------------------------------------------------
// arguments, options

type c20Args struct {
	Label string     `json:"label"`
	ID    int64      `json:"id,omitempty"`
	Ver   int        `json:"version,omitempty"`
	IDs   []int64    `json:"ids,omitempty"`
	BBox  [4]float64 `json:"bbox,omitempty"` // left (min lon), bottom (min lat), right (max lon), top (max lat)
	Q     string     `json:"q,omitempty"`
	// URLLen > 0: the id list / search string is materialised at call time so that the
	// documented request URL (configured base URL + table path + query, options not counted)
	// is exactly this many bytes long.
	URLLen int `json:"url_len,omitempty"`
}

// c20URLLens are request-URL lengths on both sides of limits commonly met in HTTP stacks
// (2 KiB, 4 KiB, Apache's 8190-byte request line, 8 KiB, 16 KiB, 64 KiB). How long a URL a
// server accepts is the server's business; the fake server takes up to 1 MiB of header.
var c20URLLens = []int{2048, 4096, 8190, 8191, 8192, 16384, 16385, 65536, 65537}

func c20LenArgs() []c20Args {
	var out []c20Args
	for _, n := range c20URLLens {
		out = append(out, c20Args{Label: fmt.Sprintf("url-%d", n), URLLen: n})
	}
	return out
}

type c20NoteOpt struct {
	Kind string `json:"kind"` // limit | closed
	N    int    `json:"n"`
}

type c20Opts struct {
	Label   string       `json:"label"`
	At      *time.Time   `json:"at,omitempty"`
	Notes   []c20NoteOpt `json:"notes,omitempty"`
	Invalid bool         `json:"invalid,omitempty"` // documented as outside the valid range: run, not asserted
}

var c20IDs = []c20Args{
	{Label: "1", ID: 1}, {Label: "2", ID: 2}, {Label: "0", ID: 0}, {Label: "2^32+7", ID: 1<<32 + 7},
	{Label: "2^53+1", ID: 1<<53 + 1}, {Label: "maxint64", ID: math.MaxInt64},
}

var c20IDVers = func() []c20Args {
	var out []c20Args
	for _, id := range []int64{1, 1<<32 + 7, math.MaxInt64} {
		for _, v := range []int{1, 2, 1000} {
			out = append(out, c20Args{Label: fmt.Sprintf("%d/v%d", id, v), ID: id, Ver: v})
		}
	}
	return out
}()

var c20IDLists = func() []c20Args {
	long := make([]int64, 60)
	for i := range long {
		long[i] = 1<<40 + int64(i)*977
	}
	ten := make([]int64, 10)
	for i := range ten {
		ten[i] = 1_000_000_007 + int64(i)*7919
	}
	return append([]c20Args{
		{Label: "[1,2]", IDs: []int64{1, 2}}, {Label: "[7]", IDs: []int64{7}}, {Label: "[]", IDs: []int64{}},
		{Label: "unsorted", IDs: []int64{30, 10, 20}}, {Label: "dup", IDs: []int64{5, 5, 6}}, {Label: "60 big", IDs: long},
		{Label: "10 ten-digit", IDs: ten},
	}, c20LenArgs()...)
}()

var c20BBoxes = []c20Args{
	{Label: "ints", BBox: [4]float64{1, 2, 3, 4}},
	{Label: "quarters", BBox: [4]float64{-0.5, 51.25, 0.25, 51.75}},
	{Label: "7 decimals", BBox: [4]float64{-122.4194155, 37.7749295, -122.4183945, 37.7758125}},
	{Label: "world", BBox: [4]float64{-180, -90, 180, 90}},
	{Label: "1e-7 steps", BBox: [4]float64{0.0000001, 0.0000002, 0.0000003, 0.0000004}},
	{Label: "negative 7 decimals", BBox: [4]float64{-77.1234567, -12.0000001, -77.0000003, -11.9999999}},
}

var c20Queries = append([]c20Args{
	{Label: "word", Q: "asdf"}, {Label: "empty", Q: ""}, {Label: "space", Q: "two words"}, {Label: "amp-eq", Q: "a&b=c"},
	{Label: "pct-plus-hash", Q: "50%+1 #tag?"}, {Label: "unicode", Q: "日本語 ñ 😀"}, {Label: "xml", Q: `it's <x> "q"`}, {Label: "punct", Q: "a/b;c,d"},
}, c20LenArgs()...)

func c20Time(s string) *time.Time {
	t, err := time.Parse(time.RFC3339Nano, s)
	if err != nil {
		panic(err)
	}
	return &t
}

var c20FeatureOpts = []c20Opts{
	{Label: "none"},
	{Label: "at-utc", At: c20Time("2016-01-01T00:00:00Z")},
	{Label: "at-zone", At: c20Time("2012-07-04T23:59:59+05:30")},
	{Label: "at-nanos", At: c20Time("2020-02-29T12:34:56.789Z")},
}

var c20NoOpts = []c20Opts{{Label: "none"}}

var c20NotesOpts = []c20Opts{
	{Label: "none"},
	{Label: "limit1", Notes: []c20NoteOpt{{"limit", 1}}},
	{Label: "limit10000", Notes: []c20NoteOpt{{"limit", 10000}}},
	{Label: "closed-1", Notes: []c20NoteOpt{{"closed", -1}}},
	{Label: "closed0", Notes: []c20NoteOpt{{"closed", 0}}},
	{Label: "limit+closed", Notes: []c20NoteOpt{{"limit", 25}, {"closed", 7}}},
	{Label: "closed+limit", Notes: []c20NoteOpt{{"closed", 30}, {"limit", 100}}},
	{Label: "limit0-invalid", Notes: []c20NoteOpt{{"limit", 0}}, Invalid: true},
	{Label: "limit10001-invalid", Notes: []c20NoteOpt{{"limit", 10001}}, Invalid: true},
}

// ---------------------------------------------------------------------------------------
// endpoint table (from the API v0.6 documentation)

type c20Param struct {
	kind string // str | any | ids | bbox | time | int
	s    string
	ids  []int64
	bbox [4]float64
	t    time.Time
	n    int64
}

type c20EP struct {
	name   string
	args   []c20Args
	opts   []c20Opts
	single bool // the call returns one element and must reject any other count
	multi  bool // multi-fetch by id list
	// path below the API base and fixed query parameters the documentation gives for the call
	path   func(a c20Args) string
	params func(a c20Args) map[string]c20Param
	// body builds a response document with n elements of the kind the real API answers with and
	// the value the call must return for it (nil when a single-element call must reject it).
	body func(r *gen.R, noise bool, a c20Args, n int) (doc []byte, want any)
}

func c20ElemDoc(r *gen.R, noise bool, typ string, ids []int64, history bool) ([]byte, *osm.OSM) {
	o := apixml.NewOSM()
	for i, id := range ids {
		switch typ {
		case "node":
			n := apixml.GenNode(r, id)
			if history {
				n.Version = i + 1
			}
			o.Nodes = append(o.Nodes, n)
		case "way":
			w := apixml.GenWay(r, id)
			if history {
				w.Version = i + 1
			}
			o.Ways = append(o.Ways, w)
		case "relation":
			x := apixml.GenRelation(r, id)
			if history {
				x.Version = i + 1
			}
			o.Relations = append(o.Relations, x)
		case "changeset":
			o.Changesets = append(o.Changesets, apixml.GenChangeset(r, id, false))
		case "changeset+discussion":
			o.Changesets = append(o.Changesets, apixml.GenChangeset(r, id, true))
		case "note":
			o.Notes = append(o.Notes, apixml.GenNote(r, id))
		case "user":
			o.Users = append(o.Users, apixml.GenUser(r, id))
		}
	}
	return apixml.OSMDoc(r, noise, o), o
}

func c20First(id int64) int64 {
	if id > 0 {
		return id
	}
	return 0
}

// c20Single: the API answers with exactly one element; the call returns it.
func c20Single(typ string) func(r *gen.R, noise bool, a c20Args, n int) ([]byte, any) {
	return func(r *gen.R, noise bool, a c20Args, n int) ([]byte, any) {
		doc, o := c20ElemDoc(r, noise, typ, apixml.DistinctIDs(r, n, c20First(a.ID)), false)
		if n != 1 {
			return doc, nil
		}
		switch typ {
		case "node":
			return doc, o.Nodes[0]
		case "way":
			return doc, o.Ways[0]
		case "relation":
			return doc, o.Relations[0]
		case "changeset", "changeset+discussion":
			return doc, o.Changesets[0]
		case "note":
			return doc, o.Notes[0]
		case "user":
			return doc, o.Users[0]
		}
		panic(typ)
	}
}

// c20List: the API answers with any number of elements of one kind; the call returns them.
func c20List(typ string, history bool) func(r *gen.R, noise bool, a c20Args, n int) ([]byte, any) {
	return func(r *gen.R, noise bool, a c20Args, n int) ([]byte, any) {
		ids := apixml.DistinctIDs(r, n, 0)
		if history {
			for i := range ids {
				ids[i] = a.ID
			}
		}
		doc, o := c20ElemDoc(r, noise, typ, ids, history)
		switch typ {
		case "node":
			return doc, o.Nodes
		case "way":
			return doc, o.Ways
		case "relation":
			return doc, o.Relations
		case "note":
			return doc, o.Notes
		}
		panic(typ)
	}
}

// c20Mixed: map and full answers — a whole document, returned as such.
func c20Mixed(withBounds bool) func(r *gen.R, noise bool, a c20Args, n int) ([]byte, any) {
	return func(r *gen.R, noise bool, a c20Args, n int) ([]byte, any) {
		o := apixml.NewOSM()
		if withBounds {
			o.Bounds = &osm.Bounds{MinLon: a.BBox[0], MinLat: a.BBox[1], MaxLon: a.BBox[2], MaxLat: a.BBox[3]}
		}
		ids := apixml.DistinctIDs(r, n, 0)
		for i, id := range ids {
			switch {
			case i == 0 && n == 1:
				o.Ways = append(o.Ways, apixml.GenWay(r, id))
			case i%3 == 0:
				o.Nodes = append(o.Nodes, apixml.GenNode(r, id))
			case i%3 == 1:
				o.Ways = append(o.Ways, apixml.GenWay(r, id))
			default:
				o.Relations = append(o.Relations, apixml.GenRelation(r, id))
			}
		}
		return apixml.OSMDoc(r, noise, o), o
	}
}

// c20ChangeBody: a changeset download. The changeset's n operations are laid out as action
// blocks the way the API does it — one block per element in changeset order, so blocks of one
// action repeat and interleave with the others — or merged into larger runs, or grouped per
// action; empty blocks may be strewn in. The expected value is derived from the block sequence
// (per action and element kind: document order).
func c20ChangeBody(r *gen.R, noise bool, a c20Args, n int) ([]byte, any) {
	root := apixml.NewChange()
	acts := []string{"create", "modify", "delete"}
	r.Shuffle(3, func(i, j int) { acts[i], acts[j] = acts[j], acts[i] })
	layout := r.Intn(4) // 0,1 per element with alternating actions; 2 random runs; 3 grouped
	period := r.Pick(2, 3)
	ops := make([]apixml.ChangeBlock, 0, n)
	for i, id := range apixml.DistinctIDs(r, n, 0) {
		act := acts[r.Intn(3)]
		if layout <= 1 {
			act = acts[i%period] // the same action comes back after another one
		}
		o := &osm.OSM{}
		switch r.Intn(3) {
		case 0:
			o.Nodes = append(o.Nodes, apixml.GenNode(r, id))
		case 1:
			o.Ways = append(o.Ways, apixml.GenWay(r, id))
		default:
			o.Relations = append(o.Relations, apixml.GenRelation(r, id))
		}
		ops = append(ops, apixml.ChangeBlock{Action: act, O: o})
	}
	merge := func(dst, src *osm.OSM) {
		dst.Nodes = append(dst.Nodes, src.Nodes...)
		dst.Ways = append(dst.Ways, src.Ways...)
		dst.Relations = append(dst.Relations, src.Relations...)
	}
	var blocks []apixml.ChangeBlock
	switch layout {
	case 0, 1:
		blocks = ops
	case 2:
		for _, op := range ops {
			if k := len(blocks) - 1; k >= 0 && blocks[k].Action == op.Action && r.Bool() {
				merge(blocks[k].O, op.O)
			} else {
				blocks = append(blocks, op)
			}
		}
	default:
		for _, act := range []string{"create", "modify", "delete"} {
			var b *apixml.ChangeBlock
			for _, op := range ops {
				if op.Action == act {
					if b == nil {
						b = &apixml.ChangeBlock{Action: act, O: &osm.OSM{}}
					}
					merge(b.O, op.O)
				}
			}
			if b != nil {
				blocks = append(blocks, *b)
			}
		}
	}
	if r.Chance(0.4) {
		for k := r.Range(1, 2); k > 0; k-- {
			at := r.Intn(len(blocks) + 1)
			blocks = append(blocks[:at], append([]apixml.ChangeBlock{{Action: acts[r.Intn(3)], O: &osm.OSM{}}}, blocks[at:]...)...)
		}
	}
	return apixml.ChangeBlocksDoc(r, noise, root, blocks), apixml.ChangeOfBlocks(root, blocks)
}

// c20Norm removes distinctions the property does not make before two values are compared: in
// an osm.Change an action without elements is the same whether nil or an empty document.
func c20Norm(v any) any {
	c, ok := v.(*osm.Change)
	if !ok || c == nil {
		return v
	}
	cp := *c
	empty := eq.Dump(&osm.OSM{})
	for _, p := range []**osm.OSM{&cp.Create, &cp.Modify, &cp.Delete} {
		if *p != nil && eq.Dump(*p) == empty {
			*p = nil
		}
	}
	return &cp
}

func c20IDSet(name string) func(a c20Args) map[string]c20Param {
	return func(a c20Args) map[string]c20Param { return map[string]c20Param{name: {kind: "ids", ids: a.IDs}} }
}

func c20BBoxParam(a c20Args) map[string]c20Param {
	return map[string]c20Param{"bbox": {kind: "bbox", bbox: a.BBox}}
}

func c20Endpoints() []c20EP {
	id := func(f string) func(a c20Args) string {
		return func(a c20Args) string { return fmt.Sprintf(f, a.ID) }
	}
	var eps []c20EP
	for _, t := range []string{"node", "way", "relation"} {
		eps = append(eps,
			c20EP{name: t, args: c20IDs, opts: c20FeatureOpts, single: true, path: id("/" + t + "/%d"), body: c20Single(t)},
			c20EP{name: t + "s", args: c20IDLists, opts: c20FeatureOpts, multi: true, path: func(c20Args) string { return "/" + t + "s" }, params: c20IDSet(t + "s"), body: c20List(t, false)},
			c20EP{name: t + "-version", args: c20IDVers, opts: c20NoOpts, single: true,
				path: func(a c20Args) string { return fmt.Sprintf("/%s/%d/%d", t, a.ID, a.Ver) }, body: c20Single(t)},
			c20EP{name: t + "-history", args: c20IDs, opts: c20NoOpts, path: id("/" + t + "/%d/history"), body: c20List(t, true)},
			c20EP{name: t + "-relations", args: c20IDs, opts: c20FeatureOpts, path: id("/" + t + "/%d/relations"), body: c20List("relation", false)},
		)
		if t == "node" {
			eps = append(eps, c20EP{name: "node-ways", args: c20IDs, opts: c20FeatureOpts, path: id("/node/%d/ways"), body: c20List("way", false)})
		} else {
			eps = append(eps, c20EP{name: t + "-full", args: c20IDs, opts: c20FeatureOpts, path: id("/" + t + "/%d/full"), body: c20Mixed(false)})
		}
	}
	eps = append(eps,
		c20EP{name: "map", args: c20BBoxes, opts: c20FeatureOpts, path: func(c20Args) string { return "/map" }, params: c20BBoxParam, body: c20Mixed(true)},
		c20EP{name: "changeset", args: c20IDs, opts: c20NoOpts, single: true, path: id("/changeset/%d"), body: c20Single("changeset")},
		c20EP{name: "changeset-discussion", args: c20IDs, opts: c20NoOpts, single: true, path: id("/changeset/%d"),
			params: func(c20Args) map[string]c20Param { return map[string]c20Param{"include_discussion": {kind: "any"}} }, body: c20Single("changeset+discussion")},
		c20EP{name: "changeset-download", args: c20IDs, opts: c20NoOpts, path: id("/changeset/%d/download"), body: c20ChangeBody},
		c20EP{name: "note", args: c20IDs, opts: c20NoOpts, single: true, path: id("/notes/%d"), body: c20Single("note")},
		c20EP{name: "notes", args: c20BBoxes, opts: c20NotesOpts, path: func(c20Args) string { return "/notes" }, params: c20BBoxParam, body: c20List("note", false)},
		c20EP{name: "notes-search", args: c20Queries, opts: c20NotesOpts, path: func(c20Args) string { return "/notes/search" },
			params: func(a c20Args) map[string]c20Param { return map[string]c20Param{"q": {kind: "str", s: a.Q}} }, body: c20List("note", false)},
		c20EP{name: "user", args: c20IDs, opts: c20NoOpts, single: true, path: id("/user/%d"), body: c20Single("user")},
	)
	return eps
}

func c20EPByName(name string) *c20EP {
	for _, e := range c20Endpoints() {
		if e.name == name {
			e := e
			return &e
		}
	}
	return nil
}

// ---------------------------------------------------------------------------------------
// calling the library

func c20R[T any](v T, err error) (any, error) { return v, err }

func c20NodeIDs(ids []int64) []osm.NodeID {
	out := make([]osm.NodeID, len(ids))
	for i, v := range ids {
		out[i] = osm.NodeID(v)
	}
	return out
}
func c20WayIDs(ids []int64) []osm.WayID {
	out := make([]osm.WayID, len(ids))
	for i, v := range ids {
		out[i] = osm.WayID(v)
	}
	return out
}
func c20RelIDs(ids []int64) []osm.RelationID {
	out := make([]osm.RelationID, len(ids))
	for i, v := range ids {
		out[i] = osm.RelationID(v)
	}
	return out
}

// c20Invoke calls the endpoint's function: the Datasource method, or (pkg) the package-level
// convenience function, which delegates to osmapi.DefaultDatasource.
func c20Invoke(name string, ds *osmapi.Datasource, pkg bool, ctx context.Context, a c20Args, o c20Opts) (any, error) {
	var fo []osmapi.FeatureOption
	if o.At != nil {
		fo = append(fo, osmapi.At(*o.At))
	}
	var no []osmapi.NotesOption
	for _, x := range o.Notes {
		if x.Kind == "limit" {
			no = append(no, osmapi.Limit(x.N))
		} else {
			no = append(no, osmapi.MaxDaysClosed(x.N))
		}
	}
	b := &osm.Bounds{MinLon: a.BBox[0], MinLat: a.BBox[1], MaxLon: a.BBox[2], MaxLat: a.BBox[3]}
	nid, wid, rid, cid := osm.NodeID(a.ID), osm.WayID(a.ID), osm.RelationID(a.ID), osm.ChangesetID(a.ID)
	if pkg {
		switch name {
		case "node":
			return c20R(osmapi.Node(ctx, nid, fo...))
		case "nodes":
			return c20R(osmapi.Nodes(ctx, c20NodeIDs(a.IDs), fo...))
		case "node-version":
			return c20R(osmapi.NodeVersion(ctx, nid, a.Ver))
		case "node-history":
			return c20R(osmapi.NodeHistory(ctx, nid))
		case "node-ways":
			return c20R(osmapi.NodeWays(ctx, nid, fo...))
		case "node-relations":
			return c20R(osmapi.NodeRelations(ctx, nid, fo...))
		case "way":
			return c20R(osmapi.Way(ctx, wid, fo...))
		case "ways":
			return c20R(osmapi.Ways(ctx, c20WayIDs(a.IDs), fo...))
		case "way-version":
			return c20R(osmapi.WayVersion(ctx, wid, a.Ver))
		case "way-history":
			return c20R(osmapi.WayHistory(ctx, wid))
		case "way-relations":
			return c20R(osmapi.WayRelations(ctx, wid, fo...))
		case "way-full":
			return c20R(osmapi.WayFull(ctx, wid, fo...))
		case "relation":
			return c20R(osmapi.Relation(ctx, rid, fo...))
		case "relations":
			return c20R(osmapi.Relations(ctx, c20RelIDs(a.IDs), fo...))
		case "relation-version":
			return c20R(osmapi.RelationVersion(ctx, rid, a.Ver))
		case "relation-history":
			return c20R(osmapi.RelationHistory(ctx, rid))
		case "relation-relations":
			return c20R(osmapi.RelationRelations(ctx, rid, fo...))
		case "relation-full":
			return c20R(osmapi.RelationFull(ctx, rid, fo...))
		case "map":
			return c20R(osmapi.Map(ctx, b, fo...))
		case "changeset":
			return c20R(osmapi.Changeset(ctx, cid))
		case "changeset-discussion":
			return c20R(osmapi.ChangesetWithDiscussion(ctx, cid))
		case "changeset-download":
			return c20R(osmapi.ChangesetDownload(ctx, cid))
		case "note":
			return c20R(osmapi.Note(ctx, osm.NoteID(a.ID)))
		case "notes":
			return c20R(osmapi.Notes(ctx, b, no...))
		case "notes-search":
			return c20R(osmapi.NotesSearch(ctx, a.Q, no...))
		case "user":
			return c20R(osmapi.User(ctx, osm.UserID(a.ID)))
		}
		panic("c20: unknown endpoint " + name)
	}
	switch name {
	case "node":
		return c20R(ds.Node(ctx, nid, fo...))
	case "nodes":
		return c20R(ds.Nodes(ctx, c20NodeIDs(a.IDs), fo...))
	case "node-version":
		return c20R(ds.NodeVersion(ctx, nid, a.Ver))
	case "node-history":
		return c20R(ds.NodeHistory(ctx, nid))
	case "node-ways":
		return c20R(ds.NodeWays(ctx, nid, fo...))
	case "node-relations":
		return c20R(ds.NodeRelations(ctx, nid, fo...))
	case "way":
		return c20R(ds.Way(ctx, wid, fo...))
	case "ways":
		return c20R(ds.Ways(ctx, c20WayIDs(a.IDs), fo...))
	case "way-version":
		return c20R(ds.WayVersion(ctx, wid, a.Ver))
	case "way-history":
		return c20R(ds.WayHistory(ctx, wid))
	case "way-relations":
		return c20R(ds.WayRelations(ctx, wid, fo...))
	case "way-full":
		return c20R(ds.WayFull(ctx, wid, fo...))
	case "relation":
		return c20R(ds.Relation(ctx, rid, fo...))
	case "relations":
		return c20R(ds.Relations(ctx, c20RelIDs(a.IDs), fo...))
	case "relation-version":
		return c20R(ds.RelationVersion(ctx, rid, a.Ver))
	case "relation-history":
		return c20R(ds.RelationHistory(ctx, rid))
	case "relation-relations":
		return c20R(ds.RelationRelations(ctx, rid, fo...))
	case "relation-full":
		return c20R(ds.RelationFull(ctx, rid, fo...))
	case "map":
		return c20R(ds.Map(ctx, b, fo...))
	case "changeset":
		return c20R(ds.Changeset(ctx, cid))
	case "changeset-discussion":
		return c20R(ds.ChangesetWithDiscussion(ctx, cid))
	case "changeset-download":
		return c20R(ds.ChangesetDownload(ctx, cid))
	case "note":
		return c20R(ds.Note(ctx, osm.NoteID(a.ID)))
	case "notes":
		return c20R(ds.Notes(ctx, b, no...))
	case "notes-search":
		return c20R(ds.NotesSearch(ctx, a.Q, no...))
	case "user":
		return c20R(ds.User(ctx, osm.UserID(a.ID)))
	}
	panic("c20: unknown endpoint " + name)
}

// ---------------------------------------------------------------------------------------
// query parsing and comparison (own parser: '&'-separated, first '=' splits, %XX and '+')

func c20Unescape(s string) (string, error) {
	var sb strings.Builder
	for i := 0; i < len(s); i++ {
		switch s[i] {
		case '+':
			sb.WriteByte(' ')
		case '%':
			if i+2 >= len(s) {
				return "", fmt.Errorf("truncated escape in %q", s)
			}
			v, err := strconv.ParseUint(s[i+1:i+3], 16, 8)
			if err != nil {
				return "", fmt.Errorf("bad escape in %q", s)
			}
			sb.WriteByte(byte(v))
			i += 2
		default:
			sb.WriteByte(s[i])
		}
	}
	return sb.String(), nil
}

func c20ParseQuery(raw string) (map[string][]string, error) {
	out := map[string][]string{}
	for _, seg := range strings.Split(raw, "&") {
		if seg == "" {
			continue
		}
		k, v := seg, ""
		if i := strings.IndexByte(seg, '='); i >= 0 {
			k, v = seg[:i], seg[i+1:]
		}
		dk, err := c20Unescape(k)
		if err != nil {
			return nil, err
		}
		dv, err := c20Unescape(v)
		if err != nil {
			return nil, err
		}
		out[dk] = append(out[dk], dv)
	}
	return out, nil
}

// c20CompareParam returns "" when the observed value matches, else the failure class suffix
// and a description.
func c20CompareParam(name string, want c20Param, got string) (class, what string) {
	switch want.kind {
	case "any":
		return "", ""
	case "str":
		if got != want.s {
			return "query-" + name, fmt.Sprintf("parameter %s = %q, want %q", name, got, want.s)
		}
	case "int":
		n, err := strconv.ParseInt(got, 10, 64)
		if err != nil || n != want.n {
			return "query-" + name, fmt.Sprintf("parameter %s = %q, want %d", name, got, want.n)
		}
	case "time":
		t, err := time.Parse(time.RFC3339, got)
		if err != nil {
			return "query-" + name, fmt.Sprintf("parameter %s = %q is not an RFC 3339 instant", name, got)
		}
		if d := t.Sub(want.t); d <= -time.Second || d >= time.Second {
			return "query-" + name, fmt.Sprintf("parameter %s = %q, want the instant %s", name, got, want.t.UTC().Format(time.RFC3339))
		}
	case "ids":
		gotSet := map[int64]bool{}
		if got != "" {
			for _, tok := range strings.Split(got, ",") {
				n, err := strconv.ParseInt(tok, 10, 64)
				if err != nil {
					return "query-" + name, fmt.Sprintf("parameter %s = %q: token %q is not an id", name, got, tok)
				}
				gotSet[n] = true
			}
		}
		wantSet := map[int64]bool{}
		for _, n := range want.ids {
			wantSet[n] = true
		}
		if len(gotSet) != len(wantSet) {
			return "query-" + name, fmt.Sprintf("parameter %s = %q names %d distinct ids, want %d", name, got, len(gotSet), len(wantSet))
		}
		for n := range wantSet {
			if !gotSet[n] {
				return "query-" + name, fmt.Sprintf("parameter %s = %q lacks id %d", name, got, n)
			}
		}
	case "bbox":
		toks := strings.Split(got, ",")
		if len(toks) != 4 {
			return "bbox", fmt.Sprintf("bbox = %q has %d components", got, len(toks))
		}
		worst := 0.0
		for i, tok := range toks {
			v, err := strconv.ParseFloat(strings.TrimSpace(tok), 64)
			if err != nil {
				return "bbox", fmt.Sprintf("bbox = %q: %q is not a number", got, tok)
			}
			if d := math.Abs(v - want.bbox[i]); d > worst {
				worst = d
			}
		}
		wantS := fmt.Sprintf("%v,%v,%v,%v (left,bottom,right,top)", want.bbox[0], want.bbox[1], want.bbox[2], want.bbox[3])
		if worst > 1e-6 {
			return "bbox", fmt.Sprintf("bbox = %q, want %s", got, wantS)
		}
		// The statement promises the documented path "for its arguments"; it does not promise a
		// decimal precision for floating-point arguments. The library renders coordinates with
		// six decimals (half a unit = 5e-7 degrees, about 5 cm), which an earlier revision of
		// this check reported as "bbox-precision". That demanded more than the property states
		// (false alarm, see DESIGN.md section 8): deviations up to 1e-6 are accepted.
	}
	return "", ""
}

func c20Collapse(p string) string {
	for strings.Contains(p, "//") {
		p = strings.ReplaceAll(p, "//", "/")
	}
	return p
}

// ---------------------------------------------------------------------------------------
// environment of one case: server, client, datasource

type c20Base struct {
	name    string
	suffix  string // appended to the server URL ("" for default: BaseURL left empty)
	prefix  string // path prefix the server must see
	defHost bool   // the library's documented default host is expected
	slash   bool   // trailing slash: paths compared with runs of '/' collapsed
}

var c20Bases = []c20Base{
	{name: "api06", suffix: "/api/0.6", prefix: "/api/0.6"},
	{name: "root", suffix: "", prefix: ""},
	{name: "deep", suffix: "/mirror/osm.v1/api/0.6", prefix: "/mirror/osm.v1/api/0.6"},
	{name: "default", prefix: "/api/0.6", defHost: true},
	{name: "slash", suffix: "/api/0.6/", prefix: "/api/0.6", slash: true},
	// a base URL with percent-escapes (the fake server logs the raw, still escaped path)
	{name: "escaped", suffix: "/osm%20mirror/v%2B1/api/0.6", prefix: "/osm%20mirror/v%2B1/api/0.6"},
}

var c20Vias = []string{"ds", "nilclient", "pkg"}

var c20LimiterModes = []string{"absent", "present", "failing"}

type c20Resp struct {
	Status int    `json:"status"`
	Size   int    `json:"size"`           // elements in the body (status 200) / in the decoy body
	Body   string `json:"body"`           // xml | text | none | truncated | short-body | chunked-cut
	Meta   string `json:"meta,omitempty"` // response metadata set (c20Metas); "" = rotating
}

// c20Meta is a set of response metadata other than the status code. None of it may influence
// what a call returns: the statement maps *statuses* to errors and 200 to the elements.
type c20Meta struct {
	name    string
	m       srv.Meta
	errOnly bool // only sent with non-200 statuses (what the real servers do)
}

// The OSM API (rails port's report_error, cgimap) explains failures in an "Error" response
// header next to a text/plain body; rate limiting answers carry Retry-After.
var c20Metas = []c20Meta{
	{name: "plain"},
	{name: "error-header", errOnly: true, m: srv.Meta{Header: http.Header{"Error": {"The object with the given id has already been deleted"}}}},
	{name: "error+retry", errOnly: true, m: srv.Meta{Header: http.Header{"Error": {"You have downloaded too much data. Please try again in 42 seconds."}, "Retry-After": {"42"}, "Cache-Control": {"no-cache"}}}},
	{name: "retry-after-date", errOnly: true, m: srv.Meta{Header: http.Header{"Retry-After": {"Wed, 21 Oct 2026 07:28:00 GMT"}}}},
	{name: "chunked+error", errOnly: true, m: srv.Meta{Chunked: true, Header: http.Header{"Error": {"bbox too large"}}}},
	{name: "nobody+error", errOnly: true, m: srv.Meta{NoBody: true, Header: http.Header{"Error": {"You requested too many nodes (limit is 50000)"}}}},
	{name: "noise", m: srv.Meta{Header: http.Header{"X-Request-Id": {"b7c3f0e2-1"}, "Vary": {"Accept-Encoding"}, "Server": {"Apache/2.4.54 (Ubuntu)"},
		"Content-Language": {"en"}, "Strict-Transport-Security": {"max-age=31536000"}, "Etag": {`W/"5f2c"`}, "Cache-Control": {"private, max-age=0, must-revalidate"}}}},
	{name: "chunked", m: srv.Meta{Chunked: true}},
	// content coding the way real servers do it: only a coding the request's Accept-Encoding
	// offers (Go's transport offers gzip by itself and undoes it), gzip or deflate (= zlib
	// format) preferred
	{name: "gzip-first", m: srv.Meta{Coding: "gzip-first"}},
	{name: "deflate-first", m: srv.Meta{Coding: "deflate-first"}},
	{name: "deflate-first+chunked", m: srv.Meta{Coding: "deflate-first", Chunked: true}},
}

func c20MetaFor(name string, n, status int) c20Meta {
	m := c20Metas[n%len(c20Metas)]
	for _, x := range c20Metas {
		if x.name == name {
			m = x
		}
	}
	if m.errOnly && status == 200 {
		return c20Metas[0]
	}
	return m
}

var c20Statuses = []int{200, 204, 400, 403, 404, 409, 410, 414, 429, 500, 503}

func c20Responses() []c20Resp {
	var out []c20Resp
	for _, n := range []int{0, 1, 2, 5} {
		out = append(out, c20Resp{Status: 200, Size: n, Body: "xml"})
	}
	for _, st := range c20Statuses[1:] {
		if st == 204 {
			out = append(out, c20Resp{Status: st, Size: 0, Body: "none"})
			continue
		}
		out = append(out, c20Resp{Status: st, Size: 1, Body: "xml"}, c20Resp{Status: st, Size: 0, Body: "text"})
	}
	out = append(out, c20Resp{Status: 200, Size: 3, Body: "truncated"})
	return out
}

var c20ErrLimiter = errors.New("verif: limiter says no")

type c20Env struct {
	res     *fw.Result
	log     *mon.Log
	api     *srv.API
	lim     *srv.APILimiter
	ds      *osmapi.Datasource
	pkg     bool
	base    c20Base
	via     string
	seed    uint64
	n       int
	restore func()
	baseURL string // the base URL as configured (the documented default when left empty)
	ft      *srv.FaultTripper
}

// materialise turns a URL-length argument into a concrete id list / search string, computed
// from the documented URL shape of the endpoint table (never from what the library sends).
func (e *c20Env) materialise(ep *c20EP, a c20Args) c20Args {
	if a.URLLen <= 0 {
		return a
	}
	switch {
	case ep.multi:
		// <base>/<name>?<name>=id,id,...   ten-digit ids cost 11 bytes each but the first;
		// the remainder is taken up by eleven-digit ids.
		avail := a.URLLen - len(e.baseURL) - len(ep.path(a)) - 1 - len(ep.name) - 1
		n := (avail + 1) / 11
		if n < 1 {
			n = 1
		}
		extra := avail - (11*n - 1)
		a.IDs = make([]int64, n)
		for i := range a.IDs {
			a.IDs[i] = 1_000_000_007 + int64(i)*7919
			if i < extra {
				a.IDs[i] += 10_000_000_000
			}
		}
	default:
		// <base>/notes/search?q=<text>   letters, digits and '+'-encoded spaces: one byte each
		avail := a.URLLen - len(e.baseURL) - len(ep.path(a)) - len("?q=")
		if avail < 1 {
			avail = 1
		}
		var sb strings.Builder
		for i := 0; i < avail; i++ {
			if i%9 == 8 {
				sb.WriteByte(' ')
			} else {
				sb.WriteByte("abcdefghijklmnopqrstuvwxyz0123456789"[(i*7)%36])
			}
		}
		a.Q = sb.String()
	}
	return a
}

func c20NewEnv(res *fw.Result, base c20Base, via string, seed uint64, noKeepAlive, noCompression bool) *c20Env {
	e := &c20Env{res: res, log: &mon.Log{}, base: base, via: via, seed: seed}
	e.api = srv.NewAPI(e.log)
	e.lim = &srv.APILimiter{Log: e.log}
	e.ft = &srv.FaultTripper{Log: e.log}
	client := e.api.ClientOpts(e.ft, noKeepAlive, noCompression)
	baseURL := ""
	e.baseURL = "http://api.openstreetmap.org/api/0.6"
	if !base.defHost {
		baseURL = e.api.URL() + base.suffix
		e.baseURL = baseURL
	}
	dd := osmapi.DefaultDatasource
	saved := *dd
	e.restore = func() { *dd = saved }
	switch via {
	case "ds":
		e.ds = osmapi.NewDatasource(client)
		e.ds.BaseURL = baseURL
	case "nilclient":
		// documented fallback: a Datasource without a client uses DefaultDatasource.Client
		e.ds = &osmapi.Datasource{BaseURL: baseURL}
		dd.Client = client
	case "pkg":
		e.pkg = true
		e.ds = dd
		dd.Client = client
		if base.defHost {
			dd.BaseURL = osmapi.BaseURL
		} else {
			dd.BaseURL = baseURL
		}
	}
	return e
}

func (e *c20Env) close() {
	e.restore()
	e.api.Close()
}

func c20IsEmpty(v any) bool {
	if v == nil {
		return true
	}
	rv := reflect.ValueOf(v)
	switch rv.Kind() {
	case reflect.Ptr:
		if rv.IsNil() {
			return true
		}
		zero := reflect.New(rv.Type().Elem())
		return eq.Dump(v) == eq.Dump(zero.Interface())
	case reflect.Slice:
		return rv.Len() == 0
	}
	return false
}

func c20ErrTypes(err error) []string {
	var out []string
	var nf *osmapi.NotFoundError
	var fb *osmapi.ForbiddenError
	var gn *osmapi.GoneError
	var tl *osmapi.RequestURITooLongError
	var us *osmapi.UnexpectedStatusCodeError
	if errors.As(err, &nf) {
		out = append(out, "NotFoundError")
	}
	if errors.As(err, &fb) {
		out = append(out, "ForbiddenError")
	}
	if errors.As(err, &gn) {
		out = append(out, "GoneError")
	}
	if errors.As(err, &tl) {
		out = append(out, "RequestURITooLongError")
	}
	if errors.As(err, &us) {
		out = append(out, fmt.Sprintf("UnexpectedStatusCodeError(%d)", us.Code))
	}
	return out
}

func c20WantErrType(status int) string {
	switch status {
	case 404:
		return "NotFoundError"
	case 403:
		return "ForbiddenError"
	case 410:
		return "GoneError"
	case 414:
		return "RequestURITooLongError"
	}
	return fmt.Sprintf("UnexpectedStatusCodeError(%d)", status)
}

type c20Obs struct {
	Endpoint string           `json:"endpoint"`
	Base     string           `json:"base"`
	Via      string           `json:"via"`
	Args     c20Args          `json:"args"`
	Opts     c20Opts          `json:"opts"`
	Limiter  string           `json:"limiter"`
	Resp     c20Resp          `json:"response"`
	Requests []srv.APIRequest `json:"requests_seen"`
	Waits    []int64          `json:"limiter_wait_seqs"`
	Err      string           `json:"error"`
	ErrTypes []string         `json:"error_types"`
	Doc      string           `json:"document_head"`
	Fault    string           `json:"transport_fault,omitempty"`
	Meta     string           `json:"response_metadata,omitempty"`
	Trips    []int64          `json:"roundtrip_seqs,omitempty"`
}

// c20BigKinds: the endpoints that get big answers and the document kind each is answered with.
var c20BigKinds = map[string]string{"nodes": "nodes", "node-history": "nodes", "map": "map", "changeset-download": "change"}

// bigCall: one call answered 200 with a well-formed document of at least the given size,
// streamed by the server from element templates (apixml.Big). The oracle regenerates element i
// from i; no model of the whole answer is kept.
func (e *c20Env) bigCall(ep *c20EP, a c20Args, o c20Opts, limMode string, bytes int64) {
	res := e.res
	e.n++
	a = e.materialise(ep, a)
	key := func(class string) string { return "C20/" + ep.name + "/big-answer/" + class }
	big, size := apixml.BigOfSize(c20BigKinds[ep.name], bytes)
	e.api.RespondStream(200, "application/xml; charset=utf-8", func(w io.Writer) error { _, err := big.Write(w); return err })
	e.lim.Err = nil
	e.ds.Limiter = nil
	if limMode == "present" {
		e.ds.Limiter = e.lim
	}
	e.api.Take()
	e.lim.Take()
	e.ft.Arm("")
	e.ft.Take()

	got, err := c20Invoke(ep.name, e.ds, e.pkg, context.Background(), a, o)

	reqs, waits := e.api.Take(), e.lim.Take()
	e.ft.Take()
	res.Event(int64(len(reqs) + len(waits)))
	res.Add("calls", 1)
	res.Add("calls_big_answer", 1)
	res.Add("requests_seen", int64(len(reqs)))
	res.Add("limiter_waits_seen", int64(len(waits)))
	res.SetMax("answer_bytes", size)
	res.SetMax("answer_elements", int64(big.Nodes+big.Ways()))
	res.Put("endpoints", ep.name)
	obs := c20Obs{Endpoint: ep.name, Base: e.base.name, Via: e.via, Args: a, Opts: o, Limiter: limMode, Resp: c20Resp{Status: 200, Size: big.Nodes + big.Ways(), Body: "xml"},
		Requests: reqs, Waits: waits, Doc: fmt.Sprintf("streamed %s document: %d nodes, %d ways, %d bytes", big.Kind, big.Nodes, big.Ways(), size)}
	if err != nil {
		obs.Err, obs.ErrTypes = err.Error(), c20ErrTypes(err)
	}
	res.Sample = obs
	viol := func(k, format string, args ...any) { res.Violate(k, fmt.Sprintf(format, args...), obs) }
	res.Eval(fmt.Sprintf("%s|%s|%s|%s|big:%dMiB", ep.name, e.base.name, e.via, limMode, size>>20))

	if len(reqs) != 1 {
		viol(key("request-count"), "server saw %d requests for one call, want exactly 1", len(reqs))
	}
	if limMode == "present" && (len(waits) == 0 || (len(reqs) > 0 && waits[0] > reqs[0].Seq)) {
		viol(key("limiter"), "limiter set but no Wait before the request (waits %v)", waits)
	}
	if err != nil {
		viol(key("error"), "status 200 with a well-formed document of %d bytes (%d nodes, %d ways), but error %v", size, big.Nodes, big.Ways(), err)
		if !c20IsEmpty(got) {
			viol(key("data-with-error"), "error together with data")
		}
		return
	}
	// returned elements == written elements
	var nodes [3]osm.Nodes // "change": per action
	var ways osm.Ways
	rootWant, rootGot := "", ""
	switch v := got.(type) {
	case osm.Nodes:
		nodes[0] = v
	case *osm.OSM:
		if v != nil {
			nodes[0], ways = v.Nodes, v.Ways
			cp := *v
			cp.Nodes, cp.Ways = nil, nil
			w := apixml.NewOSM()
			if big.Kind == "map" {
				w.Bounds = apixml.BigBounds()
			}
			rootWant, rootGot = eq.Dump(w), eq.Dump(&cp)
		}
	case *osm.Change:
		if v != nil {
			cp := *v
			for k, p := range []**osm.OSM{&cp.Create, &cp.Modify, &cp.Delete} {
				if *p != nil {
					nodes[k] = (*p).Nodes
					rest := **p
					rest.Nodes = nil
					if eq.Dump(&rest) == eq.Dump(&osm.OSM{}) {
						*p = nil
					}
				}
			}
			rootWant, rootGot = eq.Dump(apixml.NewChange()), eq.Dump(&cp)
		}
	}
	if rootWant != rootGot {
		viol(key("element"), "everything but the node/way lists differs from what the server wrote: %s", eq.Diff(rootWant, rootGot))
	}
	if big.Kind == "change" {
		for k := range nodes {
			if want := (big.Nodes + 2 - k) / 3; len(nodes[k]) != want {
				viol(key("count"), "%s: %d nodes returned, the server wrote %d", apixml.BigActions[k], len(nodes[k]), want)
				return
			}
			for j, n := range nodes[k] {
				if g, w := eq.Dump(n), eq.Dump(apixml.BigNode(3*j+k)); g != w {
					viol(key("element"), "%s node %d differs from what the server wrote: %s", apixml.BigActions[k], j, eq.Diff(w, g))
					return
				}
			}
		}
		return
	}
	if len(nodes[0]) != big.Nodes || len(ways) != big.Ways() {
		viol(key("count"), "%d nodes and %d ways returned, the server wrote %d and %d", len(nodes[0]), len(ways), big.Nodes, big.Ways())
		return
	}
	for i, n := range nodes[0] {
		if g, w := eq.Dump(n), eq.Dump(apixml.BigNode(i)); g != w {
			viol(key("element"), "node %d differs from what the server wrote: %s", i, eq.Diff(w, g))
			return
		}
	}
	for j, x := range ways {
		if g, w := eq.Dump(x), eq.Dump(apixml.BigWay(j)); g != w {
			viol(key("element"), "way %d differs from what the server wrote: %s", j, eq.Diff(w, g))
			return
		}
	}
}

// concurrentCalls: n goroutines issue the identical call on the one datasource at the same
// time. The server holds every request until all n are in flight (or a poll budget is used up —
// the sleeps only give the calls time to overlap, the verdict is in the counts), then answers
// them all with the same 200 document. Per call the statement still promises one GET after a
// Wait and the server's elements: n GETs, the k-th GET preceded by at least k Waits, every
// caller gets the elements. With cancelOne the first caller's context is cancelled while all
// are in flight; the others' contexts are alive, so they must still get their elements (the
// cancelled caller itself: only "no data next to an error").
func (e *c20Env) concurrentCalls(ep *c20EP, argIdx, n int, cancelOne bool) {
	res := e.res
	e.n++
	a := e.materialise(ep, ep.args[argIdx])
	o := ep.opts[0]
	r := gen.New(e.seed, fmt.Sprintf("c20/%s/%d", ep.name, e.n))
	key := func(class string) string { return "C20/" + ep.name + "/concurrent/" + class }
	size := 1
	if !ep.single {
		size = 3
	}
	doc, want := ep.body(r, false, a, size)
	e.api.Respond(200, "application/xml; charset=utf-8", doc)
	e.lim.Err = nil
	e.ds.Limiter = e.lim
	e.api.Take()
	e.lim.Take()
	e.ft.Arm("")
	e.ft.Take()
	e.api.Gate()

	type outcome struct {
		got any
		err error
	}
	outs := make([]outcome, n)
	ctx0, cancel0 := context.WithCancel(context.Background())
	defer cancel0()
	var wg sync.WaitGroup
	done0 := make(chan struct{})
	launch := func(i int) {
		wg.Add(1)
		go func() {
			defer wg.Done()
			ctx := context.Background()
			if i == 0 {
				ctx = ctx0
				defer close(done0)
			}
			outs[i].got, outs[i].err = c20Invoke(ep.name, e.ds, e.pkg, ctx, a, o)
		}()
	}
	arrived := func(k, polls int) {
		for p := 0; p < polls && e.api.Arrived() < k; p++ {
			time.Sleep(500 * time.Microsecond)
		}
	}
	launch(0)
	arrived(1, 4000) // the first caller's request is being held by the server
	for i := 1; i < n; i++ {
		launch(i)
	}
	arrived(n, 400)
	if cancelOne {
		cancel0()
		<-done0
	}
	e.api.Release()
	wg.Wait()

	reqs, waits := e.api.Take(), e.lim.Take()
	e.ft.Take()
	sort.Slice(reqs, func(i, j int) bool { return reqs[i].Seq < reqs[j].Seq })
	sort.Slice(waits, func(i, j int) bool { return waits[i] < waits[j] })
	res.Event(int64(len(reqs) + len(waits)))
	res.Add("calls", int64(n))
	res.Add("calls_concurrent", int64(n))
	res.Add("requests_seen", int64(len(reqs)))
	res.Add("limiter_waits_seen", int64(len(waits)))
	res.SetMax("concurrent_callers", int64(n))
	res.Put("endpoints", ep.name)
	scen := fmt.Sprintf("%d identical concurrent calls", n)
	if cancelOne {
		scen += ", first caller's context cancelled in flight"
	}
	obs := c20Obs{Endpoint: ep.name, Base: e.base.name, Via: e.via, Args: a, Opts: o, Limiter: "present", Resp: c20Resp{Status: 200, Size: size, Body: "xml"},
		Requests: reqs, Waits: waits, Doc: apixml.Describe(doc), Fault: scen}
	if len(obs.Args.IDs) > 8 {
		obs.Args.IDs = obs.Args.IDs[:8]
	}
	for _, rq := range obs.Requests {
		if len(rq.RawQuery) > 300 {
			obs.Requests = nil // (length arguments: keep the replay file small)
			break
		}
	}
	if res.Sample == nil {
		res.Sample = obs
	}
	viol := func(k, format string, args ...any) { res.Violate(k, fmt.Sprintf(format, args...), obs) }
	res.Eval(fmt.Sprintf("%s|%s|%s|concurrent:%d/cancel:%v", ep.name, e.base.name, e.via, n, cancelOne))

	// (the cancelled caller may have been cancelled before it got as far as its Wait or GET)
	live := n
	if cancelOne {
		live = n - 1
	}
	if len(reqs) > n || len(reqs) < live {
		viol(key("request-count"), "%s: the server saw %d GETs, want one per call", scen, len(reqs))
	}
	if len(waits) < len(reqs) || len(waits) < live {
		viol(key("limiter-count"), "%s: %d Waits on the limiter for %d calls and %d GETs", scen, len(waits), n, len(reqs))
	}
	for i := range reqs {
		if i < len(waits) && waits[i] > reqs[i].Seq {
			viol(key("limiter-order"), "%s: GET number %d (sequence %d) was preceded by only %d Wait(s)", scen, i+1, reqs[i].Seq, i)
			break
		}
	}
	w := eq.Dump(c20Norm(want))
	for i, out := range outs {
		if i == 0 && cancelOne {
			if out.err != nil && !c20IsEmpty(out.got) {
				viol(key("data-with-error"), "%s: the cancelled caller got an error (%v) together with data", scen, out.err)
			}
			continue
		}
		if out.err != nil {
			viol(key("error"), "%s: caller %d (context alive, status 200) got error %v", scen, i, out.err)
			continue
		}
		if g := eq.Dump(c20Norm(out.got)); g != w {
			viol(key("data"), "%s: caller %d: returned value differs from what the server wrote: %s", scen, i, eq.Diff(w, g))
		}
	}
}

// c20Faults are the transport-level behaviours: client-side errors injected by the round
// tripper and server-side hang-ups.
func c20Faults() []string { return append(append([]string{}, srv.FaultModes...), srv.HangupModes...) }

// faultCall performs one library call whose single GET meets a transport fault instead of an
// HTTP answer. The statement's "exactly one GET ... after waiting on the rate limiter" is
// unconditional; a transport error is not one of the listed statuses, so only the number of
// GETs the library asks its http.Client for (RoundTrip calls), the limiter and "an error, no
// data" are asserted — never the error's type. The server is configured to answer 200 with
// one element, so a second attempt would be answered.
func (e *c20Env) faultCall(ep *c20EP, a c20Args, o c20Opts, limMode, fault string) {
	res := e.res
	e.n++
	a = e.materialise(ep, a)
	r := gen.New(e.seed, fmt.Sprintf("c20/%s/%d", ep.name, e.n))
	key := func(class string) string { return "C20/" + ep.name + "/transport-fault/" + class }
	doc, _ := ep.body(r, false, a, 1)
	e.api.Respond(200, "application/xml; charset=utf-8", doc)
	serverSide := false
	for _, m := range srv.HangupModes {
		if m == fault {
			serverSide = true
		}
	}
	e.lim.Err = nil
	e.ds.Limiter = nil
	if limMode == "present" {
		e.ds.Limiter = e.lim
	}
	if serverSide {
		e.api.Hangup(fault)
		e.ft.Arm("")
	} else {
		e.ft.Arm(fault)
	}
	e.api.Take()
	e.lim.Take()
	e.ft.Take()

	got, err := c20Invoke(ep.name, e.ds, e.pkg, context.Background(), a, o)

	reqs, waits, trips := e.api.Take(), e.lim.Take(), e.ft.Take()
	e.ft.Arm("")
	res.Event(int64(len(reqs) + len(waits) + len(trips)))
	res.Add("calls", 1)
	res.Add("calls_transport_fault", 1)
	res.Add("roundtrips_seen", int64(len(trips)))
	res.Add("requests_seen", int64(len(reqs)))
	res.Add("limiter_waits_seen", int64(len(waits)))
	res.SetMax("roundtrips_per_call", int64(len(trips)))
	res.Put("endpoints", ep.name)
	res.Put("transport_faults", fault)
	obs := c20Obs{Endpoint: ep.name, Base: e.base.name, Via: e.via, Args: a, Opts: o, Limiter: limMode, Resp: c20Resp{Status: 200, Size: 1, Body: "xml"},
		Requests: reqs, Waits: waits, Doc: apixml.Describe(doc), Fault: fault, Trips: trips}
	if len(obs.Args.IDs) > 8 {
		obs.Args.IDs = obs.Args.IDs[:8]
	}
	if err != nil {
		obs.Err, obs.ErrTypes = err.Error(), c20ErrTypes(err)
	}
	if res.Sample == nil {
		res.Sample = obs
	}
	viol := func(k, format string, args ...any) { res.Violate(k, fmt.Sprintf(format, args...), obs) }
	res.Eval(fmt.Sprintf("%s|%s|%s|%s|%s|fault:%s", ep.name, o.Label, e.base.name, e.via, limMode, fault))

	if len(trips) != 1 {
		viol(key("roundtrip-count"), "transport fault %s: the call asked its http.Client for %d GETs, want exactly 1", fault, len(trips))
	}
	if limMode == "present" {
		switch {
		case len(waits) == 0:
			viol(key("limiter-not-waited"), "transport fault %s: limiter set but Wait was never called", fault)
		case len(trips) > 0 && waits[0] > trips[0]:
			viol(key("limiter-order"), "transport fault %s: first Wait has sequence number %d, the first GET %d", fault, waits[0], trips[0])
		case len(trips) > len(waits):
			viol(key("limiter-count"), "transport fault %s: %d GETs after only %d Wait(s) on the limiter", fault, len(trips), len(waits))
		}
	}
	if err == nil && fault != "close-in-body" {
		// (a body cut in mid-air is the "truncated" corner: only "no data next to an error")
		viol(key("no-error"), "transport fault %s: the call's GET got no response, yet no error was returned (data: %s)", fault, c20Trim(eq.Dump(got), 200))
	}
	if err != nil && !c20IsEmpty(got) {
		viol(key("data-with-error"), "transport fault %s: error (%v) together with data: %s", fault, err, c20Trim(eq.Dump(got), 300))
	}
}

// call performs one library call and evaluates the oracle on it.
func (e *c20Env) call(ep *c20EP, a c20Args, o c20Opts, limMode string, rs c20Resp) {
	res := e.res
	e.n++
	a = e.materialise(ep, a)
	r := gen.New(e.seed, fmt.Sprintf("c20/%s/%d", ep.name, e.n))
	noise := r.Bool()
	key := func(class string) string { return "C20/" + ep.name + "/" + class }
	skey := func(class string) string { return fmt.Sprintf("C20/%s/%s/%d", ep.name, class, rs.Status) }

	// the server's answer
	var doc []byte
	var want any
	ctype := "application/xml; charset=utf-8"
	switch rs.Body {
	case "xml":
		doc, want = ep.body(r, noise, a, rs.Size)
	case "truncated":
		doc, _ = ep.body(r, false, a, rs.Size)
		// cut inside the last element: the document is not well-formed any more
		if i := strings.LastIndex(string(doc), "<"); i > 0 {
			doc = doc[:i-r.Intn(8)-1]
		}
	case "short-body", "chunked-cut":
		// status line and headers arrive intact, the body does not (see srv.BrokenBodyModes);
		// the body alternates between an XML decoy and the API's plain-text explanation
		if rs.Size > 0 {
			doc, _ = ep.body(r, false, a, rs.Size)
		} else {
			doc, ctype = []byte("The object could not be served, says the fake API, and then the line went dea"), "text/plain; charset=utf-8"
		}
	case "text":
		doc, ctype = []byte("The object could not be served, says the fake API."), "text/plain; charset=utf-8"
	case "none":
		ctype = ""
	}
	e.api.Respond(rs.Status, ctype, doc)
	meta := c20MetaFor(rs.Meta, e.n, rs.Status)
	if rs.Body == "short-body" || rs.Body == "chunked-cut" {
		e.api.Hangup(rs.Body)
		res.Add("calls_status_with_broken_body", 1)
		meta = c20Metas[0]
	} else {
		e.api.Metadata(meta.m)
		res.Put("response_metadata_sets", meta.name)
		if meta.m.Header.Get("Error") != "" {
			res.Add("calls_with_error_header", 1)
		}
	}

	// the limiter
	e.lim.Err = nil
	switch limMode {
	case "absent":
		e.ds.Limiter = nil
	case "present":
		e.ds.Limiter = e.lim
	case "failing":
		e.ds.Limiter = e.lim
		e.lim.Err = c20ErrLimiter
	}
	e.api.Take()
	e.lim.Take()
	e.ft.Arm("")
	e.ft.Take()

	got, err := c20Invoke(ep.name, e.ds, e.pkg, context.Background(), a, o)

	reqs := e.api.Take()
	waits := e.lim.Take()
	res.Add("roundtrips_seen", int64(len(e.ft.Take())))
	for _, rq := range reqs {
		if rq.Coding != "" {
			res.Add("answers_content_coded", 1)
			res.Put("content_codings_answered", rq.Coding)
		}
		res.Put("accept_encodings_seen", rq.AcceptEncoding)
	}
	res.Event(int64(len(reqs) + len(waits)))
	res.Add("calls", 1)
	res.Add("requests_seen", int64(len(reqs)))
	res.Add("limiter_waits_seen", int64(len(waits)))
	res.SetMax("requests_per_call", int64(len(reqs)))
	res.Put("endpoints", ep.name)
	res.Put("statuses", strconv.Itoa(rs.Status))

	obs := c20Obs{Endpoint: ep.name, Base: e.base.name, Via: e.via, Args: a, Opts: o, Limiter: limMode, Resp: rs, Requests: reqs, Waits: waits, Doc: apixml.Describe(doc), Meta: meta.name}
	if len(obs.Args.IDs) > 8 {
		obs.Args.Label += fmt.Sprintf(" (%d ids, first 8 shown)", len(obs.Args.IDs))
		obs.Args.IDs = obs.Args.IDs[:8]
	}
	if len(obs.Args.Q) > 120 {
		obs.Args.Label += fmt.Sprintf(" (q of %d bytes, head shown)", len(obs.Args.Q))
		obs.Args.Q = obs.Args.Q[:120]
	}
	obs.Requests = append([]srv.APIRequest(nil), reqs...)
	for i := range obs.Requests {
		if q := obs.Requests[i].RawQuery; len(q) > 300 {
			obs.Requests[i].RawQuery = fmt.Sprintf("%s… (%d bytes)", q[:300], len(q))
		}
	}
	if a.URLLen > 0 {
		res.Add("calls_url_length_ladder", 1)
		for _, rq := range reqs {
			res.SetMax("request_uri_bytes", int64(len(rq.RawPath)+1+len(rq.RawQuery)))
		}
	}
	if err != nil {
		obs.Err, obs.ErrTypes = err.Error(), c20ErrTypes(err)
	}
	if res.Sample == nil {
		res.Sample = obs
	}
	viol := func(k, format string, args ...any) {
		res.Violate(k, fmt.Sprintf(format, args...), obs)
	}
	sig := fmt.Sprintf("%s|%s|%s|%s|%s|%d/%s/%d", ep.name, o.Label, e.base.name, e.via, limMode, rs.Status, rs.Body, rs.Size)
	if a.URLLen > 0 {
		sig += "|" + a.Label
	}
	if rs.Meta != "" {
		sig += "|meta:" + rs.Meta
	}
	res.Eval(sig)

	dataWithError := func(k string) {
		if err != nil && !c20IsEmpty(got) {
			viol(k, "call returned an error (%v) together with data: %s", err, c20Trim(eq.Dump(got), 300))
		}
	}

	// --- a failing limiter: no request at all, its error comes back -------------------------
	if limMode == "failing" && !o.Invalid {
		if len(waits) == 0 {
			viol(key("limiter-not-waited"), "limiter set but Wait was never called")
		}
		if len(reqs) != 0 {
			viol(key("request-despite-limiter-error"), "limiter's Wait failed but the server saw %d request(s)", len(reqs))
		}
		switch {
		case err == nil:
			viol(key("limiter-error-lost"), "limiter's Wait failed but the call returned no error")
		case !errors.Is(err, c20ErrLimiter):
			viol(key("limiter-error-replaced"), "limiter's Wait failed with %q but the call returned %q", c20ErrLimiter, err)
		}
		dataWithError(key("data-with-error/limiter"))
		res.Add("calls_limiter_failing", 1)
		return
	}

	// --- option values documented as invalid: run, only "no data next to an error" ---------
	if o.Invalid {
		dataWithError(key("data-with-error/invalid-option"))
		res.Add("calls_not_asserted_invalid_option", 1)
		return
	}

	// --- exactly one GET to the documented URL -------------------------------------------
	if ep.multi && len(a.IDs) == 0 && len(reqs) == 0 {
		// multi-fetch of no ids at all: whether that is worth a request is not documented
		res.Add("calls_not_asserted_empty_id_list", 1)
		dataWithError(key("data-with-error/empty-id-list"))
		return
	}
	if len(reqs) != 1 {
		viol(key("request-count"), "server saw %d requests for one call, want exactly 1", len(reqs))
	}
	if len(reqs) >= 1 {
		rq := reqs[0]
		if rq.Method != "GET" {
			viol(key("method"), "request method %s, want GET", rq.Method)
		}
		wantHost := e.api.HostPort()
		if e.base.defHost {
			wantHost = "api.openstreetmap.org"
		}
		if rq.Host != wantHost {
			viol(key("host"), "request went to host %q, want %q (base %s)", rq.Host, wantHost, e.base.name)
		}
		wantPath := e.base.prefix + ep.path(a)
		gotPath := rq.RawPath
		if e.base.slash {
			gotPath = c20Collapse(gotPath)
		}
		if gotPath != wantPath {
			viol(key("path"), "request path %q, want %q (base %s)", rq.RawPath, wantPath, e.base.name)
		}
		// query
		wantQ := map[string]c20Param{}
		if ep.params != nil {
			for k, v := range ep.params(a) {
				wantQ[k] = v
			}
		}
		if o.At != nil {
			wantQ["at"] = c20Param{kind: "time", t: *o.At}
		}
		for _, x := range o.Notes {
			wantQ[x.Kind] = c20Param{kind: "int", n: int64(x.N)}
		}
		gotQ, qerr := c20ParseQuery(rq.RawQuery)
		if qerr != nil {
			viol(key("query-malformed"), "query %q cannot be parsed: %v", rq.RawQuery, qerr)
		} else {
			names := make([]string, 0, len(wantQ))
			for k := range wantQ {
				names = append(names, k)
			}
			sort.Strings(names)
			for _, name := range names {
				vals := gotQ[name]
				if len(vals) == 0 {
					viol(key("query-"+name+"-missing"), "query %q lacks parameter %s", rq.RawQuery, name)
					continue
				}
				for _, v := range vals {
					if class, what := c20CompareParam(name, wantQ[name], v); class != "" {
						viol(key(class), "%s (query %q)", what, rq.RawQuery)
						break
					}
				}
			}
			for name := range gotQ {
				if _, ok := wantQ[name]; !ok {
					viol(key("query-extra"), "query %q carries parameter %q, which the documented call does not have", rq.RawQuery, name)
				}
			}
		}
		// limiter order
		if limMode == "present" {
			if len(waits) == 0 {
				viol(key("limiter-not-waited"), "limiter set but Wait was never called")
			} else if waits[0] > rq.Seq {
				viol(key("limiter-order"), "first Wait has sequence number %d, the request %d: the request was not preceded by a Wait", waits[0], rq.Seq)
			}
		}
	} else if limMode == "present" && len(waits) == 0 {
		viol(key("limiter-not-waited"), "limiter set but Wait was never called")
	}

	// --- status mapping and returned data -----------------------------------------------
	if notFound := e.ds.NotFound(err); len(reqs) > 0 && notFound != (rs.Status == 404) {
		viol(skey("notfound-predicate"), "NotFound(err) = %v for status %d (err = %v)", notFound, rs.Status, err)
	}
	if rs.Status != 200 {
		if err == nil {
			viol(skey("no-error"), "status %d but the call returned no error (data: %s)", rs.Status, c20Trim(eq.Dump(got), 200))
		} else {
			ts := c20ErrTypes(err)
			if wantT := c20WantErrType(rs.Status); len(ts) != 1 || ts[0] != wantT {
				viol(skey("error-type"), "status %d mapped to %v (%v), want %s", rs.Status, ts, err, wantT)
			}
		}
		dataWithError(skey("data-with-error"))
		if err == nil && !c20IsEmpty(got) {
			viol(skey("data-with-status"), "status %d but the call returned data", rs.Status)
		}
		return
	}
	switch {
	case rs.Body == "truncated":
		// a document that ends in mid-air: whatever is reported, it must not be an error plus data
		dataWithError(key("data-with-error/truncated"))
		res.Add("calls_truncated_body", 1)
	case ep.single && rs.Size != 1:
		if err == nil {
			viol(key(fmt.Sprintf("single-accepts-%d-elements", rs.Size)), "single-element call accepted a response with %d elements: %s", rs.Size, c20Trim(eq.Dump(got), 200))
		}
		dataWithError(key("data-with-error/200"))
	default:
		if err != nil {
			viol(key("error-on-200"), "status 200 with a well-formed document of %d element(s), but error %v", rs.Size, err)
			dataWithError(key("data-with-error/200"))
			return
		}
		g, w := eq.Dump(c20Norm(got)), eq.Dump(c20Norm(want))
		if g != w {
			viol(key("data"), "returned value differs from what the server wrote: %s", eq.Diff(w, g))
		}
	}
}

func c20Trim(s string, n int) string {
	if len(s) > n {
		return s[:n] + "…"
	}
	return s
}

// ---------------------------------------------------------------------------------------
// cases

type c20Combo struct{ a, o, l, r int }

func c20Product(ep *c20EP) []c20Combo {
	nr := len(c20Responses())
	var out []c20Combo
	for a := range ep.args {
		for o := range ep.opts {
			for l := range c20LimiterModes {
				for r := 0; r < nr; r++ {
					out = append(out, c20Combo{a, o, l, r})
				}
			}
		}
	}
	return out
}

func c20Exec(c fw.Case) *fw.Result {
	res := fw.NewResult()
	ep := c20EPByName(c.Str("ep"))
	if ep == nil {
		res.Inconc("unknown endpoint %q", c.Str("ep"))
		return res
	}
	var base c20Base
	for _, b := range c20Bases {
		if b.name == c.Str("base") {
			base = b
		}
	}
	env := c20NewEnv(res, base, c.Str("via"), c.Seed, c.Kind == "faults", c.Int("nocomp") == 1)
	defer env.close()
	resps := c20Responses()
	do := func(cb c20Combo) {
		env.call(ep, ep.args[cb.a], ep.opts[cb.o], c20LimiterModes[cb.l], resps[cb.r])
	}
	switch c.Kind {
	case "full":
		for _, cb := range c20Product(ep) {
			do(cb)
		}
	case "sweep":
		// every status / size / body kind once per limiter mode, arguments and options rotating
		k := 0
		for l := range c20LimiterModes {
			for r := range resps {
				if c20LimiterModes[l] == "failing" && r%8 != 0 {
					continue
				}
				do(c20Combo{k % len(ep.args), (k / 2) % len(ep.opts), l, r})
				k++
			}
		}
	case "ladder":
		// request-URL length ladder: every length argument, limiter absent and present, against
		// 200 answers (one element, five elements) and a genuine 414 from the server
		for a := range ep.args {
			if ep.args[a].URLLen == 0 {
				continue
			}
			for l := 0; l < 2; l++ {
				for r, rs := range resps {
					if (rs.Status == 200 && rs.Body == "xml" && (rs.Size == 1 || rs.Size == 5)) || (rs.Status == 414 && rs.Body == "xml") {
						do(c20Combo{a, l, l, r}) // options: none, then the first non-empty valid set
					}
				}
			}
		}
	case "faults":
		// every transport fault x limiter absent / present, arguments and options rotating
		k := 0
		for _, fault := range c20Faults() {
			for l := 0; l < 2; l++ {
				o := ep.opts[k%len(ep.opts)]
				if o.Invalid {
					o = ep.opts[0]
				}
				env.faultCall(ep, ep.args[k%len(ep.args)], o, c20LimiterModes[l], fault)
				k++
			}
		}
		// every non-200 status whose body breaks after status line and headers arrived intact:
		// the status was received, so its typed error is due (ordinary oracle of call)
		for _, st := range c20Statuses {
			if st == 200 || st == 204 {
				continue
			}
			for m, mode := range srv.BrokenBodyModes {
				for l := 0; l < 2; l++ {
					o := ep.opts[k%len(ep.opts)]
					if o.Invalid {
						o = ep.opts[0]
					}
					env.call(ep, ep.args[k%len(ep.args)], o, c20LimiterModes[l], c20Resp{Status: st, Size: (m + l) % 2, Body: mode})
					k++
				}
			}
		}
		// every non-200 status under every set of response metadata (Error header, Retry-After,
		// chunked, no body, ...): only the status decides the error
		for _, st := range c20Statuses {
			if st == 200 {
				continue
			}
			for _, m := range c20Metas {
				o := ep.opts[k%len(ep.opts)]
				if o.Invalid {
					o = ep.opts[0]
				}
				body := []string{"text", "xml"}[k%2]
				if st == 204 {
					body = "none"
				}
				env.call(ep, ep.args[k%len(ep.args)], o, c20LimiterModes[k%2], c20Resp{Status: st, Size: k % 2, Body: body, Meta: m.name})
				k++
			}
		}
		// every 200 answer size under every content-coding policy
		for _, m := range c20Metas {
			if m.m.Coding == "" {
				continue
			}
			for _, n := range []int{0, 1, 2, 5} {
				env.call(ep, ep.args[k%len(ep.args)], ep.opts[0], c20LimiterModes[k%2], c20Resp{Status: 200, Size: n, Body: "xml", Meta: m.name})
				k++
			}
		}
	case "concurrent":
		for _, n := range []int{2, 4, 8} {
			for _, cancelOne := range []bool{false, true} {
				env.concurrentCalls(ep, int(c.Int("arg"))%len(ep.args), n, cancelOne)
			}
		}
	case "big":
		env.bigCall(ep, ep.args[0], ep.opts[0], c20LimiterModes[c.Int("lim")], c.Int("bytes"))
	case "shapes":
		// answer-shape repetition: many well-formed 200 answers of growing size, so that the
		// PRNG-chosen document layouts (block order of a changeset download, element mix of
		// map / full answers, writer noise) are all met
		k := 0
		for i := int64(0); i < c.Int("calls"); i++ {
			for _, n := range []int{2, 3, 5, 9} {
				env.call(ep, ep.args[k%len(ep.args)], ep.opts[0], c20LimiterModes[k%2], c20Resp{Status: 200, Size: n, Body: "xml"})
				k++
			}
		}
	case "slice":
		all := c20Product(ep)
		r := gen.New(c.Seed, "c20slice")
		for i := int64(0); i < c.Int("calls"); i++ {
			do(all[r.Intn(len(all))])
		}
	}
	return res
}

func c20Cases(tier string, seed uint64) []fw.Case {
	eps := c20Endpoints()
	var cs []fw.Case
	mk := func(kind, ep, base, via string, i int, calls int64) fw.Case {
		return fw.Case{Kind: kind, Seed: gen.Sub(seed, "c20/"+kind, i), S: map[string]string{"ep": ep, "base": base, "via": via}, P: map[string]int64{"calls": calls}}
	}
	// concurrent identical calls: per endpoint reps cases (base, access path, argument
	// rotating); the first nrace endpoints also under the race detector
	conc := func(eps []c20EP, reps, nrace int) {
		k := 0
		for i, ep := range eps {
			for j := 0; j < reps; j++ {
				c := mk("concurrent", ep.name, c20Bases[k%len(c20Bases)].name, c20Vias[k%len(c20Vias)], k, 0)
				c.P["arg"] = int64(k)
				cs = append(cs, c)
				if j == 0 && i < nrace {
					c2 := mk("concurrent", ep.name, c20Bases[(k+1)%len(c20Bases)].name, c20Vias[(k+1)%len(c20Vias)], k, 0)
					c2.P["arg"], c2.Variant = int64(k+1), "race"
					cs = append(cs, c2)
				}
				k++
			}
		}
	}
	bigs := func(sizes ...int64) {
		k := 0
		for _, name := range []string{"nodes", "map", "changeset-download", "node-history"} {
			for _, b := range sizes {
				c := mk("big", name, c20Bases[k%len(c20Bases)].name, c20Vias[k%len(c20Vias)], k, 0)
				c.P["bytes"], c.P["lim"] = b, int64(k%2)
				cs = append(cs, c)
				k++
			}
		}
	}
	shapes := func(calls int64, reps int) {
		k := 0
		for _, name := range []string{"changeset-download", "map", "way-full", "relation-full"} {
			for j := 0; j < reps; j++ {
				cs = append(cs, mk("shapes", name, c20Bases[k%len(c20Bases)].name, c20Vias[k%len(c20Vias)], k, calls))
				k++
			}
		}
	}
	if tier == "thorough" {
		i := 0
		for _, ep := range eps {
			for _, b := range c20Bases {
				for _, v := range c20Vias {
					cs = append(cs, mk("full", ep.name, b.name, v, i, 0))
					fc := mk("faults", ep.name, b.name, v, i, 0)
					fc.P["nocomp"] = int64(i % 2)
					cs = append(cs, fc)
					i++
				}
			}
		}
		shapes(100, 6)
		bigs(8<<20-64<<10, 8<<20+64<<10, 16<<20+1, 40<<20)
		conc(eps, len(c20Bases)*len(c20Vias), len(eps))
		return fw.Number(cs)
	}
	// quick: every endpoint x every status (and size) once, under rotating base / via ...
	for i, ep := range eps {
		cs = append(cs, mk("sweep", ep.name, c20Bases[i%len(c20Bases)].name, c20Vias[i%len(c20Vias)], i, 0))
	}
	// ... the request-URL length ladder for every call whose URL grows with its arguments
	k := 0
	for _, ep := range eps {
		for _, a := range ep.args {
			if a.URLLen > 0 {
				cs = append(cs, mk("ladder", ep.name, c20Bases[k%len(c20Bases)].name, c20Vias[k%len(c20Vias)], k, 0))
				k++
				break
			}
		}
	}
	// ... every transport fault on every endpoint, and the answer-shape repetition
	for i, ep := range eps {
		c := mk("faults", ep.name, c20Bases[(i+2)%len(c20Bases)].name, c20Vias[(i+1)%len(c20Vias)], i, 0)
		c.P["nocomp"] = int64(i % 2) // every other case: transport with DisableCompression
		cs = append(cs, c)
	}
	shapes(12, 1)
	conc(eps, 1, 4)
	// ... a few big answers (one size per big-answer endpoint, staggered)
	for i, name := range []string{"nodes", "map", "changeset-download"} {
		c := mk("big", name, c20Bases[i%len(c20Bases)].name, c20Vias[i%len(c20Vias)], i, 0)
		c.P["bytes"], c.P["lim"] = []int64{8<<20 + 64<<10, 12 << 20, 9 << 20}[i], int64(i%2)
		cs = append(cs, c)
	}
	// ... plus a PRNG-chosen slice of the full product
	r := gen.New(seed, "c20slices")
	for i := 0; i < 60; i++ {
		ep := eps[i%len(eps)]
		if i >= 2*len(eps) {
			ep = eps[r.Intn(len(eps))]
		}
		cs = append(cs, mk("slice", ep.name, c20Bases[r.Intn(len(c20Bases))].name, c20Vias[r.Intn(len(c20Vias))], i, 32))
	}
	return fw.Number(cs)
}

func init() {
	fw.Register(&fw.Prop{
		ID:    "C20",
		Level: "exploration",
		Rule: "product of endpoint (26 functions) x argument (ids incl. 0, 2^32+7, 2^53+1, MaxInt64; id/version pairs; id lists empty/single/unsorted/duplicate/60 long/10 ten-digit; six bounding boxes incl. 7-decimal ones; eight search strings with URL/XML specials and Unicode; for the multi-fetch calls and the notes search also id lists / search strings materialised so that the documented request URL is exactly 2048, 4096, 8190, 8191, 8192, 16384, 16385, 65536, 65537 bytes long) " +
			"x option set (none / At in UTC, in a zone, with nanoseconds; seven valid and two invalid notes option lists) x base URL (server root, /api/0.6, deep prefix, library default host, trailing slash) x access path (Datasource with client, Datasource falling back to DefaultDatasource.Client, package-level function) " +
			"x limiter (absent, present, failing) x response (200 with 0/1/2/5 elements, 200 truncated, 204, and 400 403 404 409 410 414 429 500 503 each with an XML decoy body and a text body). " +
			"thorough enumerates the whole product (one case per endpoint x base x access path, one httptest server per case); quick runs one sweep per endpoint over every response and limiter mode, one URL-length ladder per URL-growing endpoint (every length x limiter absent/present x 200 with 1 and 5 elements and a served 414) plus 60 PRNG-chosen slices of 32 calls. " +
			"Transport faults (every endpoint x {round tripper returning EOF / unexpected EOF / ECONNRESET / EPIPE / ECONNREFUSED / timeout, first attempt only or always; server closing the connection before the status line, inside the header, inside the body} x limiter absent/present; connections not reused) are asserted on the number of RoundTrip calls, the limiter and 'an error, no data' only. In the same cases every non-200 status is also served with intact status line and headers but a body that breaks (Content-Length beyond what is sent, chunked without the last chunk; XML decoy or text) and judged by the ordinary status oracle. Answer-shape repetition: changeset-download / map / way-full / relation-full with 2, 3, 5, 9 elements over and over (download: one block per element with alternating actions, random runs, grouped, empty blocks). " +
			"Content coding: the server compresses only with a coding the request's Accept-Encoding offers (gzip, or deflate = zlib format, by a gzip-first or deflate-first policy), on rotating ordinary calls and on every endpoint x 200 sizes x policy, half of those cases with a DisableCompression transport. Concurrent identical calls: 2, 4, 8 goroutines issue the same call on one datasource while the server holds the requests until all are in flight; one GET and one preceding Wait per call, every caller gets the elements; variant with the first caller's context cancelled in flight (plain build, some cases under the race detector). " +
			"A signature is endpoint|options|base|access|limiter|status/body/size (or fault:<mode>, big:<MiB>, concurrent:<n>); distinct_nontrivial counts distinct signatures.",
		Assumptions: []string{
			"query strings are compared as parsed parameter sets (own parser); a trailing '?' or '&' and parameter order are insignificant; multi-fetch id lists are compared as sets",
			"bbox components are compared numerically: a deviation above 1e-6 is class 'bbox' (wrong box); the library renders six decimals and the statement promises no decimal precision, so smaller deviations are accepted",
			"the 'at' option is compared as an instant with a tolerance below one second (documented format has whole seconds)",
			"include_discussion only has to be present (the API documents that any value switches the discussion on)",
			"a base URL with a trailing slash is not documented by the library (its BaseURL constant has none): paths are compared with runs of '/' collapsed",
			"an empty id list for a multi-fetch call and Limit values outside [1,10000] are run but only 'no data next to an error' is asserted",
			"errors are classified with errors.As, the limiter's error with errors.Is; error texts are never compared; nil and empty slices are equal; a non-nil but zero-valued *osm.OSM / *osm.Change next to an error is not counted as data",
			"the multi-fetch functions of this library take plain ids (no version suffix form such as 2v3 exists in its API), so only the plain form is enumerated",
			"transport faults: the statement lists statuses, not transport errors, so only the RoundTrip count (exactly one GET asked of the http.Client), the limiter (a Wait before the first GET, never more GETs than Waits) and 'some error, no data' are asserted; a body cut in mid-air asserts no error at all, only 'no data next to an error'; connection reuse is off in these cases because net/http itself replays a GET on a reused connection that dies before the first response byte",
			"a non-200 answer whose status line and headers arrived but whose body breaks off has been received with that status: its typed error is asserted as for a complete answer (the body of an error answer carries nothing the call returns); a stalled body (wall-clock) is not generated",
			"concurrent identical calls: the sleeps while waiting for all requests to arrive only give the calls time to overlap; the verdict is in the counts (GETs == calls, k-th GET preceded by k Waits, every live caller gets the elements). The caller whose context is cancelled may or may not have issued its GET; only 'no data next to an error' is asserted for it",
			"a data race with a library frame during concurrent calls on one Datasource counts as a violation (the Datasource's Limiter is documented for 'many concurrent requests')",
			"in an osm.Change an action (create/modify/delete) without elements compares equal whether nil or an empty document",
			"Wait must be called at least once before the request (sequence numbers of one shared atomic counter); the number of Wait calls is not asserted",
		},
		Cases:   c20Cases,
		Exec:    c20Exec,
		Workers: 12,
		// the Datasource is documented for concurrent use (its Limiter "when making many concurrent
		// requests"): a race report with a library frame in the concurrent cases is a violation
		RaceIsViolation: true,
		Exhaustive:      func(tier string) bool { return tier == "thorough" },
	})
}
