package props

import (
	"bytes"
	"encoding/json"
	"fmt"
	"math"
	"math/big"
	"runtime/debug"
	"sort"
	"strconv"
	"strings"
	"sync"
	"time"

	"github.com/paulmach/osm"
	"github.com/paulmach/osm/osmgeojson"

	"verif/internal/eq"
	"verif/internal/fw"
	"verif/internal/gen"
)

// C17 — GeoJSON conversion maps elements to features exactly; options only subtract.
//
// Monitor shape: a generated OSM data set (ground truth known by construction) is converted
// by the real osmgeojson.Convert under all 16 option sets; the observation is the JSON text
// of the returned FeatureCollection (json.Marshal), decoded generically. An independent
// reference of the *documented* rules (c17Ref) decides every feature:
//
//   - every feature names an input element (properties.type/id), no element is named twice;
//   - tags / meta / relations / top-level id equal the element's (or are absent when disabled);
//   - node rule in both directions; way line / area ring; route edge multiset + joining;
//   - option outputs equal the baseline output with exactly the documented key deleted;
//   - three conversions of equal input (same object twice, fresh deep clone) byte-identical;
//   - the input equals its eq.Dump snapshot after every conversion.
//
// The reference never calls Tags.Map, Way.Polygon, hasInterestingTags or any geometry helper
// of the library; area-ness and "interesting" come from the generator's own tables.

// ---------------------------------------------------------------------------------------
// generator

type c17Pt [2]float64 // lon, lat

// the published list of uninteresting keys (osmtogeojson / osm.UninterestingTags), own copy
var c17Boring = []string{"source", "source_ref", "source:ref", "history", "attribution", "created_by",
	"tiger:county", "tiger:tlid", "tiger:upload_uuid"}

func c17IsBoringKey(k string) bool {
	for _, b := range c17Boring {
		if b == k {
			return true
		}
	}
	return false
}

func c17Interesting(ts osm.Tags) bool {
	for _, t := range ts {
		if !c17IsBoringKey(t.Key) {
			return true
		}
	}
	return false
}

// tag sets that make a closed way an area / keep it a line, taken from the published
// polygon-features table (clear cases only; the table itself is C18's subject)
var c17AreaTags = [][2]string{{"building", "yes"}, {"landuse", "forest"}, {"amenity", "parking"},
	{"leisure", "park"}, {"natural", "water"}, {"area", "yes"}}

// c17PolyRules is this check's own transcription of the published polygon-features list
// (wiki "Overpass turbo/Polygon Features", in the list's order). A closed way is an area when
// area=* says so, or when one of these keys is present with a value other than "no" and:
// all = any value; only = one of the listed values; except = any value not listed.
// The `area` key itself is the separate first rule and not part of the list.
var c17PolyRules = []struct {
	key, kind string
	values    []string
}{
	{"building", "all", nil},
	{"highway", "only", []string{"services", "rest_area", "escape", "elevator"}},
	{"natural", "except", []string{"coastline", "cliff", "ridge", "arete", "tree_row"}},
	{"landuse", "all", nil},
	{"waterway", "only", []string{"riverbank", "dock", "boatyard", "dam"}},
	{"amenity", "all", nil},
	{"leisure", "all", nil},
	{"barrier", "only", []string{"city_wall", "ditch", "hedge", "retaining_wall", "wall", "spikes"}},
	{"railway", "only", []string{"station", "turntable", "roundhouse", "platform"}},
	{"boundary", "all", nil},
	{"man_made", "except", []string{"cutline", "embankment", "pipeline"}},
	{"power", "only", []string{"plant", "substation", "generator", "transformer"}},
	{"place", "all", nil},
	{"shop", "all", nil},
	{"aeroway", "except", []string{"taxiway"}},
	{"tourism", "all", nil},
	{"historic", "all", nil},
	{"public_transport", "all", nil},
	{"office", "all", nil},
	{"building:part", "all", nil},
	{"military", "all", nil},
	{"ruins", "all", nil},
	{"area:highway", "all", nil},
	{"craft", "all", nil},
	{"golf", "all", nil},
	{"indoor", "all", nil},
}

// c17RulesGuard compares the transcription above with the counts and the order-independent
// checksum that C18 pins for its own, separately made transcription (same formula). A
// mismatch is a slip in one of the two harness tables: broken check, never a verdict.
func c17RulesGuard() {
	kinds := map[string]string{"all": "all", "only": "whitelist", "except": "blacklist"}
	var keys, all, only, onlyV, exc, excV int
	var sum uint64
	for _, r := range c17PolyRules {
		keys++
		switch r.kind {
		case "all":
			all++
			sum += c18Fnv(r.key + "\x1fall\x1f")
		case "only":
			only++
			onlyV += len(r.values)
		case "except":
			exc++
			excV += len(r.values)
		}
		for _, v := range r.values {
			sum += c18Fnv(r.key + "\x1f" + kinds[r.kind] + "\x1f" + v)
		}
	}
	if keys != c18WantKeys || all != c18WantAllKeys || only != c18WantOnlyKeys || onlyV != c18WantOnlyVals ||
		exc != c18WantExceptKeys || excV != c18WantExceptVals || sum != c18WantChecksum {
		panic(fmt.Sprintf("C17 harness: polygon rule transcription (%d keys, %d/%d/%d, %d/%d values, checksum %#x) disagrees with the pinned counts/checksum", keys, all, only, exc, onlyV, excV, sum))
	}
}

// c17AreaByRules: do the tags make a closed way (>= 4 refs, first id = last id) an area?
func c17AreaByRules(ts osm.Tags) bool {
	val := func(k string) string {
		for _, t := range ts {
			if t.Key == k {
				return t.Value
			}
		}
		return ""
	}
	if a := val("area"); a == "no" {
		return false
	} else if a != "" {
		return true
	}
	for _, r := range c17PolyRules {
		v := val(r.key)
		if v == "" || v == "no" {
			continue
		}
		listed := false
		for _, x := range r.values {
			if x == v {
				listed = true
			}
		}
		if r.kind == "all" || (r.kind == "only" && listed) || (r.kind == "except" && !listed) {
			return true
		}
	}
	return false
}

// ruleTag draws a tag of a rule key that makes (area=true) or does not make (area=false) a
// closed way an area.
func (d *c17DS) ruleTag(area bool) osm.Tag {
	r := d.r
	for {
		ru := c17PolyRules[r.Intn(len(c17PolyRules))]
		v := ""
		switch x := r.Intn(4); {
		case x == 0:
			v = "no"
		case x == 1 || len(ru.values) == 0:
			v = "v_" + r.Word()
		default:
			v = ru.values[r.Intn(len(ru.values))]
		}
		t := osm.Tag{Key: ru.key, Value: v}
		if c17AreaByRules(osm.Tags{t}) == area {
			return t
		}
	}
}

// c17AreaTable enumerates area detection inside Convert: for every rule key one data set with
// one closed way per (value, companion), value in listed values + one unlisted + "no" (for
// "all" keys: yes, one other, no), companion in none / an uninteresting tag. The expected
// geometry type comes from c17AreaByRules.
func c17AreaTable() []*c17DS {
	c17RulesGuard()
	var out []*c17DS
	for ki, ru := range c17PolyRules {
		d := c17NewDS(uint64(ki+1), "areatable/"+ru.key)
		d.keySuffix = map[osm.WayID]string{}
		vals := append([]string{}, ru.values...)
		if ru.kind == "all" {
			vals = append(vals, "yes")
		}
		vals = append(vals, "zz_unlisted", "no")
		nid, wid := int64(100), int64(1)
		for _, v := range vals {
			for _, comp := range []string{"", "source"} {
				// a small square of its own, stored clockwise or counter-clockwise
				cx, cy := float64(wid)*0.01+10, float64(ki)*0.01+40
				sq := []c17Pt{{cx, cy}, {cx + 0.004, cy}, {cx + 0.004, cy + 0.004}, {cx, cy + 0.004}}
				if wid%2 == 0 {
					sq[1], sq[3] = sq[3], sq[1]
				}
				w := &osm.Way{ID: osm.WayID(wid), Version: 1, Tags: osm.Tags{{Key: ru.key, Value: v}}}
				if comp != "" {
					w.Tags = append(w.Tags, osm.Tag{Key: comp, Value: "survey"})
					if wid%3 == 0 {
						w.Tags[0], w.Tags[1] = w.Tags[1], w.Tags[0]
					}
				}
				for _, p := range sq {
					d.o.Nodes = append(d.o.Nodes, &osm.Node{ID: osm.NodeID(nid), Lon: p[0], Lat: p[1], Version: 1})
					w.Nodes = append(w.Nodes, osm.WayNode{ID: osm.NodeID(nid)})
					nid++
				}
				w.Nodes = append(w.Nodes, w.Nodes[0])
				d.o.Ways = append(d.o.Ways, w)
				d.area[w.ID] = c17AreaByRules(w.Tags)
				d.keySuffix[w.ID] = "/" + ru.key + "=" + v
				wid++
			}
		}
		d.wayCls["area"], d.wayCls["closed-line"], d.wayCls["rule-"+ru.kind] = true, true, true
		out = append(out, d)
	}
	return out
}

type c17DS struct {
	r            *gen.R
	o            *osm.OSM
	area         map[osm.WayID]bool // ground truth: generated as an area way
	mpWay        map[osm.WayID]bool // ring piece of a generated multipolygon
	usedN        map[int64]bool
	usedW        map[int64]bool
	usedR        map[int64]bool
	missing      []int64 // node ids referenced but never present
	coords       []c17Pt
	wayCls       map[string]bool
	relCls       map[string]bool
	label        string
	idScheme     string               // "" = ids in the packing domain 0 < id < 2^40; else see exoticID
	usedAll      map[int64]bool       // neg-unique: ids taken by any element type
	keySuffix    map[osm.WayID]string // enumerated ways: appended to classification violation keys
	routeWaysMax int                  // most member ways of a generated network route
}

func c17NewDS(seed uint64, label string) *c17DS {
	return &c17DS{r: gen.New(seed, "c17"), o: &osm.OSM{}, area: map[osm.WayID]bool{}, mpWay: map[osm.WayID]bool{},
		usedN: map[int64]bool{}, usedW: map[int64]bool{}, usedR: map[int64]bool{}, wayCls: map[string]bool{}, relCls: map[string]bool{}, label: label}
}

func (d *c17DS) newID(used map[int64]bool) int64 {
	if d.idScheme != "" {
		return d.exoticID(used)
	}
	for {
		var id int64
		// ids stay inside the documented packing domain of osm.FeatureID, 0 < id < 2^40
		// (negative editor ids collide across element types there; see notes/C17.md)
		switch x := d.r.Intn(20); {
		case x < 15:
			id = int64(d.r.Range(1, 60))
		case x < 19:
			id = d.r.Int64Range(1_000_000_000, 1<<40-1)
		default:
			id = 1<<40 - int64(d.r.Range(1, 30))
		}
		if !used[id] {
			used[id] = true
			return id
		}
	}
}

// exoticID draws ids outside 0 < id < 2^40 in one of the schemes for which the element-to-feature
// mapping of the unchanged library is exact (notes/C17.md, "exotic ids"):
//
//	neg-unique  negative ids (editor placeholders, ogr2osm), no id used by two element types
//	            (refs to absent elements included): all option sets
//	neg-shared  negative ids, deliberately shared across types (node -1, way -1, relation -1):
//	            only with NoRelationMembership (the membership map is keyed by the packed id)
//	huge        ids in [2^40, 2^44), shared across types: all option sets
func (d *c17DS) exoticID(used map[int64]bool) int64 {
	if d.idScheme == "neg-unique" {
		if d.usedAll == nil {
			d.usedAll = map[int64]bool{}
		}
		used = d.usedAll
	}
	for {
		var id int64
		switch d.idScheme {
		case "neg-unique":
			if d.r.Chance(0.8) {
				id = -int64(d.r.Range(1, 400))
			} else {
				id = -d.r.Int64Range(1_000_000, 1<<45)
			}
		case "neg-shared":
			if d.r.Chance(0.7) {
				id = -int64(d.r.Range(1, 40))
			} else {
				id = -d.r.Int64Range(1<<40-20, 1<<41) // wide enough never to run out
			}
		case "huge":
			if d.r.Chance(0.7) {
				id = 1<<40 + int64(d.r.Range(0, 40))
			} else {
				id = d.r.Int64Range(1<<40, 1<<44-1)
			}
		default:
			panic("C17 harness: unknown id scheme " + d.idScheme)
		}
		if !used[id] {
			used[id] = true
			return id
		}
	}
}

func (d *c17DS) newCoord() c17Pt {
	for {
		p := c17Pt{d.r.Coord(170), d.r.Coord(80)}
		if p[0] != 0 && p[1] != 0 {
			return p
		}
	}
}

func (d *c17DS) interestingTag(forWay bool) osm.Tag {
	r := d.r
	if r.Intn(40) == 0 {
		return osm.Tag{Key: "", Value: r.Str(4)} // an empty key is a key like any other (not in the uninteresting list)
	}
	if forWay {
		// keys that never make a closed way an area
		switch r.Intn(6) {
		case 0:
			return osm.Tag{Key: "highway", Value: r.PickS("residential", "primary", "footway")}
		case 1:
			return osm.Tag{Key: "barrier", Value: "fence"}
		case 2:
			return osm.Tag{Key: "name", Value: r.Str(8)}
		case 3:
			return osm.Tag{Key: "ref", Value: r.Str(4)}
		}
		return osm.Tag{Key: "k_" + r.Word(), Value: r.Str(6)}
	}
	switch r.Intn(6) {
	case 0:
		return osm.Tag{Key: "amenity", Value: r.PickS("cafe", "bench", "")}
	case 1:
		return osm.Tag{Key: "name", Value: r.Str(8)}
	case 2:
		return osm.Tag{Key: "highway", Value: "bus_stop"}
	case 3:
		return osm.Tag{Key: "sources", Value: r.Str(4)} // near miss of an uninteresting key
	}
	return osm.Tag{Key: "k_" + r.Word(), Value: r.Str(6)}
}

// tags builds a tag list of the class none | boring | interesting | mixed, plus fixed tags.
func (d *c17DS) tags(class string, forWay bool, fixed ...osm.Tag) osm.Tags {
	r := d.r
	seen := map[string]bool{}
	var ts osm.Tags
	add := func(t osm.Tag) {
		if !seen[t.Key] {
			seen[t.Key] = true
			ts = append(ts, t)
		}
	}
	for _, t := range fixed {
		add(t)
	}
	if class == "boring" || class == "mixed" {
		for i, n := 0, r.Range(1, 3); i < n; i++ {
			add(osm.Tag{Key: c17Boring[r.Intn(len(c17Boring))], Value: r.Str(6)})
		}
	}
	if class == "interesting" || class == "mixed" {
		for i, n := 0, r.Range(1, 3); i < n; i++ {
			add(d.interestingTag(forWay))
		}
	}
	r.Shuffle(len(ts), func(i, j int) { ts[i], ts[j] = ts[j], ts[i] })
	return ts
}

func (d *c17DS) tagClass() string {
	switch x := d.r.Intn(20); {
	case x < 9:
		return "none"
	case x < 13:
		return "boring"
	case x < 18:
		return "interesting"
	}
	return "mixed"
}

type c17Meta struct {
	version int
	cs      osm.ChangesetID
	uid     osm.UserID
	user    string
	ts      time.Time
}

func (d *c17DS) meta() c17Meta {
	r := d.r
	var m c17Meta
	if r.Chance(0.3) {
		return m
	}
	if r.Chance(0.7) {
		m.version = r.Range(1, 12)
	}
	if r.Chance(0.6) {
		m.cs = osm.ChangesetID(r.Int64Range(1, 1<<33))
	}
	if r.Chance(0.6) {
		m.uid = osm.UserID(r.Int64Range(1, 1<<24))
	}
	if r.Chance(0.6) {
		m.user = r.StrNonEmpty(8)
	}
	if r.Chance(0.6) {
		if r.Chance(0.2) {
			m.ts = r.TimeNanos()
		} else {
			m.ts = r.Time()
		}
	}
	return m
}

// committed draws the annotate-style "committed at" time of an element: absent, or an instant
// that differs from the element's timestamp (the meta timestamp is the element's Timestamp).
func (d *c17DS) committed(ts time.Time) *time.Time {
	if !d.r.Chance(0.4) {
		return nil
	}
	t := d.r.Time()
	for t.Equal(ts) {
		t = d.r.Time()
	}
	return &t
}

// updates draws annotate-style updates (later node / member versions) for an element with n
// children; they describe history, not the element's own meta data or current geometry.
func (d *c17DS) updates(n int) osm.Updates {
	if n == 0 || !d.r.Chance(0.2) {
		return nil
	}
	var us osm.Updates
	for i, k := 0, d.r.Range(1, 2); i < k; i++ {
		p := d.newCoord()
		us = append(us, osm.Update{Index: d.r.Intn(n), Version: d.r.Range(1, 9), Timestamp: d.r.Time(),
			ChangesetID: osm.ChangesetID(d.r.Int64Range(1, 1<<30)), Lon: p[0], Lat: p[1], Reverse: d.r.Bool()})
	}
	return us
}

// c17MetaMatrix: node, way and route relation with EVERY meta-ish field set to a distinguishable
// value (version, changeset, uid, user, timestamp, committed, visible=false, updates) in three
// variants: timestamp and a different committed time; committed only; timestamp only.
func c17MetaMatrix() []*c17DS {
	var out []*c17DS
	at := func(s string) time.Time {
		t, err := time.Parse(time.RFC3339, s)
		if err != nil {
			panic(err)
		}
		return t
	}
	for _, variant := range []string{"timestamp+committed", "committed-only", "timestamp-only"} {
		d := c17NewDS(1, "metamatrix/"+variant)
		ts := func(s string) time.Time {
			if variant == "committed-only" {
				return time.Time{}
			}
			return at(s)
		}
		cm := func(s string) *time.Time {
			if variant == "timestamp-only" {
				return nil
			}
			t := at(s)
			return &t
		}
		d.o.Nodes = osm.Nodes{
			{ID: 1, Lat: 47.1, Lon: 8.1, Version: 7, ChangesetID: 1234, UserID: 42, User: "alice", Visible: false,
				Timestamp: ts("2014-03-02T10:00:00Z"), Committed: cm("2014-03-02T10:00:09Z"), Tags: osm.Tags{{Key: "amenity", Value: "bench"}}},
			{ID: 2, Lat: 47.2, Lon: 8.2, Version: 3, ChangesetID: 2345, UserID: 43, User: "bob", Visible: true,
				Timestamp: ts("2015-04-03T11:00:00Z"), Committed: cm("2015-04-03T11:00:07Z"), Tags: osm.Tags{{Key: "name", Value: "x"}}},
			{ID: 3, Lat: 47.3, Lon: 8.3, Version: 4, ChangesetID: 3456, UserID: 44, User: "carol", Visible: true,
				Timestamp: ts("2016-05-04T12:00:00Z"), Committed: cm("2016-05-04T12:00:05Z")},
		}
		d.o.Ways = osm.Ways{{ID: 5, Version: 9, ChangesetID: 4567, UserID: 45, User: "dave", Visible: false,
			Timestamp: ts("2017-06-05T13:00:00Z"), Committed: cm("2017-06-05T13:00:03Z"),
			Tags:    osm.Tags{{Key: "highway", Value: "path"}},
			Nodes:   osm.WayNodes{{ID: 2}, {ID: 3}},
			Updates: osm.Updates{{Index: 1, Version: 5, Timestamp: at("2018-01-01T00:00:00Z"), ChangesetID: 9999, Lat: 47.31, Lon: 8.31}}}}
		d.o.Relations = osm.Relations{{ID: 9, Version: 11, ChangesetID: 5678, UserID: 46, User: "erin", Visible: false,
			Timestamp: ts("2019-07-06T14:00:00Z"), Committed: cm("2019-07-06T14:00:01Z"),
			Tags:    osm.Tags{{Key: "type", Value: "route"}, {Key: "route", Value: "hiking"}},
			Members: osm.Members{{Type: osm.TypeWay, Ref: 5, Role: "", Version: 9, ChangesetID: 4567}},
			Updates: osm.Updates{{Index: 0, Version: 10, Timestamp: at("2020-01-01T00:00:00Z"), ChangesetID: 8888}}}}
		d.wayCls["open"], d.relCls["route"] = true, true
		out = append(out, d)
	}
	return out
}

// addNode adds a node. loc: "loc" (non-zero coordinates), "lat0" (lat 0, lon non-zero),
// "unloc" (no coordinates: lat=lon=0, version 0), "origin" (lat=lon=0 with a version).
func (d *c17DS) addNode(loc, tagClass string) *osm.Node {
	m := d.meta()
	n := &osm.Node{ID: osm.NodeID(d.newID(d.usedN)), Version: m.version, ChangesetID: m.cs, UserID: m.uid, User: m.user,
		Timestamp: m.ts, Committed: d.committed(m.ts), Visible: d.r.Bool(), Tags: d.tags(tagClass, false)}
	switch loc {
	case "loc":
		p := d.newCoord()
		if len(d.coords) > 0 && d.r.Chance(0.06) {
			p = d.coords[d.r.Intn(len(d.coords))] // two nodes at the same position
		}
		n.Lon, n.Lat = p[0], p[1]
		d.coords = append(d.coords, p)
	case "lat0":
		n.Lon, n.Lat = d.newCoord()[0], 0
	case "unloc":
		n.Version = 0
	case "origin":
		if n.Version == 0 {
			n.Version = d.r.Range(1, 5)
		}
	}
	d.o.Nodes = append(d.o.Nodes, n)
	return n
}

func (d *c17DS) missingNode() int64 {
	if len(d.missing) > 0 && d.r.Chance(0.3) {
		return d.missing[d.r.Intn(len(d.missing))]
	}
	id := d.newID(d.usedN)
	d.missing = append(d.missing, id)
	return id
}

func (d *c17DS) addWay(refs []int64, tags osm.Tags) *osm.Way {
	m := d.meta()
	w := &osm.Way{ID: osm.WayID(d.newID(d.usedW)), Version: m.version, ChangesetID: m.cs, UserID: m.uid, User: m.user,
		Timestamp: m.ts, Committed: d.committed(m.ts), Visible: d.r.Bool(), Tags: tags, Updates: d.updates(len(refs))}
	for _, id := range refs {
		w.Nodes = append(w.Nodes, osm.WayNode{ID: osm.NodeID(id)})
	}
	d.o.Ways = append(d.o.Ways, w)
	return w
}

func (d *c17DS) nodeByID(id int64) *osm.Node {
	for _, n := range d.o.Nodes {
		if int64(n.ID) == id {
			return n
		}
	}
	return nil
}

// inline puts coordinates on way nodes ("annotated" ways): every way node (all) or a random
// subset. Present nodes with coordinates keep their own; others get fresh coordinates.
func (d *c17DS) inline(w *osm.Way, all bool) {
	for i := range w.Nodes {
		if !all && d.r.Bool() {
			continue
		}
		if n := d.nodeByID(int64(w.Nodes[i].ID)); n != nil && (n.Lat != 0 || n.Lon != 0) {
			w.Nodes[i].Lat, w.Nodes[i].Lon = n.Lat, n.Lon
			continue
		}
		// the same id must get the same coordinates everywhere in this way
		done := false
		for j := 0; j < i; j++ {
			if w.Nodes[j].ID == w.Nodes[i].ID && (w.Nodes[j].Lat != 0 || w.Nodes[j].Lon != 0) {
				w.Nodes[i].Lat, w.Nodes[i].Lon = w.Nodes[j].Lat, w.Nodes[j].Lon
				done = true
			}
		}
		if !done {
			p := d.newCoord()
			w.Nodes[i].Lat, w.Nodes[i].Lon = p[1], p[0]
			for j := i + 1; j < len(w.Nodes); j++ {
				if w.Nodes[j].ID == w.Nodes[i].ID && !all {
					w.Nodes[j].Lat, w.Nodes[j].Lon = p[1], p[0]
				}
			}
		}
	}
	d.wayCls["inline"] = true
}

// versionNodes makes w look like a way from an annotated / history-style source: every way node
// carries a version (and some a changeset id); only a random part of those whose node is present
// and located also carry the location. A way node with a version but without coordinates is
// still resolvable only through the node element of the data set.
func (d *c17DS) versionNodes(w *osm.Way) {
	r := d.r
	for i := range w.Nodes {
		w.Nodes[i].Version = r.Range(1, 9)
		if r.Bool() {
			w.Nodes[i].ChangesetID = osm.ChangesetID(r.Int64Range(1, 1<<30))
		}
		if n := d.nodeByID(int64(w.Nodes[i].ID)); n != nil && (n.Lat != 0 || n.Lon != 0) && r.Chance(0.4) {
			w.Nodes[i].Lat, w.Nodes[i].Lon = n.Lat, n.Lon
		}
	}
	d.wayCls["versioned-way-nodes"] = true
}

// c17WayNodeMatrix enumerates ways whose way nodes all carry a version while the middle one has
// no location: middle node element present (located) / absent x the other way nodes with /
// without own coordinates x line / area; the way is also the only member of a route.
func c17WayNodeMatrix() []*c17DS {
	var out []*c17DS
	for _, present := range []bool{true, false} {
		for _, othersInline := range []bool{true, false} {
			for _, area := range []bool{false, true} {
				label := fmt.Sprintf("wnmatrix/middle-present=%v/others-inline=%v/area=%v", present, othersInline, area)
				d := c17NewDS(1, label)
				d.keySuffix = map[osm.WayID]string{}
				pos := map[int64]c17Pt{1: {8.1, 47.1}, 2: {8.2, 47.25}, 3: {8.3, 47.3}, 4: {8.15, 47.35}}
				refs := []int64{1, 2, 3}
				tags := osm.Tags{{Key: "highway", Value: "path"}}
				if area {
					refs = []int64{1, 2, 3, 4, 1}
					tags = osm.Tags{{Key: "building", Value: "yes"}}
				}
				for id := int64(1); id <= 4; id++ {
					if id == 2 && !present {
						continue
					}
					if id == 4 && !area {
						continue
					}
					d.o.Nodes = append(d.o.Nodes, &osm.Node{ID: osm.NodeID(id), Lon: pos[id][0], Lat: pos[id][1], Version: 2})
				}
				w := &osm.Way{ID: 10, Version: 4, Tags: tags}
				for _, id := range refs {
					wn := osm.WayNode{ID: osm.NodeID(id), Version: 2, ChangesetID: 77}
					if id != 2 && othersInline {
						wn.Lon, wn.Lat = pos[id][0], pos[id][1]
					}
					w.Nodes = append(w.Nodes, wn)
				}
				d.o.Ways = osm.Ways{w}
				d.area[w.ID] = area
				d.keySuffix[w.ID] = "/" + label
				d.o.Relations = osm.Relations{{ID: 100, Version: 1, Tags: osm.Tags{{Key: "type", Value: "route"}, {Key: "route", Value: "hiking"}},
					Members: osm.Members{{Type: osm.TypeWay, Ref: 10}}}}
				d.wayCls["versioned-way-nodes"], d.relCls["route"] = true, true
				out = append(out, d)
			}
		}
	}
	return out
}

func (d *c17DS) locatedIDs() []int64 {
	var ids []int64
	for _, n := range d.o.Nodes {
		if n.Lat != 0 && n.Lon != 0 {
			ids = append(ids, int64(n.ID))
		}
	}
	return ids
}

// ringOrder orders node ids so that they form a star-shaped ring around their centroid.
func (d *c17DS) ringOrder(ids []int64) {
	var cx, cy float64
	pos := map[int64]c17Pt{}
	for _, id := range ids {
		n := d.nodeByID(id)
		pos[id] = c17Pt{n.Lon, n.Lat}
		cx += n.Lon
		cy += n.Lat
	}
	cx /= float64(len(ids))
	cy /= float64(len(ids))
	sort.SliceStable(ids, func(i, j int) bool {
		a, b := pos[ids[i]], pos[ids[j]]
		return math.Atan2(a[1]-cy, a[0]-cx) < math.Atan2(b[1]-cy, b[0]-cx)
	})
}

func (d *c17DS) randomWay() {
	r := d.r
	var present []int64
	for _, n := range d.o.Nodes {
		present = append(present, int64(n.ID))
	}
	pick := func(pMissing float64) int64 {
		if len(present) == 0 || r.Chance(pMissing) {
			return d.missingNode()
		}
		return present[r.Intn(len(present))]
	}
	switch x := r.Intn(100); {
	case x < 40: // open line
		pm := 0.0
		if r.Chance(0.35) {
			pm = 0.3
			d.wayCls["missing"] = true
		}
		k := r.Range(2, 6)
		refs := make([]int64, k)
		for i := range refs {
			refs[i] = pick(pm)
		}
		if refs[0] == refs[k-1] {
			refs[k-1] = d.missingNode()
			d.wayCls["missing"] = true
		}
		d.addWay(refs, d.tags(d.tagClass(), true))
		d.wayCls["open"] = true
	case x < 62: // area
		loc := d.locatedIDs()
		r.Shuffle(len(loc), func(i, j int) { loc[i], loc[j] = loc[j], loc[i] })
		k := r.Range(3, 6)
		for len(loc) < k {
			loc = append(loc, int64(d.addNode("loc", "none").ID))
		}
		ids := loc[:k]
		// distinct positions only (a ring through coincident nodes has no defined winding)
		seen := map[c17Pt]bool{}
		ok := true
		for _, id := range ids {
			n := d.nodeByID(id)
			if seen[c17Pt{n.Lon, n.Lat}] {
				ok = false
			}
			seen[c17Pt{n.Lon, n.Lat}] = true
		}
		if !ok {
			ids = nil
			for i := 0; i < k; i++ {
				n := d.addNode("loc", "none")
				for seen[c17Pt{n.Lon, n.Lat}] {
					p := d.newCoord()
					n.Lon, n.Lat = p[0], p[1]
				}
				seen[c17Pt{n.Lon, n.Lat}] = true
				ids = append(ids, int64(n.ID))
			}
		}
		if r.Chance(0.7) {
			d.ringOrder(ids)
		}
		if r.Bool() {
			for i, j := 0, len(ids)-1; i < j; i, j = i+1, j-1 {
				ids[i], ids[j] = ids[j], ids[i]
			}
		}
		refs := append(append([]int64{}, ids...), ids[0])
		if r.Chance(0.2) {
			// one ring node is not in the data set (possibly the closing one)
			at := r.Intn(k)
			m := d.missingNode()
			refs[at] = m
			if at == 0 {
				refs[k] = m
			}
			d.wayCls["area-missing"] = true
		}
		at := c17AreaTags[r.Intn(len(c17AreaTags))]
		areaTag := osm.Tag{Key: at[0], Value: at[1]}
		if r.Bool() {
			areaTag = d.ruleTag(true)
		}
		extra := r.PickS("none", "none", "boring", "interesting")
		w := d.addWay(refs, d.tags(extra, true, areaTag))
		d.area[w.ID] = true
		d.wayCls["area"] = true
	case x < 74: // closed, but not an area by its tags
		k := r.Range(3, 5)
		refs := make([]int64, k)
		for i := range refs {
			refs[i] = pick(0.05)
		}
		refs = append(refs, refs[0])
		var ts osm.Tags
		switch r.Intn(7) {
		case 5, 6:
			// a rule key whose value does not make an area (unlisted / blacklisted / no)
			ts = d.tags(r.PickS("none", "boring"), true, d.ruleTag(false))
		case 0:
			ts = nil
		case 1:
			ts = d.tags("boring", true)
		case 2:
			ts = d.tags("none", true, osm.Tag{Key: "highway", Value: "residential"})
		case 3:
			ts = d.tags("none", true, osm.Tag{Key: "natural", Value: "coastline"})
		default:
			ts = d.tags("none", true, osm.Tag{Key: "area", Value: "no"}, osm.Tag{Key: "building", Value: "yes"})
		}
		d.addWay(refs, ts)
		d.wayCls["closed-line"] = true
	case x < 80: // one node
		d.addWay([]int64{pick(0.2)}, d.tags(d.tagClass(), true))
		d.wayCls["one-node"] = true
	case x < 84: // no nodes
		d.addWay(nil, d.tags(d.tagClass(), true))
		d.wayCls["empty"] = true
	case x < 88: // the same node twice
		a := pick(0)
		d.addWay([]int64{a, a}, d.tags(d.tagClass(), true))
		d.wayCls["same-node-twice"] = true
	case x < 93: // a-b-a: closed by id but too short to be an area; line tags only
		a, b := pick(0), pick(0.1)
		d.addWay([]int64{a, b, a}, d.tags(d.tagClass(), true))
		d.wayCls["short-closed"] = true
	default: // a node repeated in the middle
		k := r.Range(4, 7)
		refs := make([]int64, k)
		for i := range refs {
			refs[i] = pick(0.05)
		}
		refs[k-2] = refs[1]
		if refs[0] == refs[k-1] {
			refs[k-1] = d.missingNode()
		}
		d.addWay(refs, d.tags(d.tagClass(), true))
		d.wayCls["repeat-node"] = true
	}
	w := d.o.Ways[len(d.o.Ways)-1]
	if len(w.Nodes) > 0 {
		if x := r.Intn(100); x < 10 {
			d.inline(w, true)
		} else if x < 15 {
			d.inline(w, false)
		}
	}
}

func (d *c17DS) role() string {
	return d.r.PickS("", "", "forward", "backward", "stop", "platform", "via", d.r.Str(4))
}

func (d *c17DS) addRelation(tags osm.Tags, members osm.Members) *osm.Relation {
	m := d.meta()
	rel := &osm.Relation{ID: osm.RelationID(d.newID(d.usedR)), Version: m.version, ChangesetID: m.cs, UserID: m.uid, User: m.user,
		Timestamp: m.ts, Committed: d.committed(m.ts), Visible: d.r.Bool(), Tags: tags, Members: members, Updates: d.updates(len(members))}
	d.o.Relations = append(d.o.Relations, rel)
	return rel
}

func (d *c17DS) nodeMember(pMissing float64) osm.Member {
	if len(d.o.Nodes) == 0 || d.r.Chance(pMissing) {
		d.relCls["missing-node-member"] = true
		return osm.Member{Type: osm.TypeNode, Ref: d.missingNode(), Role: d.role()}
	}
	d.relCls["node-member"] = true
	return osm.Member{Type: osm.TypeNode, Ref: int64(d.o.Nodes[d.r.Intn(len(d.o.Nodes))].ID), Role: d.role()}
}

func (d *c17DS) wayMember(pMissing float64) osm.Member {
	if len(d.o.Ways) == 0 || d.r.Chance(pMissing) {
		d.relCls["missing-way-member"] = true
		return osm.Member{Type: osm.TypeWay, Ref: d.newID(d.usedW), Role: d.role()}
	}
	return osm.Member{Type: osm.TypeWay, Ref: int64(d.o.Ways[d.r.Intn(len(d.o.Ways))].ID), Role: d.role()}
}

func (d *c17DS) relMember() osm.Member {
	d.relCls["relation-member"] = true
	if len(d.o.Relations) == 0 || d.r.Chance(0.2) {
		return osm.Member{Type: osm.TypeRelation, Ref: d.newID(d.usedR), Role: d.role()}
	}
	return osm.Member{Type: osm.TypeRelation, Ref: int64(d.o.Relations[d.r.Intn(len(d.o.Relations))].ID), Role: d.role()}
}

func (d *c17DS) routeTags() osm.Tags {
	fixed := []osm.Tag{{Key: "type", Value: "route"}}
	if d.r.Bool() {
		fixed = append(fixed, osm.Tag{Key: "route", Value: d.r.PickS("bus", "hiking", "bicycle")})
	}
	return d.tags(d.r.PickS("none", "boring", "interesting"), true, fixed...)
}

// randomRoute: a route over arbitrary existing / missing ways plus node and relation members.
func (d *c17DS) randomRoute() {
	r := d.r
	var ms osm.Members
	for i, n := 0, r.Range(0, 6); i < n; i++ {
		switch x := r.Intn(100); {
		case x < 65:
			ms = append(ms, d.wayMember(0.2))
		case x < 90:
			ms = append(ms, d.nodeMember(0.15))
		default:
			ms = append(ms, d.relMember())
		}
	}
	if len(ms) > 1 && r.Chance(0.15) {
		ms = append(ms, ms[r.Intn(len(ms))]) // the same member twice
		d.relCls["dup-member"] = true
	}
	d.addRelation(d.routeTags(), ms)
	d.relCls["route"] = true
}

// chainRoute: a route whose member ways form one path (or loop) over fresh nodes.
func (d *c17DS) chainRoute() {
	r := d.r
	nWays := r.Range(2, 4)
	var path []int64
	seen := map[c17Pt]bool{}
	total := nWays + r.Range(1, 4) + 1
	for i := 0; i < total; i++ {
		n := d.addNode("loc", r.PickS("none", "none", "none", "boring", "interesting"))
		for seen[c17Pt{n.Lon, n.Lat}] {
			p := d.newCoord()
			n.Lon, n.Lat = p[0], p[1]
		}
		seen[c17Pt{n.Lon, n.Lat}] = true
		path = append(path, int64(n.ID))
	}
	loop := r.Chance(0.25)
	if loop {
		path = append(path, path[0])
		d.relCls["route-loop"] = true
	} else {
		d.relCls["route-chain"] = true
	}
	// cut positions
	cuts := map[int]bool{}
	for len(cuts) < nWays-1 {
		cuts[r.Range(1, len(path)-2)] = true
	}
	var pieces [][]int64
	start := 0
	for i := 1; i < len(path); i++ {
		if cuts[i] || i == len(path)-1 {
			pieces = append(pieces, append([]int64{}, path[start:i+1]...))
			start = i
		}
	}
	var ms osm.Members
	wayTag := r.PickS("none", "none", "none", "boring", "interesting")
	for _, p := range pieces {
		if r.Bool() {
			for i, j := 0, len(p)-1; i < j; i, j = i+1, j-1 {
				p[i], p[j] = p[j], p[i]
			}
		}
		w := d.addWay(p, d.tags(wayTag, true))
		if r.Chance(0.1) {
			d.inline(w, true)
		}
		ms = append(ms, osm.Member{Type: osm.TypeWay, Ref: int64(w.ID), Role: r.PickS("", "forward", "backward")})
	}
	r.Shuffle(len(ms), func(i, j int) { ms[i], ms[j] = ms[j], ms[i] })
	if r.Chance(0.4) {
		// a stop on the line: a way node that is also a relation member
		ms = append(ms, osm.Member{Type: osm.TypeNode, Ref: path[r.Intn(len(path))], Role: "stop"})
		d.relCls["node-member"] = true
	}
	if r.Chance(0.15) {
		ms = append(ms, d.wayMember(1))
	}
	d.addRelation(d.routeTags(), ms)
}

// networkRoute: a route over 2..maxWays fresh member ways that form one or more sections:
// paths, closed loops, branches off an earlier section's end node (shared end nodes, Y and
// lollipop shapes). Member order is fully shuffled and every piece is reversed at random, so
// the joiner has to find its matches anywhere in its work list.
func (d *c17DS) networkRoute(maxWays int) {
	r := d.r
	total := r.Range(2, maxWays)
	if maxWays >= 8 && r.Bool() {
		total = r.Range(7, maxWays) // long member lists are the point of this class
	}
	seen := map[c17Pt]bool{}
	nodeTags := []string{"none", "none", "none", "none", "boring", "interesting"}
	fresh := func() int64 {
		n := d.addNode("loc", nodeTags[r.Intn(len(nodeTags))])
		for seen[c17Pt{n.Lon, n.Lat}] {
			p := d.newCoord()
			n.Lon, n.Lat = p[0], p[1]
		}
		seen[c17Pt{n.Lon, n.Lat}] = true
		return int64(n.ID)
	}
	var pieces [][]int64
	var ends []int64 // end nodes of earlier pieces: attachment points for later sections
	sections, shapes := 0, map[string]bool{}
	for remaining := total; remaining > 0; sections++ {
		k := r.Range(1, remaining)
		if sections >= 3 || r.Chance(0.35) {
			k = remaining
		}
		remaining -= k
		start := int64(0)
		attached := len(ends) > 0 && r.Chance(0.5)
		if attached {
			start = ends[r.Intn(len(ends))]
			shapes["branch"] = true
		} else {
			start = fresh()
		}
		loop := r.Chance(0.3)
		cur := start
		for i := 0; i < k; i++ {
			piece := []int64{cur}
			edges := r.Range(1, 3)
			if loop && k == 1 {
				edges = r.Range(3, 4)
			}
			for e := 0; e < edges; e++ {
				if loop && i == k-1 && e == edges-1 {
					piece = append(piece, start)
				} else {
					piece = append(piece, fresh())
				}
			}
			cur = piece[len(piece)-1]
			ends = append(ends, cur)
			pieces = append(pieces, piece)
		}
		if loop {
			shapes["loop"] = true
		} else {
			shapes["path"] = true
		}
	}
	if sections > 1 {
		shapes["multi-section"] = true
	}
	wayTag := r.PickS("none", "none", "none", "boring", "interesting")
	var ms osm.Members
	for _, p := range pieces {
		if r.Bool() {
			for i, j := 0, len(p)-1; i < j; i, j = i+1, j-1 {
				p[i], p[j] = p[j], p[i]
			}
		}
		w := d.addWay(p, d.tags(wayTag, true))
		if r.Chance(0.05) {
			d.inline(w, true)
		}
		ms = append(ms, osm.Member{Type: osm.TypeWay, Ref: int64(w.ID), Role: r.PickS("", "", "forward", "backward")})
	}
	if r.Chance(0.1) {
		ms = append(ms, ms[r.Intn(len(ms))]) // a street used in both directions
		d.relCls["dup-member"] = true
	}
	if r.Chance(0.1) {
		ms = append(ms, d.wayMember(1))
	}
	if r.Chance(0.3) {
		ms = append(ms, osm.Member{Type: osm.TypeNode, Ref: ends[r.Intn(len(ends))], Role: "stop"})
		d.relCls["node-member"] = true
	}
	r.Shuffle(len(ms), func(i, j int) { ms[i], ms[j] = ms[j], ms[i] })
	d.addRelation(d.routeTags(), ms)
	for sh := range shapes {
		d.relCls["route-net-"+sh] = true
	}
	switch {
	case len(pieces) >= 17:
		d.relCls["route-net-17+ways"] = true
	case len(pieces) >= 7:
		d.relCls["route-net-7+ways"] = true
	default:
		d.relCls["route-net-<7ways"] = true
	}
	if len(pieces) > d.routeWaysMax {
		d.routeWaysMax = len(pieces)
	}
}

// multipolygon: one simple valid multipolygon over fresh nodes and ways: a star-shaped outer
// ring (one closed way or two open ways) and optionally one star-shaped hole well inside it.
func (d *c17DS) multipolygon() {
	r := d.r
	cx, cy := float64(r.Range(-150, 150))+0.5, float64(r.Range(-60, 60))+0.5
	rad := float64(r.Range(1, 400)) / 1000
	ring := func(k int, lo, hi float64) []int64 {
		var angs []float64
		for len(angs) < k {
			a := r.Float64() * 2 * math.Pi
			ok := true
			for _, b := range angs {
				if math.Abs(a-b) < 0.15 || math.Abs(a-b) > 2*math.Pi-0.15 {
					ok = false
				}
			}
			if ok {
				angs = append(angs, a)
			}
		}
		sort.Float64s(angs)
		// no angular gap above 135 degrees: with vertex radii >= 0.7 rad every edge then stays
		// farther than 0.268 rad from the centre, so a hole of radius <= 0.25 rad lies inside
		for i := range angs {
			next := angs[(i+1)%k]
			if i == k-1 {
				next += 2 * math.Pi
			}
			if next-angs[i] > 0.75*math.Pi {
				angs = nil
				for j := 0; j < k; j++ {
					angs = append(angs, (float64(j)+0.2+0.5*r.Float64())*2*math.Pi/float64(k))
				}
				break
			}
		}
		var ids []int64
		for _, a := range angs {
			rr := rad * (lo + (hi-lo)*r.Float64())
			n := d.addNode("loc", r.PickS("none", "none", "none", "boring", "interesting"))
			n.Lon = math.Round((cx+rr*math.Cos(a))*1e7) / 1e7
			n.Lat = math.Round((cy+rr*math.Sin(a))*1e7) / 1e7
			ids = append(ids, int64(n.ID))
		}
		if r.Bool() { // clockwise as stored
			for i, j := 0, len(ids)-1; i < j; i, j = i+1, j-1 {
				ids[i], ids[j] = ids[j], ids[i]
			}
		}
		rot := r.Intn(len(ids))
		return append(append([]int64{}, ids[rot:]...), ids[:rot]...)
	}
	relInteresting := r.Chance(0.55)
	var ms osm.Members
	outer := ring(r.Range(4, 7), 0.7, 1.0)
	outerTag := r.PickS("none", "none", "boring", "area", "line")
	wtags := func(class string) osm.Tags {
		switch class {
		case "area":
			at := c17AreaTags[r.Intn(len(c17AreaTags))]
			return d.tags("none", true, osm.Tag{Key: at[0], Value: at[1]})
		case "line":
			return d.tags("interesting", true)
		}
		return d.tags(class, true)
	}
	if r.Chance(0.6) {
		w := d.addWay(append(append([]int64{}, outer...), outer[0]), wtags(outerTag))
		if outerTag == "area" {
			d.area[w.ID] = true
		}
		d.mpWay[w.ID] = true
		ms = append(ms, osm.Member{Type: osm.TypeWay, Ref: int64(w.ID), Role: "outer"})
		if !relInteresting {
			d.relCls["mp-oldstyle"] = true
		} else {
			d.relCls["mp-1outer"] = true
		}
	} else {
		closed := append(append([]int64{}, outer...), outer[0])
		cut := r.Range(1, len(closed)-2)
		for _, p := range [][]int64{append([]int64{}, closed[:cut+1]...), append([]int64{}, closed[cut:]...)} {
			if r.Bool() {
				for i, j := 0, len(p)-1; i < j; i, j = i+1, j-1 {
					p[i], p[j] = p[j], p[i]
				}
			}
			cls := outerTag
			if cls == "area" {
				cls = "line"
			}
			w := d.addWay(p, wtags(cls))
			d.mpWay[w.ID] = true
			ms = append(ms, osm.Member{Type: osm.TypeWay, Ref: int64(w.ID), Role: "outer"})
		}
		d.relCls["mp-2outer"] = true
	}
	if r.Chance(0.45) {
		inner := ring(r.Range(3, 5), 0.1, 0.25)
		// the generator's own containment test: a multipolygon offered as valid must be valid
		var oring []c17Pt
		for _, id := range outer {
			n := d.nodeByID(id)
			oring = append(oring, c17Pt{n.Lon, n.Lat})
		}
		for _, id := range inner {
			if n := d.nodeByID(id); !c17InRing(c17Pt{n.Lon, n.Lat}, oring) {
				panic("C17 harness: generated hole vertex outside its outer ring")
			}
		}
		w := d.addWay(append(append([]int64{}, inner...), inner[0]), wtags(r.PickS("none", "none", "area", "boring")))
		if c17Interesting(w.Tags) {
			d.area[w.ID] = true
		}
		d.mpWay[w.ID] = true
		ms = append(ms, osm.Member{Type: osm.TypeWay, Ref: int64(w.ID), Role: "inner"})
		d.relCls["mp-inner"] = true
	}
	r.Shuffle(len(ms), func(i, j int) { ms[i], ms[j] = ms[j], ms[i] })
	if r.Chance(0.3) {
		m := d.nodeMember(0.1)
		m.Role = r.PickS("admin_centre", "label", "")
		ms = append(ms, m)
	}
	if r.Chance(0.2) {
		// Overpass "out geom" shape on top of complete data: the way members also carry their
		// path as member nodes (agreeing with the ways and nodes of the data set)
		for i := range ms {
			if ms[i].Type != osm.TypeWay {
				continue
			}
			for _, w := range d.o.Ways {
				if int64(w.ID) != ms[i].Ref {
					continue
				}
				for _, wn := range w.Nodes {
					mn := osm.WayNode{ID: wn.ID}
					if n := d.nodeByID(int64(wn.ID)); n != nil {
						mn.Lat, mn.Lon = n.Lat, n.Lon
					}
					ms[i].Nodes = append(ms[i].Nodes, mn)
				}
			}
		}
		d.relCls["mp-member-nodes+ways"] = true
	}
	typ := r.PickS("multipolygon", "multipolygon", "boundary")
	fixed := []osm.Tag{{Key: "type", Value: typ}}
	class := "none"
	if relInteresting {
		class = "interesting"
		if r.Bool() {
			at := c17AreaTags[r.Intn(len(c17AreaTags))]
			fixed = append(fixed, osm.Tag{Key: at[0], Value: at[1]})
		}
	} else if r.Chance(0.3) {
		class = "boring"
	}
	d.addRelation(d.tags(class, true, fixed...), ms)
}

func (d *c17DS) otherRelation() {
	r := d.r
	var ms osm.Members
	for i, n := 0, r.Range(0, 4); i < n; i++ {
		switch x := r.Intn(100); {
		case x < 40:
			ms = append(ms, d.wayMember(0.2))
		case x < 85:
			ms = append(ms, d.nodeMember(0.15))
		default:
			ms = append(ms, d.relMember())
		}
	}
	var ts osm.Tags
	switch r.Intn(4) {
	case 0:
		ts = d.tags(d.tagClass(), true, osm.Tag{Key: "type", Value: "restriction"})
	case 1:
		ts = d.tags(d.tagClass(), true, osm.Tag{Key: "type", Value: "site"})
	case 2:
		ts = d.tags(d.tagClass(), true) // no type tag
	default:
		ts = d.tags("none", true, osm.Tag{Key: "type", Value: ""})
	}
	d.addRelation(ts, ms)
	d.relCls["other"] = true
}

// c17Random generates one data set. size 0 = tiny, 1 = small, 2 = medium.
// maxRouteWays bounds the member ways of network routes; routes > 0 forces that many of them.
func c17Random(seed uint64, size, maxRouteWays, routes int) *c17DS {
	return c17RandomIn(c17NewDS(seed, "random"), size, maxRouteWays, routes)
}

// c17RandomIn fills a prepared (possibly id-schemed) data set.
func c17RandomIn(d *c17DS, size, maxRouteWays, routes int) *c17DS {
	r := d.r
	nN := [][2]int{{0, 5}, {3, 12}, {10, 30}}[size]
	nW := [][2]int{{0, 3}, {1, 6}, {4, 12}}[size]
	nR := [][2]int{{0, 2}, {0, 4}, {2, 8}}[size]
	for i, n := 0, r.Range(nN[0], nN[1]); i < n; i++ {
		loc := "loc"
		switch x := r.Intn(100); {
		case x < 7:
			loc = "unloc"
		case x < 9:
			loc = "origin"
		case x < 12:
			loc = "lat0"
		}
		d.addNode(loc, d.tagClass())
	}
	for i, n := 0, r.Range(nW[0], nW[1]); i < n; i++ {
		d.randomWay()
	}
	for i, n := 0, r.Range(nR[0], nR[1]); i < n; i++ {
		switch x := r.Intn(100); {
		case x < 25:
			d.randomRoute()
		case x < 40:
			d.chainRoute()
		case x < 52:
			d.networkRoute(maxRouteWays)
		case x < 75:
			if d.idScheme != "" {
				// multipolygon features take their header from the packed id even in the
				// unchanged library: not part of the exact schemes
				d.otherRelation()
			} else {
				d.multipolygon()
			}
		default:
			d.otherRelation()
		}
	}
	for i := 0; i < routes; i++ {
		d.networkRoute(maxRouteWays)
	}
	// some ways of any kind come from a source that annotates way nodes with versions
	for _, w := range d.o.Ways {
		if len(w.Nodes) > 0 && r.Chance(0.12) {
			d.versionNodes(w)
		}
	}
	o := d.o
	r.Shuffle(len(o.Nodes), func(i, j int) { o.Nodes[i], o.Nodes[j] = o.Nodes[j], o.Nodes[i] })
	r.Shuffle(len(o.Ways), func(i, j int) { o.Ways[i], o.Ways[j] = o.Ways[j], o.Ways[i] })
	r.Shuffle(len(o.Relations), func(i, j int) { o.Relations[i], o.Relations[j] = o.Relations[j], o.Relations[i] })
	return d
}

// c17NodeMatrix enumerates the node rule: location x tag class x context, each as its own
// tiny data set (ids fixed, so the violation keys name the class, not a seed).
func c17NodeMatrix() []*c17DS {
	var out []*c17DS
	for _, loc := range []string{"loc", "unloc"} {
		for _, tc := range []string{"none", "boring", "interesting", "mixed"} {
			for _, ctx := range []string{"alone", "way", "way+rel", "rel", "way+route", "way+mp"} {
				d := c17NewDS(1, "matrix/"+loc+"/"+tc+"/"+ctx)
				x := &osm.Node{ID: 7, Tags: d.tags(tc, false)}
				if loc == "loc" {
					x.Lat, x.Lon, x.Version = 12.5, -7.25, 2
				}
				y := &osm.Node{ID: 8, Lat: 12.75, Lon: -7.5, Version: 1}
				z := &osm.Node{ID: 9, Lat: 12.25, Lon: -7.75, Version: 1}
				d.o.Nodes = osm.Nodes{x, y, z}
				if strings.HasPrefix(ctx, "way") {
					d.o.Ways = osm.Ways{{ID: 7, Version: 1, Tags: osm.Tags{{Key: "highway", Value: "path"}},
						Nodes: osm.WayNodes{{ID: 7}, {ID: 8}, {ID: 9}}}}
					d.wayCls["open"] = true
				} else {
					// y and z must not be stand-alone points that hide x's case; put them in a way
					d.o.Ways = osm.Ways{{ID: 8, Version: 1, Nodes: osm.WayNodes{{ID: 8}, {ID: 9}}}}
				}
				switch ctx {
				case "way+rel", "rel":
					d.o.Relations = osm.Relations{{ID: 7, Version: 1, Tags: osm.Tags{{Key: "type", Value: "site"}},
						Members: osm.Members{{Type: osm.TypeNode, Ref: 7, Role: "entrance"}}}}
					d.relCls["other"], d.relCls["node-member"] = true, true
				case "way+route":
					d.o.Relations = osm.Relations{{ID: 7, Version: 1, Tags: osm.Tags{{Key: "type", Value: "route"}},
						Members: osm.Members{{Type: osm.TypeWay, Ref: 7}, {Type: osm.TypeNode, Ref: 7, Role: "stop"}}}}
					d.relCls["route"], d.relCls["node-member"] = true, true
				case "way+mp":
					d.o.Relations = osm.Relations{{ID: 7, Version: 1, Tags: osm.Tags{{Key: "type", Value: "multipolygon"}},
						Members: osm.Members{{Type: osm.TypeNode, Ref: 7, Role: "label"}}}}
					d.relCls["other"], d.relCls["node-member"] = true, true
				}
				out = append(out, d)
			}
		}
	}
	return out
}

// ---------------------------------------------------------------------------------------
// reference

type c17Key struct {
	typ string
	id  int64
}

type c17Memb struct {
	rel  int64
	role string
	tags map[string]string
}

type c17Ref struct {
	d          *c17DS
	o          *osm.OSM
	node       map[int64]*osm.Node
	way        map[int64]*osm.Way
	rel        map[int64]*osm.Relation
	inWay      map[int64]bool // node id referenced by a way of the data set
	nodeInR    map[int64]bool // node id is a member of a relation of the data set
	wayInR     map[int64]bool // way id is a member of a relation of the data set
	wayInMP    map[int64]bool // way id is a member of a multipolygon / boundary relation
	wayInRoute map[int64]bool // way id is a member of a route relation
	memb       map[c17Key][]c17Memb
	nodeCls    map[string]bool
	zeroKinds  map[int64]int // way refers (without own coordinates) to a present node at lat=lon=0: bit 1 = version 0, bit 2 = with a version
}

func c17TagMap(ts osm.Tags) map[string]string {
	m := map[string]string{}
	for _, t := range ts {
		m[t.Key] = t.Value
	}
	return m
}

func c17RelType(r *osm.Relation) string {
	for _, t := range r.Tags {
		if t.Key == "type" {
			return t.Value
		}
	}
	return ""
}

func c17NewRef(d *c17DS, o *osm.OSM) *c17Ref {
	f := &c17Ref{d: d, o: o, node: map[int64]*osm.Node{}, way: map[int64]*osm.Way{}, rel: map[int64]*osm.Relation{},
		inWay: map[int64]bool{}, nodeInR: map[int64]bool{}, wayInR: map[int64]bool{}, wayInMP: map[int64]bool{}, wayInRoute: map[int64]bool{},
		memb: map[c17Key][]c17Memb{}, nodeCls: map[string]bool{}, zeroKinds: map[int64]int{}}
	for _, n := range o.Nodes {
		f.node[int64(n.ID)] = n
	}
	for _, w := range o.Ways {
		f.way[int64(w.ID)] = w
		for _, wn := range w.Nodes {
			f.inWay[int64(wn.ID)] = true
		}
	}
	for _, r := range o.Relations {
		f.rel[int64(r.ID)] = r
		tm := c17TagMap(r.Tags)
		typ := c17RelType(r)
		for _, m := range r.Members {
			k := c17Key{string(m.Type), m.Ref}
			f.memb[k] = append(f.memb[k], c17Memb{int64(r.ID), m.Role, tm})
			switch m.Type {
			case osm.TypeNode:
				f.nodeInR[m.Ref] = true
			case osm.TypeWay:
				f.wayInR[m.Ref] = true
				if typ == "multipolygon" || typ == "boundary" {
					f.wayInMP[m.Ref] = true
				}
				if typ == "route" {
					f.wayInRoute[m.Ref] = true
				}
			}
		}
	}
	for _, w := range o.Ways {
		for _, wn := range w.Nodes {
			if wn.Lat != 0 || wn.Lon != 0 {
				continue
			}
			if n := f.node[int64(wn.ID)]; n != nil && n.Lat == 0 && n.Lon == 0 {
				if n.Version == 0 {
					f.zeroKinds[int64(w.ID)] |= 1
				} else {
					f.zeroKinds[int64(w.ID)] |= 2
				}
			}
		}
	}
	for _, n := range o.Nodes {
		f.nodeCls[f.nodeClass(n)] = true
	}
	return f
}

func (f *c17Ref) nodeLoc(n *osm.Node) string {
	switch {
	case n.Lat != 0 || n.Lon != 0:
		return "loc"
	case n.Version == 0:
		return "unloc"
	}
	return "origin"
}

func (f *c17Ref) nodeClass(n *osm.Node) string {
	loc := f.nodeLoc(n)
	if loc != "loc" {
		return loc
	}
	ctx := "alone"
	if f.inWay[int64(n.ID)] {
		ctx = "way"
	}
	if f.nodeInR[int64(n.ID)] {
		ctx += "+rel"
	}
	tc := "boring"
	if c17Interesting(n.Tags) {
		tc = "interesting"
	} else if len(n.Tags) == 0 {
		tc = "untagged"
	}
	return ctx + "/" + tc
}

// resolve lists the coordinates of the way's resolvable nodes in order. A way node is
// resolvable through its own coordinates or through a present node that has coordinates.
// mode selects the reading of the grey zone, a present node at lat=lon=0: bit 1 set = such a
// node with version 0 counts as the coordinate (0,0), bit 2 set = such a node with a version
// does; bit clear = it has no coordinate and is left out.
func (f *c17Ref) resolve(w *osm.Way, mode int) []c17Pt {
	var out []c17Pt
	for _, wn := range w.Nodes {
		if wn.Lat != 0 || wn.Lon != 0 {
			out = append(out, c17Pt{wn.Lon, wn.Lat})
			continue
		}
		n := f.node[int64(wn.ID)]
		if n == nil {
			continue
		}
		switch {
		case n.Lat != 0 || n.Lon != 0:
			out = append(out, c17Pt{n.Lon, n.Lat})
		case n.Version == 0 && mode&1 != 0, n.Version != 0 && mode&2 != 0:
			out = append(out, c17Pt{0, 0})
		}
	}
	return out
}

// c17Modes lists the readings to try for a set of zero-coordinate kinds: the strict one first.
func c17Modes(kinds int) []int {
	var out []int
	for m := 0; m < 4; m++ {
		if m&^kinds == 0 {
			out = append(out, m)
		}
	}
	return out
}

var c17ModeNames = []string{"all-omitted", "versionless-as-(0,0)", "versioned-as-(0,0)", "all-as-(0,0)"}

// ---------------------------------------------------------------------------------------
// observed side: generic JSON

func c17Num(v any) (float64, bool) {
	n, ok := v.(json.Number)
	if !ok {
		return 0, false
	}
	x, err := strconv.ParseFloat(string(n), 64)
	return x, err == nil
}

func c17ParsePt(v any) (c17Pt, bool) {
	a, ok := v.([]any)
	if !ok || len(a) < 2 {
		return c17Pt{}, false
	}
	x, ok1 := c17Num(a[0])
	y, ok2 := c17Num(a[1])
	return c17Pt{x, y}, ok1 && ok2
}

func c17ParseLine(v any) ([]c17Pt, bool) {
	a, ok := v.([]any)
	if !ok {
		return nil, v == nil
	}
	out := make([]c17Pt, 0, len(a))
	for _, e := range a {
		p, ok := c17ParsePt(e)
		if !ok {
			return nil, false
		}
		out = append(out, p)
	}
	return out, true
}

func c17ParseLines(v any) ([][]c17Pt, bool) {
	a, ok := v.([]any)
	if !ok {
		return nil, v == nil
	}
	var out [][]c17Pt
	for _, e := range a {
		l, ok := c17ParseLine(e)
		if !ok {
			return nil, false
		}
		out = append(out, l)
	}
	return out, true
}

type c17Edge [2]c17Pt

func c17PtLess(a, b c17Pt) bool {
	if a[0] != b[0] {
		return a[0] < b[0]
	}
	return a[1] < b[1]
}

// c17Edges is the multiset of undirected, non-degenerate segments of the lines.
func c17Edges(lines [][]c17Pt) map[c17Edge]int {
	m := map[c17Edge]int{}
	for _, l := range lines {
		for i := 1; i < len(l); i++ {
			a, b := l[i-1], l[i]
			if a == b {
				continue
			}
			if c17PtLess(b, a) {
				a, b = b, a
			}
			m[c17Edge{a, b}]++
		}
	}
	return m
}

func c17EdgeDiff(want, got map[c17Edge]int) (lost, invented []string) {
	for e, n := range want {
		if got[e] < n {
			lost = append(lost, fmt.Sprintf("%v x%d (got %d)", e, n, got[e]))
		}
	}
	for e, n := range got {
		if want[e] < n {
			invented = append(invented, fmt.Sprintf("%v x%d (want %d)", e, n, want[e]))
		}
	}
	sort.Strings(lost)
	sort.Strings(invented)
	return
}

func c17SignedArea(ring []c17Pt) float64 {
	if len(ring) < 3 {
		return 0
	}
	o := ring[0]
	var s float64
	for i := range ring {
		a, b := ring[i], ring[(i+1)%len(ring)]
		s += (a[0]-o[0])*(b[1]-o[1]) - (b[0]-o[0])*(a[1]-o[1])
	}
	return s / 2
}

// c17Degenerate: the ring has no usable winding (fewer than 3 distinct points or an
// enclosed signed area that is tiny against its extent).
func c17Degenerate(ring []c17Pt) bool {
	distinct := map[c17Pt]bool{}
	minx, maxx, miny, maxy := math.Inf(1), math.Inf(-1), math.Inf(1), math.Inf(-1)
	for _, p := range ring {
		distinct[p] = true
		minx, maxx = math.Min(minx, p[0]), math.Max(maxx, p[0])
		miny, maxy = math.Min(miny, p[1]), math.Max(maxy, p[1])
	}
	if len(distinct) < 3 {
		return true
	}
	ext := (maxx-minx)*(maxx-minx) + (maxy-miny)*(maxy-miny)
	return math.Abs(c17SignedArea(ring)) <= 1e-6*ext
}

// c17Winding decides the winding of an open ring: +1 counter-clockwise, -1 clockwise, 0 when
// the ring has no usable winding. When every coordinate lies on the OSM grid of 1e-7 degrees
// (all generated coordinates do) the shoelace sum is evaluated exactly in integers (math/big),
// so that rings a few grid units across are judged correctly wherever they lie; exact reports
// that path. A ring counts as degenerate when its exact doubled area is 0 or below 1e-9 of its
// squared extent (a float implementation cannot be expected to see that sign); off the grid
// the origin-shifted float sum with the coarser c17Degenerate guard is used.
func c17Winding(ring []c17Pt) (sign int, exact bool) {
	if len(ring) < 3 {
		return 0, false
	}
	xs, ys := make([]int64, len(ring)), make([]int64, len(ring))
	onGrid := true
	for i, p := range ring {
		gx, gy := math.Round(p[0]*1e7), math.Round(p[1]*1e7)
		if math.Abs(p[0]*1e7-gx) > 1e-3 || math.Abs(p[1]*1e7-gy) > 1e-3 || math.Abs(gx) > 4e9 || math.Abs(gy) > 4e9 {
			onGrid = false
			break
		}
		xs[i], ys[i] = int64(gx), int64(gy)
	}
	if !onGrid {
		if c17Degenerate(ring) {
			return 0, false
		}
		if c17SignedArea(ring) > 0 {
			return 1, false
		}
		return -1, false
	}
	sum := new(big.Int)
	minx, maxx, miny, maxy := xs[0], xs[0], ys[0], ys[0]
	for i := range xs {
		j := (i + 1) % len(xs)
		t := new(big.Int).Mul(big.NewInt(xs[i]), big.NewInt(ys[j]))
		t.Sub(t, new(big.Int).Mul(big.NewInt(xs[j]), big.NewInt(ys[i])))
		sum.Add(sum, t)
		minx, maxx = min(minx, xs[i]), max(maxx, xs[i])
		miny, maxy = min(miny, ys[i]), max(maxy, ys[i])
	}
	if sum.Sign() == 0 {
		return 0, true
	}
	// |2A| * 1e9 >= extent^2 ?
	ext := new(big.Int).Add(new(big.Int).Mul(big.NewInt(maxx-minx), big.NewInt(maxx-minx)), new(big.Int).Mul(big.NewInt(maxy-miny), big.NewInt(maxy-miny)))
	lhs := new(big.Int).Mul(new(big.Int).Abs(sum), big.NewInt(1_000_000_000))
	if lhs.Cmp(ext) < 0 {
		return 0, true
	}
	return sum.Sign(), true
}

// c17TinyPlaces are where the tiny rings are put, in grid units of 1e-7 degrees (lon, lat):
// far from lon/lat 0 (where an unshifted shoelace sum loses the sign), and next to 0 as control.
var c17TinyPlaces = []struct {
	name     string
	lon, lat int64
}{
	{"dateline-north", 1_799_000_000, 899_000_000}, {"dateline-south", -1_799_000_000, -899_000_000},
	{"san-francisco", -1_224_194_155, 377_749_295}, {"tokyo", 1_396_917_064, 356_894_875},
	{"sydney", 1_512_093_011, -338_688_197}, {"santiago", -706_692_655, -334_488_897},
	{"anchorage", -1_499_002_778, 612_180_556}, {"null-island", 120, 85},
}

// c17TinyShapes: rings in grid units (counter-clockwise as listed), a few units across,
// including thin slivers.
var c17TinyShapes = []struct {
	name string
	pts  [][2]int64
}{
	{"square-1", [][2]int64{{0, 0}, {1, 0}, {1, 1}, {0, 1}}},
	{"square-2", [][2]int64{{0, 0}, {2, 0}, {2, 2}, {0, 2}}},
	{"square-5", [][2]int64{{0, 0}, {5, 0}, {5, 5}, {0, 5}}},
	{"square-10", [][2]int64{{0, 0}, {10, 0}, {10, 10}, {0, 10}}},
	{"square-30", [][2]int64{{0, 0}, {30, 0}, {30, 30}, {0, 30}}},
	{"triangle-1", [][2]int64{{0, 0}, {1, 0}, {0, 1}}},
	{"triangle-3", [][2]int64{{0, 0}, {3, 1}, {1, 3}}},
	{"sliver-rect-50x1", [][2]int64{{0, 0}, {50, 0}, {50, 1}, {0, 1}}},
	{"sliver-tri-80x1", [][2]int64{{0, 0}, {80, 0}, {40, 1}}},
	{"sliver-diag", [][2]int64{{0, 0}, {60, 59}, {61, 61}, {1, 1}}},
	{"l-shape", [][2]int64{{0, 0}, {4, 0}, {4, 2}, {2, 2}, {2, 4}, {0, 4}}},
	{"pentagon", [][2]int64{{2, 0}, {5, 2}, {4, 6}, {1, 6}, {0, 2}}},
}

// tinyWay adds an area way over fresh nodes at base + pts (grid units), stored in the given
// direction and starting vertex.
func (d *c17DS) tinyWay(lon, lat int64, pts [][2]int64, clockwise bool, rot int, label string) {
	ids := make([]int64, len(pts))
	for i, p := range pts {
		n := d.addNode("loc", "none")
		n.Lon, n.Lat = float64(lon+p[0])/1e7, float64(lat+p[1])/1e7
		ids[i] = int64(n.ID)
	}
	if clockwise {
		for i, j := 0, len(ids)-1; i < j; i, j = i+1, j-1 {
			ids[i], ids[j] = ids[j], ids[i]
		}
	}
	rot %= len(ids)
	ids = append(append([]int64{}, ids[rot:]...), ids[:rot]...)
	at := c17AreaTags[d.r.Intn(len(c17AreaTags))]
	w := d.addWay(append(ids, ids[0]), osm.Tags{{Key: at[0], Value: at[1]}})
	d.area[w.ID] = true
	if d.keySuffix == nil {
		d.keySuffix = map[osm.WayID]string{}
	}
	d.keySuffix[w.ID] = "/" + label
	d.wayCls["area"], d.wayCls["area-tiny"] = true, true
}

// c17TinyTable: per place one data set with every shape in both stored directions.
func c17TinyTable() []*c17DS {
	var out []*c17DS
	for pi, pl := range c17TinyPlaces {
		d := c17NewDS(uint64(pi+1), "tinyarea/"+pl.name)
		k := int64(0)
		for si, sh := range c17TinyShapes {
			for _, cw := range []bool{false, true} {
				dir := "ccw-input"
				if cw {
					dir = "cw-input"
				}
				// rings 1000 units apart so that no two nodes coincide; stay inside +-180 / +-90
				dx, dy := k%6*1000, k/6*1000
				if pl.lon > 0 {
					dx = -dx
				}
				if pl.lat > 0 {
					dy = -dy
				}
				d.tinyWay(pl.lon+dx, pl.lat+dy, sh.pts, cw, si+int(k), "tiny/"+sh.name+"/"+dir)
				k++
			}
		}
		out = append(out, d)
	}
	return out
}

// c17TinyRandom: a small random data set plus random tiny star-shaped area ways (3-7 vertices in
// a box of 2..40 grid units) at random places on the grid, both directions.
func c17TinyRandom(seed uint64) *c17DS {
	d := c17Random(seed, 0, 8, 0)
	d.label = "tinyarea/random"
	r := d.r
	for i, n := 0, r.Range(2, 6); i < n; i++ {
		lon := r.Int64Range(-1_799_900_000, 1_799_900_000)
		lat := r.Int64Range(-899_900_000, 899_900_000)
		box := int64(r.Pick(2, 3, 5, 10, 20, 40))
		var pts [][2]int64
		for tries := 0; ; tries++ {
			k := r.Range(3, 7)
			seen := map[[2]int64]bool{}
			pts = pts[:0]
			for len(pts) < k {
				p := [2]int64{r.Int64Range(0, box), r.Int64Range(0, box)}
				if !seen[p] {
					seen[p] = true
					pts = append(pts, p)
				}
				if len(seen) >= int((box+1)*(box+1)) {
					break
				}
			}
			// star order around the centroid (scaled by k to stay in integers)
			var cx, cy int64
			for _, p := range pts {
				cx += p[0]
				cy += p[1]
			}
			kk := int64(len(pts))
			sort.SliceStable(pts, func(a, b int) bool {
				return math.Atan2(float64(pts[a][1]*kk-cy), float64(pts[a][0]*kk-cx)) < math.Atan2(float64(pts[b][1]*kk-cy), float64(pts[b][0]*kk-cx))
			})
			var twice int64
			for a := range pts {
				b := (a + 1) % len(pts)
				twice += pts[a][0]*pts[b][1] - pts[b][0]*pts[a][1]
			}
			if len(pts) >= 3 && twice > 0 {
				break
			}
		}
		d.tinyWay(lon, lat, pts, r.Bool(), r.Intn(7), fmt.Sprintf("tiny-random/box%d", box))
	}
	return d
}

// c17InRing: even-odd test of p against the open ring (the generator's own containment test).
func c17InRing(p c17Pt, ring []c17Pt) bool {
	in := false
	for i, j := 0, len(ring)-1; i < len(ring); j, i = i, i+1 {
		a, b := ring[i], ring[j]
		if (a[1] > p[1]) != (b[1] > p[1]) && p[0] < (b[0]-a[0])*(p[1]-a[1])/(b[1]-a[1])+a[0] {
			in = !in
		}
	}
	return in
}

// c17Open strips the closing point of a closed sequence.
func c17Open(ring []c17Pt) []c17Pt {
	if len(ring) >= 2 && ring[0] == ring[len(ring)-1] {
		return ring[:len(ring)-1]
	}
	return ring
}

// c17SameCycle: a and b (both without closing point) are the same cyclic sequence up to
// rotation and direction.
func c17SameCycle(a, b []c17Pt) bool {
	if len(a) != len(b) {
		return false
	}
	n := len(a)
	if n == 0 {
		return true
	}
	for off := 0; off < n; off++ {
		fwd, bwd := true, true
		for i := 0; i < n; i++ {
			if a[i] != b[(off+i)%n] {
				fwd = false
			}
			if a[i] != b[((off-i)%n+n)%n] {
				bwd = false
			}
		}
		if fwd || bwd {
			return true
		}
	}
	return false
}

func c17PtsEqual(a, b []c17Pt) bool {
	if len(a) != len(b) {
		return false
	}
	for i := range a {
		if a[i] != b[i] {
			return false
		}
	}
	return true
}

// c17SimpleChain: the lines (each with >=2 points), seen as graph edges between their end
// coordinates, form one simple path or one simple cycle. Then joining must give one line.
func c17SimpleChain(lines [][]c17Pt) bool {
	if len(lines) == 0 {
		return false
	}
	deg := map[c17Pt]int{}
	parent := map[c17Pt]c17Pt{}
	var find func(p c17Pt) c17Pt
	find = func(p c17Pt) c17Pt {
		if q, ok := parent[p]; ok && q != p {
			r := find(q)
			parent[p] = r
			return r
		}
		parent[p] = p
		return p
	}
	for _, l := range lines {
		a, b := l[0], l[len(l)-1]
		if a == b {
			return len(lines) == 1
		}
		deg[a]++
		deg[b]++
		parent[find(a)] = find(b)
	}
	var root *c17Pt
	for p, n := range deg {
		if n > 2 {
			return false
		}
		r := find(p)
		if root == nil {
			root = &r
		} else if *root != r {
			return false
		}
	}
	return true
}

var c17OptNames = []string{"noid", "nometa", "norel", "invalid"}

func c17MaskName(mask int) string {
	if mask == 0 {
		return "none"
	}
	var s []string
	for b, n := range c17OptNames {
		if mask&(1<<b) != 0 {
			s = append(s, n)
		}
	}
	return strings.Join(s, "+")
}

// c17Options builds the option list of a mask. Unset options are either left out or passed
// with false (decided by the PRNG): both spellings must mean the same.
func c17Options(mask int, r *gen.R, explicit bool) []osmgeojson.Option {
	mk := []func(bool) osmgeojson.Option{osmgeojson.NoID, osmgeojson.NoMeta, osmgeojson.NoRelationMembership, osmgeojson.IncludeInvalidPolygons}
	var opts []osmgeojson.Option
	for b := range mk {
		on := mask&(1<<b) != 0
		if on || explicit || (r != nil && r.Chance(0.3)) {
			opts = append(opts, mk[b](on))
		}
	}
	return opts
}

func c17Convert(o *osm.OSM, opts []osmgeojson.Option) (js []byte, err error, pan string) {
	defer func() {
		if x := recover(); x != nil {
			pan = fmt.Sprintf("%v\n%s", x, debug.Stack())
		}
	}()
	fc, err := osmgeojson.Convert(o, opts...)
	if err != nil {
		return nil, err, ""
	}
	js, err = json.Marshal(fc)
	return js, err, ""
}

func c17Decode(js []byte) ([]map[string]any, error) {
	dec := json.NewDecoder(bytes.NewReader(js))
	dec.UseNumber()
	var top map[string]any
	if err := dec.Decode(&top); err != nil {
		return nil, err
	}
	if top["type"] != "FeatureCollection" {
		return nil, fmt.Errorf("top-level type is %v", top["type"])
	}
	fs, ok := top["features"].([]any)
	if !ok && top["features"] != nil {
		return nil, fmt.Errorf("features is not an array")
	}
	out := make([]map[string]any, 0, len(fs))
	for _, f := range fs {
		m, ok := f.(map[string]any)
		if !ok {
			return nil, fmt.Errorf("feature is not an object")
		}
		out = append(out, m)
	}
	return out, nil
}

// ---------------------------------------------------------------------------------------
// description of a data set for samples and violation details

func c17Describe(o *osm.OSM) map[string]any {
	tg := func(ts osm.Tags) string {
		var s []string
		for _, t := range ts {
			s = append(s, t.Key+"="+t.Value)
		}
		return "{" + strings.Join(s, ",") + "}"
	}
	var ns, ws, rs []string
	for _, n := range o.Nodes {
		ns = append(ns, fmt.Sprintf("node %d lon=%v lat=%v v%d cs%d uid%d user=%q ts=%d %s", n.ID, n.Lon, n.Lat, n.Version, n.ChangesetID, n.UserID, n.User, c17Unix(n.Timestamp), tg(n.Tags)))
	}
	for _, w := range o.Ways {
		var refs []string
		for _, wn := range w.Nodes {
			if wn.Lat != 0 || wn.Lon != 0 {
				refs = append(refs, fmt.Sprintf("%d@(%v,%v)", wn.ID, wn.Lon, wn.Lat))
			} else {
				refs = append(refs, strconv.FormatInt(int64(wn.ID), 10))
			}
		}
		ws = append(ws, fmt.Sprintf("way %d v%d [%s] %s", w.ID, w.Version, strings.Join(refs, " "), tg(w.Tags)))
	}
	for _, r := range o.Relations {
		var ms []string
		for _, m := range r.Members {
			ms = append(ms, fmt.Sprintf("%s/%d:%q", m.Type, m.Ref, m.Role))
		}
		rs = append(rs, fmt.Sprintf("relation %d v%d %s [%s]", r.ID, r.Version, tg(r.Tags), strings.Join(ms, " ")))
	}
	return map[string]any{"nodes": ns, "ways": ws, "relations": rs}
}

func c17Unix(t time.Time) int64 {
	if t.IsZero() {
		return 0
	}
	return t.Unix()
}

// ---------------------------------------------------------------------------------------
// oracle

type c17Run struct {
	res  *fw.Result
	ref  *c17Ref
	seen map[string]bool
	desc map[string]any
}

func (u *c17Run) viol(key, what string, extra map[string]any) {
	if u.seen[key] {
		u.res.Add("violations_suppressed_same_key", 1)
		return
	}
	u.seen[key] = true
	det := map[string]any{"dataset": u.ref.d.label, "input": u.desc}
	for k, v := range extra {
		det[k] = v
	}
	u.res.Violate(key, what, det)
}

func c17Feat(f map[string]any) string { return fw.JSON(f) }

// checkOutput decides one conversion output (features decoded from JSON) under mask.
func (u *c17Run) checkOutput(mask int, feats []map[string]any) {
	f := u.ref
	on := c17MaskName(mask)
	noID, noMeta, noRel := mask&1 != 0, mask&2 != 0, mask&4 != 0
	claimed := map[c17Key]map[string]any{}
	for _, ft := range feats {
		ex := map[string]any{"options": on, "feature": c17Feat(ft)}
		if ft["type"] != "Feature" {
			u.viol("C17/feature/not-a-feature", fmt.Sprintf("feature type is %v", ft["type"]), ex)
			continue
		}
		props, _ := ft["properties"].(map[string]any)
		typ, _ := props["type"].(string)
		idn, okID := props["id"].(json.Number)
		id, errID := strconv.ParseInt(string(idn), 10, 64)
		if !okID || errID != nil || (typ != "node" && typ != "way" && typ != "relation") {
			u.viol("C17/feature/no-element-identity", "feature does not carry properties.type / properties.id of an element", ex)
			continue
		}
		k := c17Key{typ, id}
		var tags osm.Tags
		var mv c17Meta
		switch typ {
		case "node":
			n := f.node[id]
			if n == nil {
				u.viol("C17/feature/unknown-element/node", fmt.Sprintf("feature names node %d which is not in the input", id), ex)
				continue
			}
			tags, mv = n.Tags, c17Meta{n.Version, n.ChangesetID, n.UserID, n.User, n.Timestamp}
		case "way":
			w := f.way[id]
			if w == nil {
				u.viol("C17/feature/unknown-element/way", fmt.Sprintf("feature names way %d which is not in the input", id), ex)
				continue
			}
			tags, mv = w.Tags, c17Meta{w.Version, w.ChangesetID, w.UserID, w.User, w.Timestamp}
		case "relation":
			r := f.rel[id]
			if r == nil {
				u.viol("C17/feature/unknown-element/relation", fmt.Sprintf("feature names relation %d which is not in the input", id), ex)
				continue
			}
			tags, mv = r.Tags, c17Meta{r.Version, r.ChangesetID, r.UserID, r.User, r.Timestamp}
		}
		if _, dup := claimed[k]; dup {
			u.viol("C17/feature/duplicate/"+typ, fmt.Sprintf("more than one feature for %s %d", typ, id), ex)
		}
		claimed[k] = ft
		u.res.Event(1)

		// top-level id
		top, hasTop := ft["id"]
		if noID {
			if hasTop && top != nil {
				u.viol("C17/id/present-with-noid/"+typ, fmt.Sprintf("NoID set but feature id is %v", top), ex)
			}
		} else if want := fmt.Sprintf("%s/%d", typ, id); top != want {
			u.viol("C17/id/wrong/"+typ, fmt.Sprintf("feature id is %v, want %q", top, want), ex)
		}

		// tags
		want := c17TagMap(tags)
		got := map[string]string{}
		okTags := true
		switch tv := props["tags"].(type) {
		case nil:
		case map[string]any:
			for tk, v := range tv {
				s, ok := v.(string)
				if !ok {
					okTags = false
				}
				got[tk] = s
			}
		default:
			okTags = false
		}
		if !okTags || len(got) != len(want) {
			okTags = false
		} else {
			for tk, v := range want {
				if g, ok := got[tk]; !ok || g != v {
					okTags = false
				}
			}
		}
		if !okTags {
			u.viol("C17/tags/"+typ, fmt.Sprintf("tags of %s %d are %v, want %v", typ, id, props["tags"], want), ex)
		}

		// meta
		mraw, hasMeta := props["meta"]
		if noMeta {
			if hasMeta {
				u.viol("C17/meta/present-with-nometa/"+typ, "NoMeta set but properties.meta is present", ex)
			}
		} else {
			u.checkMeta(typ, id, mraw, mv, ex)
		}

		// relation memberships
		rraw, hasRel := props["relations"]
		if noRel {
			if hasRel {
				u.viol("C17/relations/present-with-norel/"+typ, "NoRelationMembership set but properties.relations is present", ex)
			}
		} else {
			u.checkMemberships(k, rraw, ex)
		}

		// geometry
		geom, _ := ft["geometry"].(map[string]any)
		gt, _ := geom["type"].(string)
		switch typ {
		case "node":
			n := f.node[id]
			p, ok := c17ParsePt(geom["coordinates"])
			if gt != "Point" || !ok || p != (c17Pt{n.Lon, n.Lat}) {
				u.viol("C17/node/point-coords", fmt.Sprintf("node %d at lon=%v lat=%v became %s %v", id, n.Lon, n.Lat, gt, geom["coordinates"]), ex)
			}
		case "way":
			u.checkWayGeometry(f.way[id], gt, geom["coordinates"], ex)
		case "relation":
			r := f.rel[id]
			switch c17RelType(r) {
			case "route":
				u.checkRoute(r, gt, geom["coordinates"], ex)
			case "multipolygon", "boundary":
				u.checkMultipolygon(r, gt, geom["coordinates"], ex)
			}
		}
	}

	// node rule, both directions
	for _, n := range f.o.Nodes {
		id := int64(n.ID)
		_, has := claimed[c17Key{"node", id}]
		ex := map[string]any{"options": on, "node": id}
		switch f.nodeLoc(n) {
		case "origin":
			// lat=lon=0 with a version: the library's own reading is "located at the origin";
			// the property does not say. Run, counted, not asserted.
			u.res.Add("ambiguous_origin_nodes", 1)
			continue
		case "unloc":
			if has {
				u.viol("C17/node-rule/unexpected-point/unlocated", fmt.Sprintf("node %d has no location but a point was emitted", id), ex)
			}
			continue
		}
		var why []string
		if !f.inWay[id] {
			why = append(why, "standalone")
		}
		if c17Interesting(n.Tags) {
			why = append(why, "interesting-tag")
		}
		if f.nodeInR[id] {
			why = append(why, "relation-member")
		}
		if len(why) > 0 {
			u.res.Add("node_rule_points_required", 1)
		} else {
			u.res.Add("node_rule_points_forbidden", 1)
		}
		if len(why) > 0 && !has {
			u.viol("C17/node-rule/missing-point/"+strings.Join(why, "+"), fmt.Sprintf("located node %d (%s) has no point feature", id, strings.Join(why, ", ")), ex)
		}
		if len(why) == 0 && has {
			cls := "untagged"
			if len(n.Tags) > 0 {
				cls = "uninteresting-tags"
			}
			u.viol("C17/node-rule/unexpected-point/way-node-"+cls, fmt.Sprintf("node %d is part of a way, has no interesting tag and is no relation member, but a point was emitted", id), ex)
		}
	}

	// ways with at least two resolvable nodes must be there unless a relation feature may stand
	// for them: never required for multipolygon / boundary members; for route members only
	// when the way has an interesting tag of its own (which no other feature would carry)
	for _, w := range f.o.Ways {
		id := int64(w.ID)
		if f.wayInMP[id] || len(f.resolve(w, 0)) < 2 {
			continue
		}
		cls := "line"
		if f.d.area[w.ID] {
			cls = "area"
		}
		if f.wayInRoute[id] {
			if !c17Interesting(w.Tags) {
				continue
			}
			cls = "tagged-route-member"
		}
		u.res.Add("way_features_required", 1)
		if _, has := claimed[c17Key{"way", id}]; !has {
			u.viol("C17/way/missing-feature/"+cls, fmt.Sprintf("way %d (%d resolvable nodes, tags %v) has no feature", id, len(f.resolve(w, 0)), c17TagMap(w.Tags)),
				map[string]any{"options": on, "way": id})
		}
	}

	// route relations with at least one member way of two resolvable nodes must be there
	for _, r := range f.o.Relations {
		if c17RelType(r) != "route" {
			continue
		}
		has2 := false
		for _, m := range r.Members {
			if m.Type == osm.TypeWay {
				if w := f.way[m.Ref]; w != nil && len(f.resolve(w, 0)) >= 2 {
					has2 = true
				}
			}
		}
		if _, has := claimed[c17Key{"relation", int64(r.ID)}]; has2 && !has {
			u.viol("C17/route/missing-feature", fmt.Sprintf("route relation %d has member ways with geometry but no feature", r.ID),
				map[string]any{"options": on, "relation": int64(r.ID)})
		}
	}
}

func (u *c17Run) checkMeta(typ string, id int64, raw any, want c17Meta, ex map[string]any) {
	m, ok := raw.(map[string]any)
	if !ok && raw != nil {
		u.viol("C17/meta/shape/"+typ, "properties.meta is not an object", ex)
		return
	}
	num := func(k string) (int64, bool) {
		v, ok := m[k]
		if !ok || v == nil {
			return 0, true
		}
		n, ok := v.(json.Number)
		if !ok {
			return 0, false
		}
		x, err := strconv.ParseInt(string(n), 10, 64)
		return x, err == nil
	}
	bad := func(field string, got any, w any) {
		u.viol("C17/meta/"+field+"/"+typ, fmt.Sprintf("meta.%s of %s %d is %v, element has %v", field, typ, id, got, w), ex)
	}
	if v, ok := num("version"); !ok || v != int64(want.version) {
		bad("version", m["version"], want.version)
	}
	if v, ok := num("changeset"); !ok || v != int64(want.cs) {
		bad("changeset", m["changeset"], want.cs)
	}
	if v, ok := num("uid"); !ok || v != int64(want.uid) {
		bad("uid", m["uid"], want.uid)
	}
	us, _ := m["user"].(string)
	if _, isStr := m["user"].(string); (m["user"] != nil && !isStr) || us != want.user {
		bad("user", m["user"], want.user)
	}
	switch tv := m["timestamp"].(type) {
	case nil:
		if !want.ts.IsZero() {
			bad("timestamp", nil, want.ts)
		}
	case string:
		t, err := time.Parse(time.RFC3339Nano, tv)
		if err != nil || !(t.Equal(want.ts) || (want.ts.IsZero() && t.IsZero())) {
			bad("timestamp", tv, want.ts)
		}
	default:
		bad("timestamp", tv, want.ts)
	}
}

func (u *c17Run) checkMemberships(k c17Key, raw any, ex map[string]any) {
	canon := func(rel int64, role string, tags map[string]string) string {
		keys := make([]string, 0, len(tags))
		for tk := range tags {
			keys = append(keys, tk)
		}
		sort.Strings(keys)
		var sb strings.Builder
		fmt.Fprintf(&sb, "%d|%q|", rel, role)
		for _, tk := range keys {
			fmt.Fprintf(&sb, "%q=%q,", tk, tags[tk])
		}
		return sb.String()
	}
	var want, got []string
	for _, m := range u.ref.memb[k] {
		want = append(want, canon(m.rel, m.role, m.tags))
	}
	ok := true
	switch rv := raw.(type) {
	case nil:
	case []any:
		for _, e := range rv {
			em, isObj := e.(map[string]any)
			if !isObj {
				ok = false
				continue
			}
			idn, _ := em["id"].(json.Number)
			rid, err := strconv.ParseInt(string(idn), 10, 64)
			role, roleOK := em["role"].(string)
			if em["role"] == nil {
				roleOK = true
			}
			tags := map[string]string{}
			if tm, isMap := em["tags"].(map[string]any); isMap {
				for tk, v := range tm {
					s, isStr := v.(string)
					if !isStr {
						ok = false
					}
					tags[tk] = s
				}
			} else if em["tags"] != nil {
				ok = false
			}
			if err != nil || !roleOK {
				ok = false
			}
			got = append(got, canon(rid, role, tags))
		}
	default:
		ok = false
	}
	sort.Strings(want)
	sort.Strings(got)
	if !ok || strings.Join(want, "\n") != strings.Join(got, "\n") {
		u.viol("C17/relations/"+k.typ, fmt.Sprintf("relation memberships of %s %d are %v, want (id|role|tags) %v", k.typ, k.id, raw, want), ex)
	}
	if len(want) > 0 {
		u.res.Add("memberships_checked", int64(len(want)))
	}
}

func (u *c17Run) checkWayGeometry(w *osm.Way, gt string, coords any, ex map[string]any) {
	f := u.ref
	id := int64(w.ID)
	modes := c17Modes(f.zeroKinds[id])
	var readings [][]c17Pt
	for _, m := range modes {
		readings = append(readings, f.resolve(w, m))
	}
	if f.zeroKinds[id] != 0 {
		// a way node that refers to a present node at lat=lon=0: the statement does not say
		// whether that is a coordinate. Both readings are accepted; which one the library
		// took is recorded.
		u.res.Add("ambiguous_zero_coordinate_way_nodes", 1)
	}
	isArea := f.d.area[w.ID]
	inMP := f.wayInMP[id]
	switch gt {
	case "LineString":
		if isArea && !inMP {
			u.viol("C17/way/area-not-polygon"+f.d.keySuffix[w.ID], fmt.Sprintf("area way %d was emitted as a LineString", id), ex)
			return
		}
		if isArea {
			return // outline piece of a multipolygon that is an area by its own tags: either form is plausible; not asserted
		}
		got, ok := c17ParseLine(coords)
		match := -1
		for i, rd := range readings {
			if ok && c17PtsEqual(got, rd) {
				match = i
			}
		}
		if match < 0 {
			u.viol("C17/way/line-coords"+f.d.keySuffix[w.ID], fmt.Sprintf("way %d: line coordinates %v, want the resolvable node coordinates in order %v", id, coords, readings[0]), ex)
		} else if f.zeroKinds[id] != 0 {
			u.res.Put("zero_coordinate_way_node_reading", fmt.Sprintf("kinds=%d:%s", f.zeroKinds[id], c17ModeNames[modes[match]]))
		}
		u.res.Add("way_lines_checked", 1)
	case "Polygon":
		rings, ok := c17ParseLines(coords)
		if !ok || len(rings) == 0 {
			u.viol("C17/way/polygon-shape", fmt.Sprintf("way %d: polygon coordinates unreadable or without ring", id), ex)
			return
		}
		if !isArea && !inMP {
			u.viol("C17/way/line-as-polygon"+f.d.keySuffix[w.ID], fmt.Sprintf("way %d is not an area but was emitted as a Polygon", id), ex)
			return
		}
		if len(rings) != 1 && !inMP {
			u.viol("C17/way/area-ring-count", fmt.Sprintf("area way %d became a polygon of %d rings", id, len(rings)), ex)
			return
		}
		ring := rings[0]
		if len(ring) < 2 || ring[0] != ring[len(ring)-1] {
			u.viol("C17/way/area-not-closed", fmt.Sprintf("way %d: polygon ring is not closed: %v", id, ring), ex)
			return
		}
		match := -1
		for i, rd := range readings {
			if c17SameCycle(c17Open(ring), c17Open(rd)) {
				match = i
			}
		}
		if match < 0 {
			u.viol("C17/way/area-cycle"+f.d.keySuffix[w.ID], fmt.Sprintf("way %d: polygon ring %v is not the cycle of the resolvable node coordinates %v", id, ring, readings[0]), ex)
			return
		}
		if wd, exact := c17Winding(c17Open(ring)); wd != 0 {
			if wd < 0 {
				u.viol("C17/way/area-winding"+f.d.keySuffix[w.ID], fmt.Sprintf("way %d: outer ring is wound clockwise: %v", id, ring), ex)
			}
			u.res.Add("way_rings_winding_checked", 1)
			if exact {
				u.res.Add("way_rings_winding_checked_exact", 1)
			}
		}
		for _, h := range rings[1:] {
			if len(h) < 2 || h[0] != h[len(h)-1] {
				u.viol("C17/way/hole-not-closed", fmt.Sprintf("way %d: hole ring not closed", id), ex)
			} else if wd, _ := c17Winding(c17Open(h)); wd > 0 {
				u.viol("C17/way/hole-winding", fmt.Sprintf("way %d: hole ring wound counter-clockwise", id), ex)
			}
		}
		u.res.Add("way_rings_checked", 1)
	default:
		if inMP && gt == "MultiPolygon" {
			return
		}
		u.viol("C17/way/geometry-type", fmt.Sprintf("way %d became a %q", id, gt), ex)
	}
}

func (u *c17Run) checkRoute(r *osm.Relation, gt string, coords any, ex map[string]any) {
	f := u.ref
	var got [][]c17Pt
	switch gt {
	case "LineString":
		l, ok := c17ParseLine(coords)
		if !ok {
			u.viol("C17/route/geometry-shape", "route line coordinates unreadable", ex)
			return
		}
		got = [][]c17Pt{l}
	case "MultiLineString":
		ls, ok := c17ParseLines(coords)
		if !ok {
			u.viol("C17/route/geometry-shape", "route multi-line coordinates unreadable", ex)
			return
		}
		got = ls
	default:
		u.viol("C17/route/geometry-type", fmt.Sprintf("route relation %d became a %q", r.ID, gt), ex)
		return
	}
	kinds := 0
	for _, m := range r.Members {
		if m.Type == osm.TypeWay {
			kinds |= f.zeroKinds[m.Ref]
		}
	}
	ambiguous := kinds != 0
	modes := c17Modes(kinds)
	gotEdges := c17Edges(got)
	var lost, invented []string
	matched := false
	var memberLines [][]c17Pt
	for _, zero := range modes {
		var lines [][]c17Pt
		for _, m := range r.Members {
			if m.Type != osm.TypeWay {
				continue
			}
			if w := f.way[m.Ref]; w != nil {
				if l := f.resolve(w, zero); len(l) >= 2 {
					lines = append(lines, l)
				}
			}
		}
		l, i := c17EdgeDiff(c17Edges(lines), gotEdges)
		if len(l) == 0 && len(i) == 0 {
			matched = true
			memberLines = lines
			break
		}
		if lost == nil && invented == nil {
			lost, invented = l, i
		}
	}
	u.res.Add("route_features_checked", 1)
	if !matched {
		if len(lost) > 0 {
			u.viol("C17/route/segment-lost", fmt.Sprintf("route relation %d: member way segments missing from the output: %v", r.ID, lost), ex)
		}
		if len(invented) > 0 {
			u.viol("C17/route/segment-invented", fmt.Sprintf("route relation %d: output segments that no member way has: %v", r.ID, invented), ex)
		}
		return
	}
	u.res.Add("route_segments_checked", int64(len(gotEdges)))
	nonEmpty := 0
	for _, l := range got {
		if len(l) >= 2 {
			nonEmpty++
		}
	}
	if ambiguous {
		return // line counts depend on the reading of zero-coordinate way nodes
	}
	if nonEmpty > len(memberLines) {
		u.viol("C17/route/more-lines-than-ways", fmt.Sprintf("route relation %d: %d output lines from %d member lines", r.ID, nonEmpty, len(memberLines)), ex)
	}
	if c17SimpleChain(memberLines) {
		u.res.Add("route_chains_checked", 1)
		if nonEmpty != 1 {
			u.viol("C17/route/not-joined", fmt.Sprintf("route relation %d: member ways form one simple path/loop but the output has %d lines", r.ID, nonEmpty), ex)
		}
	}
}

// checkMultipolygon: light context check only (ring assembly is C16): rings closed, outer
// counter-clockwise, holes clockwise, and the ring segments are exactly the member ways'.
func (u *c17Run) checkMultipolygon(r *osm.Relation, gt string, coords any, ex map[string]any) {
	f := u.ref
	var polys [][][]c17Pt
	switch gt {
	case "Polygon":
		rings, ok := c17ParseLines(coords)
		if !ok {
			u.viol("C17/multipolygon/shape", "polygon coordinates unreadable", ex)
			return
		}
		polys = [][][]c17Pt{rings}
	case "MultiPolygon":
		a, _ := coords.([]any)
		for _, e := range a {
			rings, ok := c17ParseLines(e)
			if !ok {
				u.viol("C17/multipolygon/shape", "multipolygon coordinates unreadable", ex)
				return
			}
			polys = append(polys, rings)
		}
	default:
		u.viol("C17/multipolygon/geometry-type", fmt.Sprintf("multipolygon relation %d became a %q", r.ID, gt), ex)
		return
	}
	// only relations built by the multipolygon generator are known to be valid
	for _, m := range r.Members {
		if m.Type == osm.TypeWay && !f.d.mpWay[osm.WayID(m.Ref)] {
			return
		}
	}
	var all, member [][]c17Pt
	for _, p := range polys {
		for i, ring := range p {
			if len(ring) < 4 || ring[0] != ring[len(ring)-1] {
				u.viol("C17/multipolygon/ring-not-closed", fmt.Sprintf("relation %d: ring %v", r.ID, ring), ex)
				return
			}
			a := c17SignedArea(c17Open(ring))
			if (i == 0 && a <= 0) || (i > 0 && a >= 0) {
				u.viol("C17/multipolygon/winding", fmt.Sprintf("relation %d: ring %d has signed area %g", r.ID, i, a), ex)
			}
			all = append(all, ring)
		}
	}
	for _, m := range r.Members {
		if m.Type == osm.TypeWay && (m.Role == "outer" || m.Role == "inner") {
			if w := f.way[m.Ref]; w != nil {
				member = append(member, f.resolve(w, 0))
			}
		}
	}
	if l, i := c17EdgeDiff(c17Edges(member), c17Edges(all)); len(l) > 0 || len(i) > 0 {
		u.viol("C17/multipolygon/segments", fmt.Sprintf("relation %d: ring segments differ from the member ways': lost %v invented %v", r.ID, l, i), ex)
	}
	u.res.Add("multipolygon_features_checked", 1)
}

// c17Expect derives from a baseline feature what an option set may leave of it.
func c17Expect(base map[string]any, mask int) map[string]any {
	out := map[string]any{}
	for k, v := range base {
		out[k] = v
	}
	if mask&1 != 0 {
		delete(out, "id")
	}
	if p, ok := base["properties"].(map[string]any); ok {
		q := map[string]any{}
		for k, v := range p {
			q[k] = v
		}
		if mask&2 != 0 {
			delete(q, "meta")
		}
		if mask&4 != 0 {
			delete(q, "relations")
		}
		out["properties"] = q
	}
	return out
}

// c17DiffPath names the first place where two features differ.
func c17DiffPath(a, b map[string]any) string {
	keys := map[string]bool{}
	for k := range a {
		keys[k] = true
	}
	for k := range b {
		keys[k] = true
	}
	var ks []string
	for k := range keys {
		ks = append(ks, k)
	}
	sort.Strings(ks)
	for _, k := range ks {
		if fw.JSON(a[k]) == fw.JSON(b[k]) {
			continue
		}
		if k == "properties" {
			pa, _ := a[k].(map[string]any)
			pb, _ := b[k].(map[string]any)
			if pa != nil && pb != nil {
				return "properties." + c17DiffPath(pa, pb)
			}
		}
		return k
	}
	return "?"
}

// c17Check runs the whole oracle on one data set.
func c17Check(res *fw.Result, d *c17DS) {
	pristine := eq.Clone(d.o)
	snapshot := eq.Dump(pristine)
	ref := c17NewRef(d, pristine)
	u := &c17Run{res: res, ref: ref, seen: map[string]bool{}, desc: c17Describe(pristine)}

	sig := ""
	if len(d.o.Nodes)+len(d.o.Ways)+len(d.o.Relations) > 0 {
		set := func(m map[string]bool) string {
			var s []string
			for k := range m {
				s = append(s, k)
			}
			sort.Strings(s)
			return strings.Join(s, ",")
		}
		kinds := ""
		if len(d.o.Nodes) > 0 {
			kinds += "n"
		}
		if len(d.o.Ways) > 0 {
			kinds += "w"
		}
		if len(d.o.Relations) > 0 {
			kinds += "r"
		}
		sig = kinds + "|N:" + set(ref.nodeCls) + "|W:" + set(d.wayCls) + "|R:" + set(d.relCls)
		for c := range ref.nodeCls {
			res.Put("node_classes", c)
		}
		for c := range d.wayCls {
			res.Put("way_classes", c)
		}
		for c := range d.relCls {
			res.Put("relation_classes", c)
		}
	}

	if d.routeWaysMax > 0 {
		res.SetMax("route_member_ways_max", int64(d.routeWaysMax))
	}
	var base []map[string]any
	var baseJS []byte
	for mask := 0; mask < 16; mask++ {
		if d.idScheme == "neg-shared" && mask&4 == 0 {
			continue // exact only under NoRelationMembership
		}
		on := c17MaskName(mask)
		in := eq.Clone(pristine)
		opts := c17Options(mask, d.r, false)
		js, err, pan := c17Convert(in, opts)
		res.Add("conversions", 1)
		if pan != "" {
			u.viol("C17/convert-panic", "Convert panicked: "+pan, map[string]any{"options": on})
			res.Eval(sig)
			continue
		}
		if err != nil {
			u.viol("C17/convert-error", "Convert / json.Marshal failed: "+err.Error(), map[string]any{"options": on})
			res.Eval(sig)
			continue
		}
		if after := eq.Dump(in); after != snapshot {
			u.viol("C17/immutability", "the input data set differs from its snapshot after Convert: "+eq.Diff(snapshot, after), map[string]any{"options": on})
		}
		// equal input, equal output: the same object again, and a fresh deep clone
		js2, _, pan2 := c17Convert(in, opts)
		js3, _, pan3 := c17Convert(eq.Clone(pristine), c17Options(mask, nil, true))
		res.Add("conversions", 2)
		if pan2 != "" || pan3 != "" {
			u.viol("C17/convert-panic", "repeated Convert panicked: "+pan2+pan3, map[string]any{"options": on})
		} else {
			if !bytes.Equal(js, js2) {
				u.viol("C17/determinism/same-object", "two conversions of the same data set differ", map[string]any{"options": on, "first": string(js), "second": string(js2)})
			}
			if !bytes.Equal(js, js3) {
				u.viol("C17/determinism/equal-clone", "conversions of two equal data sets differ (options spelled out vs. left out)", map[string]any{"options": on, "first": string(js), "second": string(js3)})
			}
		}
		if after := eq.Dump(in); after != snapshot {
			u.viol("C17/immutability", "the input data set differs from its snapshot after a second Convert: "+eq.Diff(snapshot, after), map[string]any{"options": on})
		}
		feats, derr := c17Decode(js)
		if derr != nil {
			u.viol("C17/output-not-geojson", "output is not a FeatureCollection: "+derr.Error(), map[string]any{"options": on, "json": string(js)})
			res.Eval(sig)
			continue
		}
		res.SetMax("features_max", int64(len(feats)))
		res.Add("features", int64(len(feats)))
		u.checkOutput(mask, feats)

		if base == nil && (mask == 0 || (d.idScheme == "neg-shared" && mask == 4)) {
			base, baseJS = feats, js
		} else if base != nil {
			// the option set may only delete the documented keys from the baseline output
			if len(feats) != len(base) {
				u.viol("C17/option/"+on+"/feature-count", fmt.Sprintf("%d features with options %s, %d without", len(feats), on, len(base)),
					map[string]any{"options": on, "baseline": string(baseJS), "output": string(js)})
			} else {
				for i := range feats {
					want := c17Expect(base[i], mask)
					if fw.JSON(want) != fw.JSON(feats[i]) {
						path := c17DiffPath(want, feats[i])
						u.viol("C17/option/"+on+"/differs/"+path, fmt.Sprintf("feature %d under options %s differs from the baseline feature beyond the documented keys, at %s", i, on, path),
							map[string]any{"options": on, "baseline_feature": c17Feat(base[i]), "feature": c17Feat(feats[i])})
						break
					}
				}
			}
			res.Add("option_comparisons", 1)
		}
		res.Eval(sig)
	}
	if res.Sample == nil {
		res.Sample = map[string]any{"dataset": d.label, "signature": sig, "input": u.desc, "baseline_output": string(baseJS)}
	}
}

// c17Cold: the very first conversions of a process, by many goroutines at once, on equal
// input: "conversion of equal input gives equal output" must not depend on who converts first
// (area detection uses a rule table that is package state).
func c17Cold(c fw.Case) *fw.Result {
	res := fw.NewResult()
	mk := func() *osm.OSM {
		o := &osm.OSM{}
		id := int64(1)
		for wi, tag := range [][2]string{{"indoor", "room"}, {"highway", "rest_area"}, {"building", "yes"}, {"natural", "water"}, {"highway", "residential"}, {"barrier", "wall"}, {"landuse", "forest"}, {"waterway", "riverbank"}} {
			w := &osm.Way{ID: osm.WayID(100 + wi), Visible: true, Version: 1, Tags: osm.Tags{{Key: tag[0], Value: tag[1]}}}
			first := id
			for k := 0; k < 4; k++ {
				o.Nodes = append(o.Nodes, &osm.Node{ID: osm.NodeID(id), Visible: true, Version: 1, Lat: float64(wi) + []float64{0, 0, 0.5, 0.5}[k], Lon: float64(wi) + []float64{0, 0.5, 0.5, 0}[k]})
				w.Nodes = append(w.Nodes, osm.WayNode{ID: osm.NodeID(id)})
				id++
			}
			w.Nodes = append(w.Nodes, osm.WayNode{ID: osm.NodeID(first)})
			o.Ways = append(o.Ways, w)
		}
		return o
	}
	const G = 48
	outs := make([]string, G)
	start := make(chan struct{})
	var wg sync.WaitGroup
	for g := 0; g < G; g++ {
		wg.Add(1)
		in := mk()
		go func(g int) {
			defer wg.Done()
			<-start
			fc, err := osmgeojson.Convert(in)
			if err != nil {
				outs[g] = "error: " + err.Error()
				return
			}
			b, _ := json.Marshal(fc)
			outs[g] = string(b)
		}(g)
	}
	close(start)
	wg.Wait()
	fc, _ := osmgeojson.Convert(mk())
	b, _ := json.Marshal(fc)
	ref := string(b)
	differ := 0
	for _, o := range outs {
		if o != ref {
			differ++
		}
	}
	if differ > 0 {
		res.Violatef("C17/coldstart/concurrent-first-use", "%d of %d conversions of equal input made concurrently as the first calls of the process differ from a later conversion of the same input", differ, G)
	}
	res.Event(G + 1)
	res.Add("coldstart_concurrent_conversions", G)
	res.Eval("coldstart/" + c.Variant)
	return res
}

func c17Exec(c fw.Case) *fw.Result {
	if c.Kind == "coldstart" {
		if fw.IsCold() {
			return c17Cold(c)
		}
		res := fw.NewResult()
		for i := 0; i < int(c.Int("processes")); i++ {
			r := fw.RunCold("C17", c, "C17/coldstart/crash")
			res.Evals += r.Evals
			res.Events += r.Events
			res.Sigs = append(res.Sigs, r.Sigs...)
			res.Violations = append(res.Violations, r.Violations...)
			res.Inconclusive = append(res.Inconclusive, r.Inconclusive...)
			res.RaceReports = append(res.RaceReports, r.RaceReports...)
			for k, v := range r.Counts {
				res.Counts[k] += v
			}
		}
		res.Add("coldstart_processes", c.Int("processes"))
		return res
	}
	res := fw.NewResult()
	switch c.Kind {
	case "mpinvalid", "mpinline":
		c17ExecInvalid(c, res)
	case "random":
		rw := int(c.Int("rw"))
		if rw < 2 {
			rw = 16
		}
		d := c17Random(c.Seed, int(c.Int("size")), rw, int(c.Int("routes")))
		c17Check(res, d)
	case "exoticids":
		d := c17NewDS(c.Seed, "exoticids/"+c.Str("scheme"))
		d.idScheme = c.Str("scheme")
		d.relCls["ids-"+d.idScheme] = true
		c17Check(res, c17RandomIn(d, int(c.Int("size")), 12, int(c.Int("routes"))))
	case "metamatrix":
		ds := c17MetaMatrix()
		for _, d := range ds {
			c17Check(res, d)
		}
		res.Sample = map[string]any{"datasets": len(ds), "first": res.Sample}
	case "wnmatrix":
		ds := c17WayNodeMatrix()
		for _, d := range ds {
			c17Check(res, d)
		}
		res.Sample = map[string]any{"datasets": len(ds), "first": res.Sample}
	case "tinytable":
		ds := c17TinyTable()
		for _, d := range ds {
			c17Check(res, d)
			res.Add("tiny_area_ways", int64(len(d.o.Ways)))
		}
		res.Sample = map[string]any{"datasets": len(ds), "first": res.Sample}
	case "tinyrandom":
		c17Check(res, c17TinyRandom(c.Seed))
	case "areatable":
		ds := c17AreaTable()
		for _, d := range ds {
			c17Check(res, d)
			res.Add("area_table_ways", int64(len(d.o.Ways)))
		}
		res.Sample = map[string]any{"datasets": len(ds), "first": res.Sample}
	case "nodematrix":
		ds := c17NodeMatrix()
		for _, d := range ds {
			c17Check(res, d)
		}
		res.Sample = map[string]any{"datasets": len(ds), "first": res.Sample}
	}
	return res
}

func init() {
	fw.Register(&fw.Prop{
		ID:    "C17",
		Level: "exploration",
		Rule: "PRNG data sets (nodes located / without location / at the origin x untagged / uninteresting-only / interesting / mixed tags; ways open, area, closed non-area, missing nodes, shared and repeated nodes, one-node, empty, own way-node coordinates; " +
			"relations route (arbitrary members, simple chains and loops, networks of 2..16 (thorough 30) shuffled and randomly reversed member ways in several sections with branches, shared end nodes and loops), simple valid multipolygon/boundary (one or two outer ways, optional hole, old style), other types; node, way, relation and missing members), plus the enumerated node-rule matrix and area-rule table; plus invalid / partial multipolygon relations of 18 named classes and valid multipolygons given through member nodes (reduced oracle: no panic, no duplicate identity, options subtract, IncludeInvalidPolygons touches only the relation's own feature, determinism, immutability, same geometry from member nodes); " +
			"every data set is converted under all 16 option sets, three times each. One evaluation = one (data set, option set). " +
			"A signature is (element kinds present, node classes, way classes, relation classes); distinct_nontrivial counts distinct signatures.",
		Assumptions: []string{
			"a node without location is lat=lon=0 with version 0 (the only way the osm.Node struct can say so); a node at lat=lon=0 WITH a version is a grey zone (the library calls it located): run, counted, node rule not asserted for it",
			"a way node that refers, without own coordinates, to a present node at lat=lon=0: the statement does not say whether (0,0) is a resolvable coordinate; both readings (omitted / origin) are accepted and the observed one is recorded",
			"existence of a feature is asserted only where no other feature could stand for the element: located nodes by the node rule; ways with >= 2 resolvable nodes that are no multipolygon/boundary member and either no route member or carry an interesting tag of their own; route relations with a member way of >= 2 resolvable nodes; everywhere else only 'at most one'",
			"multipolygon / boundary relations are context (C16 owns ring assembly): generated simple and valid; asserted only closed rings, winding and that ring segments are the member ways' segments; a way that is a multipolygon member may legitimately be emitted as that polygon (old style)",
			"a way is at most once an outer member of a multipolygon (two tag-less multipolygons over the same single outer way would both take the way's identity; not generated)",
			"'joined' is asserted only when the member ways form one simple path or loop by their end coordinates (then exactly one line); otherwise only the segment multiset and 'not more lines than member ways'",
			"meta keys timestamp / version / changeset / user / uid and membership keys id / role / tags as documented in the package README; absent and zero value are treated alike, null and empty alike; the 'tainted' property is not asserted",
			"area-ness of generated ways uses clear rows of the published polygon-features table only (building, landuse, amenity, leisure, natural=water, area=yes vs. highway=residential, natural=coastline, barrier, area=no, no tags); the table itself is C18",
		},
		Cases: func(tier string, seed uint64) []fw.Case {
			n, rw := 400, int64(16)
			if tier == "thorough" {
				n, rw = 10000, 30
			}
			cs := []fw.Case{{Kind: "nodematrix", Seed: 1}, {Kind: "areatable", Seed: 1}}
			for i := 0; i < n; i++ {
				size := int64(1)
				switch i % 10 {
				case 0, 1, 2:
					size = 0
				case 9:
					size = 2
				}
				// every fourth data set carries one or two long, shuffled network routes
				routes := int64(0)
				if i%4 == 3 {
					routes = 1 + int64(i/4%2)
				}
				cs = append(cs, fw.Case{Kind: "random", Seed: gen.Sub(seed, "c17", i), P: map[string]int64{"size": size, "rw": rw, "routes": routes}})
			}
			cs = append(cs, c17InvalidCases(tier, seed)...)
			exotic := 20
			if tier == "thorough" {
				exotic = 400
			}
			for si, scheme := range []string{"neg-unique", "neg-shared", "huge"} {
				for i := 0; i < exotic; i++ {
					cs = append(cs, fw.Case{Kind: "exoticids", Seed: gen.Sub(seed, "c17ids"+scheme, i), S: map[string]string{"scheme": scheme},
						P: map[string]int64{"size": int64((i + si) % 3 % 2), "routes": int64(i % 3 / 2)}})
				}
			}
			cs = append(cs, fw.Case{Kind: "tinytable", Seed: 1}, fw.Case{Kind: "wnmatrix", Seed: 1}, fw.Case{Kind: "metamatrix", Seed: 1})
			tiny := 40
			if tier == "thorough" {
				tiny = 1000
			}
			for i := 0; i < tiny; i++ {
				cs = append(cs, fw.Case{Kind: "tinyrandom", Seed: gen.Sub(seed, "c17tiny", i)})
			}
			for _, v := range []string{"plain", "race"} {
				cs = append(cs, fw.Case{Kind: "coldstart", Variant: v, P: map[string]int64{"processes": 5}})
			}
			return fw.Number(cs)
		},
		Exec:            c17Exec,
		RaceIsViolation: true,
	})
}
