package props

// Workload classes of C03 and C04 that are about *size* and *process-global settings* rather
// than about the shape of one object:
//
//   - long documents (C03): more than 1024 elements in one scanner's lifetime with the kinds
//     interleaved in several patterns; every delivered object is retained and compared only
//     after the scan has ended, so an object that changes after it was handed out is seen;
//   - element counts (C04): containers whose Nodes / Ways / Relations slices have lengths at
//     and around powers of two and multiples of 1024, in OSM, osmChange blocks and the
//     old/new containers of diff actions;
//   - process globals (both): the same expectations must hold whatever time.Local, GOMAXPROCS
//     and the locale environment are.

import (
	"fmt"
	"os"
	"runtime"
	"time"

	"github.com/paulmach/osm"

	"verif/internal/fw"
	"verif/internal/gen"
	"verif/internal/xmlw"
)

// xmlCheapElement is a small but not empty element with a unique id.
func xmlCheapElement(kind int, id int64) osm.Object {
	switch kind % 3 {
	case 0:
		return &osm.Node{ID: osm.NodeID(id), Lat: float64(id%1700)/10 - 85, Lon: float64(id%3500)/10 - 175, Version: int(1 + id%4), Visible: true}
	case 1:
		w := &osm.Way{ID: osm.WayID(id), Version: int(1 + id%3), Visible: id%5 != 0}
		for k := int64(0); k < id%3; k++ {
			w.Nodes = append(w.Nodes, osm.WayNode{ID: osm.NodeID(id*10 + k)})
		}
		return w
	default:
		r := &osm.Relation{ID: osm.RelationID(id), Version: int(1 + id%2), Visible: true}
		if id%2 == 0 {
			r.Members = osm.Members{{Type: osm.TypeNode, Ref: id + 1, Role: "r"}}
		}
		return r
	}
}

var c03LongPatterns = []string{"alternating", "one-other-kind-after-1024", "osmchange-repeated-blocks", "unsorted", "diff-actions", "sorted-sections"}

// c03LongDoc builds a long document model; every 97th element is a richly generated one.
func c03LongDoc(seed uint64, pattern string, n int) *xmlw.Doc {
	r := gen.New(seed, "c03long")
	g := xmlw.NewG(r, 0.7)
	g.MaxList = 2
	id := int64(0)
	elem := func(kind int) osm.Object {
		id++
		if id%97 == 0 {
			return g.Object(xmlw.ObjectKinds[1+kind%3])
		}
		return xmlCheapElement(kind, id)
	}
	d := &xmlw.Doc{Kind: "osm", Header: xmlw.Header{Version: "0.6", Generator: "long " + pattern}}
	switch pattern {
	case "alternating":
		for i := 0; i < n; i++ {
			d.Objects = append(d.Objects, elem(i))
		}
	case "one-other-kind-after-1024":
		// runs of exactly 1024 elements of one kind, each followed by a single element of
		// another kind, then a shorter run
		for i := 0; len(d.Objects) < n; i++ {
			for k := 0; k < 1024 && len(d.Objects) < n; k++ {
				d.Objects = append(d.Objects, elem(i))
			}
			d.Objects = append(d.Objects, elem(i+1))
			for k, m := 0, r.Range(1, 40); k < m; k++ {
				d.Objects = append(d.Objects, elem(i))
			}
			d.Objects = append(d.Objects, elem(i+2))
		}
	case "sorted-sections":
		for k := 0; k < 3; k++ {
			for i := 0; i < n/3; i++ {
				d.Objects = append(d.Objects, elem(k))
			}
		}
	case "unsorted":
		for i := 0; i < n; i++ {
			d.Objects = append(d.Objects, elem(r.Intn(3)))
		}
	case "osmchange-repeated-blocks":
		d.Kind = "osmChange"
		total := 0
		for total < n {
			b := xmlw.Block{Action: r.PickS("create", "modify", "delete")}
			for k, m := 0, r.Pick(1, 7, 60, 300, 1024); k < m && total < n; k++ {
				b.Objects = append(b.Objects, elem(r.Intn(3)))
				total++
			}
			d.Blocks = append(d.Blocks, b)
		}
	case "diff-actions":
		d.Kind = "diff"
		for total := 0; total < n; {
			kind := r.Intn(3)
			if r.Chance(0.3) {
				d.Items = append(d.Items, xmlw.DiffItem{Type: "create", Elem: elem(kind)})
				total++
				continue
			}
			d.Items = append(d.Items, xmlw.DiffItem{Type: r.PickS("modify", "delete"), Old: elem(kind), New: elem(kind)})
			total += 2
		}
	}
	return d
}

// c03Long executes one long-document case.
func c03Long(res *fw.Result, c fw.Case) {
	pattern := c03LongPatterns[int(c.Int("pattern"))%len(c03LongPatterns)]
	n := int(c.Int("n"))
	d := c03LongDoc(c.Seed, pattern, n)
	var noise xmlw.Noise
	if c.Int("noise") == 1 {
		noise.Set("space", true)
		noise.Set("comments", true)
		noise.Set("unkkids", true)
	}
	text, used, present, absent := d.Render(gen.New(c.Seed, "c03render"), noise)
	chunk := c03Chunks[int(c.Seed%uint64(len(c03Chunks)))]
	if chunk == 1 {
		chunk = 7 // one-byte reads over a megabyte only cost time
	}
	c03Check(res, d, text, chunk, map[string]any{"long": pattern, "elements": len(d.Flat())})
	res.Eval(fmt.Sprintf("long|%s|%d", pattern, (len(d.Flat())-1)/1024))
	res.Add("long_documents", 1)
	res.SetMax("long_document_elements", int64(len(d.Flat())))
	res.Add("documents", 1)
	res.Add("objects_compared", int64(len(d.Flat())))
	_, _, _ = used, present, absent
	res.Sample = map[string]any{"pattern": pattern, "elements": len(d.Flat()), "bytes": len(text), "chunk": chunk}
}

// c04Counts lists the slice lengths exercised per kind.
var c04Counts = []int{0, 1, 2, 1023, 1024, 1025, 2047, 2048, 2049, 3072, 4096}

var c04CountSlots = []string{"osm", "change.create", "change.modify", "change.delete", "diff.old", "diff.new"}

// c04CountValue builds a container whose slot holds nn nodes, nw ways and nr relations.
func c04CountValue(slot string, nn, nw, nr int) (kind string, v any) {
	o := &osm.OSM{}
	id := int64(0)
	for i := 0; i < nn; i++ {
		id++
		o.Nodes = append(o.Nodes, xmlCheapElement(0, id).(*osm.Node))
	}
	for i := 0; i < nw; i++ {
		id++
		o.Ways = append(o.Ways, xmlCheapElement(1, id).(*osm.Way))
	}
	for i := 0; i < nr; i++ {
		id++
		o.Relations = append(o.Relations, xmlCheapElement(2, id).(*osm.Relation))
	}
	one := func() *osm.OSM { return &osm.OSM{Nodes: osm.Nodes{{ID: 1, Visible: true}}} }
	switch slot {
	case "osm":
		o.Version = "0.6"
		return "osm", o
	case "change.create":
		return "change", &osm.Change{Create: o}
	case "change.modify":
		return "change", &osm.Change{Create: one(), Modify: o}
	case "change.delete":
		return "change", &osm.Change{Modify: one(), Delete: o}
	case "diff.old":
		return "diff", &osm.Diff{Actions: osm.Actions{{Type: osm.ActionModify, Old: o, New: one()}}}
	default:
		return "diff", &osm.Diff{Actions: osm.Actions{{Type: osm.ActionDelete, Old: one(), New: o}}}
	}
}

// c04CountsCase executes one element-count case: the count list rotated over the three kinds.
func c04CountsCase(res *fw.Result, c fw.Case) {
	slot := c.Str("slot")
	i := int(c.Int("i"))
	n := len(c04Counts)
	nn, nw, nr := c04Counts[i%n], c04Counts[(i+4)%n], c04Counts[(i+7)%n]
	kind, v := c04CountValue(slot, nn, nw, nr)
	c04Run(res, kind, v, false, false, map[string]any{"counts": fmt.Sprintf("%s: %d nodes, %d ways, %d relations", slot, nn, nw, nr)})
	res.Eval(fmt.Sprintf("counts|%s|%d", slot, i))
	res.Add("count_values", 1)
	res.Put("element_counts_exercised", fmt.Sprintf("node:%d", nn))
	res.Put("element_counts_exercised", fmt.Sprintf("way:%d", nw))
	res.Put("element_counts_exercised", fmt.Sprintf("relation:%d", nr))
	res.Sample = map[string]any{"slot": slot, "nodes": nn, "ways": nw, "relations": nr}
}

// xmlGlobals names the process-global settings the "globals" cases run under.
var xmlGlobals = []string{"local=+05:30", "local=-05:00", "local=dst-zone", "local=+14:00", "gomaxprocs=1", "locale-env"}

// xmlWithGlobal runs f with one process-global setting changed and restores it afterwards. f
// must not leave goroutines behind (the cases that use it are sequential).
func xmlWithGlobal(name string, f func()) (applied string) {
	switch name {
	case "local=+05:30", "local=-05:00", "local=+14:00", "local=dst-zone":
		old := time.Local
		defer func() { time.Local = old }()
		switch name {
		case "local=+05:30":
			time.Local = time.FixedZone("IST", 5*3600+1800)
		case "local=-05:00":
			time.Local = time.FixedZone("EST", -5*3600)
		case "local=+14:00":
			time.Local = time.FixedZone("LINT", 14*3600)
		default:
			if loc, err := time.LoadLocation("America/New_York"); err == nil {
				time.Local = loc
				name += "(America/New_York)"
			} else {
				time.Local = time.FixedZone("EDT", -4*3600)
				name += "(fixed -04:00, no tzdata)"
			}
		}
	case "gomaxprocs=1":
		old := runtime.GOMAXPROCS(1)
		defer runtime.GOMAXPROCS(old)
	case "locale-env":
		keys := []string{"LANG", "LC_ALL", "LC_NUMERIC", "LC_TIME"}
		olds := map[string]*string{}
		for _, k := range keys {
			if v, ok := os.LookupEnv(k); ok {
				vv := v
				olds[k] = &vv
			} else {
				olds[k] = nil
			}
			os.Setenv(k, "de_DE.UTF-8") // decimal comma, 24h dates
		}
		defer func() {
			for _, k := range keys {
				if olds[k] == nil {
					os.Unsetenv(k)
				} else {
					os.Setenv(k, *olds[k])
				}
			}
		}()
	}
	f()
	return name
}

// c03Globals decodes note-heavy random documents under one process-global setting.
func c03Globals(res *fw.Result, c fw.Case) {
	name := xmlGlobals[int(c.Int("global"))%len(xmlGlobals)]
	applied := xmlWithGlobal(name, func() {
		for i := 0; i < int(c.Int("docs")); i++ {
			seed := gen.Sub(c.Seed, "c03gdoc", i)
			r := gen.New(seed, "c03globals")
			g := xmlw.NewG(r, 0.8)
			g.Nanos = true
			g.MaxList = 3
			d := g.Doc(c03Roots[i%len(c03Roots)], 8)
			if d.Kind == "osm" {
				d.Objects = append(d.Objects, g.Note(), g.Changeset(), g.Note())
			}
			text, _, _, _ := d.Render(gen.New(seed, "c03render"), xmlw.RandomNoise(r, 0.3))
			c03Check(res, d, text, 0, map[string]any{"process_global": name})
			res.Add("documents", 1)
			res.Add("objects_compared", int64(len(d.Flat())))
		}
	})
	res.Eval("globals|" + name)
	res.Put("process_globals", applied)
	res.Sample = map[string]any{"process_global": applied, "documents": c.Int("docs")}
}

// c04Globals round-trips random values (notes in every second one) under one setting.
func c04Globals(res *fw.Result, c fw.Case) {
	name := xmlGlobals[int(c.Int("global"))%len(xmlGlobals)]
	applied := xmlWithGlobal(name, func() {
		for i := 0; i < int(c.Int("values")); i++ {
			seed := gen.Sub(c.Seed, "c04gvalue", i)
			r := gen.New(seed, "c04globals")
			g := xmlw.NewG(r, 0.8)
			g.Nanos = true
			g.MaxList = 3
			kind := xmlw.Kinds[i%len(xmlw.Kinds)]
			if i%2 == 1 {
				kind = "note"
			}
			v := g.Value(kind)
			if o, ok := v.(*osm.OSM); ok {
				o.Notes = append(o.Notes, g.Note())
			}
			c04Check(res, kind, v, i%4 == 0, map[string]any{"process_global": name})
			res.Add("values", 1)
		}
	})
	res.Eval("globals|" + name)
	res.Put("process_globals", applied)
	res.Sample = map[string]any{"process_global": applied, "values": c.Int("values")}
}

// xmlCollisionObjects plants a pair of distinct equal-length strings with the same 32-bit
// fingerprint where a reader is most likely to de-duplicate strings: as neighbouring tag
// values of one element, as tag values of neighbouring elements, as tag keys, as member
// roles, as user names, and in changeset tags — first A then B, and once more B then A.
func xmlCollisionObjects(c xmlw.Collision) []osm.Object {
	a, b := c.A, c.B
	return []osm.Object{
		&osm.Node{ID: 1, Visible: true, Version: 1, Tags: osm.Tags{{Key: "wikidata", Value: a}, {Key: "brand:wikidata", Value: b}}},
		&osm.Node{ID: 2, Visible: true, Version: 1, Tags: osm.Tags{{Key: "wikidata", Value: b}}},
		&osm.Node{ID: 3, Visible: true, Version: 1, Tags: osm.Tags{{Key: "wikidata", Value: a}}},
		&osm.Way{ID: 4, Visible: true, Version: 1, User: a, UserID: 7, Nodes: osm.WayNodes{{ID: 1}, {ID: 2}}, Tags: osm.Tags{{Key: a, Value: "1"}, {Key: b, Value: "2"}}},
		&osm.Way{ID: 5, Visible: true, Version: 1, User: b, UserID: 8, Tags: osm.Tags{{Key: b, Value: a}, {Key: a, Value: b}}},
		&osm.Relation{ID: 6, Visible: true, Version: 1, Members: osm.Members{{Type: osm.TypeNode, Ref: 1, Role: a}, {Type: osm.TypeNode, Ref: 2, Role: b},
			{Type: osm.TypeWay, Ref: 4, Role: b}, {Type: osm.TypeWay, Ref: 5, Role: a}}, Tags: osm.Tags{{Key: "ref", Value: b}, {Key: "old_ref", Value: a}}},
		&osm.Changeset{ID: 9, User: b, UserID: 9, Tags: osm.Tags{{Key: "comment", Value: b}, {Key: "source", Value: a}}},
	}
}

// c03Collisions: one document per fingerprint function, all of them in one case (the pairs
// are searched once per process).
func c03Collisions(res *fw.Result, c fw.Case) {
	for _, col := range xmlw.Collisions() {
		objs := xmlCollisionObjects(col)
		d := &xmlw.Doc{Kind: c.Str("root")}
		switch d.Kind {
		case "osm":
			d.Objects = objs
		case "osmChange":
			d.Blocks = []xmlw.Block{{Action: "create", Objects: objs[:3]}, {Action: "modify", Objects: objs[3:5]}, {Action: "create", Objects: objs[5:]}}
		}
		text, _, _, _ := d.Render(gen.New(c.Seed, "c03render"), xmlw.Noise{})
		c03Check(res, d, text, 0, map[string]any{"fingerprint": col.Hash, "pair": col.A + " / " + col.B})
		res.Eval("collisions|" + col.Hash + "|" + d.Kind)
		res.Put("fingerprint_functions", col.Hash)
		res.Add("documents", 1)
		res.Add("objects_compared", int64(len(objs)))
		res.Sample = map[string]any{"fingerprint": col.Hash, "pair": []string{col.A, col.B}, "root": d.Kind}
	}
}

// c04Collisions: the same strings inside an OSM or a Change value, through the full oracle.
func c04Collisions(res *fw.Result, c fw.Case) {
	for _, col := range xmlw.Collisions() {
		o := &osm.OSM{Version: "0.6"}
		for _, obj := range xmlCollisionObjects(col) {
			xmlw.AddTo(o, obj)
		}
		var v any = o
		kind := "osm"
		if c.Str("root") == "osmChange" {
			kind, v = "change", &osm.Change{Create: &osm.OSM{Nodes: o.Nodes}, Modify: &osm.OSM{Ways: o.Ways, Relations: o.Relations, Changesets: o.Changesets}}
		}
		c04Run(res, kind, v, false, false, map[string]any{"fingerprint": col.Hash, "pair": col.A + " / " + col.B})
		res.Eval("collisions|" + col.Hash + "|" + kind)
		res.Put("fingerprint_functions", col.Hash)
		res.Add("values", 1)
		res.Sample = map[string]any{"fingerprint": col.Hash, "pair": []string{col.A, col.B}, "kind": kind}
	}
}
