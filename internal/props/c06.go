package props

import (
	"context"
	"errors"
	"fmt"
	"io"
	"runtime"
	"time"

	"github.com/paulmach/osm"
	"github.com/paulmach/osm/osmpbf"

	"verif/internal/fw"
	"verif/internal/gen"
	"verif/internal/mon"
	"verif/internal/pbfw"
)

// C06 — truncated or damaged PBF input ends in an error after a correct prefix.
//
// Every case runs in a child process; a child that dies inside a case is the observation
// "crash of the calling process" (violation), a child whose goroutines are all blocked is
// "hang" (violation). Cut points are enumerated exhaustively per file; damage classes are
// enumerated over block positions; I/O errors are injected at every Read call index.

type c06Class struct {
	name string
	args []int64
	// where: "file" damages apply to the header block too
	fileLevel bool
	// strict: the format makes this damage detectable and the property lists it: the scan
	// must end with a non-nil error. Non-strict ("grey") classes assert only: no crash, no
	// hang, intact prefix delivered, nothing invented.
	strict bool
	zlib   bool // concerns the compressed-data path (run on both zlib back-ends and asan)
}

var c06Classes = []c06Class{
	{name: "headersize-64k", fileLevel: true, strict: true},
	{name: "headersize-max", fileLevel: true, strict: true},
	{name: "datasize-huge", args: []int64{0, 1, 1 << 20}, fileLevel: true, strict: true},
	{name: "datasize-negative", args: []int64{0, 1000}, fileLevel: true, strict: true},
	{name: "rawsize-plus", fileLevel: true, strict: true, zlib: true},
	{name: "rawsize-minus", fileLevel: true, strict: true, zlib: true},
	// declared sizes far from the data: zero, negative, around the point where size+10%
	// leaves int32, and the int32 maximum
	{name: "rawsize-abs", args: []int64{0, -1, -(1 << 31), 1 << 24, 1952257000, 1952258000, 2000000000, 2147483047, 1<<31 - 1}, fileLevel: true, strict: true, zlib: true},
	{name: "corrupt-zlib", fileLevel: true, strict: true, zlib: true},
	{name: "bad-adler", fileLevel: true, strict: true, zlib: true},
	{name: "zlib-truncated", fileLevel: true, strict: true, zlib: true},
	{name: "bad-zlib-header", fileLevel: true, strict: true, zlib: true},
	// the compressed stream is complete and correct but is followed by other bytes, or lacks
	// part of its checksum trailer: the data is all there, so delivering it is defensible
	// (grey: not strict) — what is not defensible is a hang or a crash
	{name: "zlib-trailing", args: []int64{1, 4, 100}, fileLevel: true, strict: false, zlib: true},
	{name: "zlib-trailer-cut", args: []int64{1, 3, 4}, fileLevel: true, strict: false, zlib: true},
	{name: "unknown-encoding", fileLevel: true, strict: true},
	{name: "empty-blob", fileLevel: true, strict: true},
	{name: "block-type", args: []int64{0, 1}, strict: true},
	{name: "garbage-blobheader", fileLevel: true, strict: true},
	{name: "garbage-blob", fileLevel: true, strict: true},
	{name: "garbage-primitiveblock", strict: true},
	{name: "dense-missing-ids", strict: true},
	{name: "dense-missing-lat", strict: true},
	{name: "dense-missing-lon", strict: true},
	{name: "oob-dense-user", args: []int64{0, 1000, 1 << 31, 1<<32 - 1}, strict: true},
	{name: "oob-dense-keyvals", args: []int64{0, 1000, 1 << 31, 1<<32 - 1}, strict: true},
	{name: "oob-way-key", args: []int64{0, 1000, 1 << 31, 1<<32 - 1}, strict: true},
	{name: "oob-way-val", args: []int64{0, 1000, 1 << 31, 1<<32 - 1}, strict: true},
	{name: "oob-way-user", args: []int64{0, 1000, 1 << 31, 1<<32 - 1}, strict: true},
	{name: "oob-rel-key", args: []int64{0, 1000, 1 << 31, 1<<32 - 1}, strict: true},
	{name: "oob-rel-val", args: []int64{0, 1000, 1 << 31, 1<<32 - 1}, strict: true},
	{name: "oob-rel-user", args: []int64{0, 1000, 1 << 31, 1<<32 - 1}, strict: true},
	{name: "oob-rel-role", args: []int64{0, 1000, 1 << 31, 1<<32 - 1}, strict: true},
	{name: "dense-short-lat", strict: true},
	{name: "dense-short-lon", strict: true},
	{name: "dense-short-version", strict: true},
	{name: "dense-short-timestamp", strict: true},
	{name: "dense-short-changeset", strict: true},
	{name: "dense-short-uid", strict: true},
	{name: "dense-short-usersid", strict: true},
	{name: "dense-short-visible", strict: true},
	{name: "dense-short-keyvals", strict: true},
	{name: "way-short-vals", strict: true},
	{name: "rel-short-vals", strict: true},
	{name: "rel-short-memids", strict: true},
	{name: "rel-short-types", strict: true},
	{name: "plain-node-group", strict: true},
	{name: "missing-stringtable", strict: true},
	// grey: a column that is longer than the rows it belongs to
	{name: "way-long-latlon"},
	{name: "rel-roles-long"},
}

var errInjected = errors.New("verif: injected I/O error")

// errInjectedEOF is an I/O failure that wraps io.EOF (and errInjected, for classification).
var errInjectedEOF = fmt.Errorf("verif: connection lost: %w (%w)", io.EOF, errInjected)

func c06SmallFile(seed uint64, nblocks int) *pbfw.File {
	r := gen.New(seed, "c06small")
	f := pbfw.GenFile(r, pbfw.GenOpts{MinBlocks: nblocks, MaxBlocks: nblocks, MaxGroups: 2, MaxElems: 4, SmallStrings: true})
	return f
}

// c06FullFile: every block carries a dense, a way and a relation group with all optional
// parts present, so that every damage class is applicable to every block.
func c06FullFile(seed uint64, nblocks int, zlib bool) *pbfw.File {
	r := gen.New(seed, "c06full")
	o := pbfw.GenOpts{Full: true, SmallStrings: true}
	f := &pbfw.File{Header: pbfw.GenHeader(r, o)}
	f.Header.Zlib = zlib
	var ctr int64
	for i := 0; i < nblocks; i++ {
		b := &pbfw.Block{Zlib: zlib, ZlibLevel: 6, OrderSeed: uint64(3 * (i + 1))} // canonical field order
		for _, k := range []int{pbfw.KDense, pbfw.KWays, pbfw.KRelations} {
			b.Groups = append(b.Groups, pbfw.GenGroupIDs(r, b, k, 5, &ctr, o))
		}
		f.Blocks = append(f.Blocks, b)
	}
	return f
}

// c06SkipFilter drops the kinds a skip mask (1 nodes, 2 ways, 4 relations) suppresses.
func c06SkipFilter(es []pbfw.Expect, mask int) []pbfw.Expect {
	if mask == 0 {
		return es
	}
	var out []pbfw.Expect
	for _, e := range es {
		switch e.Obj.(type) {
		case *osm.Node:
			if mask&1 != 0 {
				continue
			}
		case *osm.Way:
			if mask&2 != 0 {
				continue
			}
		case *osm.Relation:
			if mask&4 != 0 {
				continue
			}
		}
		out = append(out, e)
	}
	return out
}

func c06PrefixExpect(f *pbfw.File, nIntact int) []pbfw.Expect {
	var out []pbfw.Expect
	for i := 0; i < nIntact && i < len(f.Blocks); i++ {
		out = append(out, f.ExpectBlock(i)...)
	}
	return out
}

// c06CutClass names where in the block structure offset c falls.
func c06CutClass(f *pbfw.File, lay *pbfw.Layout, c int64) string {
	if c == 0 {
		return "boundary/start"
	}
	if lay.HeaderEnd > 0 && c <= lay.HeaderEnd {
		switch {
		case c == lay.HeaderEnd:
			return "boundary/after-header-block"
		case c < lay.HeaderPrefixEnd:
			return "header/in-size-prefix"
		case c == lay.HeaderPrefixEnd:
			return "header/after-size-prefix"
		case c < lay.HeaderBlobHeaderEnd:
			return "header/in-blobheader"
		case c == lay.HeaderBlobHeaderEnd:
			return "header/after-blobheader"
		default:
			return "header/in-blob"
		}
	}
	for i := range lay.Start {
		if c > lay.End[i] {
			continue
		}
		switch {
		case c == lay.End[i]:
			return "boundary/after-data-block"
		case c < lay.PrefixEnd[i]:
			return "data/in-size-prefix"
		case c == lay.PrefixEnd[i]:
			return "data/after-size-prefix"
		case c < lay.BlobHeaderEnd[i]:
			return "data/in-blobheader"
		case c == lay.BlobHeaderEnd[i]:
			return "data/after-blobheader"
		default:
			return "data/in-blob"
		}
	}
	return "beyond"
}

func c06Exec(c fw.Case) *fw.Result {
	res := fw.NewResult()
	switch c.Kind {
	case "cuts":
		f := c06SmallFile(c.Seed, int(c.Int("blocks")))
		if c.Int("noheader") == 1 {
			f.Header = nil
		}
		data, lay := f.Encode(nil)
		bounds := lay.Boundaries()
		from, to := c.Int("from"), c.Int("to")
		if to > int64(len(data)) {
			to = int64(len(data))
		}
		classes := map[string]bool{}
		for cut := from; cut <= to; cut++ {
			if cut > int64(len(data)) {
				break
			}
			nIntact := 0
			for i := range lay.End {
				if lay.End[i] <= cut {
					nIntact = i + 1
				}
			}
			want := c06PrefixExpect(f, nIntact)
			cls := c06CutClass(f, lay, cut)
			classes[cls] = true
			for _, procs := range []int{1, 3} {
				// every cut is read once from a reader that reports io.EOF with a separate
				// empty Read and once from one that returns it together with the last bytes
				rd := mon.NewReader(data[:cut])
				rd.EagerEOF = (cut+int64(procs/2))%2 == 1
				sr := pbfScan(rd, procs, false, nil, nil)
				res.Event(int64(len(sr.Objs)) + 1)
				key := "C06/cut/" + cls
				if rd.EagerEOF {
					key = "C06/cut-eager-eof/" + cls
				}
				scanAgain(res, sr, key)
				if d := pbfw.CompareSeq(want, sr.Objs); d != "" {
					res.Violatef(key+"/objects", "cut at byte %d of %d (%s, %d decoders): %s", cut, len(data), cls, procs, d)
				}
				if bounds[cut] && sr.Err != nil {
					res.Violatef(key+"/error-on-boundary", "cut at byte %d is a block boundary but the scan reports %v", cut, sr.Err)
				}
				if !bounds[cut] && sr.Err == nil {
					res.Violate(key+"/silent-success", fmt.Sprintf("cut at byte %d of %d (%s, %d decoders) is inside a block but Err() is nil after %d objects", cut, len(data), cls, procs, len(sr.Objs)),
						map[string]any{"cut": cut, "len": len(data), "block_starts": lay.Start, "block_ends": lay.End, "prefix_ends": lay.PrefixEnd, "blobheader_ends": lay.BlobHeaderEnd})
				}
				res.Eval("")
			}
		}
		for cls := range classes {
			res.Eval("cut/" + cls)
		}
		res.Add("cut_points", to-from+1)
		res.Sample = map[string]any{"file_bytes": len(data), "blocks": len(f.Blocks), "cut_range": []int64{from, to}, "block_ends": lay.End}
	case "damage":
		cl := c06Classes[c.Int("class")]
		pos := int(c.Int("pos")) // -1 header, else data block index
		nb := 4
		f := c06FullFile(c.Seed, nb, c.Int("zlib") == 1)
		if cl.name == "missing-stringtable" {
			// a decoder that forgets to reset its string table would resolve the dangling
			// references against the previous block's table: make every other table larger
			// than anything the damaged block refers to, so that such a lookup stays in range
			for bi, b := range f.Blocks {
				if bi != pos {
					for k := 0; k < 300; k++ {
						b.ExtraStrings = append(b.ExtraStrings, fmt.Sprintf("pad%d-%d", bi, k))
					}
				}
			}
		}
		// the damage meets other circumstances too: a third of the data-block damages sit in a
		// header-less (resumed) stream, and the input comes through readers of different habits
		if pos >= 0 && c.Int("noheader") == 1 {
			f.Header = nil
		}
		if pos < 0 && c.Int("emptyhdr") == 1 {
			// a header block without any field (all are optional): its payload is 0 bytes long
			f.Header = &pbfw.Header{Zlib: f.Header.Zlib}
		}
		if pos < 0 && cl.name == "zlib-truncated" && len(f.Header.EncodeHeaderBlock()) == 0 {
			// cutting the compressed form of an empty payload loses no data: what comes out is
			// the whole (empty) payload, as with a cut inside the checksum trailer. Asserted
			// like that class: survival, no invention; an error is not demanded.
			cl.strict = false
		}
		dmg := map[int]pbfw.Damage{pos: {Kind: cl.name, Arg: c.Int("arg")}}
		data, _ := f.Encode(dmg)
		// skip flags do not excuse a reader from noticing damage: with some or all kinds
		// skipped the delivered prefix shrinks accordingly, the error stays
		// (only for damage at the file / blob level: damage inside the payload of a kind
		// that is skipped is legitimately never looked at)
		skipMask := []int{0, 0, 0, 7, 1, 6, 7, 0}[(c.Seed>>17)%8]
		if !cl.fileLevel {
			skipMask = 0
		}
		var skipCfg func(*osmpbf.Scanner)
		if skipMask != 0 {
			skipCfg = func(s *osmpbf.Scanner) {
				s.SkipNodes, s.SkipWays, s.SkipRelations = skipMask&1 != 0, skipMask&2 != 0, skipMask&4 != 0
			}
		}
		drd := mon.NewReader(data)
		drd.Chunk = []int{0, 0, 7, 4096, 64}[(c.Seed>>11)%5]
		drd.EagerEOF = (c.Seed>>14)%2 == 1
		procs := int(c.Int("procs"))
		nIntact := pos
		if pos < 0 {
			nIntact = 0
		}
		want := c06SkipFilter(c06PrefixExpect(f, nIntact), skipMask)
		posName := []string{"header", "first", "middle", "last"}[map[int]int{-1: 0, 0: 1, 1: 2, 2: 2, 3: 3}[pos]]
		key := fmt.Sprintf("C06/damage/%s/%s", cl.name, posName)
		// The scan runs on its own goroutine so that a scanner that spins can be told from one
		// that works, by a logical measure: cgo calls made by the process (the native zlib
		// binding makes one per inflate step). Decoding these few small blocks takes some
		// hundreds; two million without the scan ending is a loop that makes no progress.
		// Such a goroutine cannot be stopped, so the child process ends after this case.
		scanDone := make(chan scanResult, 1)
		cgo0 := runtime.NumCgoCall()
		go func() { scanDone <- pbfScan(drd, procs, pos < 0 && c.Int("askheader") == 1, skipCfg, nil) }()
		var sr scanResult
		for waiting := true; waiting; {
			select {
			case sr = <-scanDone:
				waiting = false
			default:
				if n := runtime.NumCgoCall() - cgo0; n > 2_000_000 {
					res.Violate(key+"/livelock", fmt.Sprintf("damage %s (arg %d) in %s block, %d decoders: the scan has made %d cgo calls without ending (decoding the whole file takes a few hundred): it spins inside the decompressor and never returns", cl.name, c.Int("arg"), posName, procs, n), map[string]any{"goroutines": mon.Goroutines("osmpbf")})
					res.Poisoned = true
					res.Eval(fmt.Sprintf("damage/%s/%s", cl.name, posName))
					return res
				}
				time.Sleep(200 * time.Microsecond)
			}
		}
		res.Event(int64(len(sr.Objs)) + 1)
		scanAgain(res, sr, key)
		// the intact prefix must be delivered exactly; nothing of later blocks, nothing invented
		n := len(want)
		if len(sr.Objs) < n {
			res.Violatef(key+"/prefix-lost", "damage %s in %s block, %d decoders: only %d of the %d objects of the intact blocks were delivered (err=%v)", cl.name, posName, procs, len(sr.Objs), n, sr.Err)
		} else if d := pbfw.CompareSeq(want, sr.Objs[:n]); d != "" {
			res.Violatef(key+"/prefix-wrong", "damage %s in %s block: %s", cl.name, posName, d)
		}
		if len(sr.Objs) > n {
			if cl.strict {
				res.Violatef(key+"/invented", "damage %s in %s block: %d objects delivered beyond the intact prefix (first: %s)", cl.name, posName, len(sr.Objs)-n, objID(sr.Objs[n]))
			} else {
				// grey class: objects of the damaged block may be delivered only if they are the true ones
				all := c06SkipFilter(f.ExpectAll(), skipMask)
				if len(sr.Objs) > len(all) {
					res.Violatef(key+"/invented", "more objects than the file holds")
				} else if d := pbfw.CompareSeq(all[:len(sr.Objs)], sr.Objs); d != "" {
					res.Violatef(key+"/invented", "damage %s: object beyond the intact prefix is not one the file encodes: %s", cl.name, d)
				}
			}
		}
		if sr.Err == nil && sr.HdrErr == nil {
			if cl.strict {
				res.Violatef(key+"/silent-success", "damage %s (arg %d) in %s block, %d decoders: scan ended with Err()==nil after %d objects", cl.name, c.Int("arg"), posName, procs, len(sr.Objs))
			} else {
				res.Add("grey_class_success_not_asserted", 1)
			}
		}
		res.Eval(fmt.Sprintf("damage/%s/%s", cl.name, posName))
		res.Sample = map[string]any{"class": cl.name, "arg": c.Int("arg"), "position": posName, "procs": procs, "delivered": len(sr.Objs), "intact_prefix_objects": n, "err": fmt.Sprint(sr.Err)}
	case "garbage-headerblock":
		f := c06FullFile(c.Seed, 2, c.Int("zlib") == 1)
		data, _ := f.Encode(map[int]pbfw.Damage{-1: {Kind: "garbage-headerblock"}})
		sr := pbfScan(mon.NewReader(data), int(c.Int("procs")), c.Int("askheader") == 1, nil, nil)
		key := "C06/damage/garbage-headerblock/header"
		if len(sr.Objs) > 0 {
			res.Violatef(key+"/invented", "objects delivered although the header block's payload is garbage")
		}
		if sr.Err == nil {
			res.Violatef(key+"/silent-success", "the header block's payload is not a HeaderBlock but the scan ended without error")
		}
		res.Event(1)
		res.Eval("damage/garbage-headerblock/header")
	case "fuzz":
		// damage INSIDE the protobuf payload of one block (framing and blob intact): byte
		// flips, truncations, over-long length prefixes, endless varints. Many such mutations
		// are not detectable (they just encode other data), so asserted are only: no crash, no
		// hang, the blocks before it exactly, and — if the scan succeeds — the blocks after it
		// exactly.
		nb := 4
		pos := int(c.Int("pos"))
		for it := 0; it < int(c.Int("iters")); it++ {
			f := c06FullFile(gen.Sub(c.Seed, "c06fz", it), nb, c.Int("zlib") == 1)
			mr := gen.New(gen.Sub(c.Seed, "c06fzm", it), "mut")
			op := mr.Intn(6)
			f.PayloadMut = map[int]func([]byte) []byte{pos: func(p []byte) []byte {
				q := append([]byte(nil), p...)
				if len(q) < 8 {
					return q
				}
				i := mr.Intn(len(q))
				switch op {
				case 0:
					q[i] ^= byte(1 << uint(mr.Intn(8)))
				case 1:
					q = q[:i]
				case 2:
					q[i] = 0xFF
				case 3: // endless varint
					for k := i; k < len(q) && k < i+11; k++ {
						q[k] = 0xFF
					}
				case 4: // insert bytes
					q = append(q[:i], append([]byte{0x82, 0x80, 0x80, 0x80, 0x10}, q[i:]...)...)
				case 5:
					q[i] = byte(mr.Intn(256))
				}
				return q
			}}
			data, _ := f.Encode(nil)
			sr := pbfScan(mon.NewReader(data), int(c.Int("procs")), false, nil, nil)
			res.Event(int64(len(sr.Objs)) + 1)
			key := fmt.Sprintf("C06/fuzz/op%d", op)
			pre := c06PrefixExpect(f, pos)
			if len(sr.Objs) < len(pre) {
				res.Violatef(key+"/prefix-lost", "payload mutation op %d in block %d: only %d of the %d objects of the blocks before it were delivered (err=%v)", op, pos, len(sr.Objs), len(pre), sr.Err)
			} else if d := pbfw.CompareSeq(pre, sr.Objs[:len(pre)]); d != "" {
				res.Violatef(key+"/prefix-wrong", "payload mutation op %d in block %d: %s", op, pos, d)
			}
			if sr.Err == nil {
				var suf []pbfw.Expect
				for bi := pos + 1; bi < nb; bi++ {
					suf = append(suf, f.ExpectBlock(bi)...)
				}
				if len(sr.Objs) < len(pre)+len(suf) {
					res.Violatef(key+"/suffix-lost", "payload mutation op %d in block %d: scan succeeded but the intact blocks after it are incomplete (%d objects delivered)", op, pos, len(sr.Objs))
				} else if d := pbfw.CompareSeq(suf, sr.Objs[len(sr.Objs)-len(suf):]); d != "" {
					res.Violatef(key+"/suffix-wrong", "payload mutation op %d in block %d: scan succeeded but the blocks after it differ: %s", op, pos, d)
				}
				res.Add("fuzz_mutations_undetectable", 1)
			} else {
				res.Add("fuzz_mutations_rejected", 1)
			}
			res.Eval(fmt.Sprintf("fuzz/op%d/pos%d/err%v", op, pos, sr.Err != nil))
		}
	case "required-feature":
		f := c06FullFile(c.Seed, 2, false)
		data, _ := f.Encode(map[int]pbfw.Damage{-1: {Kind: "required-feature"}})
		sr := pbfScan(mon.NewReader(data), int(c.Int("procs")), c.Int("askheader") == 1, nil, nil)
		key := "C06/damage/required-feature/header"
		if len(sr.Objs) > 0 {
			res.Violatef(key+"/invented", "objects delivered although the header requires an unsupported feature")
		}
		if sr.Err == nil {
			res.Violatef(key+"/silent-success", "header requires feature FutureFeature-V9 but the scan ended without error")
		}
		if c.Int("askheader") == 1 && sr.HdrErr == nil {
			res.Violatef(key+"/header-no-error", "Header() returned no error for an unsupported required feature")
		}
		res.Event(1)
		res.Eval("damage/required-feature/header")
	case "exotic":
		// Grey class, nothing asserted beyond "the process survives and the scan ends":
		// repeated scalar fields written unpacked (one tag per value) or packed in two chunks.
		// Both are the same message to a conforming protobuf parser, but no OSM writer emits
		// them and the reference readers do not accept them either, so what the scan yields is
		// recorded (DESIGN §12), not judged.
		r := gen.New(c.Seed, "c06exotic")
		for i := 0; i < 20; i++ {
			f := pbfw.GenFile(r, pbfw.GenOpts{MinBlocks: 1, MaxBlocks: 3, MaxGroups: 2, MaxElems: 10})
			want := f.ExpectAll()
			pbfw.PackMode = int(c.Int("mode"))
			data, _ := f.Encode(nil)
			pbfw.PackMode = 0
			sr := pbfScan(mon.NewReader(data), int(c.Int("procs")), false, nil, nil)
			switch {
			case sr.Err != nil:
				res.Add(fmt.Sprintf("exotic_mode%d_error", c.Int("mode")), 1)
			case pbfw.CompareSeq(want, sr.Objs) == "":
				res.Add(fmt.Sprintf("exotic_mode%d_correct", c.Int("mode")), 1)
			default:
				res.Add(fmt.Sprintf("exotic_mode%d_silently_different", c.Int("mode")), 1)
			}
			res.Event(int64(len(sr.Objs)) + 1)
		}
		res.Eval(fmt.Sprintf("exotic/mode%d/procs%d", c.Int("mode"), c.Int("procs")))
	case "ioerr":
		f := c06SmallFile(c.Seed, 4)
		data, lay := f.Encode(nil)
		// find how many Read calls a clean scan makes
		probe := mon.NewReader(data)
		probe.Chunk = int(c.Int("chunk"))
		pbfScan(probe, 1, false, nil, nil)
		// a clean scan ends with the call that returns io.EOF; injecting later is meaningless
		total := probe.EOFCall()
		for n := int64(1); n <= total; n++ {
			rd := mon.NewReader(data)
			rd.Chunk = int(c.Int("chunk"))
			// the reader's error comes in several flavours; only the bare io.EOF value means
			// "end of stream", an error that wraps it (a lost connection) is a failure
			flavour := int(n+c.Int("procs")/2) % len(c06IOErrs)
			injected := c06IOErrs[flavour]
			rd.FailAt, rd.FailErr = n, injected
			sr := pbfScan(rd, int(c.Int("procs")), false, nil, nil)
			served := rd.Bytes()
			nIntact := 0
			for i := range lay.End {
				if lay.End[i] <= served {
					nIntact = i + 1
				}
			}
			want := c06PrefixExpect(f, nIntact)
			key := "C06/ioerr"
			if d := pbfw.CompareSeq(want, sr.Objs); d != "" {
				res.Violatef(key+"/objects", "I/O error at Read call %d (after %d bytes): %s", n, served, d)
			}
			if sr.Err == nil {
				// the last call of a clean scan returns io.EOF at a block boundary: an
				// error there replaces EOF and must be reported as well (for an error that
				// wraps io.EOF exactly on a block boundary either answer is defensible)
				if !(errors.Is(injected, io.EOF) && lay.Boundaries()[served]) {
					res.Violatef(key+"/error-lost/"+c06IOErrNames[flavour], "I/O error %q injected at Read call %d of %d (after %d bytes, %s) but Err() = %v", injected, n, total, served, c06CutClass(f, lay, served), sr.Err)
				}
			} else if !errors.Is(sr.Err, injected) {
				res.Add("io_error_reported_but_not_identifiable_with_errors_is", 1)
			}
			res.Event(int64(len(sr.Objs)) + 1)
			res.Eval("")
		}
		res.Eval(fmt.Sprintf("ioerr/chunk%d/procs%d", c.Int("chunk"), c.Int("procs")))
		res.Add("io_fault_points", total)
		res.Sample = map[string]any{"read_calls": total, "chunk": c.Int("chunk"), "file_bytes": len(data)}
	}
	return res
}

var c06IOErrNames = []string{"plain", "wraps-eof", "unexpected-eof", "wraps-canceled", "closed-pipe"}
var c06IOErrs = []error{
	errInjected,
	fmt.Errorf("verif: connection lost: %w", io.EOF),
	io.ErrUnexpectedEOF,
	fmt.Errorf("verif: transport: %w", context.Canceled),
	io.ErrClosedPipe,
}

func c06Cases(tier string, seed uint64) []fw.Case {
	var cs []fw.Case
	// (a) all cut points of small files
	nfiles := 3
	if tier == "thorough" {
		nfiles = 24
	}
	for fi := 0; fi < nfiles; fi++ {
		fseed := gen.Sub(seed, "c06cutfile", fi)
		blocks := 3 + fi%4
		noheader := int64(b2i(fi%5 == 4))
		f := c06SmallFile(fseed, blocks)
		if noheader == 1 {
			f.Header = nil
		}
		data, _ := f.Encode(nil)
		variant := "plain"
		if fi%3 == 2 {
			variant = "nocgo"
		}
		const step = 60
		for from := int64(0); from <= int64(len(data)); from += step {
			cs = append(cs, fw.Case{Kind: "cuts", Variant: variant, Seed: fseed,
				P: map[string]int64{"blocks": int64(blocks), "noheader": noheader, "from": from, "to": from + step - 1}})
		}
	}
	// (b) damage classes x positions
	positions := []int64{-1, 0, 1, 3}
	for ci, cl := range c06Classes {
		args := cl.args
		if len(args) == 0 {
			args = []int64{0}
		}
		for ai, arg := range args {
			for _, pos := range positions {
				if pos == -1 && !cl.fileLevel {
					continue
				}
				variants := []string{"plain"}
				if cl.zlib {
					variants = []string{"plain", "nocgo"}
					if tier == "thorough" {
						variants = append(variants, "asan")
					}
				}
				for _, v := range variants {
					procsList := []int64{1, 3}
					if tier == "thorough" {
						procsList = []int64{1, 2, 3, 8}
					}
					for pi, procs := range procsList {
						zl := int64(b2i(cl.zlib || (ci+int(pos))%2 == 0))
						noheader := int64(b2i(pos >= 0 && (ci+pi+ai)%2 == 1))
						reps := 1
						if tier == "thorough" {
							reps = 3
						}
						for rep := 0; rep < reps; rep++ {
							cs = append(cs, fw.Case{Kind: "damage", Variant: v, Seed: gen.Sub(seed, "c06dmg", ci*10+rep),
								P: map[string]int64{"class": int64(ci), "arg": arg, "pos": pos, "procs": procs, "zlib": zl, "askheader": int64(rep % 2), "noheader": noheader}})
						}
						if pos < 0 && pi == 0 {
							// the same damage on a header block that has no field at all
							cs = append(cs, fw.Case{Kind: "damage", Variant: v, Seed: gen.Sub(seed, "c06dmgE", ci*10+ai),
								P: map[string]int64{"class": int64(ci), "arg": arg, "pos": pos, "procs": procs, "zlib": zl, "askheader": int64(ai % 2), "noheader": 0, "emptyhdr": 1}})
						}
					}
				}
			}
		}
	}
	for i := 0; i < 4; i++ {
		cs = append(cs, fw.Case{Kind: "garbage-headerblock", Seed: gen.Sub(seed, "c06ghb", i), P: map[string]int64{"procs": int64(1 + 2*(i%2)), "askheader": int64(i / 2), "zlib": int64(i % 2)}})
	}
	nfz := 48
	if tier == "thorough" {
		nfz = 1200
	}
	for i := 0; i < nfz; i++ {
		v := "plain"
		if tier == "thorough" && i%6 == 5 {
			v = "asan"
		} else if i%4 == 3 {
			v = "nocgo"
		}
		cs = append(cs, fw.Case{Kind: "fuzz", Variant: v, Seed: gen.Sub(seed, "c06fuzz", i), P: map[string]int64{"pos": int64(i % 4), "procs": []int64{1, 3}[i/4%2], "zlib": int64(i / 8 % 2), "iters": 12}})
	}
	for i := 0; i < 4; i++ {
		cs = append(cs, fw.Case{Kind: "required-feature", Seed: gen.Sub(seed, "c06req", i), P: map[string]int64{"procs": int64(1 + 2*(i%2)), "askheader": int64(i / 2)}})
	}
	// (b') protobuf-level encodings no OSM writer produces (grey: survival only)
	for i := 0; i < 4; i++ {
		cs = append(cs, fw.Case{Kind: "exotic", Seed: gen.Sub(seed, "c06exotic", i), P: map[string]int64{"mode": int64(1 + i%2), "procs": int64(1 + 2*(i/2))}})
	}
	// (c) I/O fault sequences
	nio := 4
	if tier == "thorough" {
		nio = 40
	}
	for i := 0; i < nio; i++ {
		cs = append(cs, fw.Case{Kind: "ioerr", Seed: gen.Sub(seed, "c06io", i), P: map[string]int64{"chunk": []int64{0, 64, 17, 0}[i%4], "procs": []int64{1, 3}[(i/2)%2]}})
	}
	return fw.Number(cs)
}

func init() {
	fw.Register(&fw.Prop{
		ID:    "C06",
		Level: "fault_enumeration",
		Rule: "(a) every byte offset 0..len of small generated files (3-6 blocks) as a cut point, with 1 and 3 decoders, each cut read once from a reader that reports io.EOF by an empty Read and once from one that returns it together with the last bytes; (b) 46 damage classes (size fields, raw_size off by one and far off: 0, negative, around the int32 wrap of size+10%, int32 max, deflate stream, adler, blob encoding, block type, required feature, missing/short/long columns, out-of-range string indexes in 9 places, plain node group, garbage at three levels) x block position {header, first, middle, last} x decoders, half of the data-block damages in header-less streams (so that every class meets a damaged FIRST block of a resumed stream), file- and blob-level damage in three eighths of the cases with skip flags set (one kind, two kinds, all three: the error must still be reported), Scan called again after it returned false, the input served whole, in 7 / 64 / 4096-byte reads, with or without the last bytes arriving together with io.EOF; (c) a non-EOF I/O error (five flavours: plain, wrapping io.EOF, io.ErrUnexpectedEOF, wrapping context.Canceled, io.ErrClosedPipe) injected at every Read call index; (d) random damage inside the protobuf payload of one block with intact framing (bit flips, truncation, over-long prefixes, endless varints): no crash, no hang, neighbours exact. Each case runs in a child process so that a crash or hang is an observation of that case. " +
			"Signature = cut-position class (in/after size prefix, in/after BlobHeader, in Blob, boundary; header or data block), or (damage class, position), or (chunk size, decoders) for I/O faults.",
		Assumptions: []string{
			"a cut at offset 0, after the header block or after any data block is a block boundary (success); anything else must end in a non-nil error",
			"columns that are merely longer than the rows they belong to (way lat/lon longer than refs, more roles than members) are a grey zone: asserted are no crash, no hang, intact prefix, nothing invented — not the error",
			"an unknown block type in first position is not asserted (the stream could be a resumed one and the format tells readers to skip unknown types)",
		},
		Cases:            c06Cases,
		Exec:             c06Exec,
		CrashIsViolation: true,
		HangIsViolation:  true,
		HangSeconds:      90,
		CaseClass: func(c fw.Case) string {
			if c.Kind == "fuzz" {
				return "fuzz-payload-mutation"
			}
			if c.Kind == "damage" {
				pos := map[int64]string{-1: "header", 0: "first", 1: "middle", 2: "middle", 3: "last"}[c.Int("pos")]
				return "damage/" + c06Classes[c.Int("class")].name + "/" + pos
			}
			return c.Kind
		},
		Exhaustive: func(string) bool { return true },
	})
	_ = osm.TypeNode
}
