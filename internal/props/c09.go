package props

import (
	"context"
	"fmt"
	"time"

	"github.com/paulmach/osm"
	"github.com/paulmach/osm/osmpbf"

	"verif/internal/fw"
	"verif/internal/gen"
	"verif/internal/mon"
	"verif/internal/pbfw"
)

// C09 — resuming a PBF scan at the reported byte offset loses no element.
//
// Monitor: after every Scan the two reported offsets are compared with the writer's block
// layout (every stop position k of a file is observed); for every distinct reported offset
// (and the previous offset) a second scanner is started on data[offset:] and its sequence
// is compared with the suffix of the model sequence; a sample of stop positions is also
// exercised as a real history Scan×k → Close → read offsets → resume.

// c09Filter: skip flags plus, optionally, filter callbacks that reject by id (pred > 0:
// elements whose id modulo pred is 0 are rejected; pred == 1 rejects every element of the
// kinds that are not skipped, which empties whole blocks through the callback path).
type c09Filter struct {
	skipN, skipW, skipR bool
	pred                int64
}

func (f c09Filter) reject(id int64) bool { return f.pred > 0 && id%f.pred == 0 }

func (f c09Filter) keep(o osm.Object) bool {
	switch v := o.(type) {
	case *osm.Node:
		return !f.skipN && !f.reject(int64(v.ID))
	case *osm.Way:
		return !f.skipW && !f.reject(int64(v.ID))
	case *osm.Relation:
		return !f.skipR && !f.reject(int64(v.ID))
	}
	return true
}

func (f c09Filter) apply(s *osmpbf.Scanner) {
	s.SkipNodes, s.SkipWays, s.SkipRelations = f.skipN, f.skipW, f.skipR
	if f.pred > 0 {
		s.FilterNode = func(n *osm.Node) bool { return !f.reject(int64(n.ID)) }
		s.FilterWay = func(w *osm.Way) bool { return !f.reject(int64(w.ID)) }
		s.FilterRelation = func(r *osm.Relation) bool { return !f.reject(int64(r.ID)) }
	}
}

// c09Huge: offsets beyond 32 bits. The stream is virtual: a header, K identical ~16 MiB filler
// blocks (a valid block padded with an unknown field, one node each) and a small tail.
func c09Huge(c fw.Case) *fw.Result {
	res := fw.NewResult()
	r := gen.New(c.Seed, "c09huge")
	f := pbfw.GenFile(r, pbfw.GenOpts{MinBlocks: 4, MaxBlocks: 4, MaxGroups: 1, MaxElems: 3, SmallStrings: true, OnlyKinds: []int{pbfw.KDense}})
	for _, b := range f.Blocks {
		b.Zlib = false
	}
	f.Blocks[0].PadBytes = 16 << 20
	data, lay := f.Encode(nil)
	head := data[:lay.Start[0]]
	filler := data[lay.Start[0]:lay.End[0]]
	tail := data[lay.End[0]:]
	K := int(c.Int("fillers"))
	v := &mon.Virtual{Parts: []mon.VPart{{Data: head, Repeat: 1}, {Data: filler, Repeat: K}, {Data: tail, Repeat: 1}}}
	// expected: K times the objects of block 0, then blocks 1..3; block starts computed
	var want []pbfw.Expect
	var starts []int64
	b0 := f.ExpectBlock(0)
	for k := 0; k < K; k++ {
		for _, e := range b0 {
			e.Block = k
			want = append(want, e)
		}
		starts = append(starts, int64(len(head))+int64(k)*int64(len(filler)))
	}
	base := int64(len(head)) + int64(K)*int64(len(filler))
	for bi := 1; bi < len(f.Blocks); bi++ {
		for _, e := range f.ExpectBlock(bi) {
			e.Block = K + bi - 1
			want = append(want, e)
		}
		starts = append(starts, base+(lay.Start[bi]-lay.End[0]))
	}
	key := "C09/huge"
	procs := int(c.Int("procs"))
	s := osmpbf.New(context.Background(), v.At(0), procs)
	k := 0
	for s.Scan() {
		if k >= len(want) {
			res.Violatef(key+"/extra", "more objects than the stream holds")
			break
		}
		bi := want[k].Block
		full, prev := s.FullyScannedBytes(), s.PreviousFullyScannedBytes()
		wantPrev := int64(0)
		if bi > 0 {
			wantPrev = starts[bi-1]
		}
		if full != starts[bi] || prev != wantPrev {
			res.Violatef(key+"/offsets", "object #%d in the block starting at byte %d (%.2f GiB): FullyScannedBytes=%d PreviousFullyScannedBytes=%d, want %d / %d", k, starts[bi], float64(starts[bi])/(1<<30), full, prev, starts[bi], wantPrev)
			break
		}
		if d := pbfw.Compare(want[k], s.Object()); d != "" {
			res.Violatef(key+"/object", "object #%d: %s", k, d)
			break
		}
		k++
	}
	if err := s.Err(); err != nil {
		res.Violatef(key+"/err", "scan of a valid %.2f GiB stream failed: %v", float64(v.Size())/(1<<30), err)
	}
	s.Close()
	if k != len(want) && !res.Failed() {
		res.Violatef(key+"/count", "delivered %d of %d objects", k, len(want))
	}
	// resume at offsets beyond 4 GiB
	for _, bi := range []int{K - 1, K, len(starts) - 1} {
		if res.Failed() {
			break
		}
		rs := osmpbf.New(context.Background(), v.At(starts[bi]), procs)
		var got []osm.Object
		for rs.Scan() {
			got = append(got, rs.Object())
		}
		if err := rs.Err(); err != nil {
			res.Violatef(key+"/resume-err", "resume at byte %d failed: %v", starts[bi], err)
		}
		rs.Close()
		first := 0
		for first < len(want) && want[first].Block < bi {
			first++
		}
		if d := pbfw.CompareSeq(want[first:], got); d != "" {
			res.Violatef(key+"/resume-seq", "resume at byte %d: %s", starts[bi], d)
		}
		res.Add("resume_scans", 1)
	}
	res.Event(int64(k))
	res.SetMax("largest_offset_observed", starts[len(starts)-1])
	res.Eval(fmt.Sprintf("huge/procs%d", procs))
	res.Sample = map[string]any{"stream_bytes": v.Size(), "filler_blocks": K, "filler_block_bytes": len(filler), "procs": procs, "last_block_start": starts[len(starts)-1]}
	return res
}

// c09SameHandle: the idiom Close -> Seek(FullyScannedBytes) -> new scanner on the SAME handle
// (one shared file position), with a slow medium.
func c09SameHandle(c fw.Case) *fw.Result {
	res := fw.NewResult()
	r := gen.New(c.Seed, "c09same")
	nb := r.Range(8, 14)
	f := pbfw.GenFile(r, pbfw.GenOpts{MinBlocks: nb, MaxBlocks: nb, MaxGroups: 1, MaxElems: 4, SmallStrings: true, OnlyKinds: []int{pbfw.KDense}})
	data, lay := f.Encode(nil)
	want := f.ExpectAll()
	procs := int(c.Int("procs"))
	key := "C09/same-handle"
	for _, k := range []int{1, 2, len(want) / 3, len(want) / 2} {
		if k < 1 || k >= len(want) {
			continue
		}
		h := &mon.SeekReader{Data: data, Delay: time.Duration(c.Int("delay_us")) * time.Microsecond}
		s := osmpbf.New(context.Background(), h, procs)
		n := 0
		for n < k && s.Scan() {
			n++
		}
		s.Close()
		off := s.FullyScannedBytes()
		bi := want[k-1].Block
		if off != lay.Start[bi] {
			res.Violatef(key+"/offset", "after %d objects FullyScannedBytes=%d, want %d", k, off, lay.Start[bi])
			continue
		}
		h.Seek(off, 0)
		rs := osmpbf.New(context.Background(), h, procs)
		var got []osm.Object
		for rs.Scan() {
			got = append(got, rs.Object())
		}
		err := rs.Err()
		rs.Close()
		first := 0
		for first < len(want) && want[first].Block < bi {
			first++
		}
		if err != nil {
			res.Violatef(key+"/resume-err", "Scan×%d, Close, Seek(%d), new scanner on the same handle: %v", k, off, err)
		} else if d := pbfw.CompareSeq(want[first:], got); d != "" {
			res.Violatef(key+"/resume-seq", "Scan×%d, Close, Seek(%d), new scanner on the same handle: %s", k, off, d)
		}
		res.Event(int64(len(got)))
		res.Add("same_handle_resumes", 1)
	}
	res.Eval(fmt.Sprintf("samehandle/procs%d/delay%d", procs, c.Int("delay_us")))
	res.Sample = map[string]any{"blocks": nb, "objects": len(want), "procs": procs, "delay_us": c.Int("delay_us")}
	return res
}

func c09Exec(c fw.Case) *fw.Result {
	switch c.Kind {
	case "huge":
		return c09Huge(c)
	case "samehandle":
		return c09SameHandle(c)
	}
	res := fw.NewResult()
	r := gen.New(c.Seed, "c09")
	nb := r.Range(4, 15)
	o := pbfw.GenOpts{MinBlocks: nb, MaxBlocks: nb, MaxGroups: 2, MaxElems: 200 / nb / 2}
	if c.Int("singlekind") == 1 {
		// blocks of a single kind each: skip flags then produce fully empty blocks
		o.MaxGroups = 1
	}
	f := pbfw.GenFile(r, o)
	if c.Int("singlekind") == 1 {
		// make sure empty blocks really occur in the middle
		for i, b := range f.Blocks {
			if i%3 == 1 && len(b.Groups) > 0 && b.Groups[0].Kind == pbfw.KDense {
				continue
			}
		}
	}
	if c.Int("bigblock") == 1 {
		// a block beyond the customary 8000 elements (the format only recommends that size):
		// whatever a reader does with such a block internally, it is one block with one offset
		var ctr int64 = 1 << 30
		bi := 1 + r.Intn(len(f.Blocks)-2)
		n := []int{8000, 8001, 8005, 9000, 16001}[r.Intn(5)]
		b := f.Blocks[bi]
		b.Groups = []*pbfw.Group{pbfw.GenGroupIDs(r, b, pbfw.KDense, n, &ctr, pbfw.GenOpts{Plain: true, SmallStrings: true})}
	}
	if c.Int("noheader") == 1 {
		f.Header = nil
	}
	data, lay := f.Encode(nil)
	procs := int(c.Int("procs"))
	m := int(c.Int("skipmask"))
	flt := c09Filter{skipN: m&1 != 0, skipW: m&2 != 0, skipR: m&4 != 0, pred: c.Int("pred")}
	key := fmt.Sprintf("C09/procs%d/skip%d", procs, m)
	if flt.pred > 0 {
		key += fmt.Sprintf("/pred%d", flt.pred)
	}

	// model: filtered sequence with the block of each object
	var want []pbfw.Expect
	emptyBlocks := 0
	for bi := range f.Blocks {
		n := 0
		for _, e := range f.ExpectBlock(bi) {
			if flt.keep(e.Obj) {
				want = append(want, e)
				n++
			}
		}
		if n == 0 {
			emptyBlocks++
		}
	}
	prevOf := func(bi int) int64 {
		if bi == 0 {
			return 0
		}
		return lay.Start[bi-1]
	}

	// pass 1: one scan observing the offsets at every stop position k
	s := osmpbf.New(context.Background(), mon.NewReader(data), procs)
	flt.apply(s)
	if s.FullyScannedBytes() != 0 || s.PreviousFullyScannedBytes() != 0 {
		res.Violatef(key+"/initial", "offsets before the first Scan are %d/%d, want 0/0", s.FullyScannedBytes(), s.PreviousFullyScannedBytes())
	}
	k := 0
	offsets := map[int64]int{} // reported offset -> block
	for s.Scan() {
		if k >= len(want) {
			res.Violatef(key+"/extra", "scan delivered more than the %d expected objects", len(want))
			break
		}
		bi := want[k].Block
		full, prev := s.FullyScannedBytes(), s.PreviousFullyScannedBytes()
		if full != lay.Start[bi] {
			res.Violatef(key+"/full", "after object #%d (block %d) FullyScannedBytes=%d, block starts at %d (empty blocks in file: %d)", k, bi, full, lay.Start[bi], emptyBlocks)
		}
		if prev != prevOf(bi) {
			res.Violatef(key+"/previous", "after object #%d (block %d) PreviousFullyScannedBytes=%d, want %d (offset current during block %d; empty blocks in file: %d)", k, bi, prev, prevOf(bi), bi-1, emptyBlocks)
		}
		offsets[full] = bi
		res.Event(2)
		k++
		if res.Failed() {
			break
		}
	}
	if err := s.Err(); err != nil && !res.Failed() {
		res.Violatef(key+"/err", "scan of a valid file failed: %v", err)
	}
	termFull := s.FullyScannedBytes()
	termPrev := s.PreviousFullyScannedBytes()
	s.Close()
	if k == len(want) && len(want) > 0 && !res.Failed() {
		// after the terminal Scan()==false the offset may have advanced over trailing empty
		// blocks, but it can never point before the block of the last returned object
		last := want[len(want)-1].Block
		if termFull < lay.Start[last] || termFull > int64(len(data)) {
			res.Violatef(key+"/terminal-full", "after the terminal Scan()==false FullyScannedBytes=%d lies before the block of the last returned object (starts at %d) or beyond the input (%d bytes)", termFull, lay.Start[last], len(data))
		}
		if termPrev < prevOf(last) || termPrev > termFull {
			res.Violatef(key+"/terminal-previous", "after the terminal Scan()==false PreviousFullyScannedBytes=%d, expected between %d and the current offset %d", termPrev, prevOf(last), termFull)
		}
	}
	if k != len(want) && !res.Failed() {
		res.Violatef(key+"/count", "scan delivered %d objects, want %d", k, len(want))
	}
	if res.Failed() {
		return res
	}
	res.Add("stop_positions_observed", int64(k+1))

	// pass 2: resume at every distinct reported offset and at every previous offset
	firstIdx := make([]int, len(f.Blocks)+1) // index in want of the first object of block >= bi
	{
		j := 0
		for bi := 0; bi <= len(f.Blocks); bi++ {
			for j < len(want) && want[j].Block < bi {
				j++
			}
			firstIdx[bi] = j
		}
	}
	resume := func(off int64, bi int, what string) {
		if off == 0 && f.Header != nil {
			return // offset 0 is the initial value: a resume there is simply a full scan with header
		}
		rd := mon.NewReader(data[off:])
		rs := osmpbf.New(context.Background(), rd, procs)
		flt.apply(rs)
		hdr, herr := rs.Header()
		if herr != nil {
			res.Violatef(key+"/resume-header-err", "resume at %s offset %d: Header() error %v", what, off, herr)
		} else if hdr != nil {
			res.Violatef(key+"/resume-header", "resume at %s offset %d: first block is data but Header() is non-nil", what, off)
		}
		var got []osm.Object
		okOffsets := true
		for rs.Scan() {
			got = append(got, rs.Object())
			idx := firstIdx[bi] + len(got) - 1
			if idx < len(want) {
				if fo := rs.FullyScannedBytes(); fo != lay.Start[want[idx].Block]-off && okOffsets {
					okOffsets = false
					res.Violatef(key+"/resumed-full", "resumed scanner (started at %d) reports %d after an object of the block at %d, want %d", off, fo, lay.Start[want[idx].Block], lay.Start[want[idx].Block]-off)
				}
			}
		}
		if err := rs.Err(); err != nil {
			res.Violatef(key+"/resume-err", "resume at %s offset %d failed: %v", what, off, err)
		}
		rs.Close()
		if d := pbfw.CompareSeq(want[firstIdx[bi]:], got); d != "" {
			res.Violatef(key+"/resume-seq/"+what, "resume at %s offset %d (block %d): %s", what, off, bi, d)
		}
		res.Event(int64(len(got)))
		res.Add("resume_scans", 1)
	}
	for off, bi := range offsets {
		resume(off, bi, "current")
		if bi > 0 {
			resume(prevOf(bi), bi-1, "previous")
		}
	}
	// terminal position: resuming there must not yield anything that was not in the tail
	// already delivered (trailing empty blocks may have advanced the offset).
	if termFull > 0 && termFull < int64(len(data)) {
		// find the block starting there
		for bi, st := range lay.Start {
			if st == termFull {
				rs := osmpbf.New(context.Background(), mon.NewReader(data[termFull:]), procs)
				flt.apply(rs)
				var got []osm.Object
				for rs.Scan() {
					got = append(got, rs.Object())
				}
				rs.Close()
				if d := pbfw.CompareSeq(want[firstIdx[bi]:], got); d != "" {
					res.Violatef(key+"/resume-terminal", "resume at terminal offset %d (block %d): %s", termFull, bi, d)
				}
			}
		}
	}

	// pass 3: real stop histories for a sample of k: Scan×k, stop, read offsets, resume. The
	// stop is Close, or cancelling the context followed by one more Scan (which must return
	// false) — the way a `for s.Scan() { …; cancel() }` loop ends. The sample includes stops
	// right after the last object of a block with the decoders given time to run ahead.
	ks := []int{0, 1, len(want) / 2, len(want) - 1, len(want)}
	blockEnds := 0
	for i := 0; i+1 < len(want) && blockEnds < 3; i++ {
		if want[i].Block != want[i+1].Block {
			ks = append(ks, i+1)
			blockEnds++
		}
	}
	for ki, kk := range ks {
		if kk < 0 || kk > len(want) {
			continue
		}
		byCancel := ki%2 == 1 || ki >= 5
		ctx, cancel := context.WithCancel(context.Background())
		s := osmpbf.New(ctx, mon.NewReader(data), procs)
		flt.apply(s)
		n := 0
		for n < kk && s.Scan() {
			n++
		}
		if byCancel && n == kk {
			if ki >= 5 {
				time.Sleep(3 * time.Millisecond) // let the pipeline queue the next block
			}
			cancel()
			if s.Scan() {
				res.Violatef(key+"/scan-after-cancel", "Scan returned true after the context had been cancelled (k=%d)", kk)
			}
			if kk > 0 {
				bi := want[kk-1].Block
				if f0, p0 := s.FullyScannedBytes(), s.PreviousFullyScannedBytes(); f0 != lay.Start[bi] || p0 != prevOf(bi) {
					res.Violatef(key+"/stop-cancel", "Scan×%d, cancel, Scan: offsets %d/%d, want %d/%d (the block of the last returned object)", kk, f0, p0, lay.Start[bi], prevOf(bi))
				}
			}
		}
		s.Close()
		cancel()
		full, prev := s.FullyScannedBytes(), s.PreviousFullyScannedBytes()
		if n == kk && kk > 0 {
			bi := want[kk-1].Block
			if full != lay.Start[bi] || prev != prevOf(bi) {
				res.Violatef(key+"/stop-close", "Scan×%d then Close: offsets %d/%d, want %d/%d", kk, full, prev, lay.Start[bi], prevOf(bi))
			} else if full > 0 || f.Header == nil {
				rs := osmpbf.New(context.Background(), mon.NewReader(data[full:]), procs)
				flt.apply(rs)
				var got []osm.Object
				for rs.Scan() {
					got = append(got, rs.Object())
				}
				rs.Close()
				if d := pbfw.CompareSeq(want[firstIdx[bi]:], got); d != "" {
					res.Violatef(key+"/stop-resume", "Scan×%d, Close, resume at %d: %s", kk, full, d)
				}
			}
		}
		if kk == 0 && (full != 0 || prev != 0) {
			res.Violatef(key+"/stop-close0", "Close before any Scan: offsets %d/%d, want 0/0", full, prev)
		}
		res.Add("stop_histories", 1)
	}
	res.Eval(fmt.Sprintf("procs%d/skip%d/empty%v/hdr%v/b%d", procs, m, emptyBlocks > 0, f.Header != nil, len(f.Blocks)/4))
	res.Sample = map[string]any{"blocks": len(f.Blocks), "objects": len(want), "empty_blocks": emptyBlocks, "procs": procs, "skipmask": m,
		"block_starts": lay.Start, "distinct_offsets_reported": len(offsets)}
	return res
}

func c09Cases(tier string, seed uint64) []fw.Case {
	n := 96
	variants := []string{"plain"}
	if tier == "thorough" {
		n = 8000
		variants = []string{"plain", "race"}
	}
	var cs []fw.Case
	procs := []int64{1, 2, 4, 16}
	masks := []int64{0, 0, 1, 2, 4, 3, 5, 6}
	for vi, v := range variants {
		m := n
		if vi > 0 {
			m = n / 4
		}
		for i := 0; i < m; i++ {
			cs = append(cs, fw.Case{Kind: "resume", Variant: v, Seed: gen.Sub(seed, "c09", i), P: map[string]int64{
				"procs": procs[i%4], "skipmask": masks[(i/4)%8], "singlekind": int64(b2i(i%3 != 0)), "noheader": int64(b2i(i%13 == 12)), "bigblock": int64(b2i(i%16 == 9 || i%16 == 2)), "pred": []int64{0, 0, 2, 0, 3, 0, 1, 0, 0, 5, 0}[i%11]}})
		}
	}
	nsame := 12
	nhuge := 1
	if tier == "thorough" {
		nsame, nhuge = 120, 4
	}
	for i := 0; i < nsame; i++ {
		cs = append(cs, fw.Case{Kind: "samehandle", Seed: gen.Sub(seed, "c09same", i), P: map[string]int64{"procs": procs[i%4], "delay_us": []int64{1500, 300, 0}[i%3]}})
	}
	for i := 0; i < nhuge; i++ {
		cs = append(cs, fw.Case{Kind: "huge", Seed: gen.Sub(seed, "c09huge", i), P: map[string]int64{"procs": []int64{1, 2}[i%2], "fillers": 262}})
	}
	return fw.Number(cs)
}

func init() {
	fw.Register(&fw.Prop{
		ID:    "C09",
		Level: "fault_enumeration",
		Rule: "PRNG files of 4-15 blocks (<=200 objects, an eighth of them with one block of 8000-16001 nodes); every stop position k=0..N of each file is observed (offsets read after every Scan), a resume scan is run for every distinct reported offset and for the previous offset, plus real stop histories (Close, or cancel followed by one more Scan) and resumes for k in {0,1,N/2,N-1,N} and right after the last object of up to three blocks; skip masks that create fully empty blocks, in half of the cases combined with filter callbacks rejecting by id (every 2nd, 3rd, 5th, or every element), also on header-less and big-block files; decoders {1,2,4,16}; Close -> Seek -> new scanner on one shared-position handle with a slow medium; a virtual 4.1 GiB stream (offsets beyond 32 bits). " +
			"Signature = (decoders, skip mask, file has empty blocks, header present, block-count class).",
		Assumptions: []string{
			"after the terminal Scan()==false trailing fully-skipped blocks may have advanced the offset, so offset equalities are asserted only after a Scan that returned true (and for k=0); for the terminal position only the resume consequence is asserted",
			"PreviousFullyScannedBytes for an object of block i is the start offset of block i-1 (0 for the first block), whether or not block i-1 delivered objects",
		},
		Cases:            c09Cases,
		Exec:             c09Exec,
		CrashIsViolation: true,
		RaceIsViolation:  true,
		// a resumed (or first) scan whose goroutines are all blocked for good yields nothing:
		// the dump classification decides, a merely slow case stays inconclusive
		HangIsViolation: true,
		Exhaustive:      func(string) bool { return false },
	})
}
