package props

import (
	"context"
	"fmt"

	"github.com/paulmach/osm"
	"github.com/paulmach/osm/osmpbf"

	"verif/internal/fw"
	"verif/internal/gen"
	"verif/internal/mon"
	"verif/internal/pbfw"
)

// C09 — resuming a PBF scan at the reported byte offset loses no element.
//
// Monitor: after every Scan the two reported offsets are compared with the writer's block
// layout (every stop position k of a file is observed); for every distinct reported offset
// (and the previous offset) a second scanner is started on data[offset:] and its sequence
// is compared with the suffix of the model sequence; a sample of stop positions is also
// exercised as a real history Scan×k → Close → read offsets → resume.

type c09Filter struct{ skipN, skipW, skipR bool }

func (f c09Filter) keep(o osm.Object) bool {
	switch o.(type) {
	case *osm.Node:
		return !f.skipN
	case *osm.Way:
		return !f.skipW
	case *osm.Relation:
		return !f.skipR
	}
	return true
}

func (f c09Filter) apply(s *osmpbf.Scanner) {
	s.SkipNodes, s.SkipWays, s.SkipRelations = f.skipN, f.skipW, f.skipR
}

func c09Exec(c fw.Case) *fw.Result {
	res := fw.NewResult()
	r := gen.New(c.Seed, "c09")
	nb := r.Range(4, 15)
	o := pbfw.GenOpts{MinBlocks: nb, MaxBlocks: nb, MaxGroups: 2, MaxElems: 200 / nb / 2}
	if c.Int("singlekind") == 1 {
		// blocks of a single kind each: skip flags then produce fully empty blocks
		o.MaxGroups = 1
	}
	f := pbfw.GenFile(r, o)
	if c.Int("singlekind") == 1 {
		// make sure empty blocks really occur in the middle
		for i, b := range f.Blocks {
			if i%3 == 1 && len(b.Groups) > 0 && b.Groups[0].Kind == pbfw.KDense {
				continue
			}
		}
	}
	if c.Int("noheader") == 1 {
		f.Header = nil
	}
	data, lay := f.Encode(nil)
	procs := int(c.Int("procs"))
	m := int(c.Int("skipmask"))
	flt := c09Filter{m&1 != 0, m&2 != 0, m&4 != 0}
	key := fmt.Sprintf("C09/procs%d/skip%d", procs, m)

	// model: filtered sequence with the block of each object
	var want []pbfw.Expect
	emptyBlocks := 0
	for bi := range f.Blocks {
		n := 0
		for _, e := range f.ExpectBlock(bi) {
			if flt.keep(e.Obj) {
				want = append(want, e)
				n++
			}
		}
		if n == 0 {
			emptyBlocks++
		}
	}
	prevOf := func(bi int) int64 {
		if bi == 0 {
			return 0
		}
		return lay.Start[bi-1]
	}

	// pass 1: one scan observing the offsets at every stop position k
	s := osmpbf.New(context.Background(), mon.NewReader(data), procs)
	flt.apply(s)
	if s.FullyScannedBytes() != 0 || s.PreviousFullyScannedBytes() != 0 {
		res.Violatef(key+"/initial", "offsets before the first Scan are %d/%d, want 0/0", s.FullyScannedBytes(), s.PreviousFullyScannedBytes())
	}
	k := 0
	offsets := map[int64]int{} // reported offset -> block
	for s.Scan() {
		if k >= len(want) {
			res.Violatef(key+"/extra", "scan delivered more than the %d expected objects", len(want))
			break
		}
		bi := want[k].Block
		full, prev := s.FullyScannedBytes(), s.PreviousFullyScannedBytes()
		if full != lay.Start[bi] {
			res.Violatef(key+"/full", "after object #%d (block %d) FullyScannedBytes=%d, block starts at %d (empty blocks in file: %d)", k, bi, full, lay.Start[bi], emptyBlocks)
		}
		if prev != prevOf(bi) {
			res.Violatef(key+"/previous", "after object #%d (block %d) PreviousFullyScannedBytes=%d, want %d (offset current during block %d; empty blocks in file: %d)", k, bi, prev, prevOf(bi), bi-1, emptyBlocks)
		}
		offsets[full] = bi
		res.Event(2)
		k++
		if res.Failed() {
			break
		}
	}
	if err := s.Err(); err != nil && !res.Failed() {
		res.Violatef(key+"/err", "scan of a valid file failed: %v", err)
	}
	termFull := s.FullyScannedBytes()
	termPrev := s.PreviousFullyScannedBytes()
	s.Close()
	if k == len(want) && len(want) > 0 && !res.Failed() {
		// after the terminal Scan()==false the offset may have advanced over trailing empty
		// blocks, but it can never point before the block of the last returned object
		last := want[len(want)-1].Block
		if termFull < lay.Start[last] || termFull > int64(len(data)) {
			res.Violatef(key+"/terminal-full", "after the terminal Scan()==false FullyScannedBytes=%d lies before the block of the last returned object (starts at %d) or beyond the input (%d bytes)", termFull, lay.Start[last], len(data))
		}
		if termPrev < prevOf(last) || termPrev > termFull {
			res.Violatef(key+"/terminal-previous", "after the terminal Scan()==false PreviousFullyScannedBytes=%d, expected between %d and the current offset %d", termPrev, prevOf(last), termFull)
		}
	}
	if k != len(want) && !res.Failed() {
		res.Violatef(key+"/count", "scan delivered %d objects, want %d", k, len(want))
	}
	if res.Failed() {
		return res
	}
	res.Add("stop_positions_observed", int64(k+1))

	// pass 2: resume at every distinct reported offset and at every previous offset
	firstIdx := make([]int, len(f.Blocks)+1) // index in want of the first object of block >= bi
	{
		j := 0
		for bi := 0; bi <= len(f.Blocks); bi++ {
			for j < len(want) && want[j].Block < bi {
				j++
			}
			firstIdx[bi] = j
		}
	}
	resume := func(off int64, bi int, what string) {
		if off == 0 && f.Header != nil {
			return // offset 0 is the initial value: a resume there is simply a full scan with header
		}
		rd := mon.NewReader(data[off:])
		rs := osmpbf.New(context.Background(), rd, procs)
		flt.apply(rs)
		hdr, herr := rs.Header()
		if herr != nil {
			res.Violatef(key+"/resume-header-err", "resume at %s offset %d: Header() error %v", what, off, herr)
		} else if hdr != nil {
			res.Violatef(key+"/resume-header", "resume at %s offset %d: first block is data but Header() is non-nil", what, off)
		}
		var got []osm.Object
		okOffsets := true
		for rs.Scan() {
			got = append(got, rs.Object())
			idx := firstIdx[bi] + len(got) - 1
			if idx < len(want) {
				if fo := rs.FullyScannedBytes(); fo != lay.Start[want[idx].Block]-off && okOffsets {
					okOffsets = false
					res.Violatef(key+"/resumed-full", "resumed scanner (started at %d) reports %d after an object of the block at %d, want %d", off, fo, lay.Start[want[idx].Block], lay.Start[want[idx].Block]-off)
				}
			}
		}
		if err := rs.Err(); err != nil {
			res.Violatef(key+"/resume-err", "resume at %s offset %d failed: %v", what, off, err)
		}
		rs.Close()
		if d := pbfw.CompareSeq(want[firstIdx[bi]:], got); d != "" {
			res.Violatef(key+"/resume-seq/"+what, "resume at %s offset %d (block %d): %s", what, off, bi, d)
		}
		res.Event(int64(len(got)))
		res.Add("resume_scans", 1)
	}
	for off, bi := range offsets {
		resume(off, bi, "current")
		if bi > 0 {
			resume(prevOf(bi), bi-1, "previous")
		}
	}
	// terminal position: resuming there must not yield anything that was not in the tail
	// already delivered (trailing empty blocks may have advanced the offset).
	if termFull > 0 && termFull < int64(len(data)) {
		// find the block starting there
		for bi, st := range lay.Start {
			if st == termFull {
				rs := osmpbf.New(context.Background(), mon.NewReader(data[termFull:]), procs)
				flt.apply(rs)
				var got []osm.Object
				for rs.Scan() {
					got = append(got, rs.Object())
				}
				rs.Close()
				if d := pbfw.CompareSeq(want[firstIdx[bi]:], got); d != "" {
					res.Violatef(key+"/resume-terminal", "resume at terminal offset %d (block %d): %s", termFull, bi, d)
				}
			}
		}
	}

	// pass 3: real stop histories for a sample of k: Scan×k, Close, read offsets, resume
	for _, kk := range []int{0, 1, len(want) / 2, len(want) - 1, len(want)} {
		if kk < 0 || kk > len(want) {
			continue
		}
		s := osmpbf.New(context.Background(), mon.NewReader(data), procs)
		flt.apply(s)
		n := 0
		for n < kk && s.Scan() {
			n++
		}
		s.Close()
		full, prev := s.FullyScannedBytes(), s.PreviousFullyScannedBytes()
		if n == kk && kk > 0 {
			bi := want[kk-1].Block
			if full != lay.Start[bi] || prev != prevOf(bi) {
				res.Violatef(key+"/stop-close", "Scan×%d then Close: offsets %d/%d, want %d/%d", kk, full, prev, lay.Start[bi], prevOf(bi))
			} else if full > 0 || f.Header == nil {
				rs := osmpbf.New(context.Background(), mon.NewReader(data[full:]), procs)
				flt.apply(rs)
				var got []osm.Object
				for rs.Scan() {
					got = append(got, rs.Object())
				}
				rs.Close()
				if d := pbfw.CompareSeq(want[firstIdx[bi]:], got); d != "" {
					res.Violatef(key+"/stop-resume", "Scan×%d, Close, resume at %d: %s", kk, full, d)
				}
			}
		}
		if kk == 0 && (full != 0 || prev != 0) {
			res.Violatef(key+"/stop-close0", "Close before any Scan: offsets %d/%d, want 0/0", full, prev)
		}
		res.Add("stop_histories", 1)
	}
	res.Eval(fmt.Sprintf("procs%d/skip%d/empty%v/hdr%v/b%d", procs, m, emptyBlocks > 0, f.Header != nil, len(f.Blocks)/4))
	res.Sample = map[string]any{"blocks": len(f.Blocks), "objects": len(want), "empty_blocks": emptyBlocks, "procs": procs, "skipmask": m,
		"block_starts": lay.Start, "distinct_offsets_reported": len(offsets)}
	return res
}

func c09Cases(tier string, seed uint64) []fw.Case {
	n := 96
	variants := []string{"plain"}
	if tier == "thorough" {
		n = 8000
		variants = []string{"plain", "race"}
	}
	var cs []fw.Case
	procs := []int64{1, 2, 4, 16}
	masks := []int64{0, 0, 1, 2, 4, 3, 5, 6}
	for vi, v := range variants {
		m := n
		if vi > 0 {
			m = n / 4
		}
		for i := 0; i < m; i++ {
			cs = append(cs, fw.Case{Kind: "resume", Variant: v, Seed: gen.Sub(seed, "c09", i), P: map[string]int64{
				"procs": procs[i%4], "skipmask": masks[(i/4)%8], "singlekind": int64(b2i(i%3 != 0)), "noheader": int64(b2i(i%13 == 12))}})
		}
	}
	return fw.Number(cs)
}

func init() {
	fw.Register(&fw.Prop{
		ID:    "C09",
		Level: "fault_enumeration",
		Rule: "PRNG files of 4-15 blocks (<=200 objects); every stop position k=0..N of each file is observed (offsets read after every Scan), a resume scan is run for every distinct reported offset and for the previous offset, plus real Scan×k→Close→resume histories for k in {0,1,N/2,N-1,N}; skip masks that create fully empty blocks; decoders {1,2,4,16}. " +
			"Signature = (decoders, skip mask, file has empty blocks, header present, block-count class).",
		Assumptions: []string{
			"after the terminal Scan()==false trailing fully-skipped blocks may have advanced the offset, so offset equalities are asserted only after a Scan that returned true (and for k=0); for the terminal position only the resume consequence is asserted",
			"PreviousFullyScannedBytes for an object of block i is the start offset of block i-1 (0 for the first block), whether or not block i-1 delivered objects",
		},
		Cases:            c09Cases,
		Exec:             c09Exec,
		CrashIsViolation: true,
		RaceIsViolation:  true,
		Exhaustive:       func(string) bool { return false },
	})
}
