package props

import (
	"context"
	"fmt"

	"github.com/paulmach/osm"

	"verif/internal/eq"
	"verif/internal/fw"
	"verif/internal/gen"
	"verif/internal/mon"
	"verif/internal/pbfw"
)

// C01 — a PBF scan yields exactly the encoded header and elements, field for field.
//
// Monitor: reference model (pbfw) derived expectation, compared with what Scan/Object/Header
// deliver; systematic present/absent toggles of every optional part between consecutive
// blocks on the same decoder, consecutive groups of one block and consecutive elements of
// one group; random files; both zlib back-ends; several decoder counts; chunked readers.

type c01Part struct {
	name   string
	kind   int // pbfw.KDense/KWays/KRelations, -1 block level
	stripD func(d *pbfw.Dense)
	stripW func(w *pbfw.Way)
	stripR func(r *pbfw.Relation)
	stripB func(b *pbfw.Block)
}

func c01Parts() []c01Part {
	infoW := func(f func(in *pbfw.Info)) func(w *pbfw.Way) {
		return func(w *pbfw.Way) {
			if w.Info != nil {
				c := *w.Info
				f(&c)
				w.Info = &c
			}
		}
	}
	infoR := func(f func(in *pbfw.Info)) func(r *pbfw.Relation) {
		return func(r *pbfw.Relation) {
			if r.Info != nil {
				c := *r.Info
				f(&c)
				r.Info = &c
			}
		}
	}
	ps := []c01Part{
		{name: "dense.info", kind: pbfw.KDense, stripD: func(d *pbfw.Dense) { d.HasInfo = false }},
		{name: "dense.version", kind: pbfw.KDense, stripD: func(d *pbfw.Dense) { d.HasVersion = false }},
		{name: "dense.timestamp", kind: pbfw.KDense, stripD: func(d *pbfw.Dense) { d.HasTimestamp = false }},
		{name: "dense.changeset", kind: pbfw.KDense, stripD: func(d *pbfw.Dense) { d.HasChangeset = false }},
		{name: "dense.uid", kind: pbfw.KDense, stripD: func(d *pbfw.Dense) { d.HasUID = false }},
		{name: "dense.user_sid", kind: pbfw.KDense, stripD: func(d *pbfw.Dense) { d.HasUserSID = false }},
		{name: "dense.visible", kind: pbfw.KDense, stripD: func(d *pbfw.Dense) { d.HasVisible = false }},
		{name: "dense.keys_vals", kind: pbfw.KDense, stripD: func(d *pbfw.Dense) {
			d.HasKeyVals = false
		}},
		{name: "way.info", kind: pbfw.KWays, stripW: func(w *pbfw.Way) { w.Info = nil }},
		{name: "way.info.version", kind: pbfw.KWays, stripW: infoW(func(in *pbfw.Info) { in.Version = nil })},
		{name: "way.info.timestamp", kind: pbfw.KWays, stripW: infoW(func(in *pbfw.Info) { in.Timestamp = nil })},
		{name: "way.info.changeset", kind: pbfw.KWays, stripW: infoW(func(in *pbfw.Info) { in.Changeset = nil })},
		{name: "way.info.uid", kind: pbfw.KWays, stripW: infoW(func(in *pbfw.Info) { in.UID = nil })},
		{name: "way.info.user_sid", kind: pbfw.KWays, stripW: infoW(func(in *pbfw.Info) { in.User = nil })},
		{name: "way.info.visible", kind: pbfw.KWays, stripW: infoW(func(in *pbfw.Info) { in.Visible = nil })},
		{name: "way.tags", kind: pbfw.KWays, stripW: func(w *pbfw.Way) { w.HasTags = false; w.Tags = nil }},
		{name: "way.latlon", kind: pbfw.KWays, stripW: func(w *pbfw.Way) { w.HasLoc = false; w.Lats, w.Lons = nil, nil }},
		{name: "way.refs", kind: pbfw.KWays, stripW: func(w *pbfw.Way) {
			w.HasRefs, w.Refs, w.HasLoc, w.Lats, w.Lons = false, nil, false, nil, nil
		}},
		{name: "relation.info", kind: pbfw.KRelations, stripR: func(r *pbfw.Relation) { r.Info = nil }},
		{name: "relation.info.version", kind: pbfw.KRelations, stripR: infoR(func(in *pbfw.Info) { in.Version = nil })},
		{name: "relation.info.timestamp", kind: pbfw.KRelations, stripR: infoR(func(in *pbfw.Info) { in.Timestamp = nil })},
		{name: "relation.info.changeset", kind: pbfw.KRelations, stripR: infoR(func(in *pbfw.Info) { in.Changeset = nil })},
		{name: "relation.info.uid", kind: pbfw.KRelations, stripR: infoR(func(in *pbfw.Info) { in.UID = nil })},
		{name: "relation.info.user_sid", kind: pbfw.KRelations, stripR: infoR(func(in *pbfw.Info) { in.User = nil })},
		{name: "relation.info.visible", kind: pbfw.KRelations, stripR: infoR(func(in *pbfw.Info) { in.Visible = nil })},
		{name: "relation.tags", kind: pbfw.KRelations, stripR: func(r *pbfw.Relation) { r.HasTags = false; r.Tags = nil }},
		{name: "relation.members", kind: pbfw.KRelations, stripR: func(r *pbfw.Relation) { r.HasMembers = false; r.Members = nil }},
		{name: "block.granularity", kind: -1, stripB: func(b *pbfw.Block) { b.Granularity = nil }},
		{name: "block.date_granularity", kind: -1, stripB: func(b *pbfw.Block) { b.DateGranularity = nil }},
		{name: "block.lat_offset", kind: -1, stripB: func(b *pbfw.Block) { b.LatOffset = nil }},
		{name: "block.lon_offset", kind: -1, stripB: func(b *pbfw.Block) { b.LonOffset = nil }},
		{name: "block.zlib", kind: -1, stripB: func(b *pbfw.Block) { b.Zlib = false }},
	}
	return ps
}

func c01StripDenseTags(d *pbfw.Dense) {
	if !d.HasKeyVals {
		for i := range d.Nodes {
			d.Nodes[i].Tags = nil
		}
	}
}

func c01FullBlock(r *gen.R) *pbfw.Block {
	g, dg, la, lo := int32(1000), int32(500), int64(1_234_567_000), int64(-2_345_678_000)
	return &pbfw.Block{Granularity: &g, DateGranularity: &dg, LatOffset: &la, LonOffset: &lo, Zlib: true, ZlibLevel: 6, OrderSeed: r.Uint64()}
}

// c01ToggleFile builds the systematic file for one part and one level.
func c01ToggleFile(seed uint64, part c01Part, level string) *pbfw.File {
	r := gen.New(seed, "c01toggle")
	o := pbfw.GenOpts{Full: true}
	f := &pbfw.File{Header: pbfw.GenHeader(r, o)}
	ids := &pbfwIDs{}
	strip := func(b *pbfw.Block, g *pbfw.Group, elem func(i int) bool) {
		switch {
		case part.stripB != nil:
			part.stripB(b)
		case part.stripD != nil && g.Dense != nil:
			part.stripD(g.Dense)
			c01StripDenseTags(g.Dense)
		case part.stripW != nil:
			for i, w := range g.Ways {
				if elem == nil || elem(i) {
					part.stripW(w)
				}
			}
		case part.stripR != nil:
			for i, rel := range g.Relations {
				if elem == nil || elem(i) {
					part.stripR(rel)
				}
			}
		}
	}
	kind := part.kind
	kinds := []int{kind}
	if kind == -1 {
		kinds = []int{pbfw.KDense, pbfw.KWays, pbfw.KRelations}
	}
	switch level {
	case "blocks":
		for bi := 0; bi < 6; bi++ {
			b := c01FullBlock(r)
			for _, k := range kinds {
				b.Groups = append(b.Groups, ids.group(r, b, k, r.Range(3, 6), o))
			}
			if bi == 2 || bi == 3 {
				for _, g := range b.Groups {
					strip(b, g, nil)
				}
			}
			f.Blocks = append(f.Blocks, b)
		}
	case "groups":
		b := c01FullBlock(r)
		for gi := 0; gi < 5; gi++ {
			g := ids.group(r, b, kind, r.Range(2, 5), o)
			if gi%2 == 1 {
				strip(b, g, nil)
			}
			b.Groups = append(b.Groups, g)
		}
		f.Blocks = append(f.Blocks, b)
	case "elements":
		b := c01FullBlock(r)
		g := ids.group(r, b, kind, 9, o)
		strip(b, g, func(i int) bool { return i%2 == 1 || i == 4 })
		b.Groups = append(b.Groups, g)
		f.Blocks = append(f.Blocks, b)
	}
	return f
}

// pbfwIDs hands out unique ids through the generator's own counter type.
type pbfwIDs struct{ n int64 }

func (c *pbfwIDs) group(r *gen.R, b *pbfw.Block, kind, n int, o pbfw.GenOpts) *pbfw.Group {
	g := pbfw.GenGroupIDs(r, b, kind, n, &c.n, o)
	return g
}

var c01HeaderParts = []string{"bbox", "required", "optional", "program", "source", "repl_ts", "repl_seq", "repl_url"}

func c01HeaderFile(seed uint64, part string, only bool, zero bool) *pbfw.File {
	r := gen.New(seed, "c01hdr")
	h := pbfw.GenHeader(r, pbfw.GenOpts{Full: true, Plain: true})
	keep := func(p string) bool {
		if only {
			return p == part
		}
		return p != part
	}
	if !keep("bbox") {
		h.BBox = nil
	}
	if !keep("required") {
		h.Required = nil
	}
	if !keep("optional") {
		h.Optional = nil
	}
	if !keep("program") {
		h.Program = nil
	}
	if !keep("source") {
		h.Source = nil
	}
	if !keep("repl_ts") {
		h.ReplTimestamp = nil
	}
	if !keep("repl_seq") {
		h.ReplSeq = nil
	}
	if !keep("repl_url") {
		h.ReplURL = nil
	}
	if zero {
		// present with the value 0 is not the same as absent
		z := int64(0)
		if h.ReplTimestamp != nil {
			h.ReplTimestamp = &z
		}
		if h.ReplSeq != nil {
			h.ReplSeq = &z
		}
		if h.BBox != nil {
			h.BBox = &[4]int64{0, 0, 0, 0}
		}
	}
	f := pbfw.GenFile(r, pbfw.GenOpts{MinBlocks: 1, MaxBlocks: 2, MaxGroups: 1, MaxElems: 3})
	f.Header = h
	return f
}

func c01Check(res *fw.Result, f *pbfw.File, procs int, chunk int, key string) {
	data, _ := f.Encode(nil)
	rd := mon.NewReader(data)
	if chunk < 0 {
		// a reader that returns its last bytes together with io.EOF (gzip readers, HTTP bodies)
		rd.EagerEOF = true
		chunk = -chunk - 1
	}
	rd.Chunk = chunk
	ctx := context.Background()
	if procs <= 0 && len(data)%2 == 0 {
		ctx = nil // New documents a nil context as context.Background()
	}
	sr := pbfScanCtx(ctx, rd, procs, true, nil, nil)
	res.Event(int64(len(sr.Objs)) + 1)
	scanAgain(res, sr, key)
	if sr.HdrErr != nil {
		res.Violatef(key+"/header-err", "Header() failed on a valid file: %v", sr.HdrErr)
		return
	}
	if d := pbfw.CompareHeader(f.ExpectHeader(), sr.Header); d != "" {
		res.Violatef(key+"/header", "%s", d)
	}
	if sr.Err != nil {
		res.Violatef(key+"/err", "scan of a valid file ended with error %v after %d objects", sr.Err, len(sr.Objs))
		return
	}
	want := f.ExpectAll()
	if d := pbfw.CompareSeq(want, sr.Objs); d != "" {
		res.Violatef(key+"/objects", "%s", d)
	}
	if rd.Bytes() != int64(len(data)) {
		res.Violatef(key+"/bytes", "scan consumed %d of %d bytes of a valid file", rd.Bytes(), len(data))
	}
}

func c01Exec(c fw.Case) *fw.Result {
	res := fw.NewResult()
	procs := int(c.Int("procs"))
	switch c.Kind {
	case "toggle":
		part := c01Parts()[c.Int("part")]
		level := c.Str("level")
		f := c01ToggleFile(c.Seed, part, level)
		key := fmt.Sprintf("C01/toggle/%s/%s/procs%d", part.name, level, procs)
		c01Check(res, f, procs, 0, key)
		res.Eval("toggle/" + part.name + "/" + level)
		res.Sample = map[string]any{"part": part.name, "level": level, "procs": procs, "blocks": len(f.Blocks), "block_signatures": blockSigs(f)}
	case "header":
		part := c01HeaderParts[c.Int("part")]
		only := c.Int("only") == 1
		zero := c.Int("zero") == 1
		f := c01HeaderFile(c.Seed, part, only, zero)
		key := fmt.Sprintf("C01/header/%s/only%v/zero%v", part, only, zero)
		c01Check(res, f, procs, 0, key)
		res.Eval(fmt.Sprintf("header/%s/only%v/zero%v", part, only, zero))
	case "manyblocks":
		// a long run within one scanner's lifetime: more blocks than fit a 16-bit counter
		r := gen.New(c.Seed, "c01many")
		nb := int(c.Int("blocks"))
		f := pbfw.GenFile(r, pbfw.GenOpts{MinBlocks: nb, MaxBlocks: nb, MaxGroups: 1, MaxElems: 2, SmallStrings: true})
		c01Check(res, f, procs, 0, fmt.Sprintf("C01/manyblocks/%d", nb))
		res.Eval(fmt.Sprintf("manyblocks/%d/procs%d", nb, procs))
		res.Add("blocks_scanned", int64(len(f.Blocks)))
		res.Sample = map[string]any{"blocks": nb, "procs": procs, "objects": len(f.ExpectAll())}
	case "degenerate":
		// valid streams with (next to) nothing in them
		r := gen.New(c.Seed, "c01degenerate")
		f := pbfw.GenFile(r, pbfw.GenOpts{MinBlocks: 2, MaxBlocks: 4, MaxGroups: 2, MaxElems: 5})
		shape := []string{"header-only", "blocks-without-groups", "groups-without-elements", "empty-block-between", "headerless-empty-blocks"}[int(c.Int("shape"))%5]
		switch shape {
		case "header-only":
			f.Blocks = nil
		case "blocks-without-groups":
			for _, b := range f.Blocks {
				b.Groups = nil
			}
		case "groups-without-elements":
			for _, b := range f.Blocks {
				b.Groups = []*pbfw.Group{{Kind: pbfw.KWays}, {Kind: pbfw.KRelations}}
			}
		case "empty-block-between":
			f.Blocks[1].Groups = nil
		case "headerless-empty-blocks":
			f.Header = nil
			f.Blocks[0].Groups = nil
		}
		key := "C01/degenerate/" + shape
		c01Check(res, f, procs, int(c.Int("chunk")), key)
		res.Eval(fmt.Sprintf("degenerate/%s/chunk%d", shape, c.Int("chunk")))
		res.Sample = map[string]any{"shape": shape, "procs": procs, "blocks": len(f.Blocks)}
	case "limits":
		// sizes exactly at the format's hard limits are valid: a BlobHeader of up to 65535
		// bytes ("must be less than 64 KiB") and a Blob of up to 32 MiB - 1 bytes; also the
		// soft limits (32 KiB, 16 MiB) on both sides. The block in question sits between two
		// ordinary blocks so that its neighbours would show any damage.
		r := gen.New(c.Seed, "c01limits")
		f := pbfw.GenFile(r, pbfw.GenOpts{MinBlocks: 3, MaxBlocks: 3, MaxGroups: 2, MaxElems: 8})
		b := f.Blocks[1]
		b.Zlib = c.Int("zlib") == 1
		b.ZlibLevel = 1
		b.PadBytes = int(c.Int("pad"))
		target := c.Int("size")
		measure := func() int64 {
			_, lay := f.Encode(nil)
			if c.Str("what") == "blobheader" {
				return lay.BlobHeaderEnd[1] - lay.PrefixEnd[1]
			}
			return lay.End[1] - lay.BlobHeaderEnd[1]
		}
		for it := 0; it < 8; it++ {
			d := target - measure()
			if d == 0 {
				break
			}
			if c.Str("what") == "blobheader" {
				b.IndexBytes += int(d)
			} else {
				b.PadBytes += int(d)
			}
		}
		key := fmt.Sprintf("C01/limits/%s/%d/zlib%d", c.Str("what"), target, c.Int("zlib"))
		if got := measure(); got != target && !b.Zlib {
			res.Inconc(fmt.Sprintf("could not build a %s of exactly %d bytes (got %d)", c.Str("what"), target, got))
			break
		}
		c01Check(res, f, procs, 0, key)
		res.Eval(fmt.Sprintf("limits/%s/%d/zlib%d", c.Str("what"), target, c.Int("zlib")))
		res.Sample = map[string]any{"what": c.Str("what"), "bytes": target, "zlib": c.Int("zlib"), "procs": procs}
	case "random":
		r := gen.New(c.Seed, "c01random")
		o := pbfw.GenOpts{MinBlocks: 1, MaxBlocks: 12, MaxGroups: 4, MaxElems: 40}
		switch c.Int("profile") {
		case 1:
			o.Plain = true
		case 2:
			o = pbfw.GenOpts{MinBlocks: 20, MaxBlocks: 40, MaxGroups: 1, MaxElems: 4}
		case 3:
			// blocks shaped like real extracts: thousands of elements per group, so that the
			// decoder's preallocated 8000-slot queue and its inflate buffer grow and are reused
			o = pbfw.GenOpts{MinBlocks: 2, MaxBlocks: 4, MaxGroups: 2, MaxElems: 9000, SmallStrings: true}
		}
		if c.Int("zeros") == 1 {
			o.ZeroP = 0.3 // present-but-zero values of optional parts
		}
		f := pbfw.GenFile(r, o)
		if c.Int("profile") == 4 {
			// unusual-but-valid values: ids zero / negative / huge / repeated / unsorted,
			// metadata at the ends of their types, very long strings and lists, duplicate keys
			pbfw.Wilden(r, f, 0.25)
		}
		if c.Int("profile") == 5 {
			// every block followed by a structural twin with different values (or an exact copy)
			pbfw.TwinBlocks(r, f, func(b *pbfw.Block) *pbfw.Block { return eq.Clone(b) })
		}
		if c.Int("noheader") == 1 {
			f.Header = nil
		}
		key := fmt.Sprintf("C01/random/profile%d/hdr%v/zeros%d", c.Int("profile"), c.Int("noheader") == 0, c.Int("zeros"))
		c01Check(res, f, procs, int(c.Int("chunk")), key)
		nontrivial := 0
		for _, b := range f.Blocks {
			if b.NumObjects() > 0 {
				res.Eval("block/" + b.Signature())
				nontrivial++
			}
		}
		if nontrivial == 0 {
			res.Eval("")
		}
		res.Add("blocks_scanned", int64(len(f.Blocks)))
		res.Add("objects_compared", int64(len(f.ExpectAll())))
		res.Sample = map[string]any{"procs": procs, "chunk": c.Int("chunk"), "blocks": len(f.Blocks), "objects": len(f.ExpectAll()), "block_signatures": blockSigs(f)}
	}
	return res
}

func blockSigs(f *pbfw.File) []string {
	var out []string
	for i, b := range f.Blocks {
		if i >= 6 {
			break
		}
		out = append(out, b.Signature())
	}
	return out
}

func c01Cases(tier string, seed uint64) []fw.Case {
	var cs []fw.Case
	variants := []string{"plain", "nocgo"}
	if tier == "thorough" {
		variants = []string{"plain", "nocgo", "race", "asan"}
	}
	parts := c01Parts()
	for vi, v := range variants {
		reps := 1
		if tier == "thorough" && vi < 2 {
			reps = 4
		}
		for rep := 0; rep < reps; rep++ {
			for pi, p := range parts {
				levels := []string{"blocks"}
				if p.kind >= 0 {
					levels = append(levels, "groups")
				}
				if p.stripW != nil || p.stripR != nil {
					levels = append(levels, "elements")
				}
				for _, lv := range levels {
					for _, procs := range []int64{1, 2} {
						cs = append(cs, fw.Case{Kind: "toggle", Variant: v, Seed: gen.Sub(seed, "c01t"+lv, pi*100+rep),
							P: map[string]int64{"part": int64(pi), "procs": procs}, S: map[string]string{"level": lv}})
					}
				}
			}
			for pi := range c01HeaderParts {
				for only := int64(0); only < 2; only++ {
					for zero := int64(0); zero < 2; zero++ {
						cs = append(cs, fw.Case{Kind: "header", Variant: v, Seed: gen.Sub(seed, "c01h", pi*10+rep),
							P: map[string]int64{"part": int64(pi), "only": only, "procs": 1, "zero": zero}})
					}
				}
			}
		}
		if vi == 0 {
			cs = append(cs, fw.Case{Kind: "manyblocks", Variant: v, Seed: gen.Sub(seed, "c01many", 0), P: map[string]int64{"blocks": 66000, "procs": 3}})
			if tier == "thorough" {
				cs = append(cs, fw.Case{Kind: "manyblocks", Variant: v, Seed: gen.Sub(seed, "c01many", 1), P: map[string]int64{"blocks": 140000, "procs": 1}})
			}
		}
		for i := 0; i < 20; i++ {
			cs = append(cs, fw.Case{Kind: "degenerate", Variant: v, Seed: gen.Sub(seed, "c01deg", i), P: map[string]int64{"shape": int64(i % 5), "procs": []int64{1, 3, 16, 0}[i/5], "chunk": []int64{0, -1, 5, -8}[(i/5+i)%4]}})
		}
		if vi == 0 {
			li := 0
			for _, sz := range []int64{32767, 32768, 65534, 65535} {
				cs = append(cs, fw.Case{Kind: "limits", Variant: v, Seed: gen.Sub(seed, "c01lim", li), P: map[string]int64{"size": sz, "zlib": int64(li % 2), "procs": int64(1 + li%3)}, S: map[string]string{"what": "blobheader"}})
				li++
			}
			for _, sz := range []int64{16<<20 - 1, 16 << 20, 16<<20 + 1, 32<<20 - 2, 32<<20 - 1} {
				cs = append(cs, fw.Case{Kind: "limits", Variant: v, Seed: gen.Sub(seed, "c01lim", li), P: map[string]int64{"size": sz, "zlib": 0, "procs": int64(1 + li%3)}, S: map[string]string{"what": "blob"}})
				li++
			}
			// a compressed blob whose uncompressed size is far above the soft limit
			cs = append(cs, fw.Case{Kind: "limits", Variant: v, Seed: gen.Sub(seed, "c01lim", li), P: map[string]int64{"size": 40000, "zlib": 1, "procs": 2, "pad": 24 << 20}, S: map[string]string{"what": "blob"}})
		}
		n := 260
		if tier == "thorough" {
			n = 3000
			if vi >= 2 {
				n = 500
			}
		}
		procsList := []int64{1, 2, 5, 16, 0, 3, -1, 32} // 0 and negative counts mean one decoder
		for i := 0; i < n; i++ {
			chunk := int64(0)
			switch i % 7 {
			case 1:
				chunk = -1 // unlimited reads, the last one together with io.EOF
			case 2:
				chunk = -8 // 7-byte reads, the last one together with io.EOF
			case 3:
				chunk = 1
			case 5:
				chunk = 7
			case 6:
				chunk = 4096
			}
			if chunk == 1 && i%21 != 3 {
				chunk = 13 // one-byte reads are slow on big blocks; keep a few
			}
			np := 2
			if tier == "thorough" {
				np = 4
			}
			for k := 0; k < np; k++ {
				procs := procsList[(i+k)%len(procsList)]
				cs = append(cs, fw.Case{Kind: "random", Variant: v, Seed: gen.Sub(seed, "c01r", i),
					P: map[string]int64{"procs": procs, "chunk": chunk, "profile": c01Profile(i), "noheader": int64(b2i(i%11 == 10)), "zeros": int64(b2i(i%6 == 4))}})
			}
		}
	}
	return fw.Number(cs)
}

func c01Profile(i int) int64 {
	if i%40 == 17 {
		return 3 // a few real-extract-sized files
	}
	if i%5 == 4 {
		return 4 // unusual-but-valid values
	}
	if i%10 == 3 {
		return 5 // twin blocks
	}
	return int64(i % 5 % 3)
}

func b2i(b bool) int {
	if b {
		return 1
	}
	return 0
}

func init() {
	fw.Register(&fw.Prop{
		ID:    "C01",
		Level: "exploration",
		Rule: "files written by the independent PBF writer: (a) systematic present/absent toggles of each of 33 optional parts between consecutive blocks on the same decoder, consecutive groups of a block and consecutive elements of a group, each header field alone and all-but-it; " +
			"(b) PRNG files of 1-40 blocks, 1-4 groups, 0-40 elements (plus a few files with up to 9000 elements per group, the size class of real extracts), arbitrary UTF-8, header bounding boxes whose four corners are independent numbers (one hemisphere, left > right, bottom > top), granularity/offset/date-granularity classes, raw and zlib, shuffled field order and string table, unknown fields; a fifth of the files with unusual-but-valid values (ids zero / negative / beyond 2^40 / repeated / unsorted, versions uids changesets at the ends of their types, strings of up to 70 kB, 300 tags, 2000 refs, 3000 members, duplicate tag keys) and a tenth in which every block is followed by a structural twin with different values or by an exact copy; blocks whose BlobHeader is exactly 32767 / 32768 / 65534 / 65535 bytes and whose Blob is exactly 16 MiB ± 1, 32 MiB − 2 and 32 MiB − 1 bytes (the hard limits are exclusive), a compressed blob inflating to 24 MiB; decoder counts {1,2,3,5,16,32} and the degenerate 0 / -1 (one decoder), nil context, chunked readers and readers that return their last bytes together with io.EOF; a file of 66 000 blocks (more than a 16-bit counter holds); degenerate streams (header only, blocks without groups, groups without elements, header-less streams starting with an empty block); both zlib back-ends (cgo/czlib and pure Go). " +
			"A signature is the presence-bit/parameter-class vector of a block with >=1 element, or the toggled part and level; distinct_nontrivial counts distinct signatures.",
		Assumptions: []string{
			"an absent timestamp may be delivered as Go's zero time or as the Unix epoch (both are zero metadata); generated present timestamps are never 0",
			"plain (non-dense) Node groups and zero-node dense groups are excluded: the first is unsupported by the library (see C06), the second serialises to an empty message no writer emits",
			"the writer's own encoder (protowire varint/zigzag/packed, compress/zlib) is trusted",
		},
		Cases:            c01Cases,
		Exec:             c01Exec,
		CrashIsViolation: true,
		Workers:          12,
	})
	_ = osm.TypeNode
}
