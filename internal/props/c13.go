package props

import (
	"context"
	"errors"
	"fmt"
	"reflect"
	"runtime/debug"
	"sort"
	"strings"
	"time"

	"github.com/paulmach/osm"
	"github.com/paulmach/osm/annotate"

	"verif/internal/eq"
	"verif/internal/fw"
	"verif/internal/gen"
)

// C13 — annotating an osmChange against element histories yields the exact old/new diff.
//
// Monitor shape: a harness-side *model* of the input (changed elements per section and kind,
// one history per feature, option set, datasource behaviour) from which both the real inputs
// (fresh deep copies per execution) and the expected result are derived. The expected result
// is computed by an independent reference of the documented rules; the library is observed
// only through annotate.Change, the returned *osm.Diff / error and the calls it makes into
// the harness' HistoryDatasourcer.

// ---------------------------------------------------------------------------------------
// elements (one small sum type instead of three copies of everything)

const (
	c13Node = iota
	c13Way
	c13Rel
)

const (
	c13Create = iota
	c13Modify
	c13Delete
)

var c13KindName = [3]string{"node", "way", "relation"}
var c13SecName = [3]string{"create", "modify", "delete"}
var c13SecType = [3]osm.ActionType{osm.ActionCreate, osm.ActionModify, osm.ActionDelete}

type c13El struct {
	kind int
	n    *osm.Node
	w    *osm.Way
	r    *osm.Relation
}

func (e c13El) id() int64 {
	switch e.kind {
	case c13Node:
		return int64(e.n.ID)
	case c13Way:
		return int64(e.w.ID)
	}
	return int64(e.r.ID)
}

func (e c13El) ver() int {
	switch e.kind {
	case c13Node:
		return e.n.Version
	case c13Way:
		return e.w.Version
	}
	return e.r.Version
}

func (e c13El) vis() bool {
	switch e.kind {
	case c13Node:
		return e.n.Visible
	case c13Way:
		return e.w.Visible
	}
	return e.r.Visible
}

func (e c13El) clone() c13El {
	switch e.kind {
	case c13Node:
		return c13El{kind: e.kind, n: eq.Clone(e.n)}
	case c13Way:
		return c13El{kind: e.kind, w: eq.Clone(e.w)}
	}
	return c13El{kind: e.kind, r: eq.Clone(e.r)}
}

// withVis returns a deep copy with the visible flag set.
func (e c13El) withVis(v bool) c13El {
	c := e.clone()
	switch c.kind {
	case c13Node:
		c.n.Visible = v
	case c13Way:
		c.w.Visible = v
	default:
		c.r.Visible = v
	}
	return c
}

func (e c13El) dump() string {
	switch e.kind {
	case c13Node:
		return eq.Dump(e.n)
	case c13Way:
		return eq.Dump(e.w)
	}
	return eq.Dump(e.r)
}

func (e c13El) fid() osm.FeatureID { return c13FID(e.kind, e.id()) }

// c13Packable: the id fits the 40 bits a packed FeatureID / ObjectID has for it.
func c13Packable(id int64) bool { return id >= 0 && id < 1<<40 }

// c13OddIDs are element ids outside (or at the edge of) the packed-id domain: editor
// placeholders of not yet uploaded objects (negative), 0, 2^40 and above, near +-2^62.
var c13OddIDs = []int64{-1, -2, -1000, 0, 1 << 40, 1<<40 + 5, 1 << 47, 1<<62 - 3, -(1 << 62) + 3, -(1 << 40)}

func c13FID(kind int, id int64) osm.FeatureID {
	switch kind {
	case c13Node:
		return osm.NodeID(id).FeatureID()
	case c13Way:
		return osm.WayID(id).FeatureID()
	}
	return osm.RelationID(id).FeatureID()
}

func (e c13El) key() c13Key { return c13Key{e.kind, e.id()} }

func (e c13El) str() string {
	cs := int64(0)
	switch e.kind {
	case c13Node:
		cs = int64(e.n.ChangesetID)
	case c13Way:
		cs = int64(e.w.ChangesetID)
	default:
		cs = int64(e.r.ChangesetID)
	}
	return fmt.Sprintf("%s/%d:v%d(visible=%v,changeset=%d)", c13KindName[e.kind], e.id(), e.ver(), e.vis(), cs)
}

// c13Elems lists every node, way and relation of an *osm.OSM (nil-safe).
func c13Elems(o *osm.OSM) []c13El {
	if o == nil {
		return nil
	}
	var out []c13El
	for _, n := range o.Nodes {
		out = append(out, c13El{kind: c13Node, n: n})
	}
	for _, w := range o.Ways {
		out = append(out, c13El{kind: c13Way, w: w})
	}
	for _, r := range o.Relations {
		out = append(out, c13El{kind: c13Rel, r: r})
	}
	return out
}

func c13MakeEl(r *gen.R, kind int, id int64, ver int, rich bool) c13El {
	var tags osm.Tags
	nt := 0
	if rich {
		nt = r.Intn(4)
	}
	for i := 0; i < nt; i++ {
		tags = append(tags, osm.Tag{Key: r.Word(), Value: r.Str(6)})
	}
	user, uid := r.Word(), osm.UserID(r.Range(1, 99999))
	cs := osm.ChangesetID(r.Int64Range(1, 1<<40))
	ts := r.Time()
	var committed *time.Time
	if rich && r.Chance(0.2) {
		t := ts.Add(time.Duration(r.Range(1, 600)) * time.Second)
		committed = &t
	}
	vis := r.Bool()
	switch kind {
	case c13Node:
		return c13El{kind: kind, n: &osm.Node{ID: osm.NodeID(id), Lat: r.Coord(90), Lon: r.Coord(180), User: user, UserID: uid,
			Visible: vis, Version: ver, ChangesetID: cs, Timestamp: ts, Tags: tags, Committed: committed}}
	case c13Way:
		var wn osm.WayNodes
		if rich {
			for i, n := 0, r.Intn(5); i < n; i++ {
				x := osm.WayNode{ID: osm.NodeID(r.Range(1, 50))}
				if r.Chance(0.3) {
					x.Version, x.Lat, x.Lon = r.Range(1, 9), r.Coord(90), r.Coord(180)
				}
				wn = append(wn, x)
			}
		}
		w := &osm.Way{ID: osm.WayID(id), User: user, UserID: uid, Visible: vis, Version: ver, ChangesetID: cs, Timestamp: ts,
			Nodes: wn, Tags: tags, Committed: committed}
		if rich && r.Chance(0.1) {
			w.Updates = osm.Updates{{Index: 0, Version: r.Range(1, 9), Timestamp: r.Time()}}
		}
		return c13El{kind: kind, w: w}
	}
	var ms osm.Members
	if rich {
		for i, n := 0, r.Intn(4); i < n; i++ {
			ms = append(ms, osm.Member{Type: []osm.Type{osm.TypeNode, osm.TypeWay, osm.TypeRelation}[r.Intn(3)],
				Ref: int64(r.Range(1, 50)), Role: r.PickS("", "outer", "inner", r.Word())})
		}
	}
	return c13El{kind: kind, r: &osm.Relation{ID: osm.RelationID(id), User: user, UserID: uid, Visible: vis, Version: ver,
		ChangesetID: cs, Timestamp: ts, Tags: tags, Members: ms, Committed: committed}}
}

// ---------------------------------------------------------------------------------------
// model of one (osmChange, histories, option) triple

type c13Key struct {
	kind int
	id   int64
}

func (k c13Key) String() string { return fmt.Sprintf("%s/%d", c13KindName[k.kind], k.id) }

type c13Hist struct {
	present bool    // false: the datasource answers "not found"
	entries []c13El // in the order the datasource returns them
}

type c13Item struct {
	sec int
	el  c13El
}

// An option set is imc + 3*u: imc says how IgnoreMissingChildren is passed (the only option
// annotate.Change documents), u in [0,c13NUnrelated) encodes the options that must not matter:
// Threshold (absent|1m), IgnoreInconsistency (absent|true|false), ChildFilter (absent|reject all|accept all).
const (
	c13OptNone        = 0 // IgnoreMissingChildren not passed
	c13OptIgnore      = 1 // IgnoreMissingChildren(true)
	c13OptIgnoreFalse = 2 // IgnoreMissingChildren(false)
	c13NUnrelated     = 18
	c13NOpts          = 3 * c13NUnrelated
)

func c13OptStr(opt int) string {
	imc, u := opt%3, opt/3
	var ps []string
	if u%2 == 1 {
		ps = append(ps, "Threshold(1m)")
	}
	switch (u / 2) % 3 {
	case 1:
		ps = append(ps, "IgnoreInconsistency(true)")
	case 2:
		ps = append(ps, "IgnoreInconsistency(false)")
	}
	switch u / 6 {
	case 1:
		ps = append(ps, "ChildFilter(reject all)")
	case 2:
		ps = append(ps, "ChildFilter(accept all)")
	}
	switch imc {
	case c13OptIgnore:
		ps = append(ps, "IgnoreMissingChildren(true)")
	case c13OptIgnoreFalse:
		ps = append(ps, "IgnoreMissingChildren(false)")
	}
	if len(ps) == 0 {
		return "none"
	}
	return strings.Join(ps, ",")
}

const (
	c13FaultPlain   = iota // unique sentinel, nil history
	c13FaultWithHis        // unique sentinel returned together with the full history
	c13FaultWrapsNF        // wraps the datasource's own not-found error, but NotFound() says false
	c13NFaults
)

var c13FaultName = [c13NFaults]string{"sentinel", "sentinel+history", "wraps-notfound-but-NotFound-false"}

const (
	c13DSSentinel   = iota // own sentinel error, NotFound by ==
	c13DSTyped             // own typed error, wrapped, NotFound by errors.As
	c13DSLibMap            // the library's own map datasource behind the recording wrapper
	c13DSFromOSM           // histories handed over as one *osm.OSM, datasource built by (*osm.OSM).HistoryDatasource()
	c13DSFromChange        // histories spread over the sections of an *osm.Change, built by (*osm.Change).HistoryDatasource()
	c13NModes
)

var c13ModeName = [c13NModes]string{"own-sentinel", "own-typed-wrapped", "osm.HistoryDatasource{maps}", "(*osm.OSM).HistoryDatasource()", "(*osm.Change).HistoryDatasource()"}

// c13Ref names entry idx of the history of a feature.
type c13Ref struct {
	key c13Key
	idx int
}

type c13Model struct {
	items  []c13Item // document order: section, then kind, then position
	secNil [3]bool   // an empty section is a nil *osm.OSM (true) or an empty one (false)
	hist   map[c13Key]*c13Hist
	opt    int
	mode   int
	fault  map[c13Key]int // feature -> fault flavour
	// src is, for the library-built datasources, the order in which the history entries stand
	// in the source object: [section][kind]; an *osm.OSM source uses section 0 only. The entries
	// of one feature appear in history order. nil = grouped by feature.
	src *[3][3][]c13Ref
	// direct: the concrete *osm.HistoryDatasource itself is handed to annotate.Change, not the
	// recording wrapper around it (only for the three library-datasource kinds; no injected error).
	direct bool
	// phased: the datasource is first built with the first half of every history and used for one
	// annotate.Change call; the remaining versions are then appended through the (exported) map
	// fields and the call that is observed follows.
	phased bool
	// ctxMode is the context handed to the observed annotate.Change call; ctxK: with
	// c13CtxCancelAtLookup the datasource's lookup hook cancels it at the start of the ctxK-th
	// history lookup. honour: the datasource wrapper answers a lookup on a done context with
	// ctx.Err() (a remote source); otherwise it ignores the context (an in-memory source, a cache).
	ctxMode int
	ctxK    int
	honour  bool
}

const (
	c13CtxBackground = iota
	c13CtxCancelled
	c13CtxDeadlinePast
	c13CtxCancelAtLookup
)

func (m *c13Model) ctxName() string {
	s := [...]string{"Background", "already cancelled", "deadline in the past", fmt.Sprintf("cancelled by the datasource hook at history lookup %d", m.ctxK)}[m.ctxMode]
	if m.ctxMode != c13CtxBackground {
		if m.honour && !(m.direct && m.canDirect()) {
			s += "; datasource returns ctx.Err() on a done context"
		} else {
			s += "; datasource ignores the context"
		}
	}
	return s
}

func (m *c13Model) canDirect() bool { return m.mode >= c13DSLibMap }

// cut is the number of entries of a history that exist when the datasource is constructed.
func (m *c13Model) cut(h *c13Hist) int {
	if m.phased {
		return len(h.entries) / 2
	}
	return len(h.entries)
}

func (m *c13Model) dsName() string {
	s := c13ModeName[m.mode]
	if m.direct && m.canDirect() {
		s += " passed as the concrete *osm.HistoryDatasource"
	} else {
		s += " behind the recording wrapper"
	}
	if m.phased {
		s += "; second half of every history appended to the map fields after a first Change call"
	}
	return s
}

func (m *c13Model) built() bool { return m.mode == c13DSFromOSM || m.mode == c13DSFromChange }

// normalize makes the model say what a library-built datasource can express (a present but
// empty history simply does not occur in the source object, i.e. is not found - the expected
// outcome is the same): for a change as source the visible versions come first (create
// and modify sections are added before the delete section and marked accordingly). Idempotent.
func (m *c13Model) normalize() {
	if !m.built() {
		return
	}
	for _, h := range m.hist {
		if m.mode == c13DSFromChange {
			sort.SliceStable(h.entries, func(i, j int) bool { return h.entries[i].vis() && !h.entries[j].vis() })
		}
	}
}

func (m *c13Model) layout() [3][3][]c13Ref {
	if m.src != nil {
		return *m.src
	}
	var l [3][3][]c13Ref
	for _, k := range m.sortedKeys() {
		h := m.hist[k]
		if !h.present {
			continue
		}
		for i, e := range h.entries {
			sec := 0
			if m.mode == c13DSFromChange && !e.vis() {
				sec = c13Delete
			}
			l[sec][k.kind] = append(l[sec][k.kind], c13Ref{k, i})
		}
	}
	return l
}

// source builds the fresh history source object of a library-built datasource.
func (m *c13Model) source() (*osm.OSM, *osm.Change) {
	l := m.layout()
	mk := func(sec int) *osm.OSM {
		o := &osm.OSM{}
		n := 0
		for kind := 0; kind < 3; kind++ {
			for _, ref := range l[sec][kind] {
				if ref.idx >= m.cut(m.hist[ref.key]) {
					continue // appended after construction
				}
				e := m.hist[ref.key].entries[ref.idx].clone()
				if m.mode == c13DSFromChange && e.vis() != (sec != c13Delete) {
					panic("c13: model inconsistent: visible flag does not fit the section of the history source")
				}
				n++
				switch kind {
				case c13Node:
					o.Nodes = append(o.Nodes, e.n)
				case c13Way:
					o.Ways = append(o.Ways, e.w)
				default:
					o.Relations = append(o.Relations, e.r)
				}
			}
		}
		if n == 0 && m.mode == c13DSFromChange {
			return nil
		}
		return o
	}
	if m.mode == c13DSFromOSM {
		return mk(0), nil
	}
	return nil, &osm.Change{Create: mk(0), Modify: mk(1), Delete: mk(2)}
}

func (m *c13Model) describeSource() any {
	l := m.layout()
	d := map[string][]string{}
	for sec := 0; sec < 3; sec++ {
		name := "osm"
		if m.mode == c13DSFromChange {
			name = c13SecName[sec]
		}
		for kind := 0; kind < 3; kind++ {
			for _, ref := range l[sec][kind] {
				d[name] = append(d[name], fmt.Sprintf("%s:v%d", ref.key, m.hist[ref.key].entries[ref.idx].ver()))
			}
		}
	}
	return d
}

// ignore: missing children are ignored, i.e. IgnoreMissingChildren(true) was passed. No other
// option is documented to change what annotate.Change does.
func (m *c13Model) ignore() bool { return m.opt%3 == c13OptIgnore }

func (m *c13Model) options() []annotate.Option {
	imc, u := m.opt%3, m.opt/3
	var os []annotate.Option
	if u%2 == 1 {
		os = append(os, annotate.Threshold(time.Minute))
	}
	switch (u / 2) % 3 {
	case 1:
		os = append(os, annotate.IgnoreInconsistency(true))
	case 2:
		os = append(os, annotate.IgnoreInconsistency(false))
	}
	switch u / 6 {
	case 1:
		os = append(os, annotate.ChildFilter(func(osm.FeatureID) bool { return false }))
	case 2:
		os = append(os, annotate.ChildFilter(func(osm.FeatureID) bool { return true }))
	}
	switch imc {
	case c13OptIgnore:
		os = append(os, annotate.IgnoreMissingChildren(true))
	case c13OptIgnoreFalse:
		os = append(os, annotate.IgnoreMissingChildren(false))
	}
	return os
}

// change builds a fresh osm.Change (deep copies) from the model.
func (m *c13Model) change() *osm.Change {
	ch := &osm.Change{Version: "0.6", Generator: "verif-c13"}
	secs := [3]*osm.OSM{}
	for s := 0; s < 3; s++ {
		if !m.secNil[s] {
			secs[s] = &osm.OSM{}
		}
	}
	for _, it := range m.items {
		if secs[it.sec] == nil {
			secs[it.sec] = &osm.OSM{}
		}
		c := it.el.clone()
		switch c.kind {
		case c13Node:
			secs[it.sec].Nodes = append(secs[it.sec].Nodes, c.n)
		case c13Way:
			secs[it.sec].Ways = append(secs[it.sec].Ways, c.w)
		default:
			secs[it.sec].Relations = append(secs[it.sec].Relations, c.r)
		}
	}
	ch.Create, ch.Modify, ch.Delete = secs[0], secs[1], secs[2]
	return ch
}

func (m *c13Model) sortedKeys() []c13Key {
	var ks []c13Key
	for k := range m.hist {
		ks = append(ks, k)
	}
	sort.Slice(ks, func(i, j int) bool {
		if ks[i].kind != ks[j].kind {
			return ks[i].kind < ks[j].kind
		}
		return ks[i].id < ks[j].id
	})
	return ks
}

// single returns the sub-model holding only item i with its history and fault.
func (m *c13Model) single(i int) *c13Model {
	it := m.items[i]
	s := &c13Model{items: []c13Item{it}, secNil: [3]bool{true, true, true}, hist: map[c13Key]*c13Hist{}, opt: m.opt, mode: m.mode, fault: map[c13Key]int{}, direct: m.direct, phased: m.phased, ctxMode: m.ctxMode, ctxK: m.ctxK, honour: m.honour}
	k := it.el.key()
	if h, ok := m.hist[k]; ok {
		s.hist[k] = &c13Hist{present: h.present, entries: append([]c13El(nil), h.entries...)}
	}
	if f, ok := m.fault[k]; ok {
		s.fault[k] = f
	}
	return s
}

func (m *c13Model) describe() map[string]any {
	d := map[string]any{"option": c13OptStr(m.opt), "datasource": m.dsName(), "context": m.ctxName()}
	secs := map[string][]string{}
	for _, it := range m.items {
		secs[c13SecName[it.sec]] = append(secs[c13SecName[it.sec]], it.el.str())
	}
	d["change"] = secs
	hs := map[string]any{}
	for _, k := range m.sortedKeys() {
		h := m.hist[k]
		if !h.present {
			hs[k.String()] = "not-found"
			continue
		}
		vs := []string{}
		for _, e := range h.entries {
			vs = append(vs, fmt.Sprintf("v%d(visible=%v,changeset=%d)", e.ver(), e.vis(), c13Changeset(e)))
		}
		hs[k.String()] = vs
	}
	d["histories_in_datasource_order"] = hs
	if m.built() {
		d["history_source_object"] = m.describeSource()
	}
	if len(m.fault) > 0 {
		fs := map[string]string{}
		for k, f := range m.fault {
			fs[k.String()] = c13FaultName[f]
		}
		d["injected_error"] = fs
	}
	return d
}

func c13Changeset(e c13El) int64 {
	switch e.kind {
	case c13Node:
		return int64(e.n.ChangesetID)
	case c13Way:
		return int64(e.w.ChangesetID)
	}
	return int64(e.r.ChangesetID)
}

// ---------------------------------------------------------------------------------------
// datasource wrapper: implements osm.HistoryDatasourcer, records calls, injects errors

type c13NotFound struct{ id c13Key }

func (e *c13NotFound) Error() string { return "c13: nothing stored for " + e.id.String() }

var errC13NotFound = errors.New("c13: feature unknown to the datasource")

// c13Injected is the non-not-found error; each datasource owns one instance so that
// errors.Is against the pointer identifies exactly the injected value.
type c13Injected struct {
	what    string
	wrapped error
}

func (e *c13Injected) Error() string { return "c13 injected backend failure: " + e.what }
func (e *c13Injected) Unwrap() error { return e.wrapped }

type c13DS struct {
	mode      int
	nodes     map[osm.NodeID]osm.Nodes
	ways      map[osm.WayID]osm.Ways
	relations map[osm.RelationID]osm.Relations
	lib       *osm.HistoryDatasource
	fault     map[c13Key]int
	injected  *c13Injected
	calls     []string
	nfCalls   int
	// context dimension
	honour   bool
	cancelAt int // cancel at the start of this lookup (1-based; 0 = never)
	cancel   context.CancelFunc
	lookups  int
	ctxErrs  int // lookups answered with ctx.Err()
	// library-built datasources: the object the caller handed to HistoryDatasource()
	srcOSM    *osm.OSM
	srcChange *osm.Change
}

// srcDump is the canonical text of the caller's history source object.
func (ds *c13DS) srcDump() string {
	if ds.srcChange != nil {
		return eq.Dump(ds.srcChange)
	}
	return eq.Dump(ds.srcOSM)
}

// c13NewDS builds the datasource of a model; reuse != nil: build it once more from the very
// source object a previous execution handed to the library.
func c13NewDS(m *c13Model, reuse *c13DS) *c13DS {
	if m.built() {
		ds := &c13DS{mode: m.mode, fault: map[c13Key]int{}, injected: &c13Injected{what: "connection reset"}}
		if reuse != nil {
			ds.srcOSM, ds.srcChange = reuse.srcOSM, reuse.srcChange
		} else {
			ds.srcOSM, ds.srcChange = m.source()
		}
		if ds.srcChange != nil {
			ds.lib = ds.srcChange.HistoryDatasource()
		} else {
			ds.lib = ds.srcOSM.HistoryDatasource()
		}
		ds.nodes, ds.ways, ds.relations = ds.lib.Nodes, ds.lib.Ways, ds.lib.Relations
		for k, f := range m.fault {
			ds.fault[k] = f
		}
		return ds
	}
	ds := &c13DS{mode: m.mode, nodes: map[osm.NodeID]osm.Nodes{}, ways: map[osm.WayID]osm.Ways{}, relations: map[osm.RelationID]osm.Relations{},
		fault: map[c13Key]int{}, injected: &c13Injected{what: "connection reset"}}
	for k, h := range m.hist {
		if !h.present {
			continue
		}
		switch k.kind {
		case c13Node:
			l := osm.Nodes{}
			for _, e := range h.entries[:m.cut(h)] {
				l = append(l, e.clone().n)
			}
			ds.nodes[osm.NodeID(k.id)] = l
		case c13Way:
			l := osm.Ways{}
			for _, e := range h.entries[:m.cut(h)] {
				l = append(l, e.clone().w)
			}
			ds.ways[osm.WayID(k.id)] = l
		default:
			l := osm.Relations{}
			for _, e := range h.entries[:m.cut(h)] {
				l = append(l, e.clone().r)
			}
			ds.relations[osm.RelationID(k.id)] = l
		}
	}
	if m.mode == c13DSLibMap {
		ds.lib = &osm.HistoryDatasource{Nodes: ds.nodes, Ways: ds.ways, Relations: ds.relations}
	}
	for k, f := range m.fault {
		ds.fault[k] = f
	}
	return ds
}

// ctxHook is the lookup hook of the context dimension: it cancels the context at the chosen
// lookup and, for a datasource that honours the context, fails the lookup on a done context.
func (ds *c13DS) ctxHook(ctx context.Context) error {
	ds.lookups++
	if ds.cancelAt > 0 && ds.lookups == ds.cancelAt && ds.cancel != nil {
		ds.cancel()
	}
	if ds.honour {
		if err := ctx.Err(); err != nil {
			ds.ctxErrs++
			return err
		}
	}
	return nil
}

// appendLate adds the versions that did not exist at construction time through the map fields.
func (ds *c13DS) appendLate(m *c13Model) {
	for _, k := range m.sortedKeys() {
		h := m.hist[k]
		if !h.present {
			continue
		}
		for _, e := range h.entries[m.cut(h):] {
			c := e.clone()
			switch k.kind {
			case c13Node:
				if ds.nodes == nil {
					ds.nodes = map[osm.NodeID]osm.Nodes{}
				}
				ds.nodes[osm.NodeID(k.id)] = append(ds.nodes[osm.NodeID(k.id)], c.n)
			case c13Way:
				if ds.ways == nil {
					ds.ways = map[osm.WayID]osm.Ways{}
				}
				ds.ways[osm.WayID(k.id)] = append(ds.ways[osm.WayID(k.id)], c.w)
			default:
				if ds.relations == nil {
					ds.relations = map[osm.RelationID]osm.Relations{}
				}
				ds.relations[osm.RelationID(k.id)] = append(ds.relations[osm.RelationID(k.id)], c.r)
			}
		}
	}
	if ds.lib != nil {
		ds.lib.Nodes, ds.lib.Ways, ds.lib.Relations = ds.nodes, ds.ways, ds.relations
	}
}

func (ds *c13DS) notFoundErr(id c13Key) error {
	switch ds.mode {
	case c13DSTyped:
		return fmt.Errorf("lookup %v: %w", id, &c13NotFound{id: id})
	case c13DSLibMap, c13DSFromOSM, c13DSFromChange:
		// obtain the library datasource's own not-found value through its public API
		_, err := (&osm.HistoryDatasource{}).NodeHistory(context.Background(), 0)
		return err
	}
	return errC13NotFound
}

// faultFor returns the flavour and the error injected for the feature (nil: none).
func (ds *c13DS) faultFor(id c13Key) (int, error) {
	f, ok := ds.fault[id]
	if !ok {
		return 0, nil
	}
	if f == c13FaultWrapsNF {
		// wrap something that only LOOKS like the datasource's not-found error (same text,
		// another value). Wrapping the real one would demand that a NotFound test ignores
		// wrapped not-found errors, which the property does not say: a library whose NotFound
		// uses errors.Is is as right as one that compares identity (false alarm on the
		// behaviour-preserving patch core3-5, corrected).
		ds.injected.wrapped = errors.New(ds.notFoundErr(id).Error())
	}
	return f, ds.injected
}

func (ds *c13DS) NodeHistory(ctx context.Context, id osm.NodeID) (osm.Nodes, error) {
	k := c13Key{c13Node, int64(id)}
	ds.calls = append(ds.calls, k.String())
	if err := ds.ctxHook(ctx); err != nil {
		return nil, err
	}
	if f, err := ds.faultFor(k); err != nil {
		if f == c13FaultWithHis {
			return ds.nodes[id], err
		}
		return nil, err
	}
	if ds.lib != nil {
		return ds.lib.NodeHistory(ctx, id)
	}
	h, ok := ds.nodes[id]
	if !ok {
		return nil, ds.notFoundErr(k)
	}
	return h, nil
}

func (ds *c13DS) WayHistory(ctx context.Context, id osm.WayID) (osm.Ways, error) {
	k := c13Key{c13Way, int64(id)}
	ds.calls = append(ds.calls, k.String())
	if err := ds.ctxHook(ctx); err != nil {
		return nil, err
	}
	if f, err := ds.faultFor(k); err != nil {
		if f == c13FaultWithHis {
			return ds.ways[id], err
		}
		return nil, err
	}
	if ds.lib != nil {
		return ds.lib.WayHistory(ctx, id)
	}
	h, ok := ds.ways[id]
	if !ok {
		return nil, ds.notFoundErr(k)
	}
	return h, nil
}

func (ds *c13DS) RelationHistory(ctx context.Context, id osm.RelationID) (osm.Relations, error) {
	k := c13Key{c13Rel, int64(id)}
	ds.calls = append(ds.calls, k.String())
	if err := ds.ctxHook(ctx); err != nil {
		return nil, err
	}
	if f, err := ds.faultFor(k); err != nil {
		if f == c13FaultWithHis {
			return ds.relations[id], err
		}
		return nil, err
	}
	if ds.lib != nil {
		return ds.lib.RelationHistory(ctx, id)
	}
	h, ok := ds.relations[id]
	if !ok {
		return nil, ds.notFoundErr(k)
	}
	return h, nil
}

func (ds *c13DS) NotFound(err error) bool {
	ds.nfCalls++
	switch ds.mode {
	case c13DSTyped:
		var nf *c13NotFound
		return errors.As(err, &nf)
	case c13DSLibMap, c13DSFromOSM, c13DSFromChange:
		return ds.lib.NotFound(err)
	}
	return err == errC13NotFound
}

var _ osm.HistoryDatasourcer = (*c13DS)(nil)

// ---------------------------------------------------------------------------------------
// one observed execution

type c13Out struct {
	ctxErr error // ctx.Err() after the observed call
	diff   *osm.Diff
	err    error
	ds     *c13DS
	change *osm.Change
	pan    string
}

func c13Run(m *c13Model) c13Out { return c13RunReuse(m, nil) }

func c13RunReuse(m *c13Model, reuse *c13DS) (out c13Out) {
	m.normalize()
	out.change = m.change()
	defer func() {
		if x := recover(); x != nil {
			out.pan = fmt.Sprintf("%v\n%s", x, debug.Stack())
		}
	}()
	out.ds = c13NewDS(m, reuse)
	var target osm.HistoryDatasourcer = out.ds
	if m.direct && m.canDirect() {
		target = out.ds.lib
	}
	if m.phased {
		annotate.Change(context.Background(), m.change(), target, m.options()...) // first use; not the observed call
		out.ds.calls, out.ds.nfCalls = nil, 0
		out.ds.appendLate(m)
	}
	ctx, cancel := context.WithCancel(context.Background())
	defer cancel()
	switch m.ctxMode {
	case c13CtxCancelled:
		cancel()
	case c13CtxDeadlinePast:
		var c2 context.CancelFunc
		ctx, c2 = context.WithDeadline(ctx, time.Unix(1, 0))
		defer c2()
	case c13CtxCancelAtLookup:
		out.ds.cancelAt, out.ds.cancel = m.ctxK, cancel
	}
	out.ds.honour, out.ds.lookups, out.ds.ctxErrs = m.honour, 0, 0
	out.diff, out.err = annotate.Change(ctx, out.change, target, m.options()...)
	out.ctxErr = ctx.Err()
	return out
}

// c13ErrUnusable says why a non-nil error value cannot be used as an error: it holds a nil
// pointer (the classic typed-nil stored in an interface) or its Error method panics.
func c13ErrUnusable(err error) (why string) {
	if err == nil {
		return ""
	}
	if v := reflect.ValueOf(err); v.Kind() == reflect.Ptr && v.IsNil() {
		return fmt.Sprintf("the error interface is non-nil but holds a nil %T", err)
	}
	defer func() {
		if x := recover(); x != nil {
			why = fmt.Sprintf("calling Error() on the returned %T panics: %v", err, x)
		}
	}()
	_ = err.Error()
	return ""
}

// errClass reduces an error to what the property distinguishes (never its text).
func (o c13Out) errClass() string {
	if o.pan != "" {
		return "panic"
	}
	if o.err == nil {
		return "nil"
	}
	if why := c13ErrUnusable(o.err); why != "" {
		return "unusable-error"
	}
	if errors.Is(o.err, error(o.ds.injected)) {
		return "injected"
	}
	if errors.Is(o.err, context.Canceled) {
		return "context.Canceled"
	}
	if errors.Is(o.err, context.DeadlineExceeded) {
		return "context.DeadlineExceeded"
	}
	var nv *annotate.NoVisibleChildError
	if errors.As(o.err, &nv) && nv != nil {
		return fmt.Sprintf("NoVisibleChildError(%#x)", int64(nv.ID))
	}
	return fmt.Sprintf("other(%T)", o.err)
}

// canon is the canonical text of everything the property speaks about in an outcome.
func (o c13Out) canon() string {
	var sb strings.Builder
	sb.WriteString("err=" + o.errClass() + "\n")
	if o.diff != nil && o.err == nil {
		for _, a := range o.diff.Actions {
			sb.WriteString(string(a.Type) + " osm=" + c13DumpList(c13Elems(a.OSM)) + " old=" + c13DumpList(c13Elems(a.Old)) + " new=" + c13DumpList(c13Elems(a.New)) + "\n")
		}
	}
	return sb.String()
}

func c13DumpList(es []c13El) string {
	var ss []string
	for _, e := range es {
		ss = append(ss, e.dump())
	}
	return "[" + strings.Join(ss, " ") + "]"
}

// ---------------------------------------------------------------------------------------
// reference model of the documented rules

const (
	c13StOK       = iota // paired with an old version
	c13StMissing         // history not found, or no version below the element's own
	c13StInjected        // the datasource fails with a non-not-found error
	c13StCreate          // element of the create section
)

type c13Exp struct {
	status  int
	typ     osm.ActionType // expected action type when no error is expected
	newDump string         // expected new / created element
	oldVer  int
	oldDump map[string]bool // acceptable old elements (several only when the greatest version below is duplicated)
	rankSrc int             // section*3+kind
	rankOut int             // resulting action type*3+kind
}

// c13Prev is the reference predecessor search: order the history by version, descending, and
// take the entries of the first version that is below v.
func c13Prev(h *c13Hist, v int) []c13El {
	if h == nil || !h.present {
		return nil
	}
	s := append([]c13El(nil), h.entries...)
	sort.SliceStable(s, func(i, j int) bool { return s[i].ver() > s[j].ver() })
	var out []c13El
	for _, e := range s {
		if e.ver() >= v {
			continue
		}
		if len(out) > 0 && e.ver() != out[0].ver() {
			break
		}
		out = append(out, e)
	}
	return out
}

func c13Expect(m *c13Model) []c13Exp {
	exps := make([]c13Exp, len(m.items))
	for i, it := range m.items {
		x := &exps[i]
		x.rankSrc = it.sec*3 + it.el.kind
		if it.sec == c13Create {
			x.status, x.typ, x.rankOut = c13StCreate, osm.ActionCreate, it.el.kind
			x.newDump = it.el.withVis(true).dump()
			continue
		}
		if _, bad := m.fault[it.el.key()]; bad {
			x.status = c13StInjected
			continue
		}
		prev := c13Prev(m.hist[it.el.key()], it.el.ver())
		if len(prev) == 0 {
			x.status = c13StMissing
			if m.ignore() {
				x.typ, x.rankOut = osm.ActionCreate, it.el.kind
				x.newDump = it.el.withVis(true).dump()
			}
			continue
		}
		x.status, x.typ, x.rankOut = c13StOK, c13SecType[it.sec], x.rankSrc
		x.newDump = it.el.withVis(it.sec == c13Modify).dump()
		x.oldVer = prev[0].ver()
		x.oldDump = map[string]bool{}
		for _, p := range prev {
			x.oldDump[p.dump()] = true
		}
	}
	return exps
}

// c13Class names the history shape of an item: a primary class (used in violation keys) and
// the full feature list (used in signatures and details).
func c13Class(m *c13Model, it c13Item) (string, []string) {
	if it.sec == c13Create {
		return "create", []string{"create"}
	}
	k := it.el.key()
	if _, bad := m.fault[k]; bad {
		return "injected-error", []string{"injected-error"}
	}
	h := m.hist[k]
	if h == nil || !h.present {
		return "missing", []string{"missing"}
	}
	if len(h.entries) == 0 {
		return "empty", []string{"empty"}
	}
	v := it.el.ver()
	own, later, below, unsorted := 0, 0, 0, false
	best, bestN := -1, 0
	for i, e := range h.entries {
		switch {
		case e.ver() == v:
			own++
		case e.ver() > v:
			later++
		default:
			below++
			if e.ver() > best {
				best, bestN = e.ver(), 1
			} else if e.ver() == best {
				bestN++
			}
		}
		if i > 0 && e.ver() < h.entries[i-1].ver() {
			unsorted = true
		}
	}
	if below == 0 {
		switch {
		case own > 0 && later > 0:
			return "only-own-and-later", []string{"only-own-and-later"}
		case own > 0:
			return "only-own", []string{"only-own"}
		}
		return "only-later", []string{"only-later"}
	}
	var feats []string
	if bestN > 1 {
		feats = append(feats, "dup-prev")
	}
	if own > 0 {
		feats = append(feats, "dup-own")
	}
	if later > 0 {
		feats = append(feats, "later")
	}
	if best < v-1 {
		feats = append(feats, "gap")
	}
	if unsorted {
		feats = append(feats, "unsorted")
	}
	if below > 1 {
		feats = append(feats, "several-below")
	}
	if len(feats) == 0 {
		return "plain", []string{"plain"}
	}
	return feats[0], feats
}

// ---------------------------------------------------------------------------------------
// oracle

type c13Finding struct {
	sub  string // stable sub-check name
	item int    // index of the element concerned, -1 when it is about the whole diff
	what string
}

func c13Check(m *c13Model, out c13Out) []c13Finding {
	fs, _ := c13CheckObs(m, out)
	return fs
}

// c13CheckObs also tells whether the actions kept the input order inside every cell (an
// observation, not asserted): 1 yes, 0 no, -1 not applicable.
func c13CheckObs(m *c13Model, out c13Out) (fs []c13Finding, inCellOrder int) {
	inCellOrder = -1
	add := func(sub string, item int, format string, a ...any) {
		fs = append(fs, c13Finding{sub, item, fmt.Sprintf(format, a...)})
	}
	if out.pan != "" {
		add("panic", -1, "annotate.Change panicked: %s", out.pan)
		return fs, inCellOrder
	}
	exps := c13Expect(m)
	var injected, missing []int
	for i, x := range exps {
		switch x.status {
		case c13StInjected:
			injected = append(injected, i)
		case c13StMissing:
			if !m.ignore() {
				missing = append(missing, i)
			}
		}
	}
	failing := append(append([]int(nil), injected...), missing...)
	sort.Ints(failing)

	// --- error side: success means err == nil (the interface), failure means an error one can use
	if why := c13ErrUnusable(out.err); why != "" {
		if len(failing) > 0 {
			add("error-unusable", failing[0], "an error is expected for %s, but %s", m.items[failing[0]].el.str(), why)
			return fs, inCellOrder
		}
		item := -1
		for i, x := range exps { // the elements the option turns into creates are the ones with a special path
			if x.status != c13StMissing {
				continue
			}
			if item < 0 {
				item = i
			}
			if s1 := m.single(i); c13ErrUnusable(c13Run(s1).err) != "" { // name the one that fails on its own
				item = i
				break
			}
		}
		add("error-not-nil-on-success", item, "every changed element can be annotated (created, has an earlier version, or missing children are ignored) so err must be nil, but %s", why)
		return fs, inCellOrder
	}
	// --- context dimension: a done context may end the call with its error (returned by the
	// datasource, or by the library itself); a nil error still promises the complete diff, and
	// an error the datasource returned must not be swallowed.
	if out.ctxErr != nil && out.err != nil && errors.Is(out.err, out.ctxErr) {
		return fs, inCellOrder
	}
	if out.err == nil && out.ds.ctxErrs > 0 {
		add("error-swallowed-context", -1, "the datasource answered %d lookups with ctx.Err() (%v) but Change returned no error", out.ds.ctxErrs, out.ctxErr)
		return fs, inCellOrder
	}
	if len(failing) > 0 {
		if out.err == nil {
			i := failing[0]
			if exps[i].status == c13StInjected {
				add("error-swallowed-injected", i, "datasource failed for %s with a non-not-found error but Change returned no error", m.items[i].el.str())
			} else {
				add("error-missed", i, "%s has no earlier version in its history (or no history) and missing children are not ignored, but Change returned no error", m.items[i].el.str())
			}
			return fs, inCellOrder
		}
		if errors.Is(out.err, error(out.ds.injected)) {
			if len(injected) == 0 {
				add("error-injected-unexpected", -1, "injected error returned although no changed element reaches the failing feature")
			}
			return fs, inCellOrder
		}
		var nv *annotate.NoVisibleChildError
		if errors.As(out.err, &nv) && nv != nil {
			if len(missing) == 0 {
				add("error-injected-not-returned", injected[0], "datasource error for %s must be returned as is, got a *NoVisibleChildError for feature id %#x", m.items[injected[0]].el.str(), int64(nv.ID))
				return fs, inCellOrder
			}
			for _, i := range missing {
				if m.items[i].el.fid() == nv.ID {
					return fs, inCellOrder
				}
			}
			for _, i := range missing {
				if !c13Packable(m.items[i].el.id()) {
					// a FeatureID cannot name an id outside [0, 2^40): the ID field is not asserted then
					return fs, inCellOrder
				}
			}
			add("error-id", missing[0], "*NoVisibleChildError names %#x, which is not one of the elements without an earlier version (first of them: %s)", int64(nv.ID), m.items[missing[0]].el.str())
			return fs, inCellOrder
		}
		if len(missing) == 0 {
			add("error-injected-not-returned", injected[0], "datasource error for %s must be returned as is (errors.Is), got %T", m.items[injected[0]].el.str(), out.err)
		} else if len(injected) == 0 {
			add("error-not-typed", missing[0], "missing history / earlier version of %s must be reported as *annotate.NoVisibleChildError (errors.As), got %T", m.items[missing[0]].el.str(), out.err)
		} else {
			add("error-not-typed", failing[0], "expected the injected error or a *NoVisibleChildError, got %T", out.err)
		}
		return fs, inCellOrder
	}
	if out.err != nil {
		item := -1
		var nv *annotate.NoVisibleChildError
		if errors.As(out.err, &nv) && nv != nil {
			for i, it := range m.items { // prefer the element the option should have turned into a create
				if it.el.fid() == nv.ID && it.sec != c13Create && (item < 0 || (exps[i].status == c13StMissing && exps[item].status != c13StMissing)) {
					item = i
				}
			}
		}
		add("error-unexpected", item, "every changed element has an earlier version (or is created, or missing children are ignored) but Change returned error class %s", out.errClass())
		return fs, inCellOrder
	}
	if out.diff == nil {
		add("nil-diff", -1, "Change returned neither a diff nor an error")
		return fs, inCellOrder
	}

	// --- one action per changed element
	acts := out.diff.Actions
	if len(acts) != len(m.items) {
		add("action-count", -1, "%d actions for %d changed elements", len(acts), len(m.items))
	}
	index := map[string][]int{} // kind/id/version -> items
	for i, it := range m.items {
		k := fmt.Sprintf("%d/%d/%d", it.el.kind, it.el.id(), it.el.ver())
		index[k] = append(index[k], i)
	}
	matched := make([]bool, len(m.items))
	var order []int // matched item per action, in action order
	for ai, a := range acts {
		emb, old, nw := c13Elems(a.OSM), c13Elems(a.Old), c13Elems(a.New)
		var subject c13El
		switch a.Type {
		case osm.ActionCreate:
			if len(emb) != 1 || len(old) != 0 || len(nw) != 0 {
				add("action-shape-create", -1, "action %d (create) carries %d/%d/%d elements in OSM/Old/New, want 1/0/0", ai, len(emb), len(old), len(nw))
				continue
			}
			subject = emb[0]
		case osm.ActionModify, osm.ActionDelete:
			if len(emb) != 0 || len(old) != 1 || len(nw) != 1 {
				add("action-shape-"+string(a.Type), -1, "action %d (%s) carries %d/%d/%d elements in OSM/Old/New, want 0/1/1", ai, a.Type, len(emb), len(old), len(nw))
				continue
			}
			subject = nw[0]
		default:
			add("action-type-unknown", -1, "action %d has type %q", ai, a.Type)
			continue
		}
		cands := index[fmt.Sprintf("%d/%d/%d", subject.kind, subject.id(), subject.ver())]
		pick := -1
		for _, i := range cands { // exact match first
			if matched[i] {
				continue
			}
			x := exps[i]
			if a.Type == x.typ && subject.dump() == x.newDump && (a.Type == osm.ActionCreate || x.oldDump[old[0].dump()]) {
				pick = i
				break
			}
		}
		exact := pick >= 0
		if pick < 0 {
			for _, i := range cands {
				if !matched[i] {
					pick = i
					break
				}
			}
		}
		if pick < 0 {
			add("action-unexpected", -1, "action %d (%s %s) corresponds to no changed element (or to one that already has its action)", ai, a.Type, subject.str())
			continue
		}
		matched[pick] = true
		order = append(order, pick)
		if exact {
			continue
		}
		x, it := exps[pick], m.items[pick]
		if a.Type != x.typ {
			sub := "action-type"
			if x.status == c13StMissing {
				sub = "action-type-ignored-missing"
			}
			add(sub, pick, "%s of section %s became a %q action, want %q", it.el.str(), c13SecName[it.sec], a.Type, x.typ)
			continue
		}
		if a.Type == osm.ActionCreate {
			if !subject.vis() {
				sub := "create-visible"
				if it.sec != c13Create {
					sub = "create-visible-ignored-missing"
				}
				add(sub, pick, "create action for %s (section %s) is not marked visible", it.el.str(), c13SecName[it.sec])
			} else {
				add("create-content", pick, "created element differs from the input element: %s", eq.Diff(x.newDump, subject.dump()))
			}
			continue
		}
		o := old[0]
		if !x.oldDump[o.dump()] {
			switch {
			case o.kind != it.el.kind || o.id() != it.el.id():
				add("old-element", pick, "old state of %s is %s, a different feature", it.el.str(), o.str())
			case o.ver() != x.oldVer:
				add("old-version", pick, "old state of %s is version %d, want %d (greatest history version below %d)", it.el.str(), o.ver(), x.oldVer, it.el.ver())
			default:
				add("old-content", pick, "old state of %s has the right version but is not the history entry as stored", it.el.str())
			}
		}
		if subject.dump() != x.newDump {
			if want := it.sec == c13Modify; subject.vis() != want {
				add("new-visible-"+c13SecName[it.sec], pick, "new state of %s in a %s action has visible=%v, want %v", it.el.str(), a.Type, subject.vis(), want)
			} else {
				add("new-content", pick, "new state differs from the input element: %s", eq.Diff(x.newDump, subject.dump()))
			}
		}
	}
	for i, ok := range matched {
		if !ok {
			add("action-missing", i, "no action for %s of section %s", m.items[i].el.str(), c13SecName[m.items[i].sec])
		}
	}

	// --- order: create, modify, delete; node, way, relation inside each. Elements turned into
	// creates by the option may stand where their section stands or among the creates.
	sorted := func(rank func(int) int) (bool, int) {
		for j := 1; j < len(order); j++ {
			if rank(order[j]) < rank(order[j-1]) {
				return false, j
			}
		}
		return true, 0
	}
	okSrc, at := sorted(func(i int) int { return exps[i].rankSrc })
	okOut, _ := sorted(func(i int) int { return exps[i].rankOut })
	if !okSrc && !okOut {
		a, b := m.items[order[at-1]], m.items[order[at]]
		sub := "order-kind"
		if a.sec != b.sec {
			sub = "order-section"
		}
		add(sub, -1, "action %d (%s %s) follows action %d (%s %s)", at, c13SecName[b.sec], b.el.str(), at-1, c13SecName[a.sec], a.el.str())
	}
	inCellOrder = 1
	for j := 1; j < len(order); j++ {
		if exps[order[j]].rankSrc == exps[order[j-1]].rankSrc && order[j] < order[j-1] {
			inCellOrder = 0
		}
	}
	return fs, inCellOrder
}

func c13Has(fs []c13Finding, sub string) bool {
	for _, f := range fs {
		if f.sub == sub {
			return true
		}
	}
	return false
}

// c13Shrink reduces the failing element to a one-element change with the smallest history on
// which the same sub-check still fails; the violation key is derived from that. ok=false when
// the finding does not reproduce in isolation (it depends on the other elements).
func c13Shrink(m *c13Model, f c13Finding) (*c13Model, bool) {
	s := m.single(f.item)
	if !c13Has(c13Check(s, c13Run(s)), f.sub) {
		return nil, false
	}
	k := s.items[0].el.key()
	h := s.hist[k]
	if h == nil {
		return s, true
	}
	for changed := true; changed; {
		changed = false
		for i := 0; i < len(h.entries); i++ {
			keep := h.entries
			h.entries = append(append([]c13El(nil), keep[:i]...), keep[i+1:]...)
			if c13Has(c13Check(s, c13Run(s)), f.sub) {
				changed = true
				i--
			} else {
				h.entries = keep
			}
		}
	}
	return s, true
}

// c13Judge executes the model, evaluates the oracle and records evidence and violations.
func c13Judge(res *fw.Result, m *c13Model, c fw.Case, record bool) {
	out := c13Run(m)
	fs, inCell := c13CheckObs(m, out)
	if inCell == 1 {
		res.Add("diffs_keeping_input_order_inside_cells", 1)
	} else if inCell == 0 {
		res.Add("diffs_reordering_inside_cells", 1)
	}

	// equal inputs give equal outputs (fresh deep copies of the same model)
	out2 := c13Run(m)
	if a, b := out.canon(), out2.canon(); a != b {
		fs = append(fs, c13Finding{"determinism", -1, "two executions on equal inputs differ: " + eq.Diff(a, b)})
	}
	// library-built datasource: the caller's history object must still say the same afterwards
	srcModified := false
	if m.built() && out.ds != nil {
		po, pc := m.source()
		pristine := (&c13DS{srcOSM: po, srcChange: pc}).srcDump()
		if srcModified = pristine != out.ds.srcDump(); srcModified {
			res.Add("history_source_objects_modified", 1)
		}
		out3 := c13RunReuse(m, out.ds)
		if a, b := out.canon(), out3.canon(); a != b {
			fs = append(fs, c13Finding{"history-source-reuse", -1, "a datasource built a second time from the same history object gives another result (history object modified: " + fmt.Sprint(srcModified) + "): " + eq.Diff(a, b)})
		}
		res.Add("library_built_datasources", 1)
	}

	// evidence
	exps := c13Expect(m)
	cells := 0
	for i, it := range m.items {
		cells |= 1 << uint(it.sec*3+it.el.kind)
		_, feats := c13Class(m, it)
		outcome := [...]string{"paired", "missing", "injected", "create"}[exps[i].status]
		ign := "strict"
		if m.ignore() {
			ign = "ignore"
		}
		res.Eval(c13SecName[it.sec] + "/" + c13KindName[it.el.kind] + "/" + strings.Join(feats, "+") + "/" + ign + "/" + outcome)
	}
	res.Eval(fmt.Sprintf("change/cells=%09b/opt=%d/ds=%d,direct=%v,phased=%v/ctx=%d,honour=%v/err=%v", cells, m.opt, m.mode, m.direct && m.canDirect(), m.phased, m.ctxMode, m.honour, strings.SplitN(out.errClass(), "(", 2)[0]))
	res.Event(int64(len(out.ds.calls) + out.ds.nfCalls))
	if out.diff != nil {
		res.Event(int64(len(out.diff.Actions)))
		res.Add("actions_observed", int64(len(out.diff.Actions)))
	}
	if m.direct && m.canDirect() {
		res.Add("changes_annotated_with_concrete_HistoryDatasource", 1)
	}
	if m.phased {
		res.Add("changes_annotated_after_appending_to_datasource", 1)
	}
	if out.ctxErr != nil { // what the library does with a done context: observation
		switch {
		case out.err == nil:
			res.Add("done_context_runs_ending_without_error", 1)
		case errors.Is(out.err, out.ctxErr) && out.ds.ctxErrs > 0:
			res.Add("done_context_runs_returning_the_datasource_ctx_error", 1)
		case errors.Is(out.err, out.ctxErr):
			res.Add("done_context_runs_returning_ctx_error_without_datasource_error", 1)
		default:
			res.Add("done_context_runs_returning_another_error", 1)
		}
	}
	res.Add("history_calls", int64(len(out.ds.calls)))
	res.Add("notfound_calls", int64(out.ds.nfCalls))
	res.Put("error_classes", strings.SplitN(out.errClass(), "(", 2)[0])
	if c.Kind == "random" {
		res.Add("random_outcome_"+strings.SplitN(out.errClass(), "(", 2)[0], 1)
		if out.err == nil && out.diff != nil {
			res.Add("random_actions_compared", int64(len(out.diff.Actions)))
			for _, a := range out.diff.Actions {
				res.Add("random_actions_"+string(a.Type), 1)
			}
		}
	}
	res.SetMax("elements_per_change_max", int64(len(m.items)))
	// observation only: what the call did to its input beyond the visible flags
	pristine := m.change()
	if eq.Dump(pristine) != eq.Dump(out.change) {
		res.Add("input_changes_with_visible_flag_rewritten", 1)
		if c13DumpNoVisible(pristine) != c13DumpNoVisible(out.change) {
			res.Add("input_changes_modified_beyond_visible", 1)
		}
	}

	// violations
	seen := map[string]bool{}
	for _, f := range fs {
		key := "C13/" + f.sub
		detail := map[string]any{"input": m.describe(), "observed_error_class": out.errClass()}
		if f.item >= 0 {
			it := m.items[f.item]
			cls, feats := c13Class(m, it)
			detail["element"] = c13SecName[it.sec] + " " + it.el.str()
			detail["history_features"] = feats
			if s, ok := c13Shrink(m, f); ok {
				cls, feats = c13Class(s, s.items[0])
				detail["minimal_input"] = s.describe()
				detail["minimal_history_features"] = feats
				detail["minimal_observed"] = c13Run(s).canon()
			} else {
				cls = "in-context" // fails only together with the other elements of the change
				if m.built() {
					cls = "in-context-built-datasource" // ... or with the other histories of the source object
					detail["history_source_object_modified"] = srcModified
				}
			}
			key += "/" + c13KindName[it.el.kind] + "/" + cls
		}
		if seen[key] || len(seen) >= 6 {
			continue
		}
		seen[key] = true
		if out.diff != nil && out.err == nil && len(m.items) <= 6 {
			detail["observed"] = out.canon()
		}
		res.Violate(key, f.what, detail)
	}
	if record || len(fs) > 0 {
		d := m.describe()
		d["observed_error_class"] = out.errClass()
		if out.diff != nil {
			var as []string
			for _, a := range out.diff.Actions {
				s := string(a.Type)
				for _, e := range c13Elems(a.OSM) {
					s += " " + e.str()
				}
				for _, e := range c13Elems(a.Old) {
					s += " old=" + e.str()
				}
				for _, e := range c13Elems(a.New) {
					s += " new=" + e.str()
				}
				as = append(as, s)
			}
			d["observed_actions"] = as
		}
		d["datasource_calls"] = out.ds.calls
		res.Sample = d
	}
}

// c13RotateCtx gives the enumerated models the context dimension in rotation: half of them
// Background, the others cancelled / past deadline / cancelled at lookup 1 or 2, datasource
// ignoring or honouring the context.
func c13RotateCtx(m *c13Model, x int) {
	x %= 12
	if x < 6 {
		return
	}
	m.ctxMode, m.honour, m.ctxK = []int{c13CtxCancelled, c13CtxDeadlinePast, c13CtxCancelAtLookup}[x%3], x >= 9, 1+x%2
	if m.direct && m.canDirect() {
		m.honour = false
		if m.ctxMode == c13CtxCancelAtLookup {
			m.ctxMode = c13CtxCancelled
		}
	}
}

func c13Bits(x int) int {
	n := 0
	for ; x > 0; x >>= 1 {
		n += x & 1
	}
	return n
}

func c13DumpNoVisible(ch *osm.Change) string {
	return eq.DumpWith(ch, eq.Options{SkipFields: map[string]bool{"Node.Visible": true, "Way.Visible": true, "Relation.Visible": true}})
}

// ---------------------------------------------------------------------------------------
// generators

var c13BigVersions = []int{255, 256, 1000, 65535, 65536, 1<<31 - 1}

func c13GenHistory(r *gen.R, kind int, id int64, clean bool) *c13Hist {
	switch x := r.Intn(100); {
	case clean:
	case x < 12:
		return &c13Hist{present: false}
	case x < 17:
		return &c13Hist{present: true}
	}
	var vs []int
	switch x := r.Intn(10); {
	case x < 3: // contiguous 1..n
		for v, n := 1, r.Range(1, 7); v <= n; v++ {
			vs = append(vs, v)
		}
	case x < 9: // subset of 1..10 (gaps)
		for v := 1; v <= 10; v++ {
			if r.Chance(0.45) {
				vs = append(vs, v)
			}
		}
		if len(vs) == 0 {
			vs = []int{r.Range(1, 10)}
		}
	default: // some large versions
		vs = []int{r.Range(1, 5), r.Range(6, 200)}
		for _, b := range c13BigVersions {
			if r.Chance(0.4) {
				vs = append(vs, b)
			}
		}
	}
	if r.Chance(0.2) { // duplicated version numbers with different content
		for i, n := 0, r.Range(1, 2); i < n; i++ {
			vs = append(vs, vs[r.Intn(len(vs))])
		}
	}
	switch x := r.Intn(100); {
	case x < 30:
		sort.Ints(vs)
	case x < 45:
		sort.Sort(sort.Reverse(sort.IntSlice(vs)))
	default:
		r.Shuffle(len(vs), func(i, j int) { vs[i], vs[j] = vs[j], vs[i] })
	}
	h := &c13Hist{present: true}
	for _, v := range vs {
		h.entries = append(h.entries, c13MakeEl(r, kind, id, v, true))
	}
	return h
}

// c13PickVersion chooses the version of a changed element relative to the history of its
// feature; clean = always leave at least one history version below it.
func c13PickVersion(r *gen.R, h *c13Hist, sec int, clean bool) int {
	v := c13PickVersion0(r, h, sec)
	if clean && h != nil {
		for _, e := range h.entries {
			if e.ver() < v {
				return v
			}
		}
		lo := h.entries[0].ver()
		for _, e := range h.entries {
			if e.ver() < lo {
				lo = e.ver()
			}
		}
		return lo + r.Range(1, 3)
	}
	return v
}

func c13PickVersion0(r *gen.R, h *c13Hist, sec int) int {
	if h == nil || !h.present || len(h.entries) == 0 {
		if sec == c13Create && r.Chance(0.7) {
			return 1
		}
		return r.Range(1, 6)
	}
	lo, hi := h.entries[0].ver(), h.entries[0].ver()
	for _, e := range h.entries {
		if e.ver() < lo {
			lo = e.ver()
		}
		if e.ver() > hi {
			hi = e.ver()
		}
	}
	if hi >= 1<<31-1 {
		hi = 1<<31 - 3
	}
	switch x := r.Intn(100); {
	case x < 35:
		return hi + 1
	case x < 50:
		return h.entries[r.Intn(len(h.entries))].ver() // the element's own version is in the history
	case x < 60:
		return h.entries[r.Intn(len(h.entries))].ver() + 1
	case x < 85:
		v := r.Range(lo-1, hi+2)
		if v < 1 {
			v = 1
		}
		return v
	case x < 92:
		return lo // nothing below
	}
	return hi + r.Range(2, 40) // gap to the newest
}

func c13GenModel(r *gen.R) *c13Model {
	m := &c13Model{hist: map[c13Key]*c13Hist{}, fault: map[c13Key]int{}}
	m.mode = r.Intn(c13NModes)
	m.direct = m.canDirect() && r.Bool()
	m.phased = r.Chance(0.2)
	if r.Chance(0.3) {
		m.ctxMode, m.honour, m.ctxK = r.Range(c13CtxCancelled, c13CtxCancelAtLookup), r.Bool(), r.Range(1, 8)
		if m.direct { // no hook on the concrete datasource, and it ignores the context
			m.ctxMode, m.honour = r.Range(c13CtxCancelled, c13CtxDeadlinePast), false
		}
	}
	m.opt = r.Intn(3) // IgnoreMissingChildren absent | true | false, crossed with the options that must not matter
	if r.Chance(0.3) {
		m.opt += 3 * 1 // Threshold
	}
	m.opt += 3 * 2 * r.Pick(0, 0, 0, 1, 1, 1, 2)
	m.opt += 3 * 6 * r.Pick(0, 0, 0, 1, 2)
	// clean: every modified/deleted element has a predecessor, so that also without the option
	// the whole diff is produced and compared; otherwise missing pieces are frequent
	clean := r.Chance(0.45)
	var pools [3][]int64
	for k := 0; k < 3; k++ {
		seen := map[int64]bool{}
		for i, n := 0, r.Range(1, 6); i < n; i++ {
			id := int64(r.Range(1, 9))
			if r.Chance(0.1) {
				id = r.Int64Range(1<<20, 1<<40-1)
			}
			if r.Chance(0.12) {
				id = c13OddIDs[r.Intn(len(c13OddIDs))]
			}
			if !seen[id] {
				seen[id] = true
				pools[k] = append(pools[k], id)
				if clean || r.Chance(0.9) { // else: unknown to the datasource (no map entry at all)
					m.hist[c13Key{k, id}] = c13GenHistory(r, k, id, clean)
				}
			}
		}
	}
	m.normalize()
	if m.built() {
		m.src = c13GenLayout(r, m)
	}
	// cells: sometimes a single cell, sometimes all nine, mostly a random mix
	var want [3][3]int
	switch x := r.Intn(10); {
	case x == 0:
		want[r.Range(1, 2)][r.Intn(3)] = r.Range(1, 3)
	case x == 1:
		for s := 0; s < 3; s++ {
			for k := 0; k < 3; k++ {
				want[s][k] = r.Range(1, 2)
			}
		}
	default:
		for s := 0; s < 3; s++ {
			for k := 0; k < 3; k++ {
				want[s][k] = r.Pick(0, 0, 0, 1, 1, 1, 2, 2, 3, 4)
			}
		}
	}
	used := map[string]bool{}
	for s := 0; s < 3; s++ {
		m.secNil[s] = r.Bool()
		for k := 0; k < 3; k++ {
			for i := 0; i < want[s][k]; i++ {
				if i > 0 && r.Chance(0.05) { // the same element twice in one cell
					prev := m.items[len(m.items)-1]
					m.items = append(m.items, c13Item{s, prev.el.clone()})
					continue
				}
				id := pools[k][r.Intn(len(pools[k]))]
				v := c13PickVersion(r, m.hist[c13Key{k, id}], s, clean && s != c13Create)
				for used[fmt.Sprintf("%d/%d/%d", k, id, v)] {
					v++ // a (kind, id, version) appears in one cell only
				}
				used[fmt.Sprintf("%d/%d/%d", k, id, v)] = true
				m.items = append(m.items, c13Item{s, c13MakeEl(r, k, id, v, true)})
			}
		}
	}
	if r.Chance(0.15) && len(m.items) > 0 && !m.direct {
		it := m.items[r.Intn(len(m.items))] // may be a created element: then the fault must not matter
		m.fault[it.el.key()] = r.Intn(c13NFaults)
	}
	return m
}

// c13GenLayout decides where the history entries stand in the source object of a
// library-built datasource: grouped by feature, randomly interleaved, round robin, or every
// history cut into two runs; for a change as source also which visible versions go to the
// create and which to the modify section (invisible ones stand in the delete section).
func c13GenLayout(r *gen.R, m *c13Model) *[3][3][]c13Ref {
	var per [3][3]map[c13Key][]c13Ref // [section][kind] feature -> refs in history order
	var keys [3][3][]c13Key
	for _, k := range m.sortedKeys() {
		h := m.hist[k]
		if !h.present {
			continue
		}
		nv := 0
		for _, e := range h.entries {
			if e.vis() {
				nv++
			}
		}
		split := r.Range(0, nv)
		for i, e := range h.entries {
			sec := 0
			if m.mode == c13DSFromChange {
				switch {
				case !e.vis():
					sec = c13Delete
				case i >= split:
					sec = c13Modify
				}
			}
			if per[sec][k.kind] == nil {
				per[sec][k.kind] = map[c13Key][]c13Ref{}
			}
			if len(per[sec][k.kind][k]) == 0 {
				keys[sec][k.kind] = append(keys[sec][k.kind], k)
			}
			per[sec][k.kind][k] = append(per[sec][k.kind][k], c13Ref{k, i})
		}
	}
	var l [3][3][]c13Ref
	style := r.Intn(4)
	for sec := 0; sec < 3; sec++ {
		for kind := 0; kind < 3; kind++ {
			ks := keys[sec][kind]
			r.Shuffle(len(ks), func(i, j int) { ks[i], ks[j] = ks[j], ks[i] })
			lists := make([][]c13Ref, len(ks))
			for i, k := range ks {
				lists[i] = per[sec][kind][k]
			}
			var out []c13Ref
			switch style {
			case 0: // grouped
				for _, li := range lists {
					out = append(out, li...)
				}
			case 1: // random interleaving
				for {
					var live []int
					for i, li := range lists {
						if len(li) > 0 {
							live = append(live, i)
						}
					}
					if len(live) == 0 {
						break
					}
					i := live[r.Intn(len(live))]
					out = append(out, lists[i][0])
					lists[i] = lists[i][1:]
				}
			case 2: // round robin
				for more := true; more; {
					more = false
					for i := range lists {
						if len(lists[i]) > 0 {
							out = append(out, lists[i][0])
							lists[i] = lists[i][1:]
							more = true
						}
					}
				}
			default: // two runs per feature
				for _, li := range lists {
					out = append(out, li[:(len(li)+1)/2]...)
				}
				for _, li := range lists {
					out = append(out, li[(len(li)+1)/2:]...)
				}
			}
			l[sec][kind] = out
		}
	}
	return &l
}

// ---------------------------------------------------------------------------------------
// cases

func c13Exec(c fw.Case) *fw.Result {
	res := fw.NewResult()
	switch c.Kind {
	case "random":
		r := gen.New(c.Seed, "c13")
		c13Judge(res, c13GenModel(r), c, true)
	case "enum":
		// small-scope exhaustive: one modified/deleted element of version v, history = every
		// subset of versions 1..6 in several orders, plus duplicated entries, empty and missing.
		sec, kind, ign := int(c.Int("section")), int(c.Int("kind")), c.Int("ignore") == 1
		r := gen.New(c.Seed, "c13enum")
		n, crossed := 0, 0
		for v := 1; v <= 6; v++ {
			for mask := -2; mask < 64; mask++ {
				orders := 5
				if mask <= 0 {
					orders = 1
				}
				for ord := 0; ord < orders; ord++ {
					m := &c13Model{hist: map[c13Key]*c13Hist{}, fault: map[c13Key]int{}, secNil: [3]bool{true, true, true}}
					m.mode = n % c13NModes
					m.direct, m.phased = m.canDirect() && (n/c13NModes)%2 == 1, (n/(2*c13NModes))%3 == 2
					c13RotateCtx(m, n/3)
					imc := []int{c13OptNone, c13OptIgnoreFalse}[n%2]
					if ign {
						imc = c13OptIgnore
					}
					id := int64(7)
					m.items = []c13Item{{sec, c13MakeEl(r, kind, id, v, false)}}
					h := &c13Hist{present: mask != -2}
					if mask > 0 {
						var vs []int
						for b := 0; b < 6; b++ {
							if mask&(1<<uint(b)) != 0 {
								vs = append(vs, b+1)
							}
						}
						switch ord {
						case 1:
							sort.Sort(sort.Reverse(sort.IntSlice(vs)))
						case 2, 3:
							r.Shuffle(len(vs), func(i, j int) { vs[i], vs[j] = vs[j], vs[i] })
						case 4: // every entry twice, shuffled
							vs = append(vs, vs...)
							r.Shuffle(len(vs), func(i, j int) { vs[i], vs[j] = vs[j], vs[i] })
						}
						for _, hv := range vs {
							h.entries = append(h.entries, c13MakeEl(r, kind, id, hv, false))
						}
					}
					if mask != -2 || n%2 == 0 { // missing: map entry absent or explicit not-found
						m.hist[c13Key{kind, id}] = h
					}
					// the options that must not matter: all 18 combinations on every history without a
					// predecessor (first order of each), one rotating combination otherwise
					us := []int{n % c13NUnrelated}
					if ord == 0 && len(c13Prev(h, v)) == 0 {
						us = us[:0]
						for u := 0; u < c13NUnrelated; u++ {
							us = append(us, u)
						}
					}
					for _, u := range us {
						m.opt = imc + 3*u
						c13Judge(res, m, c, false)
						crossed++
					}
					n++
				}
			}
			// the injected datasource error against every option combination
			for flavour := 0; flavour < c13NFaults; flavour++ {
				for u := 0; u < c13NUnrelated; u++ {
					m := &c13Model{hist: map[c13Key]*c13Hist{}, fault: map[c13Key]int{{kind, 7}: flavour}, secNil: [3]bool{true, true, true}, mode: (flavour + u) % c13NModes}
					m.opt = []int{c13OptNone, c13OptIgnoreFalse}[u%2] + 3*u
					if ign {
						m.opt = c13OptIgnore + 3*u
					}
					m.items = []c13Item{{sec, c13MakeEl(r, kind, 7, v, false)}}
					m.hist[c13Key{kind, 7}] = &c13Hist{present: true, entries: []c13El{c13MakeEl(r, kind, 7, 1, false), c13MakeEl(r, kind, 7, v+1, false)}}
					c13Judge(res, m, c, false)
					crossed++
				}
			}
		}
		res.Add("enumerated_history_option_pairs", int64(crossed))
		res.Add("enumerated_histories", int64(n))
		res.Sample = map[string]any{"section": c13SecName[sec], "kind": c13KindName[kind], "ignore_missing": ign,
			"element_versions": "1..6", "history_versions": "every subset of 1..6; ascending, descending, 2 shuffles, doubled+shuffled; empty; not found", "histories": n}
	case "enum-built":
		// seed-independent: histories A = v1,v2,v3 and B = v1,v2 of one kind handed to the library as
		// an *osm.OSM in every interleaving, or as an *osm.Change in every interleaving and every
		// admissible spread over the create/modify/delete sections; both features are then changed.
		kind, mode := int(c.Int("kind")), int(c.Int("mode"))
		r := gen.New(c.Seed, "c13built")
		ka, kb := c13Key{kind, 7}, c13Key{kind, 8}
		n := 0
		for merge := 0; merge < 32; merge++ { // bit i set: position i holds an entry of A
			if c13Bits(merge) != 3 {
				continue
			}
			nAssign := 1
			if mode == c13DSFromChange {
				nAssign = 243 // 3^5 section assignments, inadmissible ones skipped
			}
			for assign := 0; assign < nAssign; assign++ {
				var secs [5]int
				ok := true
				lastA, lastB := 0, 0
				for pos, a := 0, assign; pos < 5; pos, a = pos+1, a/3 {
					secs[pos] = a % 3
					last := &lastB
					if merge&(1<<uint(pos)) != 0 {
						last = &lastA
					}
					if secs[pos] < *last { // a feature's entries reach the datasource section by section
						ok = false
					}
					*last = secs[pos]
				}
				if !ok {
					continue
				}
				m := &c13Model{hist: map[c13Key]*c13Hist{ka: {present: true}, kb: {present: true}}, fault: map[c13Key]int{},
					secNil: [3]bool{true, true, true}, mode: mode, opt: []int{c13OptNone, c13OptIgnore}[n%2] + 3*(n%c13NUnrelated),
					direct: n%2 == 1, phased: n%5 == 4}
				c13RotateCtx(m, n/2)
				var l [3][3][]c13Ref
				for pos := 0; pos < 5; pos++ {
					k := kb
					if merge&(1<<uint(pos)) != 0 {
						k = ka
					}
					h := m.hist[k]
					e := c13MakeEl(r, kind, k.id, len(h.entries)+1, false).withVis(mode != c13DSFromChange || secs[pos] != c13Delete)
					if mode != c13DSFromChange && r.Bool() {
						e = e.withVis(false)
					}
					l[secs[pos]][kind] = append(l[secs[pos]][kind], c13Ref{k, len(h.entries)})
					h.entries = append(h.entries, e)
				}
				m.src = &l
				va, vb := 4, 3
				if n%3 == 2 {
					va, vb = 3, 2 // own version present in the history
				}
				sa, sb := c13Modify, c13Delete
				if n%4 >= 2 {
					sa, sb = c13Delete, c13Modify
				}
				m.items = []c13Item{{sa, c13MakeEl(r, kind, ka.id, va, false)}, {sb, c13MakeEl(r, kind, kb.id, vb, false)}}
				sort.SliceStable(m.items, func(i, j int) bool { return m.items[i].sec < m.items[j].sec })
				c13Judge(res, m, c, false)
				n++
			}
		}
		res.Add("enumerated_source_layouts", int64(n))
		res.Sample = map[string]any{"kind": c13KindName[kind], "datasource": c13ModeName[mode], "layouts": n,
			"histories": "A=v1,v2,v3 B=v1,v2 in every interleaving (and every admissible section spread for a change)"}
	case "enum-ids":
		// seed-independent: ids outside the packed-id domain (and one ordinary id as control) in all
		// nine cells at once - node, way and relation share the id - with histories keyed by the same
		// id; then one kind without history / with only its own version, strict and ignoring.
		r := gen.New(c.Seed, "c13ids")
		n := 0
		for _, id := range append([]int64{12345}, c13OddIDs...) {
			for failKind := -1; failKind < 3; failKind++ {
				for failClass := 0; failClass < 2; failClass++ {
					if failKind < 0 && failClass > 0 {
						continue
					}
					for ign := 0; ign < 2; ign++ {
						for mode := 0; mode < c13NModes; mode++ {
							m := &c13Model{hist: map[c13Key]*c13Hist{}, fault: map[c13Key]int{}, mode: mode, opt: ign + 3*(n%c13NUnrelated), direct: mode >= c13DSLibMap && n%2 == 1, phased: n%3 == 2}
							c13RotateCtx(m, n/2)
							for sec := 0; sec < 3; sec++ {
								for kind := 0; kind < 3; kind++ {
									m.items = append(m.items, c13Item{sec, c13MakeEl(r, kind, id, []int{9, 3, 4}[sec], false)})
								}
							}
							for kind := 0; kind < 3; kind++ {
								h := &c13Hist{present: true, entries: []c13El{c13MakeEl(r, kind, id, 2, false), c13MakeEl(r, kind, id, 1, false)}}
								if kind == failKind {
									if failClass == 0 {
										continue // no history at all
									}
									h.entries = []c13El{c13MakeEl(r, kind, id, 3, false), c13MakeEl(r, kind, id, 4, false)}
								}
								m.hist[c13Key{kind, id}] = h
							}
							c13Judge(res, m, c, false)
							n++
						}
					}
				}
			}
		}
		res.Add("enumerated_odd_id_changes", int64(n))
		res.Sample = map[string]any{"ids": append([]int64{12345}, c13OddIDs...), "changes": n,
			"shape": "create v9, modify v3, delete v4 of node, way and relation with the same id; histories v2,v1; one kind without history or with only v3,v4; strict and ignoring; all datasource kinds"}
	case "grey":
		// versions <= 0 are outside what OSM calls a version; executed, never asserted
		r := gen.New(c.Seed, "c13grey")
		for i := 0; i < 200; i++ {
			m := &c13Model{hist: map[c13Key]*c13Hist{}, fault: map[c13Key]int{}, opt: r.Intn(c13NOpts), mode: r.Intn(c13NModes)}
			kind := r.Intn(3)
			h := &c13Hist{present: true}
			for j, n := 0, r.Range(1, 4); j < n; j++ {
				h.entries = append(h.entries, c13MakeEl(r, kind, 3, r.Range(-3, 2), false))
			}
			m.hist[c13Key{kind, 3}] = h
			m.items = []c13Item{{r.Range(1, 2), c13MakeEl(r, kind, 3, r.Range(-2, 2), false)}}
			out := c13Run(m)
			if out.pan != "" {
				res.Add("grey_zone_panics", 1)
			}
			res.Add("grey_zone_inputs_run", 1)
		}
		res.Eval("")
		res.Event(200)
	}
	return res
}

func init() {
	fw.Register(&fw.Prop{
		ID:    "C13",
		Level: "exploration",
		Rule: "random (osmChange, histories, option, datasource) triples from a harness-side model: 0-4 elements in each of the nine (create|modify|delete)x(node|way|relation) cells over small id pools (12 % of the ids outside the packed-id domain: negative, 0, >= 2^40, near +-2^62) " +
			"(same feature in several sections), histories sorted/reversed/shuffled with version gaps, later versions, duplicates of the element's own version, duplicated predecessors, large versions, empty, or not found; " +
			"54 option sets (IgnoreMissingChildren absent|true|false x Threshold absent|1m x IgnoreInconsistency absent|true|false x ChildFilter absent|reject|accept), in the enumeration every history without predecessor and every injected-error flavour against all 18 combinations of the options that must not matter; each of the three library-datasource kinds is passed either behind the recording wrapper or as the concrete *osm.HistoryDatasource itself (struct literal over directly filled exported maps, or the constructors' result), and 20 % of the changes are annotated after a first Change call followed by appending the second half of every history through the exported map fields; 30 % of the random changes (and half of the enumerated ones, in rotation) are annotated under a done or dying context (already cancelled | deadline in the past | cancelled by the datasource hook at the k-th lookup) with a datasource that ignores the context or one that answers ctx.Err(); five datasource behaviours behind a call-recording wrapper (own sentinel, own wrapped typed error, the library's map datasource filled directly, and histories handed over as an *osm.OSM or spread over the sections of an *osm.Change and turned into a datasource by the library's own HistoryDatasource() methods - grouped, interleaved, round-robin or two-run layouts) that can inject a non-not-found error (three flavours); " +
			"plus a seed-independent small-scope enumeration: one modified/deleted element of version 1..6 against every subset of history versions 1..6 in five orders, empty and missing, per kind, section and option, and two histories handed to HistoryDatasource() in every interleaving and every admissible section spread. " +
			"The expectation comes from an independent reference (sort by version, first below). One evaluation per changed element with signature (section, kind, history features, strict|ignore, outcome) " +
			"and one per change with signature (cell mask, option set, datasource, error class); distinct_nontrivial counts distinct signatures.",
		Assumptions: []string{
			"the order of actions is asserted between cells only (create<modify<delete, node<way<relation); the relative order of elements inside one cell is not promised by the statement and not asserted",
			"an element turned into a create by IgnoreMissingChildren may stand either where its own section stands (what the library does) or among the creates; both readings of the ordering sentence are accepted",
			"when several elements lack an earlier version (or one also hits the injected error) any one of them may be reported; the *NoVisibleChildError must name one of them (ID only; Timestamp and text are not asserted)",
			"when the greatest version below the element's own occurs twice in a history, either entry is accepted as the old state",
			"the call rewrites the Visible flag of the input elements in place (they are shared with the diff); input immutability is not part of the statement, so changes to the input are counted as observations, not asserted",
			"create actions must carry exactly one element in Action.OSM and none in Old/New, modify/delete exactly one in Old and one in New and none in Action.OSM (diff.go documents this population); nil and empty are treated alike; Diff.Changesets and the attributes of the wrapping *osm.OSM are not asserted",
			"versions <= 0 and nil elements are outside the statement: versions <= 0 are executed without assertion, nil elements are not generated",
			"context: the statement fixes that a nil error comes with the complete, exact diff, whatever the context; on a done context (already cancelled, deadline in the past, cancelled by the datasource's lookup hook) an error for which errors.Is(err, ctx.Err()) holds is accepted whether the datasource returned it or the library produced it itself (recorded which; the unchanged library never produces it itself), an error the datasource returned for a lookup must not be swallowed, and every other outcome is judged by the ordinary rules",
			"element ids are not restricted by the statement: negative ids (editor placeholders), 0, ids >= 2^40 and near +-2^62 are generated in every section and kind with histories under the same ids and fully asserted (the unchanged library yields the exact diff for them); only the ID field of *NoVisibleChildError is not asserted when an element without predecessor has an id outside [0, 2^40), because a packed FeatureID cannot name it (node -1, way -1 and relation -1 all pack to the same value)",
			"'missing children are ignored' means IgnoreMissingChildren(true) was passed - the only option annotate.Change documents; Threshold, IgnoreInconsistency(true|false), ChildFilter and IgnoreMissingChildren(false) must not change the outcome: without IgnoreMissingChildren(true) a missing history and a missing earlier version alike are reported as the typed error",
			"a panic of annotate.Change on such inputs is reported as a violation (no diff was yielded)",
			"the exported map fields of osm.HistoryDatasource are part of its API: a datasource assembled as a struct literal, or extended by appending to Nodes/Ways/Relations after construction and after earlier use, is a valid history (in any order) and is asserted like any other; with the concrete type there is no call recording and no injected error",
			"for datasources built by the library from an *osm.OSM / *osm.Change: the versions of a feature are returned in source order (creates, modifies, deletes for a change), create/modify entries are visible and delete entries are not (the model only places them so); the source object being modified is an observation, asserted only through its effect: building the datasource a second time from the same object must give the same diff",
		},
		Cases: func(tier string, seed uint64) []fw.Case {
			n := 1000
			if tier == "thorough" {
				n = 400000
			}
			var cs []fw.Case
			for sec := c13Modify; sec <= c13Delete; sec++ {
				for kind := 0; kind < 3; kind++ {
					for ign := 0; ign < 2; ign++ {
						// fixed seed: the enumerated part does not depend on VERIF_SEED
						cs = append(cs, fw.Case{Kind: "enum", Seed: gen.Sub(13, "c13enum", sec*6+kind*2+ign),
							P: map[string]int64{"section": int64(sec), "kind": int64(kind), "ignore": int64(ign)}})
					}
				}
			}
			for kind := 0; kind < 3; kind++ {
				for _, mode := range []int{c13DSFromOSM, c13DSFromChange} {
					cs = append(cs, fw.Case{Kind: "enum-built", Seed: gen.Sub(13, "c13built", kind*2+mode), P: map[string]int64{"kind": int64(kind), "mode": int64(mode)}})
				}
			}
			cs = append(cs, fw.Case{Kind: "enum-ids", Seed: gen.Sub(13, "c13ids", 0)})
			for i := 0; i < n; i++ {
				cs = append(cs, fw.Case{Kind: "random", Seed: gen.Sub(seed, "c13random", i)})
			}
			cs = append(cs, fw.Case{Kind: "grey", Seed: gen.Sub(seed, "c13grey", 0)})
			return fw.Number(cs)
		},
		Exec: c13Exec,
	})
}
