package props

import (
	"bytes"
	"encoding/json"
	"fmt"
	"reflect"
	"sort"
	"strings"
	"sync"
	"time"

	"github.com/paulmach/orb"
	"github.com/paulmach/osm"

	"verif/internal/eq"
	"verif/internal/fw"
	"verif/internal/gen"
	"verif/internal/jsonw"
)

// C05 — OSM JSON output is osmjson-shaped and round-trips up to tag order, under both codec
// configurations.
//
// Monitor shape: reference model. The model is a jsonw.Doc (typed osmjson document with a
// present/absent bit for every optional key). From it the harness derives (a) the expected
// osm value, by the format's rules, and (b) JSON text through its own writer with layout
// noise. The library is observed only through encoding/json's Marshal / Unmarshal on osm.OSM,
// osm.Change and the element types, with the package-level codec variables either nil or set
// to a recording codec.

// ---------------------------------------------------------------------------------------
// the user-installed codec: encoding/json with different but equivalent settings, recording

type c05Codec struct {
	mu                           sync.Mutex // the concurrent cases share one installed codec
	marshalCalls, unmarshalCalls int
	mTypes, uTypes               map[string]int
	// reform: a codec whose output is observably different in form but equal in value: member
	// order shuffled at every level, white space between tokens, floats respelled (exponent /
	// trailing .0); its decoder keeps numbers as float64 (no UseNumber).
	reform bool
}

func (c *c05Codec) counts() (m, u int) {
	c.mu.Lock()
	defer c.mu.Unlock()
	return c.marshalCalls, c.unmarshalCalls
}

func newC05Codec() *c05Codec {
	return &c05Codec{mTypes: map[string]int{}, uTypes: map[string]int{}}
}

func c05TypeName(v any) string {
	t := reflect.TypeOf(v)
	if t == nil {
		return "nil"
	}
	ptr := ""
	for t.Kind() == reflect.Ptr {
		ptr += "*"
		t = t.Elem()
	}
	if t.Name() == "" && t.Kind() == reflect.Struct {
		return ptr + "anonymous-struct"
	}
	return ptr + t.String()
}

func (c *c05Codec) Marshal(v interface{}) ([]byte, error) {
	c.mu.Lock()
	c.marshalCalls++
	c.mTypes[c05TypeName(v)]++
	c.mu.Unlock()
	if c.reform {
		b, err := json.Marshal(v)
		if err != nil {
			return nil, err
		}
		return c05Reform(b)
	}
	var buf bytes.Buffer
	enc := json.NewEncoder(&buf)
	enc.SetEscapeHTML(false)
	enc.SetIndent("", " ")
	if err := enc.Encode(v); err != nil {
		return nil, err
	}
	return buf.Bytes(), nil
}

func (c *c05Codec) Unmarshal(data []byte, v interface{}) error {
	c.mu.Lock()
	c.unmarshalCalls++
	c.uTypes[c05TypeName(v)]++
	c.mu.Unlock()
	dec := json.NewDecoder(bytes.NewReader(data))
	if !c.reform {
		dec.UseNumber()
	}
	if err := dec.Decode(v); err != nil {
		return err
	}
	// like json.Unmarshal: nothing but white space may follow (checked without touching the
	// decoder again, whose buffer the library may still alias)
	if rest := bytes.TrimSpace(data[dec.InputOffset():]); len(rest) > 0 {
		return fmt.Errorf("c05 codec: trailing data after top-level value")
	}
	return nil
}

// c05Reform re-renders JSON text through the harness' own writer: same value, other form.
// The noise is a function of the text (no shared state, usable from many goroutines). String
// spellings are left alone: timestamps must stay literal for Go's time.Time.UnmarshalJSON.
func c05Reform(b []byte) ([]byte, error) {
	dec := json.NewDecoder(bytes.NewReader(b))
	dec.UseNumber()
	var parse func() (jsonw.Value, error)
	parse = func() (jsonw.Value, error) {
		tok, err := dec.Token()
		if err != nil {
			return nil, err
		}
		switch t := tok.(type) {
		case json.Delim:
			if t == '{' {
				o := jsonw.Object{}
				for dec.More() {
					k, err := dec.Token()
					if err != nil {
						return nil, err
					}
					val, err := parse()
					if err != nil {
						return nil, err
					}
					o = append(o, jsonw.Field{Key: k.(string), Val: val})
				}
				_, err := dec.Token()
				return o, err
			}
			a := jsonw.Array{}
			for dec.More() {
				val, err := parse()
				if err != nil {
					return nil, err
				}
				a = append(a, val)
			}
			_, err := dec.Token()
			return a, err
		case json.Number:
			lit := string(t)
			if strings.ContainsAny(lit, ".eE") {
				if f, err := t.Float64(); err == nil {
					lit = jsonw.NewFloat(f, 2+len(lit)%3).Text
				}
			}
			return jsonw.Number(lit), nil
		case string:
			return jsonw.String(t), nil
		case bool:
			return jsonw.Bool(t), nil
		}
		return jsonw.Null{}, nil
	}
	v, err := parse()
	if err != nil {
		return nil, err
	}
	h := uint64(14695981039346656037)
	for _, c := range b {
		h = (h ^ uint64(c)) * 1099511628211
	}
	return jsonw.Write(v, &jsonw.Style{R: gen.New(h, "c05reform"), Shuffle: true, Space: 1}), nil
}

type c05Config struct {
	name   string
	m, u   bool
	reform bool // install the re-forming codec instead of the recording one
	// shared != nil: the configuration is already in force for the whole case (concurrent
	// cases install the codec once before their goroutines start); c05With then leaves the
	// package variables alone and hands out this codec.
	shared *c05Codec
}

var (
	c05Default   = c05Config{name: "default"}
	c05Custom    = c05Config{name: "custom", m: true, u: true}
	c05MarshOnly = c05Config{name: "custom-marshaler-only", m: true}
	c05UnmOnly   = c05Config{name: "custom-unmarshaler-only", u: true}
	c05Reformer  = c05Config{name: "custom-reforming", m: true, u: true, reform: true}
)

// c05With runs f with the codec variables set as cfg says and always restores them to nil.
// A panic inside f is returned as text.
func c05With(cfg c05Config, f func(codec *c05Codec)) (pan string) {
	if cfg.shared != nil {
		defer func() {
			if x := recover(); x != nil {
				pan = fmt.Sprint(x)
			}
		}()
		f(cfg.shared)
		return ""
	}
	codec := newC05Codec()
	codec.reform = cfg.reform
	defer func() {
		osm.CustomJSONMarshaler = nil
		osm.CustomJSONUnmarshaler = nil
		if x := recover(); x != nil {
			pan = fmt.Sprint(x)
		}
	}()
	if cfg.m {
		osm.CustomJSONMarshaler = codec
	}
	if cfg.u {
		osm.CustomJSONUnmarshaler = codec
	}
	f(codec)
	return ""
}

// ---------------------------------------------------------------------------------------
// model -> expected osm values (the format's rules, written out by hand)

func c05Tags(ts []jsonw.Tag) osm.Tags {
	var out osm.Tags
	for _, t := range ts {
		out = append(out, osm.Tag{Key: t.K, Value: t.V})
	}
	return out
}

func c05S(p *string) string {
	if p == nil {
		return ""
	}
	return *p
}

func c05I(p *int64) int64 {
	if p == nil {
		return 0
	}
	return *p
}

func c05F(p *jsonw.Float) float64 {
	if p == nil {
		return 0
	}
	return p.V
}

func c05B(p *bool) bool { return p != nil && *p }

func c05T(p *jsonw.Time) time.Time {
	if p == nil {
		return time.Time{}
	}
	return p.T
}

func c05TP(p *jsonw.Time) *time.Time {
	if p == nil {
		return nil
	}
	t := p.T
	return &t
}

func c05Bounds(b *jsonw.Bounds) *osm.Bounds {
	if b == nil {
		return nil
	}
	return &osm.Bounds{MinLat: b.MinLat.V, MaxLat: b.MaxLat.V, MinLon: b.MinLon.V, MaxLon: b.MaxLon.V}
}

func c05WayNodes(ids []int64) osm.WayNodes {
	var out osm.WayNodes
	for _, id := range ids {
		out = append(out, osm.WayNode{ID: osm.NodeID(id)})
	}
	return out
}

func c05Updates(us []jsonw.Update) osm.Updates {
	var out osm.Updates
	for _, u := range us {
		out = append(out, osm.Update{Index: int(u.Index), Version: int(u.Version), Timestamp: u.Timestamp.T,
			ChangesetID: osm.ChangesetID(c05I(u.Changeset)), Lat: c05F(u.Lat), Lon: c05F(u.Lon), Reverse: c05B(u.Reverse)})
	}
	return out
}

// c05Expected is the osm value a document denotes plus, per kind, which elements leave
// "visible" unsaid (the property does not say what an unsaid visibility becomes).
type c05Expected struct {
	o        *osm.OSM
	visUnset map[string][]bool
}

func c05Expect(d *jsonw.Doc) c05Expected {
	o := &osm.OSM{Generator: c05S(d.Generator), Copyright: c05S(d.Copyright), Attribution: c05S(d.Attribution), License: c05S(d.License)}
	if d.VersionKind == jsonw.VersionNumber || d.VersionKind == jsonw.VersionString {
		o.Version = d.Version
	}
	o.Bounds = c05Bounds(d.Bounds)
	ex := c05Expected{o: o, visUnset: map[string][]bool{}}
	for _, e := range d.Elements {
		switch x := e.(type) {
		case *jsonw.Node:
			o.Nodes = append(o.Nodes, &osm.Node{ID: osm.NodeID(x.ID), Lat: c05F(x.Lat), Lon: c05F(x.Lon), User: c05S(x.User),
				UserID: osm.UserID(c05I(x.UID)), Visible: c05B(x.Visible), Version: int(c05I(x.Version)),
				ChangesetID: osm.ChangesetID(c05I(x.Changeset)), Timestamp: c05T(x.Timestamp), Tags: c05Tags(x.Tags), Committed: c05TP(x.Committed)})
			ex.visUnset["node"] = append(ex.visUnset["node"], x.Visible == nil)
		case *jsonw.Way:
			o.Ways = append(o.Ways, &osm.Way{ID: osm.WayID(x.ID), User: c05S(x.User),
				UserID: osm.UserID(c05I(x.UID)), Visible: c05B(x.Visible), Version: int(c05I(x.Version)),
				ChangesetID: osm.ChangesetID(c05I(x.Changeset)), Timestamp: c05T(x.Timestamp), Tags: c05Tags(x.Tags), Committed: c05TP(x.Committed),
				Nodes: c05WayNodes(x.Nodes), Updates: c05Updates(x.Updates), Bounds: c05Bounds(x.Bounds)})
			ex.visUnset["way"] = append(ex.visUnset["way"], x.Visible == nil)
		case *jsonw.Relation:
			r := &osm.Relation{ID: osm.RelationID(x.ID), User: c05S(x.User),
				UserID: osm.UserID(c05I(x.UID)), Visible: c05B(x.Visible), Version: int(c05I(x.Version)),
				ChangesetID: osm.ChangesetID(c05I(x.Changeset)), Timestamp: c05T(x.Timestamp), Tags: c05Tags(x.Tags), Committed: c05TP(x.Committed),
				Updates: c05Updates(x.Updates), Bounds: c05Bounds(x.Bounds)}
			for _, m := range x.Members {
				r.Members = append(r.Members, osm.Member{Type: osm.Type(m.Type), Ref: m.Ref, Role: c05S(m.Role), Version: int(c05I(m.Version)),
					ChangesetID: osm.ChangesetID(c05I(m.Changeset)), Lat: c05F(m.Lat), Lon: c05F(m.Lon),
					Orientation: orb.Orientation(c05I(m.Orientation)), Nodes: c05WayNodes(m.Nodes)})
			}
			o.Relations = append(o.Relations, r)
			ex.visUnset["relation"] = append(ex.visUnset["relation"], x.Visible == nil)
		case *jsonw.Changeset:
			c := &osm.Changeset{ID: osm.ChangesetID(x.ID), User: c05S(x.User), UserID: osm.UserID(c05I(x.UID)),
				CreatedAt: c05T(x.CreatedAt), ClosedAt: c05T(x.ClosedAt), Open: c05B(x.Open), ChangesCount: int(c05I(x.NumChanges)),
				MinLat: c05F(x.MinLat), MaxLat: c05F(x.MaxLat), MinLon: c05F(x.MinLon), MaxLon: c05F(x.MaxLon),
				CommentsCount: int(c05I(x.CommentsCount)), Tags: c05Tags(x.Tags)}
			if x.HasDiscussion {
				c.Discussion = &osm.ChangesetDiscussion{}
				for _, cm := range x.Comments {
					c.Discussion.Comments = append(c.Discussion.Comments, &osm.ChangesetComment{User: c05S(cm.User),
						UserID: osm.UserID(c05I(cm.UID)), Timestamp: c05T(cm.Date), Text: c05S(cm.Text)})
				}
			}
			o.Changesets = append(o.Changesets, c)
		case *jsonw.Note:
			n := &osm.Note{ID: osm.NoteID(x.ID), Lat: c05F(x.Lat), Lon: c05F(x.Lon), URL: c05S(x.URL), CommentURL: c05S(x.CommentURL),
				CloseURL: c05S(x.CloseURL), ReopenURL: c05S(x.ReopenURL), DateCreated: osm.Date{Time: c05T(x.DateCreated)},
				DateClosed: osm.Date{Time: c05T(x.DateClosed)}, Status: osm.NoteStatus(c05S(x.Status))}
			for _, cm := range x.Comments {
				n.Comments = append(n.Comments, &osm.NoteComment{Date: osm.Date{Time: c05T(cm.Date)}, UserID: osm.UserID(c05I(cm.UID)),
					User: c05S(cm.User), UserURL: c05S(cm.UserURL), Action: osm.NoteCommentAction(c05S(cm.Action)), Text: c05S(cm.Text), HTML: c05S(cm.HTML)})
			}
			o.Notes = append(o.Notes, n)
		case *jsonw.User:
			u := &osm.User{ID: osm.UserID(x.ID), Name: c05S(x.Name), Description: c05S(x.Description), Languages: x.Languages, CreatedAt: c05T(x.CreatedAt)}
			u.Img.Href = c05S(x.ImgHref)
			u.Changesets.Count = int(c05I(x.ChangesetsCount))
			u.Traces.Count = int(c05I(x.TracesCount))
			if x.Home {
				u.Home.Lat, u.Home.Lon, u.Home.Zoom = x.HomeLat.V, x.HomeLon.V, int(x.HomeZoom)
			}
			u.Blocks.Received.Count, u.Blocks.Received.Active = int(c05I(x.BlocksCount)), int(c05I(x.BlocksActive))
			u.Messages.Received.Count, u.Messages.Received.Unread = int(c05I(x.MsgRecvCount)), int(c05I(x.MsgRecvUnread))
			u.Messages.Sent.Count = int(c05I(x.MsgSentCount))
			o.Users = append(o.Users, u)
		}
	}
	return ex
}

func c05ExpectChange(c *jsonw.ChangeDoc) *osm.Change {
	out := &osm.Change{Version: c05S(c.Version), Generator: c05S(c.Generator), Copyright: c05S(c.Copyright),
		Attribution: c05S(c.Attribution), License: c05S(c.License)}
	if c.Create != nil {
		out.Create = c05Expect(c.Create).o
	}
	if c.Modify != nil {
		out.Modify = c05Expect(c.Modify).o
	}
	if c.Delete != nil {
		out.Delete = c05Expect(c.Delete).o
	}
	return out
}

// c05Annotate adds what osmjson has no place for (way-node versions, changesets, locations)
// and, sometimes, a change nested in a changeset; the round trip must be equal up to these.
func c05Annotate(o *osm.OSM, r *gen.R) {
	note := func(ns osm.WayNodes) {
		for i := range ns {
			if r.Bool() {
				ns[i].Version = r.Range(1, 50)
				ns[i].ChangesetID = osm.ChangesetID(r.Range(1, 1<<20))
				ns[i].Lat, ns[i].Lon = r.Coord(90), r.Coord(180)
			}
		}
	}
	for _, w := range o.Ways {
		note(w.Nodes)
	}
	for _, rel := range o.Relations {
		for i := range rel.Members {
			note(rel.Members[i].Nodes)
		}
	}
	for _, cs := range o.Changesets {
		if r.Chance(0.3) {
			cs.Change = &osm.Change{Version: r.PickS("", "0.6")}
			blk := &osm.OSM{Version: r.PickS("", "0.6"), Nodes: osm.Nodes{{ID: osm.NodeID(r.Range(1, 999)), Visible: true, Version: 1}}}
			switch r.Intn(3) {
			case 0:
				cs.Change.Create = blk
			case 1:
				cs.Change.Modify = blk
			default:
				cs.Change.Delete = blk
			}
		}
	}
}

// c05BoundaryOps are the boundary values of the optional parts of the *value* side: a non-nil
// pointer to an all-zero struct, an empty but non-nil slice, zero ids / versions / coordinates,
// empty strings. Each operator rewrites every place of a container it applies to.
var c05BoundaryOps = []struct {
	name string
	f    func(o *osm.OSM)
}{
	{"top.bounds=&zero", func(o *osm.OSM) { o.Bounds = &osm.Bounds{} }},
	{"top.bounds=minlat-only", func(o *osm.OSM) { o.Bounds = &osm.Bounds{MinLat: 1.5} }},
	{"top.bounds=maxlon-only", func(o *osm.OSM) { o.Bounds = &osm.Bounds{MaxLon: -0.25} }},
	{"top.lists=empty-nonnil", func(o *osm.OSM) {
		if len(o.Nodes) == 0 {
			o.Nodes = osm.Nodes{}
		}
		if len(o.Ways) == 0 {
			o.Ways = osm.Ways{}
		}
		if len(o.Relations) == 0 {
			o.Relations = osm.Relations{}
		}
		if len(o.Changesets) == 0 {
			o.Changesets = osm.Changesets{}
		}
		if len(o.Notes) == 0 {
			o.Notes = osm.Notes{}
		}
		if len(o.Users) == 0 {
			o.Users = osm.Users{}
		}
	}},
	{"top.strings=empty", func(o *osm.OSM) {
		o.Version, o.Generator, o.Copyright, o.Attribution, o.License = "", "", "", "", ""
	}},
	{"elements=all-zero", func(o *osm.OSM) {
		for i := range o.Nodes {
			o.Nodes[i] = &osm.Node{}
		}
		for i := range o.Ways {
			o.Ways[i] = &osm.Way{}
		}
		for i := range o.Relations {
			o.Relations[i] = &osm.Relation{}
		}
		for i := range o.Changesets {
			o.Changesets[i] = &osm.Changeset{}
		}
		for i := range o.Notes {
			o.Notes[i] = &osm.Note{}
		}
		for i := range o.Users {
			o.Users[i] = &osm.User{}
		}
	}},
	{"element.id=0", func(o *osm.OSM) {
		for _, e := range o.Nodes {
			e.ID, e.Lat, e.Lon, e.Version, e.UserID, e.ChangesetID = 0, 0, 0, 0, 0, 0
		}
		for _, e := range o.Ways {
			e.ID, e.Version, e.UserID, e.ChangesetID = 0, 0, 0, 0
		}
		for _, e := range o.Relations {
			e.ID, e.Version, e.UserID, e.ChangesetID = 0, 0, 0, 0
		}
	}},
	{"element.bounds=&zero", func(o *osm.OSM) {
		for _, e := range o.Ways {
			e.Bounds = &osm.Bounds{}
		}
		for _, e := range o.Relations {
			e.Bounds = &osm.Bounds{}
		}
	}},
	{"element.committed=&zero", func(o *osm.OSM) {
		for _, e := range o.Nodes {
			e.Committed = &time.Time{}
		}
		for _, e := range o.Ways {
			e.Committed = &time.Time{}
		}
		for _, e := range o.Relations {
			e.Committed = &time.Time{}
		}
	}},
	{"element.timestamp=zero", func(o *osm.OSM) {
		for _, e := range o.Nodes {
			e.Timestamp = time.Time{}
		}
		for _, e := range o.Ways {
			e.Timestamp = time.Time{}
		}
		for _, e := range o.Relations {
			e.Timestamp = time.Time{}
		}
	}},
	{"element.tags=empty-nonnil", func(o *osm.OSM) {
		for _, e := range o.Nodes {
			e.Tags = osm.Tags{}
		}
		for _, e := range o.Ways {
			e.Tags = osm.Tags{}
		}
		for _, e := range o.Relations {
			e.Tags = osm.Tags{}
		}
		for _, e := range o.Changesets {
			e.Tags = osm.Tags{}
		}
	}},
	{"element.tag=empty-key-and-value", func(o *osm.OSM) {
		for _, e := range o.Nodes {
			e.Tags = osm.Tags{{Key: "", Value: ""}}
		}
		for _, e := range o.Ways {
			e.Tags = osm.Tags{{Key: "k", Value: ""}}
		}
		for _, e := range o.Relations {
			e.Tags = osm.Tags{{Key: "", Value: "v"}}
		}
	}},
	{"element.strings=empty", func(o *osm.OSM) {
		for _, e := range o.Nodes {
			e.User = ""
		}
		for _, e := range o.Ways {
			e.User = ""
		}
		for _, e := range o.Relations {
			e.User = ""
			for i := range e.Members {
				e.Members[i].Role = ""
			}
		}
	}},
	{"way.nodes=empty-nonnil", func(o *osm.OSM) {
		for _, e := range o.Ways {
			e.Nodes = osm.WayNodes{}
		}
	}},
	{"way.nodes=zero-ids", func(o *osm.OSM) {
		for _, e := range o.Ways {
			e.Nodes = osm.WayNodes{{}, {}}
		}
	}},
	{"updates=empty-nonnil", func(o *osm.OSM) {
		for _, e := range o.Ways {
			e.Updates = osm.Updates{}
		}
		for _, e := range o.Relations {
			e.Updates = osm.Updates{}
		}
	}},
	{"updates=zero-update", func(o *osm.OSM) {
		for _, e := range o.Ways {
			e.Updates = osm.Updates{{}}
		}
		for _, e := range o.Relations {
			e.Updates = osm.Updates{{}}
		}
	}},
	{"relation.members=empty-nonnil", func(o *osm.OSM) {
		for _, e := range o.Relations {
			e.Members = osm.Members{}
		}
	}},
	{"relation.members=zero-member", func(o *osm.OSM) {
		for _, e := range o.Relations {
			e.Members = osm.Members{{}, {Type: osm.TypeNode}}
		}
	}},
	{"member.nodes=empty-nonnil", func(o *osm.OSM) {
		for _, e := range o.Relations {
			for i := range e.Members {
				e.Members[i].Nodes = osm.WayNodes{}
			}
		}
	}},
	{"changeset.discussion=&zero", func(o *osm.OSM) {
		for _, e := range o.Changesets {
			e.Discussion = &osm.ChangesetDiscussion{}
		}
	}},
	{"changeset.discussion.comments=empty-nonnil", func(o *osm.OSM) {
		for _, e := range o.Changesets {
			e.Discussion = &osm.ChangesetDiscussion{Comments: []*osm.ChangesetComment{}}
		}
	}},
	{"changeset.discussion.comment=&zero", func(o *osm.OSM) {
		for _, e := range o.Changesets {
			e.Discussion = &osm.ChangesetDiscussion{Comments: []*osm.ChangesetComment{{}}}
		}
	}},
	{"changeset.change=&zero", func(o *osm.OSM) {
		for _, e := range o.Changesets {
			e.Change = &osm.Change{}
		}
	}},
	{"changeset.change.block=&zero", func(o *osm.OSM) {
		for _, e := range o.Changesets {
			e.Change = &osm.Change{Create: &osm.OSM{}, Delete: &osm.OSM{}}
		}
	}},
	{"changeset.change.block.bounds=&zero", func(o *osm.OSM) {
		for _, e := range o.Changesets {
			e.Change = &osm.Change{Modify: &osm.OSM{Bounds: &osm.Bounds{}, Nodes: osm.Nodes{{ID: 7, Visible: true}, {ID: 8}}}}
		}
	}},
	{"note.comments=empty-nonnil", func(o *osm.OSM) {
		for _, e := range o.Notes {
			e.Comments = []*osm.NoteComment{}
		}
	}},
	{"note.comment=&zero", func(o *osm.OSM) {
		for _, e := range o.Notes {
			e.Comments = []*osm.NoteComment{{}}
		}
	}},
	{"user.languages=empty-nonnil", func(o *osm.OSM) {
		for _, e := range o.Users {
			e.Languages = []string{}
		}
	}},
	{"user.languages=empty-string", func(o *osm.OSM) {
		for _, e := range o.Users {
			e.Languages = []string{""}
		}
	}},
	// every instant of the container carried in a non-UTC location (same instant): what a value
	// built from time.Now() on a machine outside UTC, or decoded from "…+09:00", looks like
	{"times=+09:00", func(o *osm.OSM) { c05Relocate(o, time.FixedZone("", 9*3600)) }},
	{"times=-05:30", func(o *osm.OSM) { c05Relocate(o, time.FixedZone("minus", -(5*3600+1800))) }},
	{"times=+05:45", func(o *osm.OSM) { c05Relocate(o, time.FixedZone("NPT", 5*3600+2700)) }},
	{"times=time.Local", func(o *osm.OSM) { c05Relocate(o, time.Local) }},
}

var c05TimeType = reflect.TypeOf(time.Time{})

// c05Relocate moves every non-zero time.Time reachable from v (fields, pointers, slices) into
// loc without changing the instant.
func c05Relocate(v any, loc *time.Location) {
	var walk func(x reflect.Value)
	walk = func(x reflect.Value) {
		switch x.Kind() {
		case reflect.Ptr, reflect.Interface:
			if !x.IsNil() {
				walk(x.Elem())
			}
		case reflect.Struct:
			if x.Type() == c05TimeType {
				if t := x.Interface().(time.Time); !t.IsZero() && x.CanSet() {
					x.Set(reflect.ValueOf(t.In(loc)))
				}
				return
			}
			for i := 0; i < x.NumField(); i++ {
				if x.Type().Field(i).PkgPath == "" {
					walk(x.Field(i))
				}
			}
		case reflect.Slice:
			for i := 0; i < x.Len(); i++ {
				walk(x.Index(i))
			}
		}
	}
	walk(reflect.ValueOf(v))
}

// ---------------------------------------------------------------------------------------
// reporting

type c05Rep struct {
	res    *fw.Result
	cfg    c05Config
	raised map[string]bool // classes already raised for this input (by any configuration)
	input  string
	// nullTop: top-level members the document writes as null (violation class "-null").
	nullTop map[string]bool
	// soft != nil: the document writes optional *element* members as null, which the statement
	// does not speak about; element-level classes are handed to soft (recorded), not raised.
	soft func(class string)
}

func c05Trim(s string, n int) string {
	if len(s) <= n {
		return s
	}
	return s[:n] + fmt.Sprintf("… (%d bytes)", len(s))
}

// violate raises class once per input: under the default configuration with its plain key,
// under another configuration only if the default did not show it (suffix @config).
func (rp *c05Rep) violate(class, what string) {
	if rp.soft != nil && (strings.Contains(class, "/elements/") || strings.Contains(class, "/unmarshal-error/") || strings.Contains(class, "/nil-mismatch")) {
		rp.soft(class)
		return
	}
	if rp.raised[class] {
		return
	}
	rp.raised[class] = true
	key := "C05/" + class
	if rp.cfg.name != "default" {
		key += "@" + rp.cfg.name
	}
	rp.res.Violate(key, what, map[string]any{"config": rp.cfg.name, "input": c05Trim(rp.input, 6000)})
}

// ---------------------------------------------------------------------------------------
// comparison up to tag order and way-node annotations

var c05Opts = eq.Options{SortTags: true, SkipFields: map[string]bool{
	"WayNode.Version": true, "WayNode.ChangesetID": true, "WayNode.Lat": true, "WayNode.Lon": true,
	"Changeset.Change": true, // compared recursively, see c05CompareChange
}}

func c05Dump(v any) string { return eq.DumpWith(v, c05Opts) }

// c05Norm identifies a non-nil pointer to an all-zero / empty optional part with its absence
// (the pointer analogue of nil-versus-empty slices, which the property does not speak about):
// bounds without extent, committed at the zero instant, a discussion without comments, a change
// without attributes and blocks. It works in place; callers pass values they own.
func c05Norm(v any) {
	zb := func(b **osm.Bounds) {
		if *b != nil && **b == (osm.Bounds{}) {
			*b = nil
		}
	}
	zt := func(t **time.Time) {
		if *t != nil && (*t).IsZero() {
			*t = nil
		}
	}
	switch x := v.(type) {
	case *osm.OSM:
		if x == nil {
			return
		}
		zb(&x.Bounds)
		for _, e := range c05Slots(x) {
			c05Norm(e.v)
		}
	case *osm.Change:
		if x == nil {
			return
		}
		for _, b := range []**osm.OSM{&x.Create, &x.Modify, &x.Delete} {
			c05Norm(*b)
			if *b != nil && eq.Dump(*b) == eq.Dump(&osm.OSM{}) {
				*b = nil // a block without attributes and objects ≡ no block
			}
		}
	case *osm.Node:
		zt(&x.Committed)
	case *osm.Way:
		zt(&x.Committed)
		zb(&x.Bounds)
	case *osm.Relation:
		zt(&x.Committed)
		zb(&x.Bounds)
	case *osm.Changeset:
		if x.Discussion != nil && len(x.Discussion.Comments) == 0 {
			x.Discussion = nil
		}
		if c := x.Change; c != nil {
			c05Norm(c)
			if *c == (osm.Change{}) {
				x.Change = nil
			}
		}
	}
}

// c05DiffField names the first field of two structs (behind pointers) that differs.
func c05DiffField(want, got any) string {
	wv, gv := reflect.Indirect(reflect.ValueOf(want)), reflect.Indirect(reflect.ValueOf(got))
	if !wv.IsValid() || !gv.IsValid() || wv.Type() != gv.Type() || wv.Kind() != reflect.Struct {
		return "value"
	}
	for i := 0; i < wv.NumField(); i++ {
		f := wv.Type().Field(i)
		if f.Name == "XMLName" || c05Opts.SkipFields[wv.Type().Name()+"."+f.Name] {
			continue
		}
		if c05Dump(wv.Field(i).Interface()) != c05Dump(gv.Field(i).Interface()) {
			return f.Name
		}
	}
	return "value"
}

func c05CompareList(rp *c05Rep, path, kind string, want, got any) int {
	wv, gv := reflect.ValueOf(want), reflect.ValueOf(got)
	if wv.Len() != gv.Len() {
		rp.violate(path+"/elements/"+kind+"-count", fmt.Sprintf("%d %ss expected, %d delivered", wv.Len(), kind, gv.Len()))
		return 0
	}
	for i := 0; i < wv.Len(); i++ {
		w, g := wv.Index(i).Interface(), gv.Index(i).Interface()
		if dw, dg := c05Dump(w), c05Dump(g); dw != dg {
			f := c05DiffField(w, g)
			rp.violate(path+"/elements/"+kind+"."+f, fmt.Sprintf("%s #%d differs in %s: %s", kind, i, f, eq.Diff(dw, dg)))
		}
	}
	return wv.Len()
}

// c05Compare checks got against want. Top-level bounds are not an element: a value that comes
// back must be the right one, a value that does not come back is not asserted.
func c05Compare(rp *c05Rep, path string, want, got *osm.OSM, visUnset map[string][]bool) {
	if want == nil || got == nil {
		if (want == nil) != (got == nil) {
			rp.violate(path+"/nil-mismatch", fmt.Sprintf("container expected nil=%v, delivered nil=%v", want == nil, got == nil))
		}
		return
	}
	want = eq.Clone(want)
	c05Norm(want)
	c05Norm(got)
	top := []struct{ name, w, g string }{
		{"version", want.Version, got.Version}, {"generator", want.Generator, got.Generator},
		{"copyright", want.Copyright, got.Copyright}, {"attribution", want.Attribution, got.Attribution},
		{"license", want.License, got.License},
	}
	for _, t := range top {
		switch {
		case t.w == t.g:
		case t.w == "" && rp.nullTop[t.name]:
			rp.violate(path+"/top/"+t.name+"-null", fmt.Sprintf("top-level %s is null but comes back as the text %q", t.name, t.g))
		case t.w == "":
			rp.violate(path+"/top/"+t.name+"-absent", fmt.Sprintf("top-level %s is absent but comes back as %q", t.name, t.g))
		default:
			rp.violate(path+"/top/"+t.name, fmt.Sprintf("top-level %s: want %q got %q", t.name, t.w, t.g))
		}
	}
	if got.Bounds != nil {
		if want.Bounds == nil {
			rp.violate(path+"/top/bounds-absent", "bounds delivered although the input has none: "+c05Dump(got.Bounds))
		} else if c05Dump(want.Bounds) != c05Dump(got.Bounds) {
			rp.violate(path+"/top/bounds", "bounds differ: "+eq.Diff(c05Dump(want.Bounds), c05Dump(got.Bounds)))
		}
	} else if want.Bounds != nil {
		rp.res.Add("toplevel_bounds_not_returned", 1)
	}
	// an unsaid "visible" is not asserted
	patch := func(kind string, n int, set func(i int)) {
		if vu := visUnset[kind]; len(vu) == n {
			for i, u := range vu {
				if u {
					set(i)
				}
			}
		}
	}
	if visUnset != nil && len(got.Nodes) == len(want.Nodes) && len(got.Ways) == len(want.Ways) && len(got.Relations) == len(want.Relations) {
		patch("node", len(got.Nodes), func(i int) { got.Nodes[i].Visible = want.Nodes[i].Visible })
		patch("way", len(got.Ways), func(i int) { got.Ways[i].Visible = want.Ways[i].Visible })
		patch("relation", len(got.Relations), func(i int) { got.Relations[i].Visible = want.Relations[i].Visible })
	}
	n := c05CompareList(rp, path, "node", want.Nodes, got.Nodes)
	n += c05CompareList(rp, path, "way", want.Ways, got.Ways)
	n += c05CompareList(rp, path, "relation", want.Relations, got.Relations)
	n += c05CompareList(rp, path, "changeset", want.Changesets, got.Changesets)
	n += c05CompareList(rp, path, "note", want.Notes, got.Notes)
	n += c05CompareList(rp, path, "user", want.Users, got.Users)
	rp.res.Add("elements_compared", int64(n))
	if len(want.Changesets) == len(got.Changesets) {
		for i := range want.Changesets {
			if want.Changesets[i].Change != nil || got.Changesets[i].Change != nil {
				c05CompareChange(rp, path+"/changeset-change", want.Changesets[i].Change, got.Changesets[i].Change)
			}
		}
	}
}

func c05CompareChange(rp *c05Rep, path string, want, got *osm.Change) {
	if want == nil || got == nil {
		if (want == nil) != (got == nil) {
			rp.violate(path+"/nil-mismatch", fmt.Sprintf("change expected nil=%v, delivered nil=%v", want == nil, got == nil))
		}
		return
	}
	want = eq.Clone(want)
	c05Norm(want)
	c05Norm(got)
	top := []struct{ name, w, g string }{
		{"version", want.Version, got.Version}, {"generator", want.Generator, got.Generator},
		{"copyright", want.Copyright, got.Copyright}, {"attribution", want.Attribution, got.Attribution},
		{"license", want.License, got.License},
	}
	for _, t := range top {
		if t.w != t.g {
			rp.violate(path+"/change-top/"+t.name, fmt.Sprintf("change attribute %s: want %q got %q", t.name, t.w, t.g))
		}
	}
	c05Compare(rp, path, want.Create, got.Create, nil)
	c05Compare(rp, path, want.Modify, got.Modify, nil)
	c05Compare(rp, path, want.Delete, got.Delete, nil)
}

// ---------------------------------------------------------------------------------------
// shape of marshalled output, parsed generically by the harness

func c05Generic(b []byte) (any, error) {
	dec := json.NewDecoder(bytes.NewReader(b))
	dec.UseNumber()
	var v any
	if err := dec.Decode(&v); err != nil {
		return nil, err
	}
	if rest := bytes.TrimSpace(b[dec.InputOffset():]); len(rest) > 0 {
		return nil, fmt.Errorf("trailing data")
	}
	return v, nil
}

func c05IsInt(v any) (int64, bool) {
	n, ok := v.(json.Number)
	if !ok {
		return 0, false
	}
	i, err := n.Int64()
	return i, err == nil
}

// c05IDArray checks that v is an array of integer ids equal to want.
func c05IDArray(v any, want osm.WayNodes) string {
	a, ok := v.([]any)
	if !ok {
		return fmt.Sprintf("not an array: %s", c05Trim(fw.JSON(v), 200))
	}
	if len(a) != len(want) {
		return fmt.Sprintf("%d ids, want %d", len(a), len(want))
	}
	for i, x := range a {
		id, ok := c05IsInt(x)
		if !ok {
			return fmt.Sprintf("entry %d is not an integer id: %s", i, c05Trim(fw.JSON(x), 120))
		}
		if id != int64(want[i].ID) {
			return fmt.Sprintf("entry %d is %d, want %d", i, id, want[i].ID)
		}
	}
	return ""
}

func c05ShapeTags(rp *c05Rep, ctx string, el map[string]any, want osm.Tags) {
	tv, present := el["tags"]
	if !present {
		if len(want) > 0 {
			rp.violate("shape/"+ctx+"tags-missing", fmt.Sprintf("element with %d tags is written without a tags member", len(want)))
		}
		return
	}
	to, ok := tv.(map[string]any)
	if !ok {
		if tv == nil && len(want) == 0 {
			return
		}
		rp.violate("shape/"+ctx+"tags-not-object", "tags is not a JSON object: "+c05Trim(fw.JSON(tv), 300))
		return
	}
	if len(to) != len(want) {
		rp.violate("shape/"+ctx+"tags-content", fmt.Sprintf("tags object has %d members, want %d", len(to), len(want)))
		return
	}
	for _, t := range want {
		if s, ok := to[t.Key].(string); !ok || s != t.Value {
			rp.violate("shape/"+ctx+"tags-content", fmt.Sprintf("tag %q: want %q, written %s", t.Key, t.Value, c05Trim(fw.JSON(to[t.Key]), 200)))
			return
		}
	}
}

func c05ShapeWay(rp *c05Rep, ctx string, el map[string]any, w *osm.Way) {
	c05ShapeTags(rp, ctx, el, w.Tags)
	nv, present := el["nodes"]
	if !present || nv == nil {
		if len(w.Nodes) > 0 {
			rp.violate("shape/"+ctx+"way-nodes-not-id-array", fmt.Sprintf("way with %d nodes written with nodes absent or null", len(w.Nodes)))
		}
		return // a way without nodes: absent / null / [] are not distinguished by the property
	}
	if msg := c05IDArray(nv, w.Nodes); msg != "" {
		rp.violate("shape/"+ctx+"way-nodes-not-id-array", "way nodes: "+msg)
	}
}

func c05ShapeRelation(rp *c05Rep, ctx string, el map[string]any, r *osm.Relation) {
	c05ShapeTags(rp, ctx, el, r.Tags)
	mv, present := el["members"]
	if !present {
		rp.violate("shape/"+ctx+"members-missing", "relation written without a members array")
		return
	}
	if mv == nil {
		rp.violate("shape/"+ctx+"members-null", fmt.Sprintf("relation with %d members written with members: null", len(r.Members)))
		return
	}
	ma, ok := mv.([]any)
	if !ok {
		rp.violate("shape/"+ctx+"members-not-array", "members is not an array: "+c05Trim(fw.JSON(mv), 300))
		return
	}
	if len(ma) != len(r.Members) {
		rp.violate("shape/"+ctx+"members-content", fmt.Sprintf("%d members written, want %d", len(ma), len(r.Members)))
		return
	}
	for i, m := range r.Members {
		mo, ok := ma[i].(map[string]any)
		if !ok {
			rp.violate("shape/"+ctx+"members-content", fmt.Sprintf("member %d is not an object", i))
			return
		}
		ref, refOK := c05IsInt(mo["ref"])
		role, _ := mo["role"].(string)
		if t, _ := mo["type"].(string); t != string(m.Type) || !refOK || ref != m.Ref || role != m.Role {
			rp.violate("shape/"+ctx+"members-content", fmt.Sprintf("member %d written as %s, want type=%s ref=%d role=%q", i, c05Trim(fw.JSON(mo), 300), m.Type, m.Ref, m.Role))
			return
		}
		if nv, present := mo["nodes"]; present && nv != nil {
			if msg := c05IDArray(nv, m.Nodes); msg != "" {
				rp.violate("shape/"+ctx+"member-nodes-not-id-array", "member nodes: "+msg)
			}
		} else if len(m.Nodes) > 0 {
			rp.violate("shape/"+ctx+"member-nodes-not-id-array", "member nodes absent or null")
		}
	}
}

// c05ShapeElement checks one written element against the value it was written from.
func c05ShapeElement(rp *c05Rep, ctx string, el map[string]any, kind string, want any) {
	switch x := want.(type) {
	case *osm.Node:
		c05ShapeTags(rp, ctx, el, x.Tags)
	case *osm.Way:
		c05ShapeWay(rp, ctx, el, x)
	case *osm.Relation:
		c05ShapeRelation(rp, ctx, el, x)
	case *osm.Changeset:
		c05ShapeTags(rp, ctx, el, x.Tags)
	}
}

type c05Slot struct {
	kind string
	id   int64
	v    any
}

func c05Slots(o *osm.OSM) []c05Slot {
	var s []c05Slot
	for _, e := range o.Nodes {
		s = append(s, c05Slot{"node", int64(e.ID), e})
	}
	for _, e := range o.Ways {
		s = append(s, c05Slot{"way", int64(e.ID), e})
	}
	for _, e := range o.Relations {
		s = append(s, c05Slot{"relation", int64(e.ID), e})
	}
	for _, e := range o.Changesets {
		s = append(s, c05Slot{"changeset", int64(e.ID), e})
	}
	for _, e := range o.Notes {
		s = append(s, c05Slot{"note", int64(e.ID), e})
	}
	for _, e := range o.Users {
		s = append(s, c05Slot{"user", int64(e.ID), e})
	}
	return s
}

// c05ShapeOSM checks the generic parse of a marshalled osm.OSM.
func c05ShapeOSM(rp *c05Rep, ctx string, doc any, o *osm.OSM) {
	top, ok := doc.(map[string]any)
	if !ok {
		rp.violate("shape/"+ctx+"not-an-object", "marshalled container is not a JSON object")
		return
	}
	ev, present := top["elements"]
	ea, isArr := ev.([]any)
	if !present || !isArr {
		rp.violate("shape/"+ctx+"no-elements-array", "no elements array: "+c05Trim(fw.JSON(ev), 200))
		return
	}
	// every entry carries its type; (type, id) in written order, per kind, must be the model's
	byKind := map[string][]map[string]any{}
	for i, e := range ea {
		eo, ok := e.(map[string]any)
		if !ok {
			rp.violate("shape/"+ctx+"element-not-object", fmt.Sprintf("elements[%d] is not an object", i))
			continue
		}
		t, ok := eo["type"].(string)
		if !ok || t == "" {
			rp.violate("shape/"+ctx+"element-no-type", fmt.Sprintf("elements[%d] carries no type: %s", i, c05Trim(fw.JSON(eo), 300)))
			continue
		}
		byKind[t] = append(byKind[t], eo)
	}
	slots := c05Slots(o)
	idx := map[string]int{}
	wantCount := map[string]int{}
	for _, s := range slots {
		wantCount[s.kind]++
	}
	for k, l := range byKind {
		if len(l) != wantCount[k] {
			rp.violate("shape/"+ctx+"elements-mismatch", fmt.Sprintf("%d elements of type %q written, the value holds %d", len(l), k, wantCount[k]))
		}
	}
	for _, s := range slots {
		l := byKind[s.kind]
		if len(l) != wantCount[s.kind] {
			if len(l) == 0 {
				rp.violate("shape/"+ctx+"elements-mismatch", fmt.Sprintf("no element of type %q written, the value holds %d", s.kind, wantCount[s.kind]))
			}
			continue
		}
		el := l[idx[s.kind]]
		idx[s.kind]++
		if id, ok := c05IsInt(el["id"]); !ok || id != s.id {
			// order within a kind is not promised: detailed checks need the matching entry
			rp.res.Add("shape_elements_not_matched_by_position", 1)
			continue
		}
		c05ShapeElement(rp, ctx, el, s.kind, s.v)
		rp.res.Event(1)
	}
}

func c05ShapeChange(rp *c05Rep, doc any, c *osm.Change) {
	top, ok := doc.(map[string]any)
	if !ok {
		rp.violate("shape/change/not-an-object", "marshalled change is not a JSON object")
		return
	}
	for _, b := range []struct {
		name string
		o    *osm.OSM
	}{{"create", c.Create}, {"modify", c.Modify}, {"delete", c.Delete}} {
		if b.o == nil {
			continue
		}
		bv, present := top[b.name]
		if !present {
			rp.violate("shape/change/block-missing", "block "+b.name+" not written")
			continue
		}
		c05ShapeOSM(rp, "change/", bv, b.o)
	}
}

// c05Canon renders a generic parse canonically (sorted keys; numbers by value) so that the
// outputs of two codec configurations can be compared as JSON values.
func c05Canon(v any) string {
	var sb strings.Builder
	var rec func(v any)
	rec = func(v any) {
		switch x := v.(type) {
		case map[string]any:
			keys := make([]string, 0, len(x))
			for k := range x {
				keys = append(keys, k)
			}
			sort.Strings(keys)
			sb.WriteByte('{')
			for _, k := range keys {
				sb.WriteString(fmt.Sprintf("%q:", k))
				rec(x[k])
				sb.WriteByte(',')
			}
			sb.WriteByte('}')
		case []any:
			sb.WriteByte('[')
			for _, e := range x {
				rec(e)
				sb.WriteByte(',')
			}
			sb.WriteByte(']')
		case json.Number:
			if i, err := x.Int64(); err == nil {
				sb.WriteString(fmt.Sprint(i))
			} else if f, err := x.Float64(); err == nil {
				sb.WriteString(fmt.Sprintf("%g", f))
			} else {
				sb.WriteString(string(x))
			}
		case string:
			sb.WriteString(fmt.Sprintf("%q", x))
		default:
			sb.WriteString(fmt.Sprint(x))
		}
	}
	rec(v)
	return sb.String()
}

// ---------------------------------------------------------------------------------------
// the flows

type c05Run struct {
	res       *fw.Result
	configs   []c05Config
	docSig    string
	boundaryP float64 // probability of each value-side boundary operator in the round-trip flows
	// rewrite: also write back what was decoded from the independent document and read it again
	rewrite bool
	// null members of the document under check (independent-document flow only), see nullState
	nullTop map[string]bool
	soft    func(class string)
}

// nullState prepares the independent-document flow for documents that write optional members
// as null. Top-level members: null counts as absent, the statement fixes the outcome (empty,
// not placeholder text) — asserted, class "…-null". Element members: the statement is silent;
// the outcome (as absent / differs in <field> / rejected) is recorded per member name in the
// set null_member_outcomes and never raised. The returned function ends the state.
func (run *c05Run) nullState(docs ...*jsonw.Doc) func() {
	names := map[string]bool{}
	run.nullTop = map[string]bool{}
	for _, d := range docs {
		if d == nil {
			continue
		}
		if d.VersionKind == jsonw.VersionNull {
			run.nullTop["version"] = true
		}
		for _, n := range d.NullTop {
			run.nullTop[strings.TrimPrefix(n, "doc.")] = true
		}
		for _, n := range d.NullElem {
			names[n] = true
		}
	}
	if len(run.nullTop) > 0 {
		run.res.Add("documents_with_null_toplevel_members", 1)
	}
	if len(names) == 0 {
		return func() { run.nullTop = nil }
	}
	var l []string
	for n := range names {
		l = append(l, n)
	}
	sort.Strings(l)
	label := strings.Join(l, "+")
	if len(l) > 2 {
		label = "several"
	}
	classes := map[string]bool{}
	run.soft = func(class string) { classes[class] = true }
	run.res.Add("documents_with_null_element_members", 1)
	return func() {
		if len(classes) == 0 {
			run.res.Put("null_member_outcomes", label+" => read as absent")
		}
		for c := range classes {
			run.res.Put("null_member_outcomes", label+" => "+c)
		}
		run.nullTop, run.soft = nil, nil
	}
}

// boundary applies each boundary operator with probability boundaryP.
func (run *c05Run) boundary(o *osm.OSM, r *gen.R) {
	if run.boundaryP <= 0 || o == nil {
		return
	}
	for _, op := range c05BoundaryOps {
		if r.Chance(run.boundaryP) {
			op.f(o)
			run.res.Put("boundary_operators_applied", op.name)
		}
	}
}

// consulted counts, per direction, the container (un)marshals during which an installed codec
// was / was not called. Observation only: the property promises equal results, not that the
// codec is consulted (an empty container needs no codec at all).
func (run *c05Run) consulted(dir string, calls int) {
	if calls > 0 {
		run.res.Add("codec_consulted_runs_"+dir, 1)
	} else {
		run.res.Add("codec_not_consulted_runs_"+dir, 1)
	}
}

func (run *c05Run) recordCodec(cfg c05Config, codec *c05Codec) {
	if cfg.shared != nil {
		return // recorded once, when the goroutines are done
	}
	run.res.Add("codec_marshal_calls", int64(codec.marshalCalls))
	run.res.Add("codec_unmarshal_calls", int64(codec.unmarshalCalls))
	for t := range codec.mTypes {
		run.res.Put("codec_marshal_argument_types", t)
	}
	for t := range codec.uTypes {
		run.res.Put("codec_unmarshal_target_types", t)
	}
	run.res.Event(int64(codec.marshalCalls + codec.unmarshalCalls))
}

// unmarshalFlow: text -> library (every configuration) -> compare with the model.
// newTarget returns a fresh pointer; check compares it against the expectation.
func (run *c05Run) unmarshalFlow(path, errClass string, text []byte, newTarget func() any, check func(rp *c05Rep, got any), assertConsulted bool) {
	raised := map[string]bool{}
	dumps := map[string]string{}
	for _, cfg := range run.configs {
		rp := &c05Rep{res: run.res, cfg: cfg, raised: raised, input: string(text), nullTop: run.nullTop, soft: run.soft}
		target := newTarget()
		var err error
		var calls int
		pan := c05With(cfg, func(codec *c05Codec) {
			err = json.Unmarshal(text, target)
			_, calls = codec.counts()
			run.recordCodec(cfg, codec)
		})
		run.res.Eval(path + "/" + cfg.name + "/" + run.docSig)
		switch {
		case pan != "":
			rp.violate(path+"/panic", "json.Unmarshal panicked: "+pan)
			continue
		case err != nil:
			rp.violate(path+"/unmarshal-error/"+errClass, "json.Unmarshal of a valid document failed: "+err.Error())
			dumps[cfg.name] = "error"
			continue
		}
		if cfg.u && assertConsulted {
			run.consulted("unmarshal", calls)
		}
		dumps[cfg.name] = c05Dump(target)
		check(rp, target)
	}
	for _, cfg := range run.configs[1:] {
		if d0, d := dumps[run.configs[0].name], dumps[cfg.name]; d0 != "" && d != "" && d0 != d {
			rp := &c05Rep{res: run.res, cfg: cfg, raised: raised, input: string(text)}
			rp.violate(path+"/codec-differs", "unmarshal result differs from the default configuration's: "+eq.Diff(d0, d))
		}
	}
}

// marshalFlow: value -> library marshal (every configuration) -> shape -> library unmarshal
// (same configuration) -> compare with the value.
func (run *c05Run) marshalFlow(path, errClass string, v any, shape func(rp *c05Rep, doc any), newTarget func() any, check func(rp *c05Rep, got any), assertConsulted bool) {
	raised := map[string]bool{}
	canon := map[string]string{}
	dumps := map[string]string{}
	before := eq.Dump(v)
	for _, cfg := range run.configs {
		rp := &c05Rep{res: run.res, cfg: cfg, raised: raised, input: "value: " + c05Trim(before, 3000)}
		var out []byte
		var err error
		var calls int
		pan := c05With(cfg, func(codec *c05Codec) {
			out, err = json.Marshal(v)
			calls, _ = codec.counts()
			run.recordCodec(cfg, codec)
		})
		run.res.Eval(path + "/" + cfg.name + "/" + run.docSig)
		if pan != "" {
			rp.violate(path+"/panic", "json.Marshal panicked: "+pan)
			continue
		}
		if err != nil {
			rp.violate(path+"/marshal-error", "json.Marshal failed: "+err.Error())
			continue
		}
		rp.input = "value: " + c05Trim(before, 3000) + "\nmarshalled: " + c05Trim(string(out), 3000)
		if run.res.Sample == nil && cfg.name == "default" {
			run.res.Sample = map[string]any{"flow": path, "marshalled": c05Trim(string(out), 700)}
		}
		if cfg.m && assertConsulted {
			run.consulted("marshal", calls)
		}
		doc, perr := c05Generic(out)
		if perr != nil {
			rp.violate("shape/not-json", "marshalled output is not valid JSON: "+perr.Error())
			continue
		}
		canon[cfg.name] = c05Canon(doc)
		shape(rp, doc)
		// read the library's own output back under the same configuration
		target := newTarget()
		var uerr error
		var ucalls int
		pan = c05With(cfg, func(codec *c05Codec) {
			uerr = json.Unmarshal(out, target)
			_, ucalls = codec.counts()
			run.recordCodec(cfg, codec)
		})
		switch {
		case pan != "":
			rp.violate(path+"/panic", "json.Unmarshal of the library's own output panicked: "+pan)
		case uerr != nil:
			rp.violate(path+"/unmarshal-error/"+errClass, "the library cannot read its own output: "+uerr.Error())
			dumps[cfg.name] = "error"
		default:
			if cfg.u && assertConsulted {
				run.consulted("unmarshal", ucalls)
			}
			dumps[cfg.name] = c05Dump(target)
			check(rp, target)
		}
	}
	if after := eq.Dump(v); after != before {
		// not promised by this property, but the comparisons above relied on it
		run.res.Inconc("%s: value changed while being marshalled: %s", path, eq.Diff(before, after))
	}
	for _, cfg := range run.configs[1:] {
		rp := &c05Rep{res: run.res, cfg: cfg, raised: raised, input: "value: " + c05Trim(before, 3000)}
		if c0, c := canon[run.configs[0].name], canon[cfg.name]; c0 != "" && c != "" && c0 != c {
			rp.violate(path+"/codec-differs-marshal", "marshalled JSON value differs from the default configuration's: "+eq.Diff(c0, c))
		}
		if d0, d := dumps[run.configs[0].name], dumps[cfg.name]; d0 != "" && d != "" && d0 != d {
			rp.violate(path+"/codec-differs", "round-trip result differs from the default configuration's: "+eq.Diff(d0, d))
		}
	}
}

func c05BoundsClass(os ...*osm.OSM) string {
	for _, o := range os {
		if o != nil && o.Bounds != nil {
			return "with-bounds"
		}
	}
	return "no-bounds"
}

func c05DocSig(d *jsonw.Doc) string {
	top := 0
	for i, p := range []*string{d.Generator, d.Copyright, d.Attribution, d.License} {
		if p != nil {
			top |= 1 << uint(i)
		}
	}
	kinds := map[string]bool{}
	for _, e := range d.Elements {
		kinds[e.Kind()] = true
	}
	var ks []string
	for k := range kinds {
		ks = append(ks, k[:2])
	}
	sort.Strings(ks)
	return fmt.Sprintf("v=%s,top=%x,b=%v,x=%v,k=%s", d.VersionKind, top, d.Bounds != nil, len(d.Extra) > 0, strings.Join(ks, "+"))
}

// checkDoc runs both flows on one document model.
func (run *c05Run) checkDoc(d *jsonw.Doc, st *jsonw.Style, r *gen.R, standalone bool) {
	run.docSig = c05DocSig(d)
	run.res.Add("documents", 1)
	ex := c05Expect(d)
	text := jsonw.Write(d.Value(), st)
	if _, err := c05Generic(text); err != nil {
		panic("harness: independent writer produced invalid JSON: " + err.Error() + "\n" + string(text))
	}
	if run.res.Sample == nil {
		run.res.Sample = map[string]any{"flow": "indep", "style": st.Describe(), "document": c05Trim(string(text), 700)}
	}
	finish := run.nullState(d)
	run.unmarshalFlow("indep", "document", text, func() any { return &osm.OSM{} }, func(rp *c05Rep, got any) {
		c05Compare(rp, "indep", eq.Clone(ex.o), got.(*osm.OSM), ex.visUnset)
	}, true)
	finish()
	if run.rewrite {
		// write back what the library decoded from the independent document (its times carry
		// the locations the document's spellings gave them) and read that again
		decoded := &osm.OSM{}
		var err error
		// (a panic or an error here has already been reported by the flow above)
		if pan := c05With(c05Default, func(*c05Codec) { err = json.Unmarshal(text, decoded) }); pan == "" && err == nil {
			run.marshalFlow("rewrite", c05BoundsClass(decoded), decoded, func(rp *c05Rep, doc any) { c05ShapeOSM(rp, "rewrite/", doc, decoded) },
				func() any { return &osm.OSM{} }, func(rp *c05Rep, got any) { c05Compare(rp, "rewrite", decoded, got.(*osm.OSM), nil) }, false)
			run.res.Add("documents_rewritten", 1)
		}
	}

	// marshal round trip of the value the document denotes, plus annotations
	v := eq.Clone(ex.o)
	c05Annotate(v, r)
	run.boundary(v, r)
	run.checkValue(v, standalone)
}

// checkValue runs the marshal round trip on a container value and, if asked, on each of its
// elements alone.
func (run *c05Run) checkValue(v *osm.OSM, standalone bool) {
	run.marshalFlow("roundtrip", c05BoundsClass(v), v, func(rp *c05Rep, doc any) { c05ShapeOSM(rp, "", doc, v) },
		func() any { return &osm.OSM{} }, func(rp *c05Rep, got any) { c05Compare(rp, "roundtrip", v, got.(*osm.OSM), nil) }, true)

	if !standalone {
		return
	}
	for _, s := range c05Slots(v) {
		s := s
		run.docSig = "standalone/" + s.kind
		run.marshalFlow("element", s.kind, s.v, func(rp *c05Rep, doc any) {
			el, ok := doc.(map[string]any)
			if !ok {
				rp.violate("shape/element/not-an-object", s.kind+" is not marshalled as an object")
				return
			}
			if t, _ := el["type"].(string); t != s.kind {
				rp.violate("shape/element/element-no-type", fmt.Sprintf("%s marshalled with type %v", s.kind, el["type"]))
			}
			c05ShapeElement(rp, "element/", el, s.kind, s.v)
		}, func() any { return reflect.New(reflect.TypeOf(s.v).Elem()).Interface() }, func(rp *c05Rep, got any) {
			want := eq.Clone(s.v)
			c05Norm(want)
			c05Norm(got)
			if dw, dg := c05Dump(want), c05Dump(got); dw != dg {
				f := c05DiffField(want, got)
				rp.violate("element/"+s.kind+"."+f, fmt.Sprintf("standalone %s round trip differs in %s: %s", s.kind, f, eq.Diff(dw, dg)))
			}
			if cs, ok := want.(*osm.Changeset); ok {
				c05CompareChange(rp, "element/changeset-change", cs.Change, got.(*osm.Changeset).Change)
			}
		}, false)
	}
}

func (run *c05Run) checkChange(c *jsonw.ChangeDoc, st *jsonw.Style, r *gen.R) {
	blocks := 0
	for _, b := range []*jsonw.Doc{c.Create, c.Modify, c.Delete} {
		if b != nil {
			blocks++
		}
	}
	run.docSig = fmt.Sprintf("change/blocks=%d,ver=%v", blocks, c.Version != nil)
	run.res.Add("change_documents", 1)
	want := c05ExpectChange(c)
	text := jsonw.Write(c.Value(), st)
	if _, err := c05Generic(text); err != nil {
		panic("harness: independent writer produced invalid JSON: " + err.Error())
	}
	if run.res.Sample == nil {
		run.res.Sample = map[string]any{"flow": "indep/change", "style": st.Describe(), "document": c05Trim(string(text), 700)}
	}
	finish := run.nullState(c.Create, c.Modify, c.Delete)
	defer finish()
	// visibility left unsaid inside blocks: mask by copying (blocks are compared without the
	// per-kind table, so patch the expectation instead)
	run.unmarshalFlow("indep/change", "document", text, func() any { return &osm.Change{} }, func(rp *c05Rep, got any) {
		g := got.(*osm.Change)
		w := eq.Clone(want)
		for _, p := range []struct {
			d    *jsonw.Doc
			w, g *osm.OSM
		}{{c.Create, w.Create, g.Create}, {c.Modify, w.Modify, g.Modify}, {c.Delete, w.Delete, g.Delete}} {
			if p.d == nil || p.g == nil {
				continue
			}
			vu := c05Expect(p.d).visUnset
			if len(p.g.Nodes) == len(p.w.Nodes) && len(p.g.Ways) == len(p.w.Ways) && len(p.g.Relations) == len(p.w.Relations) {
				for i, u := range vu["node"] {
					if u {
						p.w.Nodes[i].Visible = p.g.Nodes[i].Visible
					}
				}
				for i, u := range vu["way"] {
					if u {
						p.w.Ways[i].Visible = p.g.Ways[i].Visible
					}
				}
				for i, u := range vu["relation"] {
					if u {
						p.w.Relations[i].Visible = p.g.Relations[i].Visible
					}
				}
			}
		}
		c05CompareChange(rp, "indep/change", w, g)
	}, blocks > 0)
	if run.rewrite {
		decoded := &osm.Change{}
		var err error
		if pan := c05With(c05Default, func(*c05Codec) { err = json.Unmarshal(text, decoded) }); pan == "" && err == nil {
			run.marshalFlow("rewrite/change", c05BoundsClass(decoded.Create, decoded.Modify, decoded.Delete), decoded,
				func(rp *c05Rep, doc any) { c05ShapeChange(rp, doc, decoded) }, func() any { return &osm.Change{} },
				func(rp *c05Rep, got any) { c05CompareChange(rp, "rewrite/change", decoded, got.(*osm.Change)) }, false)
			run.res.Add("documents_rewritten", 1)
		}
	}

	v := eq.Clone(want)
	for _, o := range []*osm.OSM{v.Create, v.Modify, v.Delete} {
		if o != nil {
			c05Annotate(o, r)
			run.boundary(o, r)
		}
	}
	run.checkChangeValue(v, blocks > 0)
}

// checkChangeValue runs the marshal round trip on a change value.
func (run *c05Run) checkChangeValue(v *osm.Change, blocks bool) {
	run.marshalFlow("roundtrip/change", c05BoundsClass(v.Create, v.Modify, v.Delete), v, func(rp *c05Rep, doc any) { c05ShapeChange(rp, doc, v) },
		func() any { return &osm.Change{} }, func(rp *c05Rep, got any) { c05CompareChange(rp, "roundtrip/change", v, got.(*osm.Change)) }, blocks)
}

// ---------------------------------------------------------------------------------------
// cases

var c05AllConfigs = []c05Config{c05Default, c05Custom, c05Reformer, c05MarshOnly, c05UnmOnly}

func c05Style(r *gen.R) *jsonw.Style {
	return &jsonw.Style{R: r, Shuffle: r.Chance(0.7), Space: r.Intn(3), Escape: r.Intn(3)}
}

// c05PartNames lists the optional parts the generator asks about for a kind.
func c05PartNames(kind string) []string {
	p := &jsonw.Fixed{Invert: true}
	g := jsonw.NewGen(gen.New(1, "c05parts"), p)
	g.MaxList = 2
	for i := 0; i < 3; i++ {
		g.Element(kind)
	}
	return p.AskedSorted()
}

// ---------------------------------------------------------------------------------------
// forms: every value marshalled by value, by pointer and nested by value

// c05Form is one way of handing a value of type T to the encoder / decoder.
type c05Form struct {
	name  string
	wrap  func(x reflect.Value) any                                     // x: a value of type T (not addressable)
	peel  func(out []byte) (json.RawMessage, error)                     // the part of the output that is x
	typed func(t reflect.Type) (target any, inner func() reflect.Value) // nil: wrapper cannot be a typed unmarshal target
}

func c05PeelKey(k string) func([]byte) (json.RawMessage, error) {
	return func(out []byte) (json.RawMessage, error) {
		var m map[string]json.RawMessage
		if err := json.Unmarshal(out, &m); err != nil {
			return nil, err
		}
		raw, ok := m[k]
		if !ok {
			return nil, fmt.Errorf("wrapper member %q missing", k)
		}
		return raw, nil
	}
}

func c05PeelFirst(out []byte) (json.RawMessage, error) {
	var a []json.RawMessage
	if err := json.Unmarshal(out, &a); err != nil {
		return nil, err
	}
	if len(a) != 1 {
		return nil, fmt.Errorf("wrapper array has %d entries", len(a))
	}
	return a[0], nil
}

func c05StructOf(t reflect.Type) reflect.Type {
	return reflect.StructOf([]reflect.StructField{{Name: "F", Type: t, Tag: `json:"f"`}})
}

var c05Forms = []c05Form{
	{"pointer", func(x reflect.Value) any {
		p := reflect.New(x.Type())
		p.Elem().Set(x)
		return p.Interface()
	}, func(out []byte) (json.RawMessage, error) { return out, nil },
		func(t reflect.Type) (any, func() reflect.Value) {
			p := reflect.New(t)
			return p.Interface(), func() reflect.Value { return p.Elem() }
		}},
	{"value", func(x reflect.Value) any { return x.Interface() },
		func(out []byte) (json.RawMessage, error) { return out, nil }, nil},
	{"struct-field-by-value", func(x reflect.Value) any {
		s := reflect.New(c05StructOf(x.Type())).Elem()
		s.Field(0).Set(x)
		return s.Interface() // the struct itself by value: its field is not addressable
	}, c05PeelKey("f"), func(t reflect.Type) (any, func() reflect.Value) {
		p := reflect.New(c05StructOf(t))
		return p.Interface(), func() reflect.Value { return p.Elem().Field(0) }
	}},
	{"field-of-pointed-struct", func(x reflect.Value) any {
		s := reflect.New(c05StructOf(x.Type()))
		s.Elem().Field(0).Set(x)
		return s.Interface()
	}, c05PeelKey("f"), nil},
	{"map-value", func(x reflect.Value) any {
		m := reflect.MakeMap(reflect.MapOf(reflect.TypeOf(""), x.Type()))
		m.SetMapIndex(reflect.ValueOf("k"), x)
		return m.Interface()
	}, c05PeelKey("k"), func(t reflect.Type) (any, func() reflect.Value) {
		p := reflect.New(reflect.MapOf(reflect.TypeOf(""), t))
		return p.Interface(), func() reflect.Value { return p.Elem().MapIndex(reflect.ValueOf("k")) }
	}},
	{"slice-element", func(x reflect.Value) any {
		s := reflect.MakeSlice(reflect.SliceOf(x.Type()), 1, 1)
		s.Index(0).Set(x)
		return s.Interface()
	}, c05PeelFirst, func(t reflect.Type) (any, func() reflect.Value) {
		p := reflect.New(reflect.SliceOf(t))
		return p.Interface(), func() reflect.Value {
			if p.Elem().Len() != 1 {
				return reflect.Value{}
			}
			return p.Elem().Index(0)
		}
	}},
	{"array-element-by-value", func(x reflect.Value) any {
		a := reflect.New(reflect.ArrayOf(1, x.Type())).Elem()
		a.Index(0).Set(x)
		return a.Interface()
	}, c05PeelFirst, func(t reflect.Type) (any, func() reflect.Value) {
		p := reflect.New(reflect.ArrayOf(1, t))
		return p.Interface(), func() reflect.Value { return p.Elem().Index(0) }
	}},
	{"interface-in-slice", func(x reflect.Value) any { return []any{x.Interface()} }, c05PeelFirst, nil},
	{"interface-in-map", func(x reflect.Value) any { return map[string]any{"k": x.Interface()} }, c05PeelKey("k"), nil},
	{"interface-field", func(x reflect.Value) any {
		return struct {
			F any `json:"f"`
		}{x.Interface()}
	}, c05PeelKey("f"), nil},
}

// c05FormShape applies the shape oracle to the output for one value (want: *T).
func c05FormShape(rp *c05Rep, ctx string, doc any, want any) {
	switch w := want.(type) {
	case *osm.OSM:
		c05ShapeOSM(rp, ctx, doc, w)
	case *osm.Change:
		top, ok := doc.(map[string]any)
		if !ok {
			rp.violate("shape/"+ctx+"not-an-object", "change is not marshalled as an object")
			return
		}
		for _, b := range []struct {
			name string
			o    *osm.OSM
		}{{"create", w.Create}, {"modify", w.Modify}, {"delete", w.Delete}} {
			if b.o == nil {
				continue
			}
			if bv, present := top[b.name]; !present {
				rp.violate("shape/"+ctx+"block-missing", "block "+b.name+" not written")
			} else {
				c05ShapeOSM(rp, ctx, bv, b.o)
			}
		}
	case *osm.Node, *osm.Way, *osm.Relation, *osm.Changeset, *osm.Note, *osm.User:
		kind := strings.ToLower(reflect.TypeOf(want).Elem().Name())
		el, ok := doc.(map[string]any)
		if !ok {
			rp.violate("shape/"+ctx+"not-an-object", kind+" is not marshalled as an object")
			return
		}
		if t, _ := el["type"].(string); t != kind {
			rp.violate("shape/"+ctx+"element-no-type", fmt.Sprintf("%s marshalled with type %v: %s", kind, el["type"], c05Trim(fw.JSON(el), 300)))
		}
		c05ShapeElement(rp, ctx, el, kind, want)
	case *osm.Tags:
		if _, ok := doc.(map[string]any); !ok {
			rp.violate("shape/"+ctx+"tags-not-object", "tags are not marshalled as an object: "+c05Trim(fw.JSON(doc), 300))
			return
		}
		c05ShapeTags(rp, ctx, map[string]any{"tags": doc}, *w)
	case *osm.WayNodes:
		if doc == nil && len(*w) == 0 {
			return
		}
		if msg := c05IDArray(doc, *w); msg != "" {
			rp.violate("shape/"+ctx+"way-nodes-not-id-array", "way nodes: "+msg)
		}
	case *osm.Members:
		if a, ok := doc.([]any); !ok {
			rp.violate("shape/"+ctx+"members-null", "members not marshalled as an array: "+c05Trim(fw.JSON(doc), 200))
		} else if len(a) != len(*w) {
			rp.violate("shape/"+ctx+"members-content", fmt.Sprintf("%d members written, want %d", len(a), len(*w)))
		}
	case *osm.Date:
		if _, ok := doc.(string); !ok && doc != nil {
			rp.violate("shape/"+ctx+"date-not-string", "date marshalled as "+c05Trim(fw.JSON(doc), 200))
		}
	}
}

// c05FormCompare compares a value read back (got: *T) with the original (want: *T).
func c05FormCompare(rp *c05Rep, path string, want, got any) {
	switch w := want.(type) {
	case *osm.OSM:
		c05Compare(rp, path, w, got.(*osm.OSM), nil)
	case *osm.Change:
		c05CompareChange(rp, path, w, got.(*osm.Change))
	default:
		wc := eq.Clone(want)
		c05Norm(wc)
		c05Norm(got)
		if dw, dg := c05Dump(wc), c05Dump(got); dw != dg {
			name := reflect.TypeOf(want).Elem().Name()
			f := c05DiffField(wc, got)
			rp.violate(path+"/"+strings.ToLower(name)+"."+f, fmt.Sprintf("%s differs in %s: %s", name, f, eq.Diff(dw, dg)))
		}
		if cs, ok := wc.(*osm.Changeset); ok {
			c05CompareChange(rp, path+"/changeset-change", cs.Change, got.(*osm.Changeset).Change)
		}
	}
}

// c05FormsOf lists the values (as non-pointer reflect values) of every type that has, or
// contains by value, a custom (un)marshaler.
func c05FormsOf(v *osm.OSM) []reflect.Value {
	out := []reflect.Value{reflect.ValueOf(*v), reflect.ValueOf(osm.Change{Version: "0.6", Create: eq.Clone(v), Delete: &osm.OSM{Version: "0.6"}})}
	seen := map[string]bool{}
	for _, s := range c05Slots(v) {
		if !seen[s.kind] {
			seen[s.kind] = true
			out = append(out, reflect.ValueOf(s.v).Elem())
		}
	}
	if len(v.Nodes) > 0 {
		out = append(out, reflect.ValueOf(v.Nodes[0].Tags))
	}
	if len(v.Ways) > 0 {
		out = append(out, reflect.ValueOf(v.Ways[0].Nodes), reflect.ValueOf(v.Ways[0].Tags))
	}
	if len(v.Relations) > 0 {
		out = append(out, reflect.ValueOf(v.Relations[0].Members))
	}
	if len(v.Notes) > 0 {
		out = append(out, reflect.ValueOf(v.Notes[0].DateCreated), reflect.ValueOf(v.Notes[0].DateClosed))
	}
	return out
}

// c05CheckForms marshals x in every form under every configuration (with the codec installed
// also by calling the codec itself, as a user of a replacement codec would) and applies the
// shape and round-trip oracles to the part of the output that is x.
func (run *c05Run) checkForms(x reflect.Value) {
	t := x.Type()
	tn := t.Name()
	wantP := reflect.New(t)
	wantP.Elem().Set(x)
	want := wantP.Interface() // *T, owned by the harness
	input := "value (" + tn + "): " + c05Trim(eq.Dump(want), 3000)
	for _, form := range c05Forms {
		raised := map[string]bool{}
		canonDefault := ""
		for _, cfg := range run.configs {
			vias := []string{"json.Marshal"}
			if cfg.m {
				vias = append(vias, "codec.Marshal")
			}
			for _, via := range vias {
				rp := &c05Rep{res: run.res, cfg: cfg, raised: raised, input: input}
				var out []byte
				var err error
				var ref []byte
				pan := c05With(cfg, func(codec *c05Codec) {
					w := form.wrap(x)
					if via == "codec.Marshal" {
						out, err = codec.Marshal(w)
					} else {
						out, err = json.Marshal(w)
					}
					ref, _ = json.Marshal(c05Forms[0].wrap(x))
					run.recordCodec(cfg, codec)
				})
				run.res.Eval("forms/" + cfg.name + "/" + tn + "/" + form.name + "/" + via)
				run.res.Add("forms_marshalled", 1)
				path := "forms/" + form.name
				ctx := "form-" + form.name + "/"
				if pan != "" {
					rp.violate(path+"/panic", tn+": marshal panicked: "+pan)
					continue
				}
				if err != nil {
					rp.violate(path+"/marshal-error", tn+": "+err.Error())
					continue
				}
				rp.input = input + "\nform: " + form.name + " via " + via + "\nmarshalled: " + c05Trim(string(out), 3000)
				raw, perr := form.peel(out)
				if perr != nil {
					rp.violate("shape/"+ctx+"wrapper", tn+": wrapper output unusable: "+perr.Error())
					continue
				}
				doc, gerr := c05Generic(raw)
				if gerr != nil {
					rp.violate("shape/"+ctx+"not-json", tn+": "+gerr.Error())
					continue
				}
				c05FormShape(rp, ctx, doc, want)
				if cn := c05Canon(doc); cfg.name == "default" {
					canonDefault = cn
				} else if canonDefault != "" && cn != canonDefault {
					rp.violate(path+"/codec-differs-marshal", tn+" marshalled as a different JSON value than under the default configuration: "+eq.Diff(canonDefault, cn))
				}
				if refDoc, e := c05Generic(ref); e == nil && c05Canon(refDoc) != c05Canon(doc) {
					rp.violate(path+"/differs-from-pointer-form", tn+" marshalled as "+form.name+" is a different JSON value than marshalled through a pointer: "+eq.Diff(c05Canon(refDoc), c05Canon(doc)))
				}
				// read the part back on its own
				backP := reflect.New(t)
				var uerr error
				pan = c05With(cfg, func(codec *c05Codec) { uerr = json.Unmarshal(raw, backP.Interface()) })
				switch {
				case pan != "":
					rp.violate(path+"/panic", tn+": unmarshal panicked: "+pan)
				case uerr != nil:
					rp.violate(path+"/unmarshal-error", tn+": the library cannot read its own output: "+uerr.Error())
				default:
					c05FormCompare(rp, path, want, backP.Interface())
				}
				// and through the same wrapper type
				if form.typed != nil {
					target, inner := form.typed(t)
					pan = c05With(cfg, func(codec *c05Codec) { uerr = json.Unmarshal(out, target) })
					switch {
					case pan != "":
						rp.violate(path+"/panic", tn+": unmarshal into wrapper panicked: "+pan)
					case uerr != nil:
						rp.violate(path+"/unmarshal-error", tn+": unmarshal into the wrapper type failed: "+uerr.Error())
					default:
						iv := inner()
						if !iv.IsValid() {
							rp.violate(path+"/wrapper-lost-value", tn+": wrapper came back without the value")
							break
						}
						gp := reflect.New(t)
						gp.Elem().Set(iv)
						c05FormCompare(rp, path, want, gp.Interface())
					}
				}
			}
		}
	}
}

// c05Retained: output handed out by a MarshalJSON method belongs to the caller. Every
// MarshalJSON method of the library is called directly, the bytes are kept, other values are
// marshalled (directly and through encoding/json), and only then the kept bytes are looked at
// again: they must be unchanged and still unmarshal to the value they were written from.
func c05Retained(res *fw.Result, run *c05Run, c fw.Case, r *gen.R) {
	value := func() *osm.OSM {
		g := jsonw.NewGen(r, jsonw.Random{R: r, P: 0.85})
		d := &jsonw.Doc{VersionKind: jsonw.VersionString, Version: "0.6"}
		g.Top(d)
		for _, k := range jsonw.Kinds {
			for i, n := 0, r.Range(1, 2); i < n; i++ {
				d.Elements = append(d.Elements, g.Element(k))
			}
		}
		v := c05Expect(d).o
		if v.Version == "" {
			v.Version = "0.6"
		}
		c05Annotate(v, r)
		return v
	}
	type kept struct {
		method   string
		out, cpy []byte
		verify   func(out []byte) string // "" = still denotes the original
	}
	for i := 0; i < int(c.Int("docs")); i++ {
		v := value()
		others := []*osm.OSM{value(), value(), value()}
		for _, cfg := range run.configs {
			rp := &c05Rep{res: res, cfg: cfg, raised: map[string]bool{}, input: "value: " + c05Trim(eq.Dump(v), 4000)}
			var ks []kept
			keep := func(method string, f func() ([]byte, error), verify func(out []byte) string) {
				out, err := f()
				res.Event(1)
				if err != nil {
					rp.violate("retained/"+method+"/marshal-error", method+" failed: "+err.Error())
					return
				}
				ks = append(ks, kept{method, out, append([]byte(nil), out...), verify})
			}
			pan := c05With(cfg, func(codec *c05Codec) {
				keep("OSM.MarshalJSON", v.MarshalJSON, func(out []byte) string {
					got := &osm.OSM{}
					if err := json.Unmarshal(out, got); err != nil {
						return "does not unmarshal: " + err.Error()
					}
					sub := &c05Rep{res: res, cfg: cfg, raised: rp.raised, input: rp.input + "\nkept output: " + c05Trim(string(out), 3000)}
					c05Compare(sub, "retained/OSM.MarshalJSON", v, got, nil)
					return ""
				})
				tagsOf := func(name string, ts osm.Tags) {
					keep("Tags.MarshalJSON", ts.MarshalJSON, func(out []byte) string {
						var back osm.Tags
						if err := back.UnmarshalJSON(out); err != nil {
							return name + " tags do not unmarshal: " + err.Error()
						}
						if c05Dump(ts) != c05Dump(back) {
							return name + " tags differ: " + eq.Diff(c05Dump(ts), c05Dump(back))
						}
						return ""
					})
				}
				for _, e := range v.Nodes {
					tagsOf("node", e.Tags)
				}
				for _, e := range v.Ways {
					e := e
					tagsOf("way", e.Tags)
					keep("WayNodes.MarshalJSON", e.Nodes.MarshalJSON, func(out []byte) string {
						var back osm.WayNodes
						if err := back.UnmarshalJSON(out); err != nil {
							return "do not unmarshal: " + err.Error()
						}
						if c05Dump(e.Nodes) != c05Dump(back) {
							return "differ: " + eq.Diff(c05Dump(e.Nodes), c05Dump(back))
						}
						return ""
					})
				}
				for _, e := range v.Relations {
					e := e
					tagsOf("relation", e.Tags)
					keep("Members.MarshalJSON", e.Members.MarshalJSON, func(out []byte) string {
						var back []osm.Member
						if err := json.Unmarshal(out, &back); err != nil {
							return "do not unmarshal: " + err.Error()
						}
						if c05Dump(e.Members) != c05Dump(osm.Members(back)) {
							return "differ: " + eq.Diff(c05Dump(e.Members), c05Dump(osm.Members(back)))
						}
						return ""
					})
				}
				for _, e := range v.Notes {
					e := e
					keep("Date.MarshalJSON", e.DateCreated.MarshalJSON, func(out []byte) string {
						var back osm.Date
						if err := json.Unmarshal(out, &back); err != nil {
							return "does not unmarshal: " + err.Error()
						}
						if c05Dump(e.DateCreated) != c05Dump(back) {
							return "differs: " + eq.Diff(c05Dump(e.DateCreated), c05Dump(back))
						}
						return ""
					})
				}
				// now marshal other things
				for _, o := range others {
					o.MarshalJSON()
					json.Marshal(o)
					for _, w := range o.Ways {
						w.Tags.MarshalJSON()
						w.Nodes.MarshalJSON()
					}
					for _, rel := range o.Relations {
						rel.Members.MarshalJSON()
					}
					for _, n := range o.Notes {
						n.DateClosed.MarshalJSON()
					}
				}
				res.Add("codec_marshal_calls", int64(codec.marshalCalls))
			})
			res.Eval("retained/" + cfg.name)
			if pan != "" {
				rp.violate("retained/panic", "panic: "+pan)
				continue
			}
			for _, k := range ks {
				res.Add("retained_outputs_checked", 1)
				res.Put("retained_methods", k.method)
				if !bytes.Equal(k.out, k.cpy) {
					rp.violate("retained/"+k.method+"/output-overwritten", fmt.Sprintf("bytes returned by %s changed after other values were marshalled: returned %s now %s",
						k.method, c05Trim(string(k.cpy), 300), c05Trim(string(k.out), 300)))
					continue
				}
				if msg := k.verify(k.out); msg != "" {
					rp.violate("retained/"+k.method+"/wrong-content", k.method+" output "+msg)
				}
			}
		}
	}
	res.Sample = map[string]any{"documents": c.Int("docs"), "methods": []string{"OSM", "Tags", "WayNodes", "Members", "Date"}}
}

// c05Concurrent: many goroutines marshal and unmarshal their own generated values at the same
// time; each result is compared with its own model. One configuration per phase: the codec
// variables are set before the goroutines start and restored after they finished.
func c05Concurrent(res *fw.Result, c fw.Case) {
	res.Sample = map[string]any{"goroutines": c.Int("goroutines"), "documents_each": c.Int("docs"), "repetitions": c.Int("reps"), "variant": c.Variant}
	for _, base := range []c05Config{c05Default, c05Custom, c05Reformer} {
		cfg := base
		cfg.shared = newC05Codec()
		cfg.shared.reform = cfg.reform
		func() {
			defer func() {
				osm.CustomJSONMarshaler = nil
				osm.CustomJSONUnmarshaler = nil
			}()
			if cfg.m {
				osm.CustomJSONMarshaler = cfg.shared
			}
			if cfg.u {
				osm.CustomJSONUnmarshaler = cfg.shared
			}
			var wg sync.WaitGroup
			start := make(chan struct{})
			for g := 0; g < int(c.Int("goroutines")); g++ {
				wg.Add(1)
				go func(g int) {
					defer wg.Done()
					r := gen.New(gen.Sub(c.Seed, "c05conc-"+cfg.name, g), "c05")
					run := &c05Run{res: res, configs: []c05Config{cfg}}
					type job struct {
						d  *jsonw.Doc
						st *jsonw.Style
					}
					var jobs []job
					for i := 0; i < int(c.Int("docs")); i++ {
						gg := jsonw.NewGen(r, jsonw.Random{R: r, P: 0.8})
						gg.MaxTags = 8
						jobs = append(jobs, job{gg.Doc(r.Range(4, 14), []int{7, 63}[i%2]), c05Style(r)})
					}
					<-start
					for rep := 0; rep < int(c.Int("reps")); rep++ {
						for _, j := range jobs {
							run.checkDoc(j.d, j.st, r, rep == 0)
						}
					}
				}(g)
			}
			close(start)
			wg.Wait()
			m, u := cfg.shared.counts()
			res.Add("codec_marshal_calls", int64(m))
			res.Add("codec_unmarshal_calls", int64(u))
			res.Add("concurrent_documents", c.Int("goroutines")*c.Int("docs")*c.Int("reps"))
		}()
	}
	res.Eval("concurrent|" + c.Variant)
}

// c05NullNames lists the optional members of a kind (and of relation members) that the
// generator can write as null.
func c05NullNames(kind string) []string {
	seen := map[string]bool{}
	var out []string
	for _, set := range []map[string]bool{{}, {"relation.members": true}} {
		g := jsonw.NewGen(gen.New(1, "c05nullnames"), &jsonw.Fixed{Set: set})
		g.NullElemP = 1
		for i := 0; i < 6; i++ {
			for _, n := range g.ElementNulls(g.Element(kind)) {
				if !seen[n] {
					seen[n] = true
					out = append(out, n)
				}
			}
		}
	}
	sort.Strings(out)
	return out
}

// c05BoundaryBase builds the base containers of the boundary-value enumeration.
func c05BoundaryBase(k int, r *gen.R) *osm.OSM {
	two := func(p jsonw.Presence) *osm.OSM {
		g := jsonw.NewGen(r, p)
		g.MaxList = 3
		d := &jsonw.Doc{VersionKind: jsonw.VersionString, Version: "0.6"}
		s := "gen"
		d.Generator = &s
		for _, kind := range jsonw.Kinds {
			d.Elements = append(d.Elements, g.Element(kind), g.Element(kind))
		}
		return c05Expect(d).o
	}
	switch k {
	case 0:
		return &osm.OSM{Version: "0.6"}
	case 1:
		return &osm.OSM{Version: "0.6", Nodes: osm.Nodes{{ID: 1, Lat: 1, Lon: 2, Visible: true, Version: 1}},
			Ways:       osm.Ways{{ID: 2, Visible: true, Nodes: osm.WayNodes{{ID: 1}}}},
			Relations:  osm.Relations{{ID: 3, Visible: true, Members: osm.Members{{Type: osm.TypeWay, Ref: 2, Role: "outer"}}}},
			Changesets: osm.Changesets{{ID: 4}}, Notes: osm.Notes{{ID: 5}}, Users: osm.Users{{ID: 6}}}
	case 2:
		return two(&jsonw.Fixed{Invert: true}) // every optional part present
	}
	return two(jsonw.Random{R: r, P: 0.5})
}

func c05Exec(c fw.Case) *fw.Result {
	res := fw.NewResult()
	if osm.CustomJSONMarshaler != nil || osm.CustomJSONUnmarshaler != nil {
		panic("harness: codec variables not restored by an earlier case")
	}
	r := gen.New(c.Seed, "c05")
	if tz := c.Int("tz"); tz != 0 && c.Kind != "concurrent" {
		// the case runs on a "machine" whose local zone is tz minutes east of UTC (cases of a
		// child process run one after another; restored when the case ends)
		saved := time.Local
		time.Local = time.FixedZone("CaseLocal", int(tz)*60)
		defer func() { time.Local = saved }()
		res.Put("local_zones", fmt.Sprint(tz))
	}
	run := &c05Run{res: res, configs: []c05Config{c05Default, c05Custom, c05Reformer}}
	run.rewrite = c.Int("rewrite") == 1
	if c.Int("allconfigs") == 1 {
		run.configs = c05AllConfigs
	}
	switch c.Kind {
	case "min":
		// the smallest inputs, fixed
		s := func(v string) *string { return &v }
		docs := []*jsonw.Doc{
			{NoElements: true}, // {}
			{},                 // {"elements":[]}
			{VersionKind: jsonw.VersionNumber, Version: "0.6"},
			{VersionKind: jsonw.VersionString, Version: "0.6"},
			{VersionKind: jsonw.VersionString, Version: "0.6", Generator: s("g")},
			{Elements: []jsonw.Element{&jsonw.Node{ID: 1}}},
			{Elements: []jsonw.Element{&jsonw.Way{ID: 1}}},
			{Elements: []jsonw.Element{&jsonw.Relation{ID: 1}}},
			{Elements: []jsonw.Element{&jsonw.Changeset{ID: 1}, &jsonw.Note{ID: 1}, &jsonw.User{ID: 1}}},
			{VersionKind: jsonw.VersionString, Version: "0.6", Bounds: &jsonw.Bounds{MinLat: jsonw.NewFloat(1, 0), MaxLat: jsonw.NewFloat(2, 0), MinLon: jsonw.NewFloat(3, 0), MaxLon: jsonw.NewFloat(4, 0), LowerKeys: true}},
			{VersionKind: jsonw.VersionString, Version: "0.6", Elements: []jsonw.Element{&jsonw.Relation{ID: 2, Meta: jsonw.Meta{HasTags: true, Tags: []jsonw.Tag{{K: "type", V: "route"}}}}}},
		}
		for _, d := range docs {
			run.checkDoc(d, nil, r, true)
		}
		ver := "0.6"
		for _, cd := range []*jsonw.ChangeDoc{{}, {Create: &jsonw.Doc{}}, {Version: &ver, Delete: &jsonw.Doc{VersionKind: jsonw.VersionString, Version: "0.6", Elements: []jsonw.Element{&jsonw.Node{ID: 1}}}}} {
			run.checkChange(cd, nil, r)
		}
	case "top":
		// every combination of the optional top-level attributes for one version spelling
		vk := jsonw.VersionKind(c.Int("vk"))
		for mask := 0; mask < 32; mask++ {
			set := map[string]bool{"doc.version": vk != jsonw.VersionAbsent}
			for i, n := range []string{"doc.generator", "doc.copyright", "doc.attribution", "doc.license", "doc.bounds"} {
				set[n] = mask&(1<<uint(i)) != 0
			}
			g := jsonw.NewGen(r, &jsonw.Fixed{Set: set})
			d := &jsonw.Doc{}
			g.Top(d)
			switch vk {
			case jsonw.VersionNumber:
				d.VersionKind, d.Version = vk, []string{"0.6", "1", "0.7", "12"}[mask%4]
			case jsonw.VersionString:
				d.VersionKind, d.Version = vk, []string{"0.6", "", "0.60", "six"}[mask%4]
			case jsonw.VersionNull:
				d.VersionKind, d.Version = vk, ""
			}
			g.P = jsonw.Random{R: r, P: 0.5}
			d.Elements = []jsonw.Element{g.Element(jsonw.Kinds[mask%3])}
			run.checkDoc(d, c05Style(r), r, false)
		}
	case "field":
		// one kind: every optional part alone, and all parts but one
		kind := jsonw.Kinds[c.Int("kind")]
		names := c05PartNames(kind)
		for _, invert := range []bool{false, true} {
			for _, n := range append([]string{""}, names...) {
				set := map[string]bool{n: true}
				if !invert {
					// a nested part can only show when the list that holds it is written
					switch pre := strings.SplitN(n, ".", 2)[0]; pre {
					case "member":
						set["relation.members"] = true
					case "update":
						set[kind+".updates"] = true
					case "cscomment":
						set["changeset.discussion"] = true
					case "notecomment":
						set["note.comments"] = true
					}
					if strings.HasSuffix(n, ".bounds.unknown") {
						set[strings.TrimSuffix(n, ".unknown")] = true
					}
				}
				g := jsonw.NewGen(r, &jsonw.Fixed{Set: set, Invert: invert})
				g.MaxList = 3
				d := &jsonw.Doc{VersionKind: jsonw.VersionString, Version: "0.6"}
				for i := 0; i < 2; i++ {
					d.Elements = append(d.Elements, g.Element(kind))
				}
				run.checkDoc(d, c05Style(r), r, true)
				res.Put("toggled_parts", fmt.Sprintf("%s/%v", n, invert))
			}
		}
	case "large":
		// element counts at and around size thresholds (powers of two): a decoder or encoder
		// that switches strategy with the size (chunks, workers, pre-sized buffers) must still
		// deliver every element, in order. Cheap elements, full comparison.
		n := int(c.Int("n"))
		g := jsonw.NewGen(r, jsonw.Random{R: r, P: 0.12})
		g.MaxTags, g.MaxList, g.Unknown = 1, 2, false
		res.Put("large_element_counts", fmt.Sprint(n))
		if c.Int("change") == 0 {
			d := g.Doc(0, 0)
			kinds := jsonw.Kinds[:3]
			if c.Int("mask") == 63 {
				kinds = jsonw.Kinds
			}
			for i := 0; i < n; i++ {
				d.Elements = append(d.Elements, g.Element(kinds[r.Intn(len(kinds))]))
			}
			run.checkDoc(d, &jsonw.Style{R: r, Shuffle: r.Bool(), Space: r.Intn(2)}, r, false)
		} else {
			blk := g.Doc(0, 0)
			for i := 0; i < n; i++ {
				blk.Elements = append(blk.Elements, g.Element(jsonw.Kinds[r.Intn(3)]))
			}
			cd := &jsonw.ChangeDoc{}
			switch n % 3 {
			case 0:
				cd.Create = blk
			case 1:
				cd.Modify = blk
			default:
				cd.Delete = blk
			}
			run.checkChange(cd, &jsonw.Style{R: r, Shuffle: r.Bool(), Space: r.Intn(2)}, r)
		}
		res.Sample = map[string]any{"elements": n, "change": c.Int("change") == 1}
	case "null":
		// the third state of an optional member: written as null
		switch c.Int("level") {
		case 0:
			// top level (asserted): each member alone, all together, next to present ones
			for _, only := range []string{"doc.version", "doc.generator", "doc.copyright", "doc.attribution", "doc.license", "doc.bounds", ""} {
				for _, pp := range []float64{0, 0.5} {
					g := jsonw.NewGen(r, jsonw.Random{R: r, P: pp})
					g.NullTopP, g.NullOnly = 1, only
					d := g.Doc(r.Range(0, 3), 7)
					run.checkDoc(d, c05Style(r), r, false)
					res.Put("null_toplevel_members", strings.Join(d.NullTop, "+")+fmt.Sprint(d.VersionKind == jsonw.VersionNull))
				}
				g := jsonw.NewGen(r, jsonw.Random{R: r, P: 0.3})
				g.NullTopP, g.NullOnly = 1, only
				run.checkChange(g.ChangeDoc(2), c05Style(r), r)
			}
		default:
			// element level (recorded): each member name alone
			kind := jsonw.Kinds[c.Int("kind")]
			for _, name := range c05NullNames(kind) {
				for i := 0; i < 2; i++ {
					g := jsonw.NewGen(r, jsonw.Random{R: r, P: 0.4})
					g.NullElemP, g.NullOnly = 1, name
					d := &jsonw.Doc{VersionKind: jsonw.VersionString, Version: "0.6"}
					for j := 0; j < 3; j++ {
						d.Elements = append(d.Elements, g.Element(kind))
					}
					g.DocNulls(d)
					run.checkDoc(d, c05Style(r), r, false)
				}
			}
			if kind == "node" {
				g := jsonw.NewGen(r, jsonw.Random{R: r, P: 0.5})
				g.NullElemP = 1
				d := &jsonw.Doc{VersionKind: jsonw.VersionNumber, Version: "0.6", NoElements: true}
				g.DocNulls(d) // "elements": null
				run.checkDoc(d, c05Style(r), r, false)
			}
		}
	case "forms":
		for i := 0; i < int(c.Int("docs")); i++ {
			g := jsonw.NewGen(r, jsonw.Random{R: r, P: float64(c.Int("p")) / 100})
			g.ZeroP = float64(c.Int("zerop")) / 100
			d := &jsonw.Doc{VersionKind: jsonw.VersionString, Version: "0.6"}
			g.Top(d)
			for _, k := range jsonw.Kinds {
				for j, n := 0, r.Range(1, 2); j < n; j++ {
					d.Elements = append(d.Elements, g.Element(k))
				}
			}
			v := c05Expect(d).o
			c05Annotate(v, r)
			for _, x := range c05FormsOf(v) {
				run.checkForms(x)
				res.Put("forms_types", x.Type().String())
			}
			if i == 0 {
				// and the zero value of every type
				for _, x := range c05FormsOf(v) {
					run.checkForms(reflect.Zero(x.Type()))
				}
			}
		}
		res.Sample = map[string]any{"forms": len(c05Forms), "documents": c.Int("docs")}
	case "retained":
		c05Retained(res, run, c, r)
	case "concurrent":
		c05Concurrent(res, c)
	case "boundary-value":
		// value side: every boundary operator alone, each together with an all-zero top-level
		// bounds, and all at once; on four base containers; as osm.OSM, as each block of an
		// osm.Change, and element by element
		base := c05BoundaryBase(int(c.Int("base")), r)
		type combo struct {
			name string
			ops  []int
		}
		combos := []combo{{"none", nil}}
		all := []int{}
		for i, op := range c05BoundaryOps {
			combos = append(combos, combo{op.name, []int{i}})
			if i > 0 {
				combos = append(combos, combo{"top.bounds=&zero+" + op.name, []int{0, i}})
			}
			if !strings.HasPrefix(op.name, "top.bounds=") && op.name != "elements=all-zero" {
				all = append(all, i)
			}
		}
		combos = append(combos, combo{"all", append(all, 0)})
		for ci, cb := range combos {
			if ci%4 != int(c.Int("slice")) {
				continue
			}
			v := eq.Clone(base)
			for _, i := range cb.ops {
				c05BoundaryOps[i].f(v)
			}
			res.Put("boundary_operators_applied", cb.name)
			run.docSig = fmt.Sprintf("boundary/base%d/%s", c.Int("base"), cb.name)
			run.checkValue(v, true)
			for k, ch := range []*osm.Change{{Create: eq.Clone(v)}, {Modify: eq.Clone(v)}, {Delete: eq.Clone(v)},
				{Version: "0.6", Create: eq.Clone(v), Modify: &osm.OSM{}, Delete: eq.Clone(v)}} {
				run.docSig = fmt.Sprintf("boundary/base%d/change%d/%s", c.Int("base"), k, cb.name)
				run.checkChangeValue(ch, true)
			}
		}
		res.Add("boundary_value_combinations", int64((len(combos)-int(c.Int("slice"))+3)/4))
	case "boundary-doc":
		// document side: written values drawn as 0 / "" / [] / {} with probability zerop
		run.boundaryP = float64(c.Int("bp")) / 100
		for i := 0; i < int(c.Int("docs")); i++ {
			g := jsonw.NewGen(r, jsonw.Random{R: r, P: float64(c.Int("p")) / 100})
			g.ZeroP = float64(c.Int("zerop")) / 100
			g.Unknown = i%2 == 0
			if i%4 == 3 {
				run.checkChange(g.ChangeDoc(3), c05Style(r), r)
				continue
			}
			d := g.Doc(r.Intn(int(c.Int("maxelem"))+1), int(c.Int("mask")))
			run.checkDoc(d, c05Style(r), r, true)
		}
	case "rand":
		run.boundaryP = float64(c.Int("bp")) / 100
		for i := 0; i < int(c.Int("docs")); i++ {
			g := jsonw.NewGen(r, jsonw.Random{R: r, P: float64(c.Int("p")) / 100})
			g.Exotic = c.Int("exotic") == 1
			g.Unknown = c.Int("unknown") == 1
			g.ZeroP = float64(c.Int("zerop")) / 100
			g.NullTopP = float64(c.Int("nulltop")) / 100
			d := g.Doc(r.Intn(int(c.Int("maxelem"))+1), int(c.Int("mask")))
			run.checkDoc(d, c05Style(r), r, i%4 == 0)
		}
	case "change":
		for i := 0; i < int(c.Int("docs")); i++ {
			g := jsonw.NewGen(r, jsonw.Random{R: r, P: float64(c.Int("p")) / 100})
			run.checkChange(g.ChangeDoc(3), c05Style(r), r)
		}
	case "unknown-type":
		// element kinds this library does not know (Overpass "count", "area"): run, must not
		// panic, both configurations must agree on accept / reject; nothing else is asserted
		for _, t := range []string{"count", "area", "Node", ""} {
			g := jsonw.NewGen(r, jsonw.Random{R: r, P: 0.5})
			d := g.Doc(2, 7)
			d.Elements = append(d.Elements, &jsonw.Unknown{Type: t, Body: jsonw.Object{{Key: "id", Val: jsonw.Int(0)}, {Key: "tags", Val: jsonw.Object{{Key: "nodes", Val: jsonw.String("3")}}}}})
			text := jsonw.Write(d.Value(), c05Style(r))
			outcome := map[string]bool{}
			for _, cfg := range run.configs {
				var err error
				pan := c05With(cfg, func(*c05Codec) { err = json.Unmarshal(text, &osm.OSM{}) })
				res.Eval("unknown-type/" + cfg.name + "/" + t)
				if pan != "" {
					res.Violate("C05/indep/panic", "json.Unmarshal panicked on an unknown element type: "+pan, string(text))
				}
				outcome[cfg.name] = err == nil
				if err != nil {
					res.Add("unknown_type_rejected", 1)
				} else {
					res.Add("unknown_type_accepted", 1)
				}
			}
			agree := true
			for _, cfg := range run.configs[1:] {
				agree = agree && outcome[cfg.name] == outcome["default"]
			}
			if !agree {
				res.Violate("C05/indep/codec-differs-unknown-type", "configurations disagree on accepting an unknown element type", string(text))
			}
		}
		res.Sample = map[string]any{"unknown_types": []string{"count", "area", "Node", ""}}
	}
	if osm.CustomJSONMarshaler != nil || osm.CustomJSONUnmarshaler != nil {
		panic("harness: codec variables not restored")
	}
	return res
}

func c05Cases(tier string, seed uint64) []fw.Case {
	var cs []fw.Case
	cs = append(cs, fw.Case{Kind: "min", Seed: gen.Sub(seed, "c05min", 0), P: map[string]int64{"allconfigs": 1, "rewrite": 1}})
	for vk := 0; vk < 4; vk++ {
		cs = append(cs, fw.Case{Kind: "top", Seed: gen.Sub(seed, "c05top", vk), P: map[string]int64{"vk": int64(vk), "allconfigs": 1}})
	}
	for k := range jsonw.Kinds {
		cs = append(cs, fw.Case{Kind: "field", Seed: gen.Sub(seed, "c05field", k), P: map[string]int64{"kind": int64(k), "allconfigs": 1, "rewrite": 1, "tz": []int64{0, 540}[k%2]}})
	}
	cs = append(cs, fw.Case{Kind: "unknown-type", Seed: gen.Sub(seed, "c05unk", 0)})
	sizes := []int64{255, 256, 257, 511, 512, 513, 1023, 1024, 1025, 1027, 2047, 2048, 2049, 2050, 4095, 4096, 4097, 4098, 4099, 8193}
	if tier == "thorough" {
		sizes = append(sizes, 127, 128, 129, 1026, 3071, 3072, 3073, 8191, 8192, 8194, 16383, 16384, 16385, 16386, 32769, 65537)
	}
	for i, n := range sizes {
		cs = append(cs, fw.Case{Kind: "large", Seed: gen.Sub(seed, "c05large", i), P: map[string]int64{"n": n, "mask": []int64{7, 63}[i%2]}})
		if tier == "thorough" || n <= 4099 {
			cs = append(cs, fw.Case{Kind: "large", Seed: gen.Sub(seed, "c05largec", i), P: map[string]int64{"n": n, "change": 1}})
		}
	}
	cs = append(cs, fw.Case{Kind: "null", Seed: gen.Sub(seed, "c05null", 0), P: map[string]int64{"level": 0, "allconfigs": 1}})
	for k := range jsonw.Kinds {
		cs = append(cs, fw.Case{Kind: "null", Seed: gen.Sub(seed, "c05null", 1+k), P: map[string]int64{"level": 1, "kind": int64(k)}})
	}
	for b := 0; b < 4; b++ {
		for sl := 0; sl < 4; sl++ { // same seed: the four slices share one base container
			cs = append(cs, fw.Case{Kind: "boundary-value", Seed: gen.Sub(seed, "c05bval", b), P: map[string]int64{"base": int64(b), "slice": int64(sl), "allconfigs": 1, "tz": []int64{0, 540, -330, 345}[sl]}})
		}
	}
	nRand, docs, nChange, nBDoc := 84, 8, 10, 12
	nRet, reps := 4, 6
	if tier == "thorough" {
		nRand, docs, nChange, nBDoc = 12000, 16, 1000, 600
		nRet, reps = 60, 40
	}
	for i := 0; i < nRet; i++ {
		p := map[string]int64{"docs": 3, "p": []int64{85, 100, 40, 60}[i%4], "zerop": []int64{0, 0, 30, 100}[i%4]}
		if i%2 == 1 {
			p["allconfigs"] = 1
		}
		if i%2 == 0 {
			p["tz"] = -330
		}
		cs = append(cs, fw.Case{Kind: "forms", Seed: gen.Sub(seed, "c05forms", i), P: p})
	}
	for i := 0; i < nRet; i++ {
		cs = append(cs, fw.Case{Kind: "retained", Seed: gen.Sub(seed, "c05ret", i), P: map[string]int64{"docs": 6, "tz": []int64{0, 540}[i%2]}})
	}
	creps := map[string]int{"": reps, "race": (reps + 1) / 2} // the race build is ~10x slower
	for i, v := range []string{"", "", "race", "race"} {
		cs = append(cs, fw.Case{Kind: "concurrent", Variant: v, Seed: gen.Sub(seed, "c05conc", i),
			P: map[string]int64{"goroutines": 16, "docs": 6, "reps": int64(creps[v])}})
	}
	for i := 0; i < nBDoc; i++ {
		p := map[string]int64{"docs": int64(docs), "mask": []int64{63, 7, 56}[i%3], "p": []int64{100, 50, 80}[(i/3)%3],
			"zerop": []int64{100, 30, 60, 15}[i%4], "maxelem": []int64{2, 6}[i%2], "bp": []int64{0, 15}[(i/2)%2]}
		if i%4 == 1 {
			p["allconfigs"] = 1
		}
		if i%2 == 0 {
			p["rewrite"] = 1
		}
		if i%3 == 2 {
			p["tz"] = 540
		}
		cs = append(cs, fw.Case{Kind: "boundary-doc", Seed: gen.Sub(seed, "c05bdoc", i), P: p})
	}
	masks := []int64{7, 7, 63, 1, 2, 4, 56, 63}
	ps := []int64{50, 20, 80, 100, 50, 0, 65, 35}
	for i := 0; i < nRand; i++ {
		p := map[string]int64{"docs": int64(docs), "mask": masks[i%len(masks)], "p": ps[(i/len(masks))%len(ps)],
			"maxelem": []int64{3, 6, 12}[i%3], "exotic": int64(i % 2), "unknown": int64((i / 2) % 2)}
		if i%4 == 3 {
			p["allconfigs"] = 1
		}
		if i%5 == 4 {
			p["zerop"] = 25
		}
		if i%7 == 6 {
			p["nulltop"] = 30
		}
		if i%3 == 2 {
			p["bp"] = 8
		}
		if i%2 == 1 {
			p["rewrite"] = 1
		}
		if i%6 == 5 {
			p["tz"] = []int64{540, -330, 345}[(i/6)%3]
		}
		cs = append(cs, fw.Case{Kind: "rand", Seed: gen.Sub(seed, "c05rand", i), P: p})
	}
	for i := 0; i < nChange; i++ {
		p := map[string]int64{"docs": int64(docs) / 2, "p": ps[i%len(ps)]}
		if i%4 == 3 {
			p["allconfigs"] = 1
		}
		if i%2 == 0 {
			p["rewrite"] = 1
		}
		cs = append(cs, fw.Case{Kind: "change", Seed: gen.Sub(seed, "c05change", i), P: p})
	}
	return fw.Number(cs)
}

func init() {
	fw.Register(&fw.Prop{
		ID:    "C05",
		Level: "exploration",
		Rule: "typed osmjson document models (every optional key a present/absent bit) from the harness generator: (a) fixed minimal documents; (b) all 32 combinations of generator/copyright/attribution/license/bounds for each version spelling (absent, number, string, null); " +
			"(c) per element kind every optional part alone and all-but-it; (c') boundary values: on the value side every operator of a fixed table (non-nil pointer to an all-zero struct for top-level / way / relation bounds, committed, discussion, nested change and its blocks; empty but non-nil slices; zero ids, versions, coordinates, timestamps; empty strings; all-zero elements and members) alone, combined with an all-zero top-level bounds, and all at once, on four base containers, each as osm.OSM, as every block of an osm.Change and element by element; on the document side written values drawn as 0 / \"\" / [] / {} (bounds with members left out) with probability 15-100 %; (c3) forms: osm.OSM, osm.Change, every element kind, Tags, WayNodes, Members, Date (generated and zero values) marshalled as pointer, plain value, struct field by value, field of a pointed-to struct, map value, slice element, array element by value and inside interface{} (slice, map, field), through json.Marshal and through the installed codec itself; shape + round trip of the part that is the value, and equality with the pointer form; (c4) null as the third state of optional members of independently written documents (top level asserted, element members recorded); (c5) element counts at and around powers of two from 255 to 8193 (thorough 65537), as OSM documents and change blocks; (c6) every instant carried in a non-UTC location (+09:00, -05:30, +05:45, time.Local set to a non-UTC zone for the case) and a rewrite flow that marshals what was decoded from the independent document and reads it again; (c'') retained output: every MarshalJSON method of the library (OSM, Tags, WayNodes, Members, Date) called directly, the bytes kept while other values are marshalled, then checked unchanged and still denoting the original; concurrent: 16 goroutines marshalling / unmarshalling their own documents at once, one phase per codec configuration (codec installed before the goroutines start), plain and race builds; (d) PRNG documents over kind masks, presence probabilities 0..100 %, 0-12 elements, arbitrary UTF-8 incl. control characters, negative and >2^40 ids, equivalent float and RFC 3339 spellings, unknown keys at every level; (e) change documents. " +
			"Each model is written by the independent writer (shuffled keys, white space, \\u escapes) and unmarshalled, and the value it denotes (plus way-node annotations) is marshalled, shape-checked on a generic parse and unmarshalled again; every step under the default and the recording user codec (a quarter of the cases also with only one of the two hooks installed). " +
			"One evaluation = one (model, flow, configuration); a signature is (flow, configuration, version spelling, top-level presence mask, bounds, unknown keys, element kinds present).",
		Assumptions: []string{
			"top-level bounds are not an element: a document or value with bounds must marshal to well-formed osmjson and unmarshal without error; bounds that come back must be the right ones, bounds that do not come back are only counted (toplevel_bounds_not_returned)",
			"an element that leaves \"visible\" unsaid may come back visible or not",
			"null is the third state of an optional member (JavaScript / Python writers serialise a missing value that way): at top level (version, generator, copyright, attribution, license, bounds) null counts as absent and must stay empty rather than become text such as \"null\" or \"<nil>\" — asserted; for optional members of elements (user, uid, timestamp, tags, nodes, members, role, ...) and for elements: null the statement is silent — the outcome per member (read as absent / differs / rejected) is recorded in null_member_outcomes and never raised; type and id are never null",
			"element types this library does not know (Overpass count / area) are run for panics and configuration agreement only",
			"a way without nodes may be written with nodes absent, null or []; tags are generated with unique keys (osmjson cannot carry duplicates)",
			"json-iterator cannot run on this toolchain; the installed codec is encoding/json with SetEscapeHTML(false), indented output and UseNumber, so version numbers are limited to literals that print back identically from float64",
			"whether and how often the library calls an installed codec is recorded (codec_consulted_runs_*, codec_not_consulted_runs_*, codec_*_types) but never asserted: the statement promises equal results, not consultation (an empty container needs no codec); equality is asserted on the canonical JSON value of the output and on the decoded values, across the default configuration, the recording codec (indentation, no HTML escaping, UseNumber) and a re-forming codec (shuffled member order, white space, respelled floats, float64 decoding)",
			"way/relation bounds are written either as this library spells them (MinLat) or as Overpass does (minlat); both must be read",
			"a non-nil pointer to an all-zero optional part (bounds without extent, committed at the zero instant, discussion without comments, change without attributes and blocks, change block without attributes and objects) is identified with its absence, like nil and empty slices; what is asserted is that everything else survives next to it",
		},
		Cases:   c05Cases,
		Exec:    c05Exec,
		Workers: 12,
		// the harness' own shared state in the concurrent cases is mutex-guarded (fw.Result,
		// the recording codec) or written before the goroutines start
		RaceIsViolation: true,
		// a concurrent case under the race detector is one long case; on a loaded machine it
		// must not trip the supervisor's no-progress watchdog
		HangSeconds: 1200,
		Post: func(tier string, agg *fw.Agg) {
			for _, name := range []string{"codec_marshal_argument_types", "codec_unmarshal_target_types", "null_member_outcomes"} {
				var l []string
				for t := range agg.Sets[name] {
					l = append(l, t)
				}
				sort.Strings(l)
				agg.Extra[name] = l
			}
			// observation only: Tags.UnmarshalJSON decodes its object without the installed codec
			_, viaCodec := agg.Sets["codec_unmarshal_target_types"]["*map[string]string"]
			agg.Extra["tags_object_decoded_through_installed_codec"] = viaCodec
		},
	})
}
