package props

import (
	"fmt"
	"sync"
	"sync/atomic"

	"github.com/paulmach/osm"
	"github.com/paulmach/osm/osmpbf"

	"verif/internal/eq"
	"verif/internal/fw"
	"verif/internal/gen"
	"verif/internal/mon"
	"verif/internal/pbfw"
)

// C08 — skip flags and filters select an unmodified subsequence.
//
// Monitors: (1) the filter callbacks themselves (they run on the decoder goroutines): each
// call is logged and the element handed to the callback is compared with the model's
// element at that file position; (2) the delivered sequence against the model sequence
// filtered by the same predicate; (3) a deep snapshot of every returned object at return
// time against its value after the scan finished and the scanner was closed.

var c08Preds = []string{"nil", "all", "none", "alt", "mod3", "runs", "tagless", "tagged", "big"}

// c08Decide is a pure function of the element's file position and content class.
func c08Decide(pred string, pos int, ntags, nchild int) bool {
	switch pred {
	case "nil", "all":
		return true
	case "none":
		return false
	case "alt":
		return pos%2 == 0
	case "mod3":
		return pos%3 == 1
	case "runs":
		return pos%5 == 4 // four rejected, one accepted
	case "tagless":
		return ntags == 0
	case "tagged":
		return ntags > 0
	case "big":
		return nchild > 3 || ntags > 2
	}
	return true
}

type c08Key struct {
	t  osm.Type
	id int64
}

func c08KeyOf(o osm.Object) c08Key {
	switch v := o.(type) {
	case *osm.Node:
		return c08Key{osm.TypeNode, int64(v.ID)}
	case *osm.Way:
		return c08Key{osm.TypeWay, int64(v.ID)}
	case *osm.Relation:
		return c08Key{osm.TypeRelation, int64(v.ID)}
	}
	return c08Key{}
}

func c08Counts(o osm.Object) (ntags, nchild int) {
	switch v := o.(type) {
	case *osm.Node:
		return len(v.Tags), 0
	case *osm.Way:
		return len(v.Tags), len(v.Nodes)
	case *osm.Relation:
		return len(v.Tags), len(v.Members)
	}
	return 0, 0
}

type c08Config struct {
	skipN, skipW, skipR bool
	predN, predW, predR string
	procs               int
	// own: the consumer treats every returned object as its own and appends to its tag,
	// node and member lists straight away; no other returned object may notice
	own bool
	// hdrFirst: Header() is called before the first Scan (flags and filters were set before)
	hdrFirst bool
}

// c08Own appends one entry to every list of o, as a consumer that owns o may, and returns
// the function that takes them off again.
func c08Own(o osm.Object, i int) (undo func()) {
	t := osm.Tag{Key: "verif:own", Value: fmt.Sprint(i)}
	switch v := o.(type) {
	case *osm.Node:
		old := v.Tags
		v.Tags = append(v.Tags, t)
		return func() { v.Tags = old }
	case *osm.Way:
		ot, on := v.Tags, v.Nodes
		v.Tags = append(v.Tags, t)
		v.Nodes = append(v.Nodes, osm.WayNode{ID: osm.NodeID(-1 - i), Version: 7, Lat: 1.5, Lon: -2.5})
		return func() { v.Tags, v.Nodes = ot, on }
	case *osm.Relation:
		ot, om := v.Tags, v.Members
		v.Tags = append(v.Tags, t)
		v.Members = append(v.Members, osm.Member{Type: osm.TypeWay, Ref: int64(-1 - i), Role: "verif:own"})
		return func() { v.Tags, v.Members = ot, om }
	}
	return func() {}
}

func (c c08Config) String() string {
	return fmt.Sprintf("skip=%d%d%d preds=%s/%s/%s procs=%d own=%v headerFirst=%v", b2i(c.skipN), b2i(c.skipW), b2i(c.skipR), c.predN, c.predW, c.predR, c.procs, c.own, c.hdrFirst)
}

func c08Run(res *fw.Result, data []byte, want []pbfw.Expect, cfg c08Config, keyBase string) {
	pos := map[c08Key]int{}
	for i, e := range want {
		pos[c08KeyOf(e.Obj)] = i
	}
	var calls atomic.Int64
	var mu sync.Mutex
	var cbMismatch []string
	seen := make([]int32, len(want))
	check := func(o osm.Object, pred string) bool {
		calls.Add(1)
		p, ok := pos[c08KeyOf(o)]
		if !ok {
			mu.Lock()
			cbMismatch = append(cbMismatch, "filter called with an element the file does not contain: "+objID(o))
			mu.Unlock()
			return true
		}
		atomic.AddInt32(&seen[p], 1)
		if d := pbfw.Compare(want[p], o); d != "" {
			mu.Lock()
			cbMismatch = append(cbMismatch, fmt.Sprintf("element #%d handed to the filter differs from the file: %s", p, d))
			mu.Unlock()
		}
		nt, nc := c08Counts(want[p].Obj)
		return c08Decide(pred, p, nt, nc)
	}
	// expected subsequence
	var exp []pbfw.Expect
	var expCalled int
	for i, e := range want {
		nt, nc := c08Counts(e.Obj)
		switch e.Obj.(type) {
		case *osm.Node:
			if cfg.skipN {
				continue
			}
			if cfg.predN != "nil" {
				expCalled++
			}
			if c08Decide(cfg.predN, i, nt, nc) {
				exp = append(exp, e)
			}
		case *osm.Way:
			if cfg.skipW {
				continue
			}
			if cfg.predW != "nil" {
				expCalled++
			}
			if c08Decide(cfg.predW, i, nt, nc) {
				exp = append(exp, e)
			}
		case *osm.Relation:
			if cfg.skipR {
				continue
			}
			if cfg.predR != "nil" {
				expCalled++
			}
			if c08Decide(cfg.predR, i, nt, nc) {
				exp = append(exp, e)
			}
		}
	}
	var snaps []string
	var undo []func()
	sr := pbfScan(mon.NewReader(data), cfg.procs, cfg.hdrFirst, func(s *osmpbf.Scanner) {
		s.SkipNodes, s.SkipWays, s.SkipRelations = cfg.skipN, cfg.skipW, cfg.skipR
		if cfg.predN != "nil" {
			s.FilterNode = func(n *osm.Node) bool { return check(n, cfg.predN) }
		}
		if cfg.predW != "nil" {
			s.FilterWay = func(w *osm.Way) bool { return check(w, cfg.predW) }
		}
		if cfg.predR != "nil" {
			s.FilterRelation = func(r *osm.Relation) bool { return check(r, cfg.predR) }
		}
	}, func(i int, o osm.Object, s *osmpbf.Scanner) {
		if cfg.own {
			c := eq.Clone(o)
			c08Own(c, i)
			snaps = append(snaps, eq.Dump(c))
			undo = append(undo, c08Own(o, i))
			return
		}
		snaps = append(snaps, eq.Dump(o))
	})
	res.Event(calls.Load() + int64(len(sr.Objs)))
	res.Add("filter_calls", calls.Load())
	res.Add("objects_delivered", int64(len(sr.Objs)))
	key := keyBase + "/" + fmt.Sprintf("skip%d%d%d/%s-%s-%s", b2i(cfg.skipN), b2i(cfg.skipW), b2i(cfg.skipR), cfg.predN, cfg.predW, cfg.predR)
	if sr.Err != nil {
		res.Violatef(key+"/err", "filtered scan of a valid file ended with %v (%s)", sr.Err, cfg)
		return
	}
	for i, o := range sr.Objs {
		if i < len(snaps) && eq.Dump(o) != snaps[i] {
			res.Violatef(key+"/modified-after-return", "%s: object #%d (%s) changed after it was returned: %s", cfg, i, objID(o), eq.Diff(snaps[i], eq.Dump(o)))
			break
		}
	}
	for _, u := range undo {
		u()
	}
	if d := pbfw.CompareSeq(exp, sr.Objs); d != "" {
		res.Violatef(key+"/subsequence", "%s: %s", cfg, d)
	}
	if len(cbMismatch) > 0 {
		res.Violatef(key+"/filter-argument", "%s: %s (and %d more)", cfg, cbMismatch[0], len(cbMismatch)-1)
	}
	if int(calls.Load()) != expCalled {
		res.Violatef(key+"/filter-calls", "%s: filters were called %d times, want once per non-skipped element of a filtered type = %d", cfg, calls.Load(), expCalled)
	}
	for p, n := range seen {
		if n > 1 {
			res.Violatef(key+"/filter-twice", "%s: element #%d was handed to a filter %d times", cfg, p, n)
			break
		}
	}
}

// c08Pattern classifies which memory-reuse neighbour patterns the expected sequence holds.
func c08Pattern(want []pbfw.Expect, cfg c08Config) string {
	var tagsLeak, childLeak, metaLeak bool
	var prevRej *pbfw.Expect
	for i := range want {
		e := want[i]
		nt, nc := c08Counts(e.Obj)
		var pred string
		switch e.Obj.(type) {
		case *osm.Node:
			pred = cfg.predN
		case *osm.Way:
			pred = cfg.predW
		default:
			pred = cfg.predR
		}
		acc := c08Decide(pred, i, nt, nc)
		if acc && prevRej != nil && fmt.Sprintf("%T", prevRej.Obj) == fmt.Sprintf("%T", e.Obj) {
			pt, pc := c08Counts(prevRej.Obj)
			if pt > 0 && nt == 0 {
				tagsLeak = true
			}
			if pc > 0 && nc < pc {
				childLeak = true
			}
			if prevRej.HasTimestamp && !e.HasTimestamp {
				metaLeak = true
			}
		}
		if acc {
			prevRej = nil
		} else {
			prevRej = &want[i]
		}
	}
	return fmt.Sprintf("t%dc%dm%d", b2i(tagsLeak), b2i(childLeak), b2i(metaLeak))
}

func c08Exec(c fw.Case) *fw.Result {
	res := fw.NewResult()
	r := gen.New(c.Seed, "c08")
	o := pbfw.GenOpts{MinBlocks: 1, MaxBlocks: 6, MaxGroups: 3, MaxElems: 25}
	if c.Int("profile") == 1 {
		o = pbfw.GenOpts{MinBlocks: 8, MaxBlocks: 20, MaxGroups: 2, MaxElems: 6}
	}
	f := pbfw.GenFile(r, o)
	if c.Int("noheader") == 1 {
		f.Header = nil // a resumed stream: the first block is a data block
	}
	data, _ := f.Encode(nil)
	want := f.ExpectAll()
	keyBase := "C08"
	nconf := int(c.Int("configs"))
	var sample []string
	for k := 0; k < nconf; k++ {
		cfg := c08Config{procs: []int{1, 3, 8}[r.Intn(3)]}
		if k == 0 {
			// the 8 skip combinations are swept systematically over the case list
			m := int(c.Int("skipmask"))
			cfg.skipN, cfg.skipW, cfg.skipR = m&1 != 0, m&2 != 0, m&4 != 0
			cfg.predN, cfg.predW, cfg.predR = "nil", "nil", "nil"
			if c.Int("withpred") == 1 {
				p := c08Preds[1+int(c.Int("pred"))%(len(c08Preds)-1)]
				cfg.predN, cfg.predW, cfg.predR = p, p, p
			}
		} else {
			cfg.skipN, cfg.skipW, cfg.skipR = r.Chance(0.15), r.Chance(0.15), r.Chance(0.15)
			cfg.predN = c08Preds[r.Intn(len(c08Preds))]
			cfg.predW = c08Preds[r.Intn(len(c08Preds))]
			cfg.predR = c08Preds[r.Intn(len(c08Preds))]
		}
		cfg.own = k%2 == 1
		cfg.hdrFirst = (k+int(c.Int("skipmask")))%3 == 0
		c08Run(res, data, want, cfg, keyBase)
		res.Eval(fmt.Sprintf("skip%d%d%d/%s-%s-%s/%s", b2i(cfg.skipN), b2i(cfg.skipW), b2i(cfg.skipR), cfg.predN, cfg.predW, cfg.predR, c08Pattern(want, cfg)))
		res.Put("neighbour_patterns", c08Pattern(want, cfg))
		if len(sample) < 3 {
			sample = append(sample, cfg.String())
		}
	}
	res.Sample = map[string]any{"blocks": len(f.Blocks), "objects": len(want), "configs": sample}
	return res
}

func c08Cases(tier string, seed uint64) []fw.Case {
	n := 320
	variants := []string{"plain"}
	if tier == "thorough" {
		n = 12000
		variants = []string{"plain", "race"}
	}
	var cs []fw.Case
	for vi, v := range variants {
		m := n
		if vi > 0 {
			m = n / 3
		}
		for i := 0; i < m; i++ {
			cs = append(cs, fw.Case{Kind: "filter", Variant: v, Seed: gen.Sub(seed, "c08", i), P: map[string]int64{
				"configs": 4, "skipmask": int64(i % 8), "withpred": int64((i / 8) % 2), "pred": int64(i / 16), "profile": int64(i % 4 / 3), "noheader": int64(b2i(i%7 == 5))}})
		}
	}
	return fw.Number(cs)
}

func init() {
	fw.Register(&fw.Prop{
		ID:    "C08",
		Level: "exploration",
		Rule: "PRNG files from the C01 generator (optional fields vary between neighbours; a seventh of them without header block); per file 4 configurations: the 8 skip-flag combinations swept systematically, predicates {none installed, all, none, alternating, pos mod 3, four-rejected-one-accepted, only tagless, only tagged, only big} per element type, decoders {1,3,8}; in a third of the configurations Header() is called before the first Scan; every second configuration with a consumer that appends to the lists of each returned object at once (ownership: no other returned object may change). " +
			"Signature = (skip mask, predicate per type, which memory-reuse neighbour patterns occur: rejected-with-tags→accepted-without, rejected-with-children→accepted-with-fewer, rejected-with-metadata→accepted-without); distinct_nontrivial counts distinct signatures.",
		Assumptions: []string{
			"predicates are pure functions of the element's file position and content and never retain their argument",
			"the expected sequence comes from the PBF model (validated against the unfiltered scan by C01)",
		},
		Cases:            c08Cases,
		Exec:             c08Exec,
		CrashIsViolation: true,
		RaceIsViolation:  true,
	})
}
