package props

import (
	"context"
	"errors"
	"fmt"
	"math"
	"os"
	"runtime"
	"runtime/debug"
	"sort"
	"strconv"
	"strings"
	"sync"
	"sync/atomic"
	"time"

	"github.com/paulmach/orb"
	"github.com/paulmach/osm"
	"github.com/paulmach/osm/annotate"

	"verif/internal/eq"
	"verif/internal/fw"
	"verif/internal/gen"
	"verif/internal/mon"
)

// C14 — annotate.ChildFirstOrdering emits children before parents, each relation once, and
// always ends (natural end, Close, cancellation), leaving no goroutine behind.
//
// Monitor shape: the harness owns the relation-history datasource (the only way the library
// can learn the graph), so it knows the ground truth of every generated graph; it observes
// the sequence of RelationID() values, the datasource callbacks made on the library's walker
// goroutine, and goroutine states after Close / cancel. Reachability and acyclicity are
// computed by the harness' own iterative DFS over the generated member lists.
//
// Termination: every scenario (one iteration with its Next / Close / cancel calls) runs on a
// goroutine of its own and is watched from the case's goroutine. A real deadlock (Close
// waiting for a walker that is stuck in a channel send, Next waiting on a channel nobody
// closes) is decided from goroutine *states* — the scenario goroutine blocked inside the
// library call, every other goroutine with annotate frames blocked or gone, no logical
// progress (scenario steps, datasource calls) over 25 consecutive polls — and reported with
// the graph as key; the rest of that case is skipped. (The Go runtime's own "all goroutines
// are asleep" report cannot be used: it never fires in a cgo-enabled binary.) Non-termination
// by unbounded walking is turned into a counted observation by the datasource's call budget.
// The supervisor watchdog (HangSeconds, inconclusive only) and CrashIsViolation (stack overflow of an unbounded
// recursion, library panic) are the backstops.

const c14Pkg = "github.com/paulmach/osm/annotate"

// Datasource call budgets per iteration. A walk that cuts cycles on its DFS path makes at most
// (product of the member counts along a path) lookups per request: below 1 500 for a "small"
// graph (<= 4 relations with history, <= 16 relation-typed member slots in total); the small budget is 20x
// that and its exhaustion is a non-termination verdict. For bigger graphs exhaustion is only
// inconclusive. Both are kept low because a runaway recursion costs O(depth^2) in the
// library's path scan; the rest of the case is skipped once a budget is exhausted.
const (
	c14BudgetSmall = 30_000
	c14BudgetBig   = 60_000
)

var (
	errC14NotFound = errors.New("c14: relation has no history")
	errC14Budget   = errors.New("c14: datasource call budget exhausted")
	errC14Injected = errors.New("c14: injected datasource failure")
)

// ---------------------------------------------------------------------------------------
// graph model (ground truth)

type c14Node struct {
	id       osm.RelationID
	missing  bool          // no history at all (datasource answers NotFound)
	versions []osm.Members // member list of every version, oldest first
	tags     []osm.Tags    // tags of the versions (may be shorter than versions); never part of the graph
}

func (nd *c14Node) tagsAt(v int) osm.Tags {
	if v < len(nd.tags) {
		return nd.tags[v]
	}
	return nil
}

// c14TagsFor picks relation tags: the type values the library knows (multipolygon, boundary),
// other and empty types, no type at all, plus arbitrary other tags. Tags say what a relation
// is, not what it refers to: nothing about them may influence the ordering.
func c14TagsFor(k uint64) osm.Tags {
	var t osm.Tags
	switch k % 7 {
	case 0:
		t = append(t, osm.Tag{Key: "type", Value: "multipolygon"})
	case 1:
		t = append(t, osm.Tag{Key: "type", Value: "boundary"}, osm.Tag{Key: "boundary", Value: "administrative"}, osm.Tag{Key: "admin_level", Value: "6"})
	case 2:
		t = append(t, osm.Tag{Key: "type", Value: "route"}, osm.Tag{Key: "route", Value: "bus"})
	case 3:
		t = append(t, osm.Tag{Key: "type", Value: "site"})
	case 4:
		t = append(t, osm.Tag{Key: "type", Value: ""})
	case 5:
		t = append(t, osm.Tag{Key: "name", Value: "x"}, osm.Tag{Key: "type", Value: "multipolygon"}, osm.Tag{Key: "landuse", Value: "forest"})
	}
	if (k/7)%3 == 0 {
		t = append(t, osm.Tag{Key: "note", Value: "k" + strconv.FormatUint(k%97, 10)})
	}
	return t
}

type c14Graph struct {
	nodes []c14Node
	shape string
	desc  string // canonical text: {1>2.w7|3 2> 3!} = id>members of v1|members of v2 ; id! = no history
	small bool   // small enough for the datasource call budget to be a non-termination verdict

	hist     map[osm.RelationID]osm.Relations
	adj      map[osm.RelationID][]osm.RelationID // distinct relation-typed refs over all versions
	nHist    int
	cyclic   bool       // some relation with history reaches itself
	relSlots int        // relation-typed member slots over all versions
	linear   bool       // every relation has at most one relation-typed member slot: a chain / "rho"
	label    string     // stable key of a generated family member whose text would be too long
	lib      [5]*c14Lib // library-built datasources of this graph, by mode (1..4), built lazily
	reachM   map[osm.RelationID]map[osm.RelationID]bool
}

func (g *c14Graph) finish() {
	g.hist = make(map[osm.RelationID]osm.Relations, len(g.nodes))
	g.adj = make(map[osm.RelationID][]osm.RelationID, len(g.nodes))
	var sb strings.Builder
	notLinear := false
	sb.WriteByte('{')
	for i, nd := range g.nodes {
		if i > 0 {
			sb.WriteByte(' ')
		}
		sb.WriteString(strconv.FormatInt(int64(nd.id), 10))
		if nd.missing {
			sb.WriteByte('!')
			continue
		}
		sb.WriteByte('>')
		g.nHist++
		rels := make(osm.Relations, len(nd.versions))
		seen := map[osm.RelationID]bool{}
		nodeSlots := 0
		for v, ms := range nd.versions {
			if v > 0 {
				sb.WriteByte('|')
			}
			if tg := nd.tagsAt(v); len(tg) > 0 {
				switch tg.Find("type") {
				case "multipolygon":
					sb.WriteString("m:")
				case "boundary":
					sb.WriteString("b:")
				default:
					sb.WriteString("t:")
				}
			}
			for k, m := range ms {
				if k > 0 {
					sb.WriteByte('.')
				}
				switch m.Type {
				case osm.TypeRelation:
					g.relSlots++
					nodeSlots++
					rid := osm.RelationID(m.Ref)
					if !seen[rid] {
						seen[rid] = true
						g.adj[nd.id] = append(g.adj[nd.id], rid)
					}
				case osm.TypeWay:
					sb.WriteByte('w')
				default:
					sb.WriteByte('n')
				}
				sb.WriteString(strconv.FormatInt(m.Ref, 10))
				if m.Version != 0 || m.ChangesetID != 0 || m.Orientation != 0 || m.Lat != 0 || m.Lon != 0 {
					sb.WriteByte('+') // member carries annotation fields; they are not part of the graph
				}
			}
			if nodeSlots > 1 {
				notLinear = true
			}
			rels[v] = &osm.Relation{ID: nd.id, Version: v + 1, Visible: true, Members: ms, Tags: nd.tagsAt(v)}
		}
		g.hist[nd.id] = rels
	}
	sb.WriteByte('}')
	g.desc = sb.String()
	g.reachM = map[osm.RelationID]map[osm.RelationID]bool{}
	g.small = g.nHist <= 4 && g.relSlots <= 16
	g.linear = !notLinear
	for id := range g.hist {
		if g.reach(id)[id] {
			g.cyclic = true
		}
	}
}

// key is the graph part of a violation key: the canonical text for small graphs, a hash of it
// for bigger ones.
func (g *c14Graph) key() string {
	if g.label != "" {
		return g.label
	}
	if len(g.desc) <= 160 {
		return g.desc
	}
	return fmt.Sprintf("n=%d/%s", len(g.nodes), fw.HashKey(g.desc))
}

// reach returns the relations with a history that are reachable from id through one or more
// relation-typed members of any version, walking only through relations that have a history
// (a relation without history has no known members). Harness' own iterative DFS.
func (g *c14Graph) reach(id osm.RelationID) map[osm.RelationID]bool {
	if r, ok := g.reachM[id]; ok {
		return r
	}
	out := map[osm.RelationID]bool{}
	stack := append([]osm.RelationID(nil), g.adj[id]...)
	for len(stack) > 0 {
		v := stack[len(stack)-1]
		stack = stack[:len(stack)-1]
		if out[v] {
			continue
		}
		if _, has := g.hist[v]; !has {
			continue
		}
		out[v] = true
		stack = append(stack, g.adj[v]...)
	}
	g.reachM[id] = out
	return out
}

// scope returns the relations with history that are requested or reachable from a request,
// and whether the reference graph restricted to them is acyclic. The library can learn the
// graph only through the datasource and only follows references, so the part outside the
// scope is unobservable to it: the property's acyclic clause applied to the restricted graph
// is what is asserted.
func (g *c14Graph) scope(req []osm.RelationID) (map[osm.RelationID]bool, bool) {
	sc := map[osm.RelationID]bool{}
	for _, id := range req {
		if _, has := g.hist[id]; !has {
			continue
		}
		sc[id] = true
		for v := range g.reach(id) {
			sc[v] = true
		}
	}
	for v := range sc {
		if g.reach(v)[v] {
			return sc, false
		}
	}
	return sc, true
}

// c14Decorate fills the member fields that annotation of a parent leaves behind (version,
// changeset, orientation, location) and a role. None of them is part of the reference graph.
func c14Decorate(m osm.Member, k uint64) osm.Member {
	m.Version = int(k%7) + 1
	m.ChangesetID = osm.ChangesetID(1000 + k%900)
	m.Orientation = []orb.Orientation{orb.CW, orb.CCW, 0}[k%3]
	m.Lat, m.Lon = float64(k%170)-85+0.25, float64(k%350)-175+0.5
	m.Role = []string{"", "outer", "inner", "subarea"}[k%4]
	return m
}

func c14Rel(id osm.RelationID) osm.Member {
	return osm.Member{Type: osm.TypeRelation, Ref: int64(id)}
}

// c14ExhCount is the number of enumerated graphs on n relations: every relation either has
// no history or has one of the 2^n possible sets of relation members (self included).
func c14ExhCount(n int) int64 {
	base := int64(1 + (1 << uint(n)))
	t := int64(1)
	for i := 0; i < n; i++ {
		t *= base
	}
	return t
}

// c14WideIDs are the relation ids of layout 3: any non-zero int64 is a legal id for the
// ordering (negative placeholder ids of editors / osmChange uploads, ids beyond the 40 bits a
// packed FeatureID can hold).
var c14WideIDs = []osm.RelationID{1 << 40, -7, 1<<62 + 3, math.MinInt64 + 1}

// c14Magnitude draws an id from one of the magnitude classes; never 0.
func c14Magnitude(r *gen.R) int64 {
	k := r.Int64Range(1, 40)
	switch r.Intn(11) {
	case 0:
		return k
	case 1:
		return 1<<31 + k
	case 2:
		return 1<<32 + k
	case 3:
		return 1<<40 - 1
	case 4:
		return 1 << 40
	case 5:
		return 1<<40 + k
	case 6:
		return 1<<62 + k
	case 7:
		return -k
	case 8:
		return -(1<<40 + k)
	case 9:
		return math.MinInt64 + 1
	}
	return -(1<<62 + k)
}

// c14ExhGraph decodes enumerated graph number gi on n relations (ids 1..n). layout 0: one
// version, members ascending; 1: one version, members descending and carrying annotation fields (version, changeset,
// orientation, location, role), relation tagged; 2 (versions tagged differently): one member per version
// (ascending), preceded by a version holding way and node members that carry the number of
// every relation of the graph (they are never edges); 3: as 0 with the ids c14WideIDs instead
// of 1..n.
func c14ExhGraph(n int, gi int64, layout int) *c14Graph {
	base := int64(1 + (1 << uint(n)))
	g := &c14Graph{shape: "exh" + strconv.Itoa(n) + "l" + strconv.Itoa(layout)}
	idOf := func(i int) osm.RelationID {
		if layout == 3 {
			return c14WideIDs[i]
		}
		return osm.RelationID(i + 1)
	}
	for i := 0; i < n; i++ {
		d := gi % base
		gi /= base
		nd := c14Node{id: idOf(i)}
		if d == 0 {
			nd.missing = true
			g.nodes = append(g.nodes, nd)
			continue
		}
		mask := d - 1
		var ms osm.Members
		for j := 0; j < n; j++ {
			if mask>>uint(j)&1 == 1 {
				ms = append(ms, c14Rel(idOf(j)))
			}
		}
		switch layout {
		case 0, 3:
			nd.versions = []osm.Members{ms}
		case 1:
			for a, b := 0, len(ms)-1; a < b; a, b = a+1, b-1 {
				ms[a], ms[b] = ms[b], ms[a]
			}
			for k := range ms {
				ms[k] = c14Decorate(ms[k], uint64(i*5+k))
			}
			nd.versions = []osm.Members{ms}
			nd.tags = []osm.Tags{c14TagsFor(uint64(i) + uint64(mask)*3)}
		default:
			var noise osm.Members
			for j := 1; j <= n; j++ {
				noise = append(noise, osm.Member{Type: osm.TypeWay, Ref: int64(j)}, osm.Member{Type: osm.TypeNode, Ref: int64(j)})
			}
			nd.versions = []osm.Members{noise}
			for _, m := range ms {
				nd.versions = append(nd.versions, osm.Members{m})
			}
			for v := range nd.versions {
				nd.tags = append(nd.tags, c14TagsFor(uint64(i+2*v)))
			}
		}
		g.nodes = append(g.nodes, nd)
	}
	g.finish()
	return g
}

// c14BigGraph builds member number v of the big-relation family (independent of VERIF_SEED):
// a nested hierarchy (network -> route_master -> route -> sub-route, 2..4 levels, branching 2
// or 4, plus shared children) in which every relation that has children carries `members`
// members in total over its 1 or 3 versions — mostly node / way members, the few relation
// members at arbitrary positions and in arbitrary id order — with `members` around the powers
// of two an implementation might switch strategy at. The truth is the same as ever: the
// relation members of any version.
func c14BigGraph(v int) *c14Graph {
	sizes := []int{100, 127, 128, 129, 200, 255, 256, 257, 400}
	members := sizes[v%len(sizes)]
	v /= len(sizes)
	levels := 2 + v%3
	v /= 3
	idmode := v % 3
	v /= 3
	nver := []int{1, 3}[v%2]
	v /= 2
	branch := []int{2, 4}[v%2]

	st := uint64(members)*0x9E3779B97F4A7C15 ^ uint64(levels*131+idmode*17+nver*5+branch)
	rnd := func(n int) int {
		st ^= st << 13
		st ^= st >> 7
		st ^= st << 17
		return int(st % uint64(n))
	}
	// the hierarchy, breadth first
	type tn struct {
		level    int
		children []int
	}
	nodes := []tn{{level: 0}}
	for i := 0; i < len(nodes); i++ {
		if nodes[i].level == levels-1 {
			continue
		}
		for c := 0; c < branch; c++ {
			nodes = append(nodes, tn{level: nodes[i].level + 1})
			nodes[i].children = append(nodes[i].children, len(nodes)-1)
		}
	}
	n := len(nodes)
	for i := range nodes { // shared children: a reference to some relation further down
		if len(nodes[i].children) > 0 && rnd(2) == 0 {
			for try := 0; try < 8; try++ {
				j := rnd(n)
				if nodes[j].level > nodes[i].level {
					nodes[i].children = append(nodes[i].children, j)
					break
				}
			}
		}
	}
	idOf := func(i int) osm.RelationID {
		switch idmode {
		case 0:
			return osm.RelationID(1000 + i) // parents have the smaller ids
		case 1:
			return osm.RelationID(1000 + n - i) // children have the smaller ids
		}
		return osm.RelationID(1000 + (i*7919+13)%10007) // scattered
	}
	kinds := []string{"network", "route_master", "route", "route"}
	g := &c14Graph{shape: "big"}
	for i, t := range nodes {
		nd := c14Node{id: idOf(i)}
		if len(t.children) == 0 {
			nd.versions = []osm.Members{{{Type: osm.TypeWay, Ref: int64(idOf(i))}, {Type: osm.TypeWay, Ref: int64(5000 + i)}}}
			nd.tags = []osm.Tags{{{Key: "type", Value: "route"}}}
			g.nodes = append(g.nodes, nd)
			continue
		}
		// the relation members, in arbitrary order, one of them repeated when there are versions
		rel := append([]int(nil), t.children...)
		for a := len(rel) - 1; a > 0; a-- {
			b := rnd(a + 1)
			rel[a], rel[b] = rel[b], rel[a]
		}
		if nver > 1 {
			rel = append(rel, rel[rnd(len(rel))])
		}
		all := make(osm.Members, 0, members)
		for k := 0; k < members-len(rel); k++ {
			ref := int64(20000 + rnd(5000))
			if k%9 == 0 {
				ref = int64(idOf(rnd(n))) // a way / node numbered like a relation
			}
			t := osm.TypeWay
			if k%4 == 3 {
				t = osm.TypeNode
			}
			all = append(all, osm.Member{Type: t, Ref: ref, Role: []string{"", "forward", "stop", "platform"}[k%4]})
		}
		for _, c := range rel { // insert at arbitrary positions
			m := c14Rel(idOf(c))
			if rnd(3) == 0 {
				m = c14Decorate(m, uint64(c))
			}
			at := rnd(len(all) + 1)
			all = append(all, osm.Member{})
			copy(all[at+1:], all[at:])
			all[at] = m
		}
		// cut into versions of arbitrary lengths
		cuts := []int{0}
		for k := 1; k < nver; k++ {
			cuts = append(cuts, rnd(len(all)+1))
		}
		cuts = append(cuts, len(all))
		sort.Ints(cuts)
		for k := 0; k+1 < len(cuts); k++ {
			nd.versions = append(nd.versions, all[cuts[k]:cuts[k+1]:cuts[k+1]])
			nd.tags = append(nd.tags, osm.Tags{{Key: "type", Value: kinds[t.level]}, {Key: "ref", Value: strconv.Itoa(i)}})
		}
		g.nodes = append(g.nodes, nd)
	}
	g.label = fmt.Sprintf("big{members=%d levels=%d branch=%d ids=%s versions=%d}", members, levels, branch, []string{"parents-smaller", "children-smaller", "scattered"}[idmode], nver)
	g.finish()
	return g
}

// c14DeepGraph builds member number v of the deep family (independent of VERIF_SEED): a chain
// r0 -> r1 -> ... -> r(d-1) of single relation members, optionally closed by a reference from
// the bottom back to the relation at depth `back` (back == d-1: self reference, back < 0: none,
// i.e. a deep acyclic chain), optionally with a 3-ring hanging below the bottom. Depths straddle
// 100, the capacity the library preallocates for its DFS path.
func c14DeepGraph(v int) *c14Graph {
	depths := []int{99, 100, 101, 102, 103, 104, 128, 150, 200, 257, 300}
	d := depths[v%len(depths)]
	kind := (v / len(depths)) % 8
	back, ring := -1, false
	switch kind {
	case 0: // acyclic
	case 1:
		back = 0
	case 2:
		back = 1
	case 3:
		back = d - 1
	case 4:
		back = d - 2
	case 5:
		back = d / 2
	case 6:
		back = d - 100 // the cycle is entered exactly where the path slice is full
		if back < 0 {
			back = 2
		}
	case 7:
		ring = true
	}
	wide := (v/(len(depths)*8))%2 == 1
	deco := (v/(len(depths)*16))%2 == 1
	idOf := func(i int) osm.RelationID {
		if wide {
			return osm.RelationID(int64(1)<<40 - 50 + int64(i)*3) // straddles 2^40
		}
		return osm.RelationID(10 + i)
	}
	n := d
	if ring {
		n = d + 3
	}
	g := &c14Graph{shape: "deep"}
	for i := 0; i < n; i++ {
		var ms osm.Members
		next := -1
		switch {
		case i+1 < n:
			next = i + 1
		case ring:
			next = d // bottom of the ring points back to its first relation
		case back >= 0:
			next = back
		}
		if i%3 == 0 {
			ms = append(ms, osm.Member{Type: osm.TypeWay, Ref: int64(idOf((i + 1) % n))})
		}
		if next >= 0 {
			m := c14Rel(idOf(next))
			if deco {
				m = c14Decorate(m, uint64(i))
			}
			ms = append(ms, m)
		}
		nd := c14Node{id: idOf(i), versions: []osm.Members{ms}}
		if deco {
			nd.tags = []osm.Tags{c14TagsFor(uint64(i))}
		}
		g.nodes = append(g.nodes, nd)
	}
	g.label = fmt.Sprintf("deep{depth=%d back=%d ring=%v wide=%v decorated=%v}", d, back, ring, wide, deco)
	g.finish()
	return g
}

var c14Shapes = []string{"dag", "dag", "dag-dense", "chain", "tree", "dag+missing", "dag+island",
	"cyclic-sparse", "cyclic", "ring", "selfloops", "complete"}

// c14RandGraph generates a graph of 1..maxN relations with histories plus up to three ids
// without history, several versions with different members, node/way members whose refs
// collide with relation ids, and references to relations without history.
func c14RandGraph(r *gen.R, maxN int) *c14Graph { return c14RandGraphStyle(r, maxN, -1) }

// c14RandGraphStyle is c14RandGraph with the id style forced (>= 0).
func c14RandGraphStyle(r *gen.R, maxN int, forceStyle int) *c14Graph {
	shape := c14Shapes[r.Intn(len(c14Shapes))]
	n := r.Range(1, maxN)
	if shape == "complete" && n > 5 {
		n = r.Range(2, 5)
	}
	// distinct non-zero ids
	ids := make([]osm.RelationID, 0, n+3)
	used := map[osm.RelationID]bool{}
	style := r.Pick(0, 1, 2, 3, 3)
	if forceStyle >= 0 {
		style = forceStyle
	}
	newID := func() osm.RelationID {
		for {
			var v int64
			switch style {
			case 0:
				v = r.Int64Range(1, 40)
			case 1:
				v = r.Int64Range(1, 2_000_000)
			case 3:
				v = c14Magnitude(r) // magnitudes mixed within one graph
			default:
				if r.Bool() {
					v = r.Int64Range(1<<33, 1<<40)
				} else {
					v = r.Int64Range(1, 1000)
				}
			}
			if !used[osm.RelationID(v)] {
				used[osm.RelationID(v)] = true
				return osm.RelationID(v)
			}
		}
	}
	for i := 0; i < n; i++ {
		ids = append(ids, newID())
	}
	nMissing := r.Intn(4)
	if shape == "dag+missing" {
		nMissing = r.Range(1, 3)
	}
	var missing []osm.RelationID
	for i := 0; i < nMissing; i++ {
		missing = append(missing, newID())
	}

	ord := r.Perm(n) // ord[k] = node index with rank k; a DAG edge goes from higher to lower rank
	rank := make([]int, n)
	for k, i := range ord {
		rank[i] = k
	}
	edges := make([][]int, n)
	add := func(a, b int) { edges[a] = append(edges[a], b) }
	dag := func(p float64, lo, hi int) {
		for a := lo; a < hi; a++ {
			for b := lo; b < hi; b++ {
				if rank[a] > rank[b] && r.Chance(p) {
					add(a, b)
				}
			}
		}
	}
	cyclicShape := false
	switch shape {
	case "dag", "dag+missing":
		dag(2.2/float64(n+1), 0, n)
	case "dag-dense":
		dag(0.55, 0, n)
	case "chain":
		for k := 1; k < n; k++ {
			add(ord[k], ord[k-1])
		}
	case "tree":
		for k := 0; k+1 < n; k++ {
			add(ord[r.Range(k+1, n-1)], ord[k])
		}
	case "dag+island":
		// a DAG on the nodes before cut and a cycle among the others, with edges only from
		// the island into the DAG, so that the cycle is unreachable from DAG-only requests
		cut := n - r.Range(1, 3)
		if cut < 0 {
			cut = 0
		}
		dag(0.4, 0, cut)
		for a := cut; a < n; a++ {
			b := a + 1
			if b >= n {
				b = cut
			}
			add(a, b)
			if cut > 0 && r.Bool() {
				add(a, r.Intn(cut))
			}
		}
		cyclicShape = true
	case "cyclic-sparse":
		for k := 0; k < n+n/2; k++ {
			add(r.Intn(n), r.Intn(n))
		}
		cyclicShape = true
	case "cyclic":
		for k := 0; k < 2*n+1; k++ {
			add(r.Intn(n), r.Intn(n))
		}
		cyclicShape = true
	case "ring":
		for k := 0; k < n; k++ {
			add(ord[k], ord[(k+1)%n])
		}
		for k := 0; k < n/3; k++ {
			add(r.Intn(n), r.Intn(n))
		}
		cyclicShape = true
	case "selfloops":
		dag(0.3, 0, n)
		for a := 0; a < n; a++ {
			if r.Chance(0.4) {
				add(a, a)
			}
		}
		cyclicShape = true
	case "complete":
		for a := 0; a < n; a++ {
			for b := 0; b < n; b++ {
				add(a, b)
			}
		}
		cyclicShape = true
	}

	g := &c14Graph{shape: shape}
	decorated := r.Chance(0.4) // histories of previously annotated relations
	tagged := r.Chance(0.6)    // versions carry tags (type=multipolygon / boundary / route / ...)
	for a := 0; a < n; a++ {
		nv := r.Pick(1, 1, 2, 2, 3, 4)
		vs := make([]osm.Members, nv)
		r.Shuffle(len(edges[a]), func(i, j int) { edges[a][i], edges[a][j] = edges[a][j], edges[a][i] })
		again := 0.3
		if cyclicShape {
			again = 0.08 // repeated members multiply the library's re-walks of cut relations
		}
		for _, b := range edges[a] {
			v0 := r.Intn(nv)
			for v := 0; v < nv; v++ {
				if v == v0 || r.Chance(again) {
					m := c14Rel(ids[b])
					m.Role = r.PickS("", "outer", "inner", "subarea")
					if decorated && r.Chance(0.7) {
						m = c14Decorate(m, r.Uint64())
					}
					vs[v] = append(vs[v], m)
				}
			}
		}
		for v := 0; v < nv; v++ {
			// node / way members: never edges, even when the number equals a relation id
			for k := r.Intn(3); k > 0; k-- {
				ref := r.Int64Range(1, 50)
				if r.Bool() {
					ref = int64(ids[r.Intn(n)])
				} else if style == 3 && r.Bool() {
					ref = c14Magnitude(r)
				}
				t := osm.TypeWay
				if r.Bool() {
					t = osm.TypeNode
				}
				vs[v] = append(vs[v], osm.Member{Type: t, Ref: ref, Role: r.PickS("", "outer", "stop")})
			}
			if len(missing) > 0 && r.Chance(0.25) {
				vs[v] = append(vs[v], c14Rel(missing[r.Intn(len(missing))]))
			}
			ms := vs[v]
			r.Shuffle(len(ms), func(i, j int) { ms[i], ms[j] = ms[j], ms[i] })
		}
		nd := c14Node{id: ids[a], versions: vs}
		if tagged {
			for range vs {
				nd.tags = append(nd.tags, c14TagsFor(r.Uint64()))
			}
		}
		g.nodes = append(g.nodes, nd)
	}
	for _, id := range missing {
		g.nodes = append(g.nodes, c14Node{id: id, missing: true})
	}
	g.finish()
	return g
}

// ---------------------------------------------------------------------------------------
// library-built datasources: the graph handed over as an osm.OSM or osm.Change value and turned
// into a datasource by the library's own HistoryDatasource(). The truth stays the graph.

var c14LibModes = []string{"fake", "osm-grouped", "osm-interleaved", "change-spread", "change-spread-interleaved"}

type c14Lib struct {
	ds     *osm.HistoryDatasource
	input  any    // the *osm.OSM or *osm.Change the datasource was built from
	before string // canonical dump of input before the datasource was built
}

// c14BuildLib builds the datasource of mode for g from freshly allocated relation values.
// Interleaved modes put the versions of one relation in non-adjacent places of the list (the
// per-relation version order is kept); change modes spread the versions of one relation over
// create / modify / delete (which the library adds in that order), with Visible preset to what
// the library assigns (true, true, false) so that building must not alter the input at all.
func c14BuildLib(g *c14Graph, mode int) *c14Lib {
	type ver struct {
		node, v int
	}
	rel := func(x ver) *osm.Relation {
		nd := g.nodes[x.node]
		return &osm.Relation{ID: nd.id, Version: x.v + 1, Visible: true, Members: append(osm.Members(nil), nd.versions[x.v]...),
			Tags: append(osm.Tags(nil), nd.tagsAt(x.v)...)}
	}
	st := uint64(len(g.desc))*0x9E3779B97F4A7C15 + uint64(mode)
	rnd := func(n int) int {
		st ^= st << 13
		st ^= st >> 7
		st ^= st << 17
		return int(st % uint64(n))
	}
	// order of (relation, version) pairs
	var seq []ver
	interleaved := mode == 2 || mode == 4
	if !interleaved {
		for i, nd := range g.nodes {
			for v := range nd.versions {
				seq = append(seq, ver{i, v})
			}
		}
	} else {
		next := make([]int, len(g.nodes))
		var open []int
		for i, nd := range g.nodes {
			if len(nd.versions) > 0 {
				open = append(open, i)
			}
		}
		last := -1
		for len(open) > 0 {
			k := rnd(len(open))
			if len(open) > 1 && open[k] == last {
				k = (k + 1) % len(open) // keep the versions of one relation apart when possible
			}
			i := open[k]
			seq = append(seq, ver{i, next[i]})
			last = i
			next[i]++
			if next[i] == len(g.nodes[i].versions) {
				open = append(open[:k], open[k+1:]...)
			}
		}
	}
	l := &c14Lib{}
	if mode <= 2 {
		o := &osm.OSM{}
		for _, x := range seq {
			o.Relations = append(o.Relations, rel(x))
		}
		l.input = o
		l.before = eq.Dump(o)
		l.ds = o.HistoryDatasource()
		return l
	}
	ch := &osm.Change{Create: &osm.OSM{}, Modify: &osm.OSM{}, Delete: &osm.OSM{}}
	for _, x := range seq {
		k := len(g.nodes[x.node].versions)
		r := rel(x)
		switch {
		case x.v == 0 && (k > 1 || rnd(3) == 0) && rnd(4) != 0:
			ch.Create.Relations = append(ch.Create.Relations, r)
		case x.v == k-1 && rnd(2) == 0:
			r.Visible = false
			ch.Delete.Relations = append(ch.Delete.Relations, r)
		default:
			ch.Modify.Relations = append(ch.Modify.Relations, r)
		}
	}
	l.input = ch
	l.before = eq.Dump(ch)
	l.ds = ch.HistoryDatasource()
	return l
}

// libFor returns (building it on first use) the library-built datasource of mode and checks
// that building it left the input value untouched.
func (x *c14X) libFor(g *c14Graph, mode int) *c14Lib {
	if g.lib[mode] == nil {
		l := c14BuildLib(g, mode)
		g.lib[mode] = l
		x.res.Add("library_datasources_built", 1)
		x.res.Put("datasource_kinds", c14LibModes[mode])
		x.checkLibInput(g, mode, "building the datasource")
	}
	return g.lib[mode]
}

func (x *c14X) checkLibInput(g *c14Graph, mode int, when string) {
	l := g.lib[mode]
	if l == nil {
		return
	}
	if after := eq.Dump(l.input); after != l.before {
		x.curLib = mode
		x.violate("input-modified", g, "%s (%s) altered the OSM / Change value it was built from:\n%s", when, c14LibModes[mode], eq.Diff(l.before, after))
		x.curLib = 0
		l.before = after
	}
}

// checkLibInputs is called when all scenarios of a graph have run.
func (x *c14X) checkLibInputs(g *c14Graph) {
	for mode := 1; mode <= 4; mode++ {
		x.checkLibInput(g, mode, "iterating on the datasource")
	}
}

// ---------------------------------------------------------------------------------------
// datasource = observation and injection point on the library's walker goroutine

type c14DS struct {
	hist  map[osm.RelationID]osm.Relations
	inner *osm.HistoryDatasource // library-built datasource answering instead of hist
	// blocking lookup (a slow backend that honours its context): the blockAt-th call waits until
	// the context it was GIVEN is done (then fails with its error) or the harness releases it
	blockAt    int64
	release    chan struct{}
	blockedNow atomic.Bool
	byCtx      atomic.Bool // the blocked lookup ended because its context became done
	// gate (concurrent orderings): every lookup announces itself and waits for a token; closing
	// the gate lets the ordering run freely
	gate    chan struct{}
	arrived atomic.Int64
	// probe: record how many ids the consumer had received when each lookup started
	probe     bool
	recv      atomic.Int64
	recvAt    []int32
	budget    int64
	cancelAt  int64 // cancel the external context during the k-th call
	cancel    context.CancelFunc
	errAt     int64 // fail from the k-th call on
	ctxAware  bool  // behave like a datasource that honours its context
	perturb   int
	spin      uint64
	calls     atomic.Int64
	over      atomic.Bool
	inCall    atomic.Bool
	closed    atomic.Bool // Close has returned
	lateCalls atomic.Int64
}

var c14Sink atomic.Uint64

func c14Perturb(mode int, st *uint64) {
	switch mode {
	case 1:
		runtime.Gosched()
	case 2:
		*st ^= *st << 13
		*st ^= *st >> 7
		*st ^= *st << 17
		n := *st % 3000
		var acc uint64
		for i := uint64(0); i < n; i++ {
			acc += i * i
		}
		c14Sink.Add(acc)
	case 3:
		time.Sleep(30 * time.Microsecond)
	}
}

func (d *c14DS) RelationHistory(ctx context.Context, id osm.RelationID) (osm.Relations, error) {
	d.inCall.Store(true)
	defer d.inCall.Store(false)
	n := d.calls.Add(1)
	if d.closed.Load() {
		d.lateCalls.Add(1)
	}
	if n > d.budget {
		d.over.Store(true)
		return nil, errC14Budget
	}
	if d.cancelAt > 0 && n == d.cancelAt {
		d.cancel()
	}
	if d.gate != nil {
		d.arrived.Add(1)
		select {
		case <-d.gate:
		case <-d.release:
		}
	}
	if d.probe {
		// every send before this lookup has been received; give the consumer a moment to count it
		for i := 0; i < 64; i++ {
			runtime.Gosched()
		}
		d.recvAt = append(d.recvAt, int32(d.recv.Load()))
	}
	if d.blockAt > 0 && n == d.blockAt {
		d.blockedNow.Store(true)
		select {
		case <-ctx.Done():
			d.byCtx.Store(true)
			d.blockedNow.Store(false)
			return nil, ctx.Err()
		case <-d.release:
			d.blockedNow.Store(false)
		}
	}
	c14Perturb(d.perturb, &d.spin)
	if d.ctxAware && ctx.Err() != nil {
		return nil, ctx.Err()
	}
	if d.errAt > 0 && n >= d.errAt {
		return nil, errC14Injected
	}
	if d.inner != nil {
		h, err := d.inner.RelationHistory(ctx, id)
		if err != nil && d.inner.NotFound(err) {
			return nil, errC14NotFound
		}
		return h, err
	}
	h, ok := d.hist[id]
	if !ok {
		if n%2 == 0 {
			return nil, fmt.Errorf("relation %d: %w", id, errC14NotFound)
		}
		return nil, errC14NotFound
	}
	return h, nil
}

func (d *c14DS) NotFound(err error) bool { return errors.Is(err, errC14NotFound) }

// perturbation plans: (datasource mode, consumer mode); 0 none, 1 Gosched, 2 spin, 3 sleep
var c14Plans = [][2]int{{0, 0}, {1, 0}, {0, 1}, {2, 0}, {0, 2}, {2, 2}, {1, 1}, {3, 0}, {0, 3}}

// c14PlanFor picks a plan from a number; the two plans with sleeps are rare (1/16 each).
func c14PlanFor(x uint64) int {
	switch x % 16 {
	case 0, 1, 2:
		return 0
	case 3, 4, 5:
		return 1
	case 6, 7, 8:
		return 2
	case 9, 10:
		return 3
	case 11:
		return 4
	case 12:
		return 5
	case 13:
		return 6
	case 14:
		return 7
	}
	return 8
}

// ---------------------------------------------------------------------------------------
// scenario runner + oracle

type c14X struct {
	res      *fw.Result
	sigs     map[string]bool
	keys     map[string]bool
	curMulti bool // the scenario being settled ran next to other orderings (violation class suffix)
	curLib   int  // datasource mode of the scenario being settled (violation class suffix)
	abort    bool // budget exhausted, deadlock or leak seen: skip the rest of the case
	trace    bool
	sampled  bool

	mu     sync.Mutex      // guards leaked (read by scenario goroutines)
	leaked map[string]bool // ids of goroutines already reported as stuck
}

func (x *c14X) violate(class string, g *c14Graph, format string, a ...any) {
	if x.curLib > 0 {
		class += "-libds" // observed on a datasource the library built itself from an OSM / Change value
	}
	if x.curMulti {
		class += "-concurrent" // observed while several orderings were alive in the process
	}
	key := "C14/" + class + "/" + g.key()
	if x.keys[key] || len(x.keys) >= 40 {
		return
	}
	x.keys[key] = true
	desc := g.desc
	if g.label != "" && len(desc) > 6000 {
		desc = desc[:6000] + " ..."
	}
	x.res.Violate(key, fmt.Sprintf(format, a...), map[string]any{"graph": desc, "shape": g.shape})
}

func (x *c14X) eval(sig string) {
	if sig == "" || x.sigs[sig] {
		x.res.Eval("") // a signature is listed once per case; evaluations are still counted
		return
	}
	x.sigs[sig] = true
	x.res.Eval(sig)
}

func (x *c14X) isLeaked(gid string) bool {
	x.mu.Lock()
	defer x.mu.Unlock()
	return x.leaked[gid]
}

func (x *c14X) markLeaked(blocks []string) {
	x.mu.Lock()
	for _, b := range blocks {
		x.leaked[c14GoroutineID(b)] = true
	}
	x.mu.Unlock()
}

type c14Scn struct {
	g         *c14Graph
	req       []osm.RelationID
	stop      string // "" | close | cancel | cancel-nonext | precancel | dscancel | dserr
	j         int    // Next calls before the stop, or datasource call index
	alsoClose bool   // call Close after a cancellation as well
	plan      int
	ctxAware  bool

	note       string // concurrent orderings: the schedule and the other members
	pre        int    // block stops: Next calls to make before waiting for the blocked lookup
	probe      bool   // record the consumer's progress at every lookup
	lib        int    // 0: the harness' own datasource; 1..4: library-built (c14LibModes)
	hardBudget bool   // exhausting the datasource budget is a non-termination verdict (set by run)
}

func (s *c14Scn) String() string {
	return fmt.Sprintf("requested=%s stop=%q j=%d alsoClose=%v plan=%d ctxAware=%v datasource=%s", c14IDs(s.req), s.stop, s.j, s.alsoClose, s.plan, s.ctxAware, c14LibModes[s.lib])
}

// c14Leak is a goroutine with annotate frames found after the point where none may be left.
type c14Leak struct {
	class, when, state, block string
	blocked                   bool
}

// c14Out is everything the scenario goroutine observed; the watcher reads it only after the
// scenario has finished.
type c14Out struct {
	emitted    []osm.RelationID
	ended      bool // the last Next returned false
	noEnd      bool // Next kept returning true after the stop
	afterStop  int  // ids delivered after Close / cancel
	stopInDS   bool // the stop hit while the walker was inside the datasource
	errNonNil  bool
	overBound  bool
	dsCalls    int64
	lateCalls  int64
	overBudget bool
	dumps      int64
	leaks      []c14Leak
	recvAt     []int32 // probe runs: ids received by the consumer when lookup i+1 started
	blockMiss  bool    // block stops: the walker never arrived in the blocking lookup
	byCtx      bool    // block stops: the blocked lookup ended because its context became done
}

func c14IDs(ids []osm.RelationID) string {
	var sb strings.Builder
	for i, id := range ids {
		if i > 0 {
			sb.WriteByte('.')
		}
		sb.WriteString(strconv.FormatInt(int64(id), 10))
	}
	return sb.String()
}

func c14GoroutineID(block string) string {
	f := strings.Fields(block)
	if len(f) >= 2 {
		return f[1]
	}
	return ""
}

// c14State is what the watching goroutine can see of a running scenario.
type c14State struct {
	done      atomic.Bool
	abandoned atomic.Bool  // the watcher gave up: the scenario goroutine must not go on
	step      atomic.Int64 // bumped before every library call that may block
	ds        *c14DS

	// block stops: the consumer had to call Next to move the walker on (fallback) and the
	// walker then entered the blocking lookup while the consumer is inside that Next — a state
	// the consumer cannot stop from. The watcher then releases the lookup (rescue).
	fallback atomic.Bool
	rescued  atomic.Bool
	relOnce  sync.Once
}

func (st *c14State) releaseLookup() { st.relOnce.Do(func() { close(st.ds.release) }) }

// rescue is called by the watcher on every poll.
func (st *c14State) rescue() {
	if st.fallback.Load() && st.ds.blockedNow.Load() {
		st.rescued.Store(true)
		st.releaseLookup()
	}
}

func (st *c14State) progress() int64 { return st.step.Load() + st.ds.calls.Load() }

// call runs one library call that may block for ever.
func (st *c14State) call(f func()) {
	st.step.Add(1)
	f()
	if st.abandoned.Load() {
		runtime.Goexit()
	}
}

// walkerArrives reports whether the walker sits in the blocking lookup. It yields while a
// goroutine with annotate frames is still able to run; it returns false as soon as there is
// none, or all of them are blocked (waiting for the consumer).
func (x *c14X) walkerArrives(ds *c14DS) bool {
	for i := 0; i < 200; i++ {
		if ds.blockedNow.Load() {
			return true
		}
		runtime.Gosched()
	}
	for polls := 0; polls < 300; polls++ {
		if ds.blockedNow.Load() {
			return true
		}
		canRun := false
		for _, b := range mon.Goroutines(c14Pkg) {
			if !x.isLeaked(c14GoroutineID(b)) && !mon.Blocked(mon.GoroutineState(b)) {
				canRun = true
			}
		}
		if !canRun {
			return ds.blockedNow.Load()
		}
		runtime.Gosched()
		time.Sleep(20 * time.Microsecond)
	}
	return ds.blockedNow.Load()
}

// goroutinesGone decides "no goroutine with annotate frames is left". Fast path: the
// goroutine count is back at the value sampled before the ordering was created.
func (x *c14X) goroutinesGone(base int, out *c14Out, class, when string) {
	for i := 0; i < 200 && runtime.NumGoroutine() > base; i++ {
		runtime.Gosched() // let a walker that is already on its way out finish
	}
	if runtime.NumGoroutine() <= base {
		return
	}
	left := mon.WaitNoLibGoroutines(c14Pkg, 40)
	out.dumps++
	for _, blk := range left {
		if x.isLeaked(c14GoroutineID(blk)) {
			continue
		}
		st := mon.GoroutineState(blk)
		out.leaks = append(out.leaks, c14Leak{class: class, when: when, state: st, block: blk, blocked: mon.Blocked(st)})
	}
}

// run executes one scenario on a goroutine of its own and watches it from the calling
// goroutine. The verdict "never ends" is taken from goroutine states, not from a clock: the
// scenario goroutine sits blocked inside a library call (Close / Next), every other goroutine
// with annotate frames is blocked as well (or there is none), and neither the scenario's step
// counter nor the datasource call counter moves over 25 consecutive polls — nobody is left who
// could wake anybody. Anything else that does not finish is inconclusive. Either way the rest
// of the case is skipped. The scenario goroutine never touches the case result; the watcher
// evaluates what it observed once it has finished.
func (x *c14X) run(s *c14Scn) c14Out {
	g := s.g
	if x.abort {
		return c14Out{}
	}
	if x.trace {
		fmt.Fprintf(os.Stderr, "C14 scenario graph=%s %s\n", g.desc, s)
	}
	parent, cancel := context.WithCancel(context.Background())
	defer cancel()
	plan := c14Plans[s.plan]
	x.curLib = s.lib
	defer func() { x.curLib = 0 }()
	ds := &c14DS{hist: g.hist, budget: c14BudgetBig, cancel: cancel, ctxAware: s.ctxAware, perturb: plan[0],
		spin: uint64(len(g.desc))*2654435761 + uint64(s.j) + 88172645463325252}
	switch {
	case g.small:
		ds.budget = c14BudgetSmall
		s.hardBudget = true
	case g.linear && len(s.req) <= 25:
		// at most one relation member per relation: from any start the walk follows a single
		// chain and must stop when it repeats, i.e. after <= relations+1 lookups per request
		ds.budget = 50 * int64(len(g.nodes)+2)
		s.hardBudget = true
	}
	if s.lib > 0 {
		ds.inner = x.libFor(g, s.lib).ds
	}
	ds.release = make(chan struct{})
	ds.probe = s.probe
	st := &c14State{ds: ds}
	defer st.releaseLookup() // whatever happens, a blocked lookup does not outlive the scenario
	var out c14Out
	go func() {
		x.body(s, st, &out, parent, cancel)
		st.done.Store(true)
	}()
	for spins := 0; !st.done.Load(); spins++ {
		runtime.Gosched()
		st.rescue()
		if spins < 3000 {
			continue
		}
		verdict, blocks := x.stuck(st)
		if verdict == "" {
			break
		}
		st.abandoned.Store(true)
		x.abort = true
		x.markLeaked(blocks)
		where := ""
		for _, b := range blocks {
			switch {
			case strings.Contains(b, "props.(*c14X).body") && strings.Contains(b, "ChildFirstOrdering).Close"):
				where = "Close"
			case strings.Contains(b, "props.(*c14X).body") && strings.Contains(b, "ChildFirstOrdering).Next"):
				where = "Next"
			}
		}
		if verdict == "deadlock" {
			cls := map[string]string{"Close": "deadlock-in-close", "Next": "next-blocks-forever"}[where]
			if cls == "" {
				cls, where = "deadlock", "a library call"
			}
			x.violate(cls, g, "%s never returns: every goroutine with %s frames is blocked and nothing moves any more; %s\n%s",
				where, c14Pkg, s, strings.Join(blocks, "\n"))
		} else {
			x.res.Inconc("scenario does not finish but its goroutines are not all blocked (graph %s %s)", g.key(), s)
		}
		x.res.Eval("")
		return c14Out{}
	}
	x.settle(s, &out)
	return out
}

// stuck polls the goroutine states of a scenario that has not finished. It returns "" when the
// scenario finished meanwhile, "deadlock" with the blocked goroutines, or "runnable".
func (x *c14X) stuck(st *c14State) (string, []string) {
	stable, last := 0, st.progress()
	for i := 0; i < 600; i++ {
		if st.done.Load() {
			return "", nil
		}
		d := i + 1
		if d > 10 {
			d = 10
		}
		time.Sleep(time.Duration(d) * 200 * time.Microsecond)
		st.rescue()
		if p := st.progress(); p != last || st.done.Load() {
			stable, last = 0, p // it moves (a loaded machine, a sleeping datasource): no dump needed
			continue
		}
		x.res.Add("goroutine_dumps_inspected", 1)
		var gs []string
		for _, b := range mon.Goroutines(c14Pkg) {
			if !x.isLeaked(c14GoroutineID(b)) {
				gs = append(gs, b)
			}
		}
		all, inCall := len(gs) > 0, false
		for _, b := range gs {
			if !mon.Blocked(mon.GoroutineState(b)) {
				all = false
			}
			if strings.Contains(b, "props.(*c14X).body") {
				inCall = true
			}
		}
		if p := st.progress(); p != last || !all || !inCall || st.done.Load() {
			stable, last = 0, p
			continue
		}
		stable++
		if stable >= 25 {
			return "deadlock", gs
		}
	}
	return "runnable", nil
}

// body is the scenario itself: the consumer of the ordering. It records into out only.
func (x *c14X) body(s *c14Scn, st *c14State, out *c14Out, parent context.Context, cancel context.CancelFunc) {
	g, ds := s.g, st.ds
	plan := c14Plans[s.plan]
	base := runtime.NumGoroutine()
	switch s.stop {
	case "dscancel":
		ds.cancelAt = int64(s.j)
	case "dserr":
		ds.errAt = int64(s.j)
	case "precancel":
		cancel()
	case "blockclose", "blockcancel":
		ds.blockAt = int64(s.j)
	}
	cspin := ds.spin ^ 0x9E3779B97F4A7C15
	req := append([]osm.RelationID(nil), s.req...)

	o := annotate.NewChildFirstOrdering(parent, req, ds)

	limit := 2*(g.nHist+len(req)) + 8 // more emissions than this contain a duplicate for sure
	next := func() bool {
		var ok bool
		st.call(func() { ok = o.Next() })
		if ok {
			out.emitted = append(out.emitted, o.RelationID())
			ds.recv.Add(1)
			return true
		}
		out.ended = true
		return false
	}
	pre := limit + 1
	switch s.stop {
	case "blockclose", "blockcancel":
		pre = s.pre
	case "close", "cancel", "cancel-nonext":
		pre = s.j
	case "precancel":
		pre = 0
	}
	for i := 0; i < pre && len(out.emitted) <= limit; i++ {
		if !next() {
			break
		}
		c14Perturb(plan[1], &cspin)
	}
	drain := func() {
		out.ended = false
		for len(out.emitted) <= limit && next() {
		}
		out.noEnd = !out.ended
	}
	atStop := len(out.emitted)
	closed := false
	doClose := func() {
		st.call(o.Close)
		ds.closed.Store(true)
		closed = true
	}
	switch s.stop {
	case "":
		// natural end (or emission bound exceeded)
	case "close":
		c14Perturb(plan[1], &cspin)
		out.stopInDS = ds.inCall.Load()
		doClose()
		drain()
		x.goroutinesGone(base, out, "leak-after-close", "after Close")
	case "cancel", "precancel":
		c14Perturb(plan[1], &cspin)
		out.stopInDS = ds.inCall.Load()
		cancel()
		drain()
		x.goroutinesGone(base, out, "leak-after-cancel", "after context cancellation (no Close)")
	case "cancel-nonext":
		out.stopInDS = ds.inCall.Load()
		cancel()
		// the consumer walks away without another Next: the walker must end on its own
		x.goroutinesGone(base, out, "leak-after-cancel", "after context cancellation (no further Next, no Close)")
	case "blockclose", "blockcancel":
		// The walker normally gets into the blocking lookup without another Next, because the
		// ids it emits before that lookup have been consumed. Nothing is assumed about when the
		// library starts its goroutine or how far it runs ahead: the consumer waits only while
		// some library goroutine can still run on its own (goroutine states, no clock); when
		// none can (not started yet, waiting for the consumer) it makes the next Next call it
		// was going to make anyway. Should the walker enter the blocking lookup during such a
		// Next — a state the consumer cannot stop from — the watcher releases the lookup and the
		// scenario goes on as an ordinary Close / cancel point, counted as "missed".
		for !st.rescued.Load() && !out.ended && len(out.emitted) <= limit {
			if x.walkerArrives(ds) {
				break
			}
			st.fallback.Store(true)
			ok := next()
			st.fallback.Store(false)
			if !ok {
				break
			}
		}
		out.stopInDS = ds.blockedNow.Load() && !st.rescued.Load()
		out.blockMiss = !out.stopInDS
		if s.stop == "blockclose" {
			doClose() // must make the context handed to the datasource done, or it waits for ever
		} else {
			cancel()
		}
		drain()
		x.goroutinesGone(base, out, "leak-after-"+map[string]string{"blockclose": "close", "blockcancel": "cancel"}[s.stop], "after the stop hit a blocked lookup")
		out.byCtx = ds.byCtx.Load()
	case "dscancel":
		// consumed until Next returned false
		x.goroutinesGone(base, out, "leak-after-cancel", "after context cancellation inside the datasource (no Close)")
	case "dserr":
	}
	out.afterStop = len(out.emitted) - atStop
	if s.stop == "" {
		out.afterStop = 0
		out.errNonNil = o.Err() != nil
	}
	out.overBound = len(out.emitted) > limit
	if !closed && (s.stop == "" || s.stop == "dserr" || s.stop == "blockcancel" || s.alsoClose) {
		doClose()
		x.goroutinesGone(base, out, "leak-after-close", "after Close")
	}
	if closed {
		_ = o.CompletedIndex // ordered after the walker by Close; value not asserted
		var ok bool
		st.call(func() { ok = o.Next() })
		if ok {
			out.emitted = append(out.emitted, o.RelationID())
			out.afterStop++
		}
	}
	out.dsCalls = ds.calls.Load()
	out.recvAt = ds.recvAt
	out.lateCalls = ds.lateCalls.Load()
	out.overBudget = ds.over.Load()
}

// ---------------------------------------------------------------------------------------
// concurrent orderings: several orderings over unrelated graphs (with overlapping ids) alive in
// one process, each with its own consumer goroutine, interleaved deterministically through
// gated datasources; each judged against its own graph.

type c14Member struct {
	g       *c14Graph
	req     []osm.RelationID
	stallAt int // nest schedule: stall inside this lookup (1-based) while the later members run

	ds      *c14DS
	cancel  context.CancelFunc
	out     c14Out
	done    atomic.Bool
	granted int64
	opened  bool
}

func (m *c14Member) open() {
	if !m.opened {
		m.opened = true
		close(m.ds.gate)
	}
}

// c14Wait yields until cond holds; bounded, the bound is far beyond anything a live run needs.
func c14Wait(cond func() bool) bool {
	for i := 0; i < 40000; i++ {
		if cond() {
			return true
		}
		runtime.Gosched()
		if i > 500 {
			time.Sleep(20 * time.Microsecond)
		}
	}
	return cond()
}

// multi runs the members under schedule "nest" (member i is created, advanced until it sits
// inside lookup stallAt, then member i+1 is created ...; the last one runs to its end, then the
// others are released innermost first), "robin" (all created, one lookup each in turn) or
// "free" (all created back to back, no gating).
func (x *c14X) multi(ms []*c14Member, schedule string) {
	if x.abort {
		return
	}
	var names []string
	for _, m := range ms {
		names = append(names, m.g.key())
	}
	note := fmt.Sprintf("schedule=%s members=%s", schedule, strings.Join(names, " & "))
	if x.trace {
		fmt.Fprintf(os.Stderr, "C14 concurrent %s\n", note)
	}
	start := func(m *c14Member) {
		ctx, cancel := context.WithCancel(context.Background())
		m.cancel = cancel
		m.ds = &c14DS{hist: m.g.hist, budget: c14BudgetBig, cancel: cancel, gate: make(chan struct{}), release: make(chan struct{})}
		if schedule == "free" {
			m.open()
		}
		req := append([]osm.RelationID(nil), m.req...)
		o := annotate.NewChildFirstOrdering(ctx, req, m.ds)
		limit := 2*(m.g.nHist+len(req)) + 8
		go func() {
			for len(m.out.emitted) <= limit {
				if !o.Next() {
					m.out.ended = true
					break
				}
				m.out.emitted = append(m.out.emitted, o.RelationID())
			}
			m.out.overBound = len(m.out.emitted) > limit
			o.Close()
			m.out.dsCalls = m.ds.calls.Load()
			m.out.overBudget = m.ds.over.Load()
			m.done.Store(true)
		}()
	}
	ok := true
	// step lets m do one more lookup; false when m is done (or nothing moves any more)
	step := func(m *c14Member) bool {
		if !c14Wait(func() bool { return m.done.Load() || m.ds.arrived.Load() > m.granted }) {
			ok = false
			return false
		}
		if m.ds.arrived.Load() <= m.granted {
			return false // done
		}
		m.ds.gate <- struct{}{}
		m.granted++
		return true
	}
	switch schedule {
	case "nest":
		for i, m := range ms {
			start(m)
			if i == len(ms)-1 {
				m.open()
				break
			}
			for ok && m.granted < int64(m.stallAt-1) && step(m) {
			}
			// now wait until it sits inside lookup stallAt (or has ended before getting there)
			if !c14Wait(func() bool { return m.done.Load() || m.ds.arrived.Load() > m.granted }) {
				ok = false
			}
			if m.ds.arrived.Load() > m.granted {
				x.res.Add("concurrent_orderings_stalled_inside_lookup", 1)
			}
		}
		for i := len(ms) - 1; i >= 0 && ok; i-- {
			ms[i].open()
			if !c14Wait(ms[i].done.Load) {
				ok = false
			}
		}
	case "robin":
		for _, m := range ms {
			start(m)
		}
		for live := true; live && ok; {
			live = false
			for _, m := range ms {
				if !m.done.Load() && step(m) {
					live = true
				}
			}
		}
		for _, m := range ms {
			if ok && !c14Wait(m.done.Load) {
				ok = false
			}
		}
	default:
		for _, m := range ms {
			start(m)
		}
		for _, m := range ms {
			if ok && !c14Wait(m.done.Load) {
				ok = false
			}
		}
	}
	if !ok {
		// not decided here: stop sweeps own the "never ends" verdicts
		x.abort = true
		for _, m := range ms {
			if m.ds != nil {
				m.cancel()
				close(m.ds.release)
				m.open()
			}
		}
		x.res.Inconc("concurrent orderings did not finish within the wait bound (%s)", note)
		x.res.Eval("")
		return
	}
	x.curMulti = true
	for i, m := range ms {
		m.cancel()
		sc := &c14Scn{g: m.g, req: m.req, stop: "concurrent", j: m.stallAt, note: fmt.Sprintf("member=%d %s", i, note)}
		x.res.Event(int64(len(m.out.emitted)) + m.out.dsCalls)
		if m.out.overBound {
			x.violate("emit-bound", m.g, "more ids emitted than twice the relations with history plus requests: %s emitted=%s", sc, c14IDs(m.out.emitted))
		}
		if m.out.overBudget {
			x.res.Inconc("datasource budget exhausted in a concurrent ordering (%s)", note)
			continue
		}
		x.judge(sc, &m.out, m.out.ended)
	}
	x.curMulti = false
}

// settle turns what a finished scenario observed into counters, verdicts and evaluations.
func (x *c14X) settle(s *c14Scn, out *c14Out) {
	g := s.g
	if out.stopInDS {
		x.res.Add("stops_with_walker_inside_datasource", 1)
	}
	if out.blockMiss {
		x.res.Add("block_stops_that_missed_the_lookup", 1)
	}
	if out.byCtx {
		x.res.Add("blocked_lookups_released_by_"+map[string]string{"blockclose": "close", "blockcancel": "cancel"}[s.stop], 1)
	}
	if out.afterStop > 0 {
		x.res.Add("ids_delivered_after_stop", int64(out.afterStop))
	}
	if out.errNonNil && !out.overBudget {
		x.res.Add("err_nonnil_on_undisturbed_runs", 1) // informational: the property is about the sequence
	}
	if out.dumps > 0 {
		x.res.Add("goroutine_dumps_inspected", out.dumps)
	}
	x.res.Event(int64(len(out.emitted)) + out.dsCalls)
	x.res.SetMax("datasource_calls_per_run", out.dsCalls)
	if out.noEnd {
		x.violate("no-end-after-stop", g, "Next keeps returning true after Close / cancellation: %s emitted=%s", s, c14IDs(out.emitted))
	}
	if out.overBound {
		x.violate("emit-bound", g, "more ids emitted than twice the relations with history (%d) plus requests: %s emitted=%s", g.nHist, s, c14IDs(out.emitted))
	}
	for _, l := range out.leaks {
		if l.blocked {
			x.markLeaked([]string{l.block})
			x.abort = true // every further leak would cost a full poll budget
			x.violate(l.class, g, "a goroutine of %s is still blocked [%s] %s; %s\n%s", c14Pkg, l.state, l.when, s, l.block)
		} else {
			x.res.Inconc("goroutine of %s still %s at the end of the poll budget %s (graph %s %s)", c14Pkg, l.state, l.when, g.key(), s)
		}
	}
	if out.lateCalls > 0 {
		// not a verdict: the property does not say that the walker is gone before Close returns
		x.res.Add("datasource_calls_after_close_returned", out.lateCalls)
	}
	if out.overBudget {
		x.abort = true
		x.res.Add("cases_cut_short_by_datasource_budget", 1)
		if s.hardBudget {
			x.violate("nonterm-budget", g, "more than %d history lookups in one iteration over %d relations (%d requested): the walk does not terminate; %s", out.dsCalls-1, len(g.nodes), len(s.req), s)
		} else {
			x.res.Inconc("datasource budget of %d lookups exhausted on graph %s %s", c14BudgetBig, g.key(), s)
		}
		x.judge(s, out, false)
		return
	}
	x.judge(s, out, s.stop == "" && out.ended)
}

// judge evaluates the sequence oracles on what was emitted. full: the iteration ran
// undisturbed to its natural end, so every requested relation with a history must be there.
func (x *c14X) judge(s *c14Scn, out *c14Out, full bool) {
	g, em := s.g, out.emitted
	ctxt := func() string {
		return fmt.Sprintf("requested=%s emitted=%s stop=%q j=%d plan=%d datasource=%s %s", c14IDs(s.req), c14IDs(em), s.stop, s.j, s.plan, c14LibModes[s.lib], s.note)
	}
	pos := make(map[osm.RelationID]int, len(em))
	for i, id := range em {
		if _, dup := pos[id]; dup {
			x.violate("dup", g, "relation %d emitted twice: %s", id, ctxt())
			continue
		}
		pos[id] = i
		if _, has := g.hist[id]; !has {
			x.violate("nohist", g, "id %d emitted although it has no history: %s", id, ctxt())
		}
	}
	reqHist, dupReq, missReq := 0, false, false
	seenReq := map[osm.RelationID]bool{}
	for _, id := range s.req {
		if seenReq[id] {
			dupReq = true
		}
		seenReq[id] = true
		if _, has := g.hist[id]; !has {
			missReq = true
			continue
		}
		reqHist++
		if _, ok := pos[id]; full && !ok {
			x.violate("missing-requested", g, "requested relation %d has a history but was never emitted: %s", id, ctxt())
		}
	}
	sc, acyclic := g.scope(s.req)
	pairs := 0
	if acyclic {
		for i, id := range em {
			if !sc[id] && g.cyclic {
				continue // emitted although neither requested nor reachable: judged only on a wholly acyclic graph
			}
			for c := range g.reach(id) {
				pairs++
				if p, ok := pos[c]; !ok || p > i {
					x.violate("order", g, "acyclic graph: relation %d emitted at position %d before relation %d reachable from it (position %d, -1 = never): %s",
						id, i, c, func() int {
							if ok {
								return p
							}
							return -1
						}(), ctxt())
				}
			}
		}
		x.res.Add("order_pairs_checked", int64(pairs))
		x.res.Add("runs_order_checked", 1)
	}
	x.res.Add("runs_"+c14StopName(s.stop), 1)

	if reqHist == 0 {
		x.eval("")
		return
	}
	cl := func(n int) string {
		switch {
		case n <= 4:
			return strconv.Itoa(n)
		case n <= 8:
			return "5-8"
		}
		return "9+"
	}
	ac := "cyc"
	if acyclic {
		ac = "dag"
		if pairs == 0 {
			ac = "flat"
		}
	}
	sig := fmt.Sprintf("%s/%s/hist%s/req%s/emit%s", c14StopName(s.stop), ac, cl(len(sc)), cl(len(s.req)), cl(len(em)))
	if dupReq {
		sig += "/dupreq"
	}
	if missReq {
		sig += "/nohistreq"
	}
	if s.lib > 0 {
		sig += "/libds"
	}
	if len(g.nodes) > 0 && !strings.HasPrefix(g.shape, "exh") {
		sig += "/rand"
	}
	x.eval(sig)
}

func c14StopName(s string) string {
	if s == "" {
		return "full"
	}
	return s
}

// c14OrderedSubsets lists every ordered selection without repetition of ids (all subsets,
// all orders), the empty one included.
func c14OrderedSubsets(ids []osm.RelationID) [][]osm.RelationID {
	var out [][]osm.RelationID
	used := make([]bool, len(ids))
	var cur []osm.RelationID
	var rec func()
	rec = func() {
		out = append(out, append([]osm.RelationID(nil), cur...))
		for i, id := range ids {
			if used[i] {
				continue
			}
			used[i] = true
			cur = append(cur, id)
			rec()
			cur = cur[:len(cur)-1]
			used[i] = false
		}
	}
	rec()
	return out
}

func (g *c14Graph) allIDs() []osm.RelationID {
	ids := make([]osm.RelationID, len(g.nodes))
	for i, nd := range g.nodes {
		ids[i] = nd.id
	}
	return ids
}

// stopSweep runs, for one request list, Close / cancel after every number of Next calls and
// cancellation / failure inside every datasource call of the undisturbed run.
func (x *c14X) stopSweep(g *c14Graph, req []osm.RelationID, salt uint64, maxK int, lib int) {
	plan := func(k int) int { return c14PlanFor(salt*31 + uint64(k)*7) }
	full := x.run(&c14Scn{g: g, req: req, lib: lib, plan: plan(0), probe: true})
	L := len(full.emitted)
	if L > 2*g.nHist+2 {
		L = 2*g.nHist + 2
	}
	for j := 0; j <= L+1; j++ {
		x.run(&c14Scn{g: g, req: req, lib: lib, stop: "close", j: j, plan: plan(j + 1)})
		x.run(&c14Scn{g: g, req: req, lib: lib, stop: "cancel", j: j, alsoClose: (uint64(j)+salt)%2 == 0, plan: plan(j + 2), ctxAware: (uint64(j)+salt)%3 == 0})
		x.run(&c14Scn{g: g, req: req, lib: lib, stop: "cancel-nonext", j: j, alsoClose: (uint64(j)+salt)%2 == 1, plan: plan(j + 3)})
	}
	x.run(&c14Scn{g: g, req: req, lib: lib, stop: "precancel", alsoClose: salt%2 == 0, plan: plan(5)})
	K := int(full.dsCalls)
	step := 1
	if K > maxK {
		step = (K + maxK - 1) / maxK
	}
	for k := 1; k <= K; k += step {
		x.run(&c14Scn{g: g, req: req, lib: lib, stop: "dscancel", j: k, alsoClose: (uint64(k)+salt)%2 == 0, plan: plan(k + 4), ctxAware: (uint64(k)+salt)%3 == 1})
		// a failing datasource is outside the property: run (must end, Close must return), only
		// the sequence oracles on what was emitted are evaluated
		x.run(&c14Scn{g: g, req: req, lib: lib, stop: "dserr", j: k, plan: plan(k + 6)})
		// a context-honouring datasource whose k-th lookup blocks: Close (or the parent's
		// cancellation) issued while the walker is in there must end lookup, walker and iteration
		if k <= len(full.recvAt) {
			pre := int(full.recvAt[k-1])
			x.run(&c14Scn{g: g, req: req, lib: lib, stop: "blockclose", j: k, pre: pre, plan: plan(k+8) % 7})
			x.run(&c14Scn{g: g, req: req, lib: lib, stop: "blockcancel", j: k, pre: pre, plan: plan(k+9) % 7})
		}
	}
}

func (x *c14X) sample(g *c14Graph, req []osm.RelationID, out c14Out) {
	if x.sampled {
		return
	}
	x.sampled = true
	_, acyclic := g.scope(req)
	x.res.Sample = map[string]any{"graph": func() string {
		if g.label != "" {
			return g.label
		}
		return g.desc
	}(), "shape": g.shape, "requested": c14IDs(req), "emitted": c14IDs(out.emitted),
		"datasource_calls": out.dsCalls, "acyclic_from_requests": acyclic}
}

func c14Exec(c fw.Case) *fw.Result {
	res := fw.NewResult()
	// an unbounded recursion must die quickly and not eat the machine (backstop only: the
	// datasource budget normally ends it first)
	debug.SetMaxStack(256 << 20)
	if p := int(c.Int("procs")); p > 0 {
		old := runtime.GOMAXPROCS(p)
		defer runtime.GOMAXPROCS(old)
	}
	x := &c14X{res: res, sigs: map[string]bool{}, keys: map[string]bool{}, leaked: map[string]bool{},
		trace: os.Getenv("VERIF_CHILD") == "" || os.Getenv("C14_TRACE") != ""}
	from, count := c.Int("from"), c.Int("count")

	switch c.Kind {
	case "exh-full", "exh-stop":
		n, layout := int(c.Int("n")), int(c.Int("layout"))
		total := c14ExhCount(n)
		for gi := from; gi < from+count && gi < total; gi++ {
			g := c14ExhGraph(n, gi, layout)
			if c.Kind == "exh-full" {
				res.Add("graphs_enumerated", 1)
			}
			ids := g.allIDs()
			lists := c14OrderedSubsets(ids)
			if c.Kind == "exh-full" {
				// requests that name an id twice
				lists = append(lists, []osm.RelationID{ids[0], ids[0]})
				if n >= 2 {
					lists = append(lists, []osm.RelationID{ids[n-1], ids[0], ids[n-1]}, []osm.RelationID{ids[0], ids[1], ids[1], ids[0]})
				}
				for li, req := range lists {
					out := x.run(&c14Scn{g: g, req: req, plan: c14PlanFor(uint64(gi)*131 + uint64(li))})
					if len(req) == n {
						x.sample(g, req, out)
					}
					if layout != 2 {
						continue
					}
					// the multi-version layout again on datasources the library builds itself:
					// all four kinds for n <= 3, one rotating kind for n = 4
					for mode := 1; mode <= 4; mode++ {
						if n <= 3 || mode == 1+int((uint64(gi)+uint64(li))%4) {
							x.run(&c14Scn{g: g, req: req, lib: mode, plan: c14PlanFor(uint64(gi)*131 + uint64(li) + uint64(mode))})
						}
					}
				}
				x.checkLibInputs(g)
				continue
			}
			salt := uint64(gi)*2654435761 + uint64(layout)
			x.stopSweep(g, ids, salt, 12, 0)
			if alt := lists[(salt>>3)%uint64(len(lists))]; len(alt) > 0 && len(alt) < n {
				lib := 0
				if layout == 2 {
					lib = 1 + int(salt%4)
				}
				x.stopSweep(g, alt, salt+1, 12, lib)
			}
			x.checkLibInputs(g)
		}
	case "multi-exh":
		// pairs / triples of enumerated graphs on the same ids 1..n: the first is stalled inside
		// each of its lookups in turn while an unrelated graph on the same ids runs to its end
		n := int(c.Int("n"))
		total := c14ExhCount(n)
		for gi := from; gi < from+count && gi < total; gi++ {
			a := c14ExhGraph(n, gi, 0)
			if a.nHist < 2 {
				continue
			}
			probe := x.run(&c14Scn{g: a, req: a.allIDs(), plan: 0})
			for k := 2; k <= int(probe.dsCalls); k++ {
				for t := 0; t < 2; t++ {
					h := (uint64(gi)*2654435761 + uint64(k)*40503 + uint64(t)*977) % uint64(total)
					b := c14ExhGraph(n, int64(h), int(h%3))
					ms := []*c14Member{{g: a, req: a.allIDs(), stallAt: k}, {g: b, req: b.allIDs()}}
					if t == 1 {
						h2 := (h*31 + 7) % uint64(total)
						c2 := c14ExhGraph(n, int64(h2), 0)
						rev := c2.allIDs()
						for i, j := 0, len(rev)-1; i < j; i, j = i+1, j-1 {
							rev[i], rev[j] = rev[j], rev[i]
						}
						ms = []*c14Member{ms[0], {g: c2, req: rev, stallAt: 2}, ms[1]}
					}
					x.multi(ms, "nest")
				}
			}
			res.Add("graphs_stalled_under_concurrent_orderings", 1)
		}
	case "multi-rand":
		maxN := int(c.Int("maxn"))
		for k := from; k < from+count; k++ {
			r := gen.New(gen.Sub(c.Seed, "c14multi", int(k)), "c14m")
			m := r.Range(2, 4)
			var ms []*c14Member
			for i := 0; i < m; i++ {
				g := c14RandGraphStyle(r, maxN, 0) // ids 1..40: the graphs share ids by coincidence
				ids := g.allIDs()
				r.Shuffle(len(ids), func(a, b int) { ids[a], ids[b] = ids[b], ids[a] })
				ms = append(ms, &c14Member{g: g, req: ids, stallAt: r.Range(1, 2*len(ids))})
			}
			fresh := func() []*c14Member {
				var out []*c14Member
				for _, m := range ms {
					out = append(out, &c14Member{g: m.g, req: m.req, stallAt: m.stallAt})
				}
				return out
			}
			x.multi(fresh(), "nest")
			x.multi(fresh(), "robin")
			x.multi(fresh(), "free")
			res.Add("groups_of_concurrent_orderings", 1)
		}
	case "big":
		for v := from; v < from+count; v++ {
			g := c14BigGraph(int(v))
			res.Add("graphs_big", 1)
			res.SetMax("relations_per_graph", int64(len(g.nodes)))
			ids := g.allIDs() // breadth first: parents before children
			rev := append([]osm.RelationID(nil), ids...)
			for a, b := 0, len(rev)-1; a < b; a, b = a+1, b-1 {
				rev[a], rev[b] = rev[b], rev[a]
			}
			plan := func(k int) int { return c14PlanFor(uint64(v)*29+uint64(k)) % 7 }
			lists := [][]osm.RelationID{{ids[0]}, ids, rev, {ids[0], ids[len(ids)/2], ids[1]}, {ids[1], ids[0]}}
			for li, req := range lists {
				out := x.run(&c14Scn{g: g, req: req, plan: plan(li)})
				if li == 0 {
					x.sample(g, req, c14Out{emitted: out.emitted[:min(len(out.emitted), 8)], dsCalls: out.dsCalls})
				}
			}
			x.run(&c14Scn{g: g, req: lists[0], lib: 1 + int(v)%4, plan: plan(5)})
			x.run(&c14Scn{g: g, req: ids, lib: 1 + int(v+1)%4, plan: plan(6)})
			x.run(&c14Scn{g: g, req: lists[0], stop: "close", j: 1, plan: plan(7)})
			x.run(&c14Scn{g: g, req: ids, stop: "cancel-nonext", j: 2, alsoClose: v%2 == 0, plan: plan(8)})
			x.run(&c14Scn{g: g, req: lists[0], stop: "dscancel", j: 3, alsoClose: v%2 == 1, plan: plan(9)})
			x.checkLibInputs(g)
		}
	case "deep":
		for v := from; v < from+count; v++ {
			g := c14DeepGraph(int(v))
			res.Add("graphs_deep", 1)
			res.SetMax("relations_per_graph", int64(len(g.nodes)))
			ids := g.allIDs()
			top, mid, bottom := ids[0], ids[len(ids)/2], ids[len(ids)-1]
			plan := func(k int) int { return c14PlanFor(uint64(v)*17+uint64(k)) % 7 } // no sleeping plans: hundreds of lookups per run
			for li, req := range [][]osm.RelationID{{top}, {top, bottom}, {bottom, top}, {mid, top, bottom}, {top, mid, bottom, ids[1]}} {
				out := x.run(&c14Scn{g: g, req: req, plan: plan(li)})
				if li == 0 {
					x.sample(g, req, c14Out{emitted: out.emitted[:min(len(out.emitted), 6)], dsCalls: out.dsCalls})
				}
			}
			// stops while the walker is deep inside its recursion
			req := []osm.RelationID{top, bottom}
			x.run(&c14Scn{g: g, req: req, stop: "close", j: 0, plan: plan(5)})
			x.run(&c14Scn{g: g, req: req, stop: "close", j: 1, plan: plan(6)})
			x.run(&c14Scn{g: g, req: req, stop: "cancel-nonext", j: 0, alsoClose: v%2 == 0, plan: plan(7)})
			x.run(&c14Scn{g: g, req: req, stop: "cancel", j: 2, plan: plan(8)})
			for _, k := range []int{50, 101, len(ids) - 1, len(ids) + 1} {
				x.run(&c14Scn{g: g, req: req, stop: "dscancel", j: k, alsoClose: k%2 == 0, plan: plan(k)})
			}
		}
	case "rand-full", "rand-stop":
		maxN := int(c.Int("maxn"))
		for k := from; k < from+count; k++ {
			r := gen.New(gen.Sub(c.Seed, "c14graph", int(k)), "c14g")
			g := c14RandGraph(r, maxN)
			if c.Kind == "rand-full" {
				res.Add("graphs_random", 1)
				if _, acyclic := g.scope(g.allIDs()); acyclic {
					res.Add("graphs_random_acyclic", 1)
				}
			}
			res.Put("shapes", g.shape)
			res.SetMax("relations_per_graph", int64(len(g.nodes)))
			var withHist, noHist []osm.RelationID
			for _, nd := range g.nodes {
				if nd.missing {
					noHist = append(noHist, nd.id)
				} else {
					withHist = append(withHist, nd.id)
				}
			}
			perm := func(ids []osm.RelationID) []osm.RelationID {
				out := append([]osm.RelationID(nil), ids...)
				r.Shuffle(len(out), func(i, j int) { out[i], out[j] = out[j], out[i] })
				return out
			}
			subset := func() []osm.RelationID {
				p := perm(withHist)
				p = p[:r.Range(1, len(p))]
				if len(noHist) > 0 && r.Chance(0.4) {
					p = append(p, noHist[r.Intn(len(noHist))])
				}
				if r.Chance(0.2) {
					p = append(p, osm.RelationID(r.Int64Range(1<<41, 1<<42))) // an id nobody knows
				}
				if r.Chance(0.3) {
					p = append(p, p[r.Intn(len(p))]) // named twice
				}
				return perm(p)
			}
			if c.Kind == "rand-full" {
				var lists [][]osm.RelationID
				if len(g.nodes) <= 4 {
					lists = c14OrderedSubsets(g.allIDs())
				} else {
					// node order of the generator, its reverse, random orders, random subsets;
					// every order of a small subset
					lists = append(lists, g.allIDs(), perm(g.allIDs()), perm(g.allIDs()), perm(withHist))
					rev := g.allIDs()
					for a, b := 0, len(rev)-1; a < b; a, b = a+1, b-1 {
						rev[a], rev[b] = rev[b], rev[a]
					}
					lists = append(lists, rev)
					for i := 0; i < 4; i++ {
						lists = append(lists, subset())
					}
					small := perm(withHist)
					if len(small) > 3 {
						small = small[:3]
					}
					lists = append(lists, c14OrderedSubsets(small)[1:]...)
					for i, id := range perm(withHist) {
						if i < 2 {
							lists = append(lists, []osm.RelationID{id})
						}
					}
				}
				for li, req := range lists {
					out := x.run(&c14Scn{g: g, req: req, plan: c14PlanFor(r.Uint64()), ctxAware: li%5 == 4})
					x.run(&c14Scn{g: g, req: req, lib: 1 + (li+int(k))%4, plan: c14PlanFor(r.Uint64())})
					if li == 0 {
						x.sample(g, req, out)
					}
				}
				x.checkLibInputs(g)
				continue
			}
			x.stopSweep(g, perm(g.allIDs()), r.Uint64(), 24, 0)
			x.stopSweep(g, subset(), r.Uint64(), 24, 1+int(k)%4)
			x.checkLibInputs(g)
		}
	}
	return res
}

func c14Cases(tier string, seed uint64) []fw.Case {
	var cs []fw.Case
	exh := func(n int, batch int64, variant string, layouts []int) {
		total := c14ExhCount(n)
		for _, layout := range layouts {
			for from, b := int64(0), 0; from < total; from, b = from+batch, b+1 {
				for _, kind := range []string{"exh-full", "exh-stop"} {
					if n == 4 && layout == 3 && kind == "exh-stop" {
						continue // id magnitudes matter to the walk, not to stopping it
					}
					// enumerated part: independent of VERIF_SEED
					cs = append(cs, fw.Case{Kind: kind, Variant: variant, Seed: 0,
						P: map[string]int64{"n": int64(n), "layout": int64(layout), "from": from, "count": batch, "procs": []int64{0, 2, 1, 4}[(b+layout)%4]}})
				}
			}
		}
	}
	rnd := func(graphs, batch int, variant, label string) {
		for b := 0; b*batch < graphs; b++ {
			for _, kind := range []string{"rand-full", "rand-stop"} {
				cs = append(cs, fw.Case{Kind: kind, Variant: variant, Seed: gen.Sub(seed, label, b),
					P: map[string]int64{"from": 0, "count": int64(batch), "maxn": 14, "procs": []int64{0, 1, 2, 4}[b%4]}})
			}
		}
	}
	deep := func(members, batch int, variant string) {
		for from := 0; from < members; from += batch {
			cs = append(cs, fw.Case{Kind: "deep", Variant: variant, Seed: 0,
				P: map[string]int64{"from": int64(from), "count": int64(batch), "procs": []int64{0, 2, 1, 4}[(from/batch)%4]}})
		}
	}
	multi := func(kind string, n int, total, batch int64, variant, label string) {
		for from, b := int64(0), 0; from < total; from, b = from+batch, b+1 {
			sd := uint64(0)
			if kind == "multi-rand" {
				sd = gen.Sub(seed, label, b)
				cs = append(cs, fw.Case{Kind: kind, Variant: variant, Seed: sd,
					P: map[string]int64{"from": 0, "count": batch, "maxn": 10, "procs": []int64{1, 0, 2, 4}[b%4]}})
				continue
			}
			cs = append(cs, fw.Case{Kind: kind, Variant: variant, Seed: sd,
				P: map[string]int64{"n": int64(n), "from": from, "count": batch, "procs": []int64{1, 1, 2, 0}[b%4]}})
		}
	}
	multi("multi-exh", 2, c14ExhCount(2), 25, "", "")
	multi("multi-exh", 3, c14ExhCount(3), 92, "", "")
	if tier == "thorough" {
		multi("multi-exh", 4, c14ExhCount(4), 512, "", "")
		multi("multi-rand", 0, 3000, 50, "", "c14multi")
		multi("multi-exh", 3, c14ExhCount(3), 92, "race", "")
		multi("multi-rand", 0, 1000, 50, "race", "c14multirace")
	} else {
		multi("multi-rand", 0, 150, 25, "", "c14multi")
	}
	big := func(batch int, variant string) {
		for from := 0; from < 9*3*3*2*2; from += batch {
			cs = append(cs, fw.Case{Kind: "big", Variant: variant, Seed: 0,
				P: map[string]int64{"from": int64(from), "count": int64(batch), "procs": []int64{0, 1, 2, 4}[(from/batch)%4]}})
		}
	}
	big(27, "") // 9 member counts x 3 depths x 3 id orders x 1|3 versions x branching 2|4
	if tier == "thorough" {
		big(54, "race")
	}
	deep(11*8*4, 22, "") // 11 depths x 8 closings x plain/wide ids x plain/annotated members
	all := []int{0, 1, 2, 3}
	exh(1, 8, "", all)
	exh(2, 32, "", all)
	if tier == "thorough" {
		exh(3, 256, "", all)
		exh(4, 256, "", all)
		rnd(10000, 50, "", "c14rand")
		deep(11*8, 22, "race")
		exh(2, 32, "race", []int{0})
		exh(3, 256, "race", all)
		rnd(1000, 50, "race", "c14race")
	} else {
		exh(3, 128, "", all)
		rnd(300, 25, "", "c14rand")
	}
	return fw.Number(cs)
}

func init() {
	fw.Register(&fw.Prop{
		ID:    "C14",
		Level: "exploration",
		Rule: "Enumerated part: every reference graph on n relations (ids 1..n) in which each relation either has no history or has any of the 2^n sets of relation members, self included " +
			"(n<=3 in quick: 3+25+729 graphs; n=4 added in thorough: 83 521 graphs, which contain all 65 536 digraphs with self-loops), each in four layouts (ascending, descending, one relation member per version behind a version of way/node members numbered like the relations, ascending with the ids 2^40, -7, 2^62+3, MinInt64+1 instead of 1..n), " +
			"each iterated undisturbed for every ordered selection of its ids (all subsets, all orders, plus requests naming an id twice), and swept with Close / cancel / cancel-without-further-Next after every j=0..len+1 Next calls, " +
			"cancel before creation, cancel or failure inside every datasource call, and Close / parent cancel while the walker sits in a datasource lookup that blocks until the context it was given is done. Random part: PRNG graphs of 1..14 relations with histories (+<=3 ids without), 12 shapes (DAGs, chain, tree, island cycle, sparse/dense cyclic, ring, self-loops, complete), " +
			"ids small, medium, up to 2^40 or of mixed magnitude within one graph (small, >2^31, >2^32, 2^40-1, 2^40, 2^40+k, 2^62+k, negative small and large, MinInt64+1; never 0), 1-4 versions with different members, node/way members whose refs equal relation ids, refs to relations without history; request lists: all / reversed / random orders, random subsets with unknown, history-less and repeated ids, every order of a 3-subset. " +
			"Deep family (seed-independent): 352 chains of depth 99..300 (straddling the library's preallocated path capacity of 100), acyclic or closed at the bottom by a reference back to depth 0, 1, d-1, d-2, d/2, d-100 or by a 3-ring, plain / 2^40-straddling ids, plain / annotated members, with stops deep inside the recursion. " +
			"Relation members carry annotation fields (Version, ChangesetID, Orientation, Lat/Lon, Role) in enumerated layout 1 and in 40% of the random graphs. " +
			"Datasource dimension: besides the harness' own datasource, library-built osm.HistoryDatasources from an OSM value (versions grouped / interleaved) and from a Change value (versions spread over create/modify/delete, grouped / interleaved) for the multi-version enumerated layout, the random graphs and their stop sweeps; findings there carry the class suffix -libds; the input value must be unchanged afterwards. " +
			"Big-relation family (seed-independent): 324 nested hierarchies (2-4 levels, branching 2|4, shared children) whose inner relations carry 100,127,128,129,200,255,256,257 or 400 members over 1|3 versions, mostly way/node members with the few relation members at arbitrary positions and in arbitrary id order, three id assignments. " +
			"Relation versions carry tags (type=multipolygon / boundary / route / site / empty / none, other tags) in layouts 1 and 2, 60% of the random graphs and the annotated deep chains. " +
			"Concurrent orderings: enumerated graphs stalled inside each of their lookups while other enumerated graphs on the same ids run to completion, and groups of 2-4 random graphs with ids 1..40, interleaved deterministically through gated datasources (nest / round-robin) or free-running; each judged against its own graph, classes suffixed -concurrent. " +
			"Schedule perturbation (Gosched / spinning / 30us sleeps in the datasource or the consumer, GOMAXPROCS 1,2,4,default) never feeds a verdict. " +
			"One evaluation = one iteration (scenario). A signature is (stop kind, acyclic-with-pairs | flat | cyclic as seen from the requests, size classes of scope / request list / emitted sequence, repeated or history-less ids requested, enumerated or random graph); " +
			"it is listed once per case, so the histogram counts cases, not scenarios; iterations whose requests name no relation with a history are trivial.",
		Assumptions: []string{
			"the child-before-parent clause is asserted whenever the sub-graph reachable from the requested ids is acyclic, even if the rest of the graph has cycles: the library learns the graph only through the datasource and only by following references, so it cannot distinguish that graph from its acyclic restriction",
			"a reachable relation counts only if it has a history and is reached through relations that have one (a relation without history has no known members)",
			"a relation 'has a history' when the datasource returns at least one version; an empty history with a nil error is not generated",
			"emitting an unrequested relation is not asserted either way (only: no id without history, no duplicates)",
			"after Close or cancellation Next may deliver ids that were already in flight; only 'Next returns false within a bounded number of calls' and 'the goroutine ends' are asserted, the count of late ids is recorded",
			"non-termination by endless walking is decided by a logical budget: more than 30 000 history lookups in one iteration over a graph of at most 4 relations with history and 16 relation-typed member slots, which is 20 times what any walk that cuts cycles on its own path can need, or more than 50*(relations+2) lookups over a graph in which no relation has more than one relation member slot (a walk follows one chain and must stop when it repeats) (bigger graphs: 60 000, inconclusive only, because re-walking cut relations can legitimately need many lookups on dense cyclic graphs); the rest of such a case is skipped",
			"a datasource that fails with another error than NotFound is outside the property: those runs must still end and Close must return, and the emitted prefix must satisfy the sequence oracles, nothing else",
			"Err() and CompletedIndex are read but never asserted; race reports are informational (RaceIsViolation=false); the one seen on the unchanged library is Next (order.go:88) reading o.err while the walker stores it (order.go:63) when a walk is cut short by cancellation or a datasource error",
			"a crash of a case is a violation because the only expected crash causes are the runtime's own deadlock report (only possible where the in-process state check does not apply) and a stack overflow from an unbounded walk",
		},
		Cases:   c14Cases,
		Exec:    c14Exec,
		Workers: 16,
		// Backstop only: "never ends" is decided in-process from goroutine states (see run). On
		// an overloaded machine the watchdog has fired on cases that were merely slow, and its
		// dump classification took the harness' own runtime.Stack (semacquire) for "blocked";
		// a watchdog hit is therefore inconclusive for C14, never a violation.
		HangSeconds:      300,
		HangIsViolation:  false,
		CrashIsViolation: true,
		RaceIsViolation:  false,
		Exhaustive:       func(tier string) bool { return true },
		Post: func(tier string, agg *fw.Agg) {
			n := 3
			if tier == "thorough" {
				n = 4
			}
			var total int64
			for i := 1; i <= n; i++ {
				total += c14ExhCount(i)
			}
			agg.Extra["enumerated_graphs_per_layout"] = total
			agg.Extra["enumerated_max_relations"] = n
		},
	})
}
