package props

import (
	"context"
	"errors"
	"fmt"
	"io"
	"strings"
	"sync"
	"sync/atomic"
	"time"

	"github.com/anishathalye/porcupine"
	"github.com/paulmach/osm"
	"github.com/paulmach/osm/osmpbf"
	"github.com/paulmach/osm/osmxml"

	"verif/internal/fw"
	"verif/internal/gen"
	"verif/internal/mon"
	"verif/internal/pbfw"
)

// C07 — Close and cancellation stop PBF/XML scans promptly, cleanly and race-free.
//
// Oracles:
//  (a) linearizability (porcupine) of the recorded call history {Header, Scan, Err, Close}
//      of the scanning goroutine plus {Cancel} of a concurrent canceller against a small
//      sequential scanner model;
//  (b) counting reader: bytes consumed at the moment Close is invoked / returns / after
//      quiescence; endless reader with a logical byte budget;
//  (c) goroutine dump filtered to osmpbf frames after the stop;
//  (d) race detector (race variant), canceller independent of the consumer.

// ---- history recording -------------------------------------------------------------------

type c07In struct {
	Kind   string // header | scan | err | close | cancel
	Faulty bool   // the reader of this history injects an I/O error
	N      int    // number of objects in the input
	// FaultCtx: the injected I/O error is itself context.Canceled / DeadlineExceeded (a
	// body bound to its own request context) while the scanner's context is live: it is the
	// recorded error and stays it, also after Close
	FaultCtx bool
}

type c07Out struct {
	OK  bool   // scan result
	Obj int    // index of the delivered object in the expected sequence (-1 unknown)
	Err string // error class for err: nil | closed | ctx | injected | other
}

type c07Hist struct {
	clock atomic.Int64
	mu    sync.Mutex
	ops   []porcupine.Operation
}

func (h *c07Hist) do(client int, in c07In, f func() c07Out) c07Out {
	call := h.clock.Add(1)
	out := f()
	ret := h.clock.Add(1)
	h.mu.Lock()
	h.ops = append(h.ops, porcupine.Operation{ClientId: client, Input: in, Call: call, Output: out, Return: ret})
	h.mu.Unlock()
	return out
}

func c07ErrClass(err error) string {
	switch {
	case err == nil:
		return "nil"
	case errors.Is(err, osm.ErrScannerClosed):
		return "closed"
	case errors.Is(err, context.Canceled), errors.Is(err, context.DeadlineExceeded):
		return "ctx"
	case errors.Is(err, errInjected):
		return "injected"
	}
	return "other:" + err.Error()
}

type c07State struct {
	pos                           int
	closed, cancelled, done, fail bool
}

var c07Model = porcupine.Model{
	Init: func() interface{} { return c07State{} },
	Step: func(state, input, output interface{}) (bool, interface{}) {
		s := state.(c07State)
		in := input.(c07In)
		out := output.(c07Out)
		switch in.Kind {
		case "scan":
			if out.OK {
				if s.closed || s.cancelled || s.done || s.fail || s.pos >= in.N || out.Obj != s.pos {
					return false, s
				}
				s.pos++
				return true, s
			}
			switch {
			case s.closed || s.cancelled || s.done || s.fail:
				return true, s
			case s.pos == in.N:
				s.done = true
				return true, s
			case in.Faulty:
				s.fail = true
				return true, s
			}
			return false, s // stopped early without any reason
		case "err":
			ok := false
			switch {
			case s.fail && in.FaultCtx:
				ok = out.Err == "ctx"
			case s.fail:
				// the recorded error: the injected one, possibly wrapped beyond errors.Is
				ok = out.Err == "injected" || strings.HasPrefix(out.Err, "other:")
			default:
				if s.done && out.Err == "nil" {
					ok = true
				}
				// A reader that fails where the stream would have ended anyway (a library that
				// reads ahead in large pieces meets the injected failure in place of io.EOF):
				// all objects were delivered, and reporting that failure is as right as nil.
				if s.done && in.Faulty && (out.Err == "injected" || strings.HasPrefix(out.Err, "other:") || (in.FaultCtx && out.Err == "ctx")) {
					ok = true
				}
				if s.closed && out.Err == "closed" {
					ok = true
				}
				if s.cancelled && out.Err == "ctx" {
					ok = true
				}
				if !s.done && !s.closed && !s.cancelled && out.Err == "nil" {
					ok = true
				}
			}
			return ok, s
		case "close":
			s.closed = true
			return true, s
		case "cancel":
			s.cancelled = true
			return true, s
		case "header":
			return true, s
		}
		return false, s
	},
	DescribeOperation: func(input, output interface{}) string {
		in, out := input.(c07In), output.(c07Out)
		switch in.Kind {
		case "scan":
			if out.OK {
				return fmt.Sprintf("Scan()=true #%d", out.Obj)
			}
			return "Scan()=false"
		case "err":
			return "Err()=" + out.Err
		}
		return in.Kind
	},
}

func c07Describe(ops []porcupine.Operation) string {
	var sb strings.Builder
	for i, op := range ops {
		if i > 0 {
			sb.WriteString("; ")
		}
		fmt.Fprintf(&sb, "c%d[%d,%d] %s", op.ClientId, op.Call, op.Return, c07Model.DescribeOperation(op.Input, op.Output))
	}
	return sb.String()
}

// c07Compact drops the bulk of successful scans from a description.
func c07Compact(ops []porcupine.Operation) string {
	var sb strings.Builder
	run := 0
	flush := func() {
		if run > 0 {
			fmt.Fprintf(&sb, "Scan=true×%d; ", run)
			run = 0
		}
	}
	for _, op := range ops {
		in, out := op.Input.(c07In), op.Output.(c07Out)
		if in.Kind == "scan" && out.OK {
			run++
			continue
		}
		flush()
		fmt.Fprintf(&sb, "c%d %s; ", op.ClientId, c07Model.DescribeOperation(op.Input, op.Output))
	}
	flush()
	return sb.String()
}

// ---- scenario -----------------------------------------------------------------------------

type c07Scanner interface {
	Scan() bool
	Object() osm.Object
	Err() error
	Close() error
}

type c07Scenario struct {
	target     string // pbf | xml
	procs      int
	k          int    // stop after k successful scans (or at end of input, whichever first)
	stop       string // close | cancel-self | cancel-flag | cancel-reader | cancel-timer | none
	post       string // letters: S scan, E err, C close
	header     bool
	faultAt    int64 // inject I/O error at this Read call (0 = none)
	faultKind  int   // which error the reader fails with
	slowCons   bool
	slowReader bool // the reader sleeps at every block start (Close/cancel meet it inside Read)
	// foreign: the parent context is not one of package context's own types, so every
	// context derived from it costs a watcher goroutine until it is released
	foreign bool
	// errEach: the consumer asks Err() after every Scan (a read-only accessor: it must answer
	// nil while the scan is under way and must not influence it)
	errEach bool
	// cause: the context is cancelled with a cause (context.WithCancelCause); Err must still
	// report the context's error, not the cause
	cause bool
	// filters: always-true filter callbacks are installed, so the decoders' filter path runs
	filters bool
	// nilCtx: the scanner is constructed with a nil context (Close / run-to-the-end stops)
	nilCtx bool
}

// c07CloseMark records the moment a Close of a started scanner has returned. A Close before
// the first Header/Scan finds no goroutines; a later Scan starts (and by itself ends) the
// pipeline, and what that pipeline calls is not a goroutine that outlived Close. The mark is
// therefore set only by a Close that had a pipeline to wait for.
type c07CloseMark struct {
	c07Scanner
	started  atomic.Bool
	returned *atomic.Bool
}

func (m *c07CloseMark) Scan() bool {
	m.started.Store(true)
	return m.c07Scanner.Scan()
}

func (m *c07CloseMark) Close() error {
	was := m.started.Load()
	err := m.c07Scanner.Close()
	if was {
		m.returned.Store(true)
	}
	return err
}

// c07ForeignCtx is a cancellable context implemented outside package context.
type c07ForeignCtx struct {
	context.Context
	done chan struct{}
	mu   sync.Mutex
	err  error
}

func (c *c07ForeignCtx) Done() <-chan struct{} { return c.done }
func (c *c07ForeignCtx) Err() error {
	c.mu.Lock()
	defer c.mu.Unlock()
	return c.err
}
func (c *c07ForeignCtx) cancel() {
	c.mu.Lock()
	defer c.mu.Unlock()
	if c.err == nil {
		c.err = context.Canceled
		close(c.done)
	}
}

const c07CtxWatcher = "context.(*cancelCtx).propagateCancel"

// c07XMLDoc writes n objects; with filler > 0 a run of that many bytes of object-less tokens
// (unknown elements, comments) is placed after object fillerAfter, and its offsets returned.
func c07XMLDoc(r *gen.R, n int, filler int, fillerAfter int) ([]byte, []c08Key, int64, int64) {
	var sb strings.Builder
	var keys []c08Key
	var fillFrom, fillTo int64
	sb.WriteString(`<?xml version="1.0" encoding="UTF-8"?>` + "\n" + `<osm version="0.6" generator="verif">` + "\n")
	for i := 0; i < n; i++ {
		if filler > 0 && i == fillerAfter {
			fillFrom = int64(sb.Len())
			for sb.Len()-int(fillFrom) < filler {
				fmt.Fprintf(&sb, ` <!-- filler %d --><meta osm_base="x%d"/><remark>text %d</remark>`+"\n", sb.Len(), i, sb.Len())
			}
			fillTo = int64(sb.Len())
		}
		id := int64(i + 1)
		switch r.Intn(3) {
		case 0:
			fmt.Fprintf(&sb, ` <node id="%d" lat="%.7f" lon="%.7f" version="%d" visible="true"><tag k="name" v="n%d"/></node>`+"\n", id, r.Coord(80), r.Coord(170), r.Range(1, 9), i)
			keys = append(keys, c08Key{osm.TypeNode, id})
		case 1:
			fmt.Fprintf(&sb, ` <way id="%d" version="%d" visible="true"><nd ref="%d"/><nd ref="%d"/><tag k="highway" v="x%d"/></way>`+"\n", id, r.Range(1, 9), id+1, id+2, i)
			keys = append(keys, c08Key{osm.TypeWay, id})
		default:
			fmt.Fprintf(&sb, ` <relation id="%d" version="%d" visible="true"><member type="way" ref="%d" role="outer"/></relation>`+"\n", id, r.Range(1, 9), id+7)
			keys = append(keys, c08Key{osm.TypeRelation, id})
		}
	}
	sb.WriteString("</osm>\n")
	return []byte(sb.String()), keys, fillFrom, fillTo
}

type c07Input struct {
	data   []byte
	keys   []c08Key // expected object identities in order
	lay    *pbfw.Layout
	blocks int
	// XML: a run of object-less tokens [fillFrom, fillTo) in the document
	fillFrom, fillTo int64
}

func c07MakeInput(seed uint64, target string, size string) c07Input {
	r := gen.New(seed, "c07input"+target+strings.TrimSuffix(size, "-nohdr"))
	if target == "xml" {
		n, filler := 25, 0
		switch size {
		case "big":
			n = 6000
		case "filler":
			n, filler = 400, 600_000
		}
		data, keys, ff, ft := c07XMLDoc(r, n, filler, n/4)
		return c07Input{data: data, keys: keys, fillFrom: ff, fillTo: ft}
	}
	o := pbfw.GenOpts{MinBlocks: 6, MaxBlocks: 6, MaxGroups: 1, MaxElems: 5, SmallStrings: true}
	if strings.HasPrefix(size, "big") {
		o = pbfw.GenOpts{MinBlocks: 1000, MaxBlocks: 1000, MaxGroups: 1, MaxElems: 2, SmallStrings: true}
	}
	f := pbfw.GenFile(r, o)
	if strings.HasSuffix(size, "-nohdr") {
		f.Header = nil // a resumed stream: the first block is a data block
	}
	data, lay := f.Encode(nil)
	var keys []c08Key
	for _, e := range f.ExpectAll() {
		keys = append(keys, c08KeyOf(e.Obj))
	}
	return c07Input{data: data, keys: keys, lay: lay, blocks: len(f.Blocks)}
}

const c07Lib = "github.com/paulmach/osm/osmpbf"

// c07Run executes one scenario and applies oracles (a), (b), (c).
func c07Run(res *fw.Result, in c07Input, sc c07Scenario, key string) {
	hist := &c07Hist{}
	rd := mon.NewReader(in.data)
	if sc.faultAt > 0 {
		// flavours of the reader's failure: a plain error; one that wraps io.EOF (a lost
		// connection: only the bare io.EOF value is the end of the stream); context.Canceled or
		// DeadlineExceeded themselves (a body bound to its own request context)
		rd.FailAt, rd.FailErr = sc.faultAt, []error{errInjected, errInjectedEOF, context.Canceled, context.DeadlineExceeded}[sc.faultKind%4]
	}
	ctx, cancel := context.WithCancel(context.Background())
	if sc.cause {
		cctx, ccancel := context.WithCancelCause(context.Background())
		ctx, cancel = cctx, func() { ccancel(errors.New("verif: service is shutting down")) }
	}
	if sc.foreign {
		fc := &c07ForeignCtx{Context: context.Background(), done: make(chan struct{})}
		ctx, cancel = fc, fc.cancel
	}
	if sc.nilCtx {
		ctx = nil // both constructors document a nil context as context.Background()
	}
	defer cancel()
	index := map[c08Key]int{}
	for i, k := range in.keys {
		index[k] = i
	}
	N := len(in.keys)
	mk := func(kind string) c07In {
		return c07In{Kind: kind, Faulty: sc.faultAt > 0, N: N, FaultCtx: sc.faultAt > 0 && sc.faultKind%4 >= 2}
	}

	// the canceller is started before the scanner so that nothing the consumer does is
	// ordered before it; it is released by a trigger that does not involve the consumer
	// except for the explicitly ordered "cancel-flag" kind.
	var bytesAtCancel atomic.Int64
	bytesAtCancel.Store(-1)
	trigger := make(chan struct{})
	var once sync.Once
	fire := func() { once.Do(func() { close(trigger) }) }
	cancelDone := make(chan struct{})
	concurrentCancel := sc.stop == "cancel-flag" || sc.stop == "cancel-reader" || sc.stop == "cancel-timer"
	if concurrentCancel {
		go func() {
			defer close(cancelDone)
			<-trigger
			hist.do(1, mk("cancel"), func() c07Out { cancel(); return c07Out{} })
			bytesAtCancel.Store(rd.Bytes())
		}()
	} else {
		close(cancelDone)
	}
	if sc.stop == "cancel-reader" && in.lay != nil {
		// cancel from inside the reader goroutine's Read when block k starts being served
		blk := sc.k
		if blk >= len(in.lay.Start) {
			blk = len(in.lay.Start) - 1
		}
		at := in.lay.Start[blk]
		rd.OnRead = func(off int64, n int) {
			if off <= at && at < off+int64(n) {
				fire()
			}
		}
	}
	if sc.stop == "cancel-reader" && in.lay == nil && in.fillTo > in.fillFrom {
		// XML: cancel while a Scan is in the middle of a long run of object-less tokens
		at := in.fillFrom + (in.fillTo-in.fillFrom)/8
		rd.OnRead = func(off int64, n int) {
			if off <= at && at < off+int64(n) {
				fire()
			}
		}
	}
	if sc.slowReader && in.lay != nil {
		rd.DelayAt = map[int64]time.Duration{}
		for _, st := range in.lay.Start {
			rd.DelayAt[st] = 800 * time.Microsecond
		}
	}
	if sc.stop == "cancel-timer" {
		d := time.Duration(200+sc.k*150) * time.Microsecond
		time.AfterFunc(d, fire)
	}

	var s c07Scanner
	var ps *osmpbf.Scanner
	var closeReturned atomic.Bool
	var closeMark *c07CloseMark
	var filterCalls, filterAfterClose atomic.Int64
	if sc.target == "pbf" {
		ps = osmpbf.New(ctx, rd, sc.procs)
		if sc.filters {
			// always-true callbacks, every seventh call slow: a decoder can be inside one when
			// the stop arrives. Once Close has returned no callback may start any more.
			onFilter := func() bool {
				if closeReturned.Load() {
					filterAfterClose.Add(1)
				}
				if filterCalls.Add(1)%7 == 0 {
					time.Sleep(200 * time.Microsecond)
				}
				return true
			}
			ps.FilterNode = func(*osm.Node) bool { return onFilter() }
			ps.FilterWay = func(*osm.Way) bool { return onFilter() }
			ps.FilterRelation = func(*osm.Relation) bool { return onFilter() }
		}
		closeMark = &c07CloseMark{c07Scanner: ps, returned: &closeReturned}
		s = closeMark
	} else {
		s = osmxml.New(ctx, rd)
	}
	if sc.header && ps != nil {
		closeMark.started.Store(true)
		hist.do(0, mk("header"), func() c07Out { ps.Header(); return c07Out{} })
	}
	scan := func() c07Out {
		return hist.do(0, mk("scan"), func() c07Out {
			ok := s.Scan()
			o := c07Out{OK: ok, Obj: -1}
			if ok {
				if i, found := index[c08KeyOf(s.Object())]; found {
					o.Obj = i
				}
			}
			return o
		})
	}
	delivered := 0
	for delivered < sc.k {
		if !scan().OK {
			break
		}
		delivered++
		if sc.errEach {
			hist.do(0, mk("err"), func() c07Out { return c07Out{Err: c07ErrClass(s.Err())} })
		}
		if sc.slowCons {
			time.Sleep(300 * time.Microsecond)
		}
	}
	var r0, r1 int64
	stopped := false
	switch sc.stop {
	case "close":
		r0 = rd.Bytes()
		hist.do(0, mk("close"), func() c07Out { s.Close(); return c07Out{} })
		r1 = rd.Bytes()
		stopped = true
		if sc.target == "pbf" && sc.faultAt == 0 {
			c07AtRest(res, key, rd)
		}
	case "cancel-self":
		r0 = rd.Bytes()
		hist.do(0, mk("cancel"), func() c07Out { cancel(); return c07Out{} })
		r1 = rd.Bytes()
		stopped = true
	case "cancel-close":
		// cancel and Close back to back: Close must still wait for the pipeline
		r0 = rd.Bytes()
		hist.do(0, mk("cancel"), func() c07Out { cancel(); return c07Out{} })
		hist.do(0, mk("close"), func() c07Out { s.Close(); return c07Out{} })
		r1 = rd.Bytes()
		if sc.target == "pbf" && sc.faultAt == 0 {
			c07AtRest(res, key, rd)
			if left := mon.LibGoroutines(c07Lib); len(left) > 0 {
				if left = mon.WaitNoLibGoroutines(c07Lib, 20); len(left) > 0 {
					res.Violate(key+"/goroutines-after-close", fmt.Sprintf("%d osmpbf goroutines alive after cancel+Close returned", len(left)), left)
				}
			}
		}
	case "cancel-flag":
		r0 = rd.Bytes()
		fire()
	case "cancel-reader", "cancel-timer":
		// keep consuming until the scanner stops on its own
		for scan().OK {
			if sc.slowCons {
				time.Sleep(300 * time.Microsecond)
			}
		}
		fire() // in case the trigger point was never reached (input exhausted first)
	}
	if concurrentCancel && sc.stop == "cancel-flag" {
		// overlap the cancel with further scans
		for i := 0; i < 3; i++ {
			if !scan().OK {
				break
			}
		}
	}
	<-cancelDone
	if concurrentCancel && sc.faultAt == 0 {
		// bytes pulled after the concurrent cancel had returned, until the scanner stopped
		if sc.target == "pbf" {
			mon.WaitNoLibGoroutines(c07Lib, 400)
		}
		if at := bytesAtCancel.Load(); at >= 0 {
			remainder := int64(len(in.data)) - at
			after := rd.Bytes() - at
			if remainder >= 100_000 {
				if after > remainder/4 {
					res.Violate(key+"/reads-rest-of-input", fmt.Sprintf("cancel by %s: %d of the remaining %d bytes were still consumed after the cancellation had returned (allowance %d)", sc.stop, after, remainder, remainder/4),
						map[string]any{"bytes_at_cancel": at, "bytes_after": rd.Bytes(), "input_bytes": len(in.data)})
				}
				res.SetMax("readahead_after_stop_permille", after*1000/remainder)
			}
		}
	}

	// (b) nothing reads in the background once the stop call has returned
	if stopped && sc.target == "pbf" && sc.faultAt == 0 {
		if sc.stop == "close" {
			// Close waits for the pipeline: the byte count is final at its return
			time.Sleep(2 * time.Millisecond)
			if r2 := rd.Bytes(); r2 != r1 {
				res.Violatef(key+"/reads-after-close-returned", "%d bytes were pulled from the reader after Close had returned (procs=%d, k=%d)", r2-r1, sc.procs, sc.k)
			}
		} else {
			left := mon.WaitNoLibGoroutines(c07Lib, 400)
			_ = left
			r1 = rd.Bytes()
		}
		remainder := int64(len(in.data)) - r0
		if in.blocks >= 200 && remainder > 0 {
			allow := remainder / 4
			if r1-r0 > allow {
				res.Violate(key+"/reads-rest-of-input", fmt.Sprintf("stop by %s after %d objects with %d decoders: %d of the remaining %d bytes were still consumed (allowance %d)", sc.stop, delivered, sc.procs, r1-r0, remainder, allow),
					map[string]any{"bytes_at_stop": r0, "bytes_after": r1, "file_bytes": len(in.data), "blocks": in.blocks})
			}
			res.SetMax("readahead_after_stop_permille", (r1-r0)*1000/remainder)
		}
	}
	if stopped && sc.target == "xml" {
		calls := rd.Calls()
		// a later Scan must not read either
		c07Post(hist, s, "SS", mk, scan)
		if rd.Calls() != calls {
			res.Violatef(key+"/xml-reads-after-stop", "the XML scanner issued %d Read calls after %s", rd.Calls()-calls, sc.stop)
		}
	}

	// (c) goroutines
	if sc.target == "pbf" {
		switch {
		case sc.stop == "close":
			if left := mon.LibGoroutines(c07Lib); len(left) > 0 {
				left = mon.WaitNoLibGoroutines(c07Lib, 50)
				if len(left) > 0 {
					res.Violate(key+"/goroutines-after-close", fmt.Sprintf("%d osmpbf goroutines alive after Close returned", len(left)), left)
				}
			}
			res.Add("goroutine_dumps_inspected", 1)
		case sc.stop != "none":
			left := mon.WaitNoLibGoroutines(c07Lib, 600)
			if len(left) > 0 {
				blocked := true
				for _, g := range left {
					if !mon.Blocked(mon.GoroutineState(g)) {
						blocked = false
					}
				}
				if blocked {
					res.Violate(key+"/goroutine-leak-after-cancel", fmt.Sprintf("%d osmpbf goroutines are blocked for good after cancellation (no Close)", len(left)), left)
				} else {
					res.Inconc("osmpbf goroutines still runnable at the end of the poll budget after cancel")
				}
			}
			res.Add("goroutine_dumps_inspected", 1)
		}
	}

	// post operations
	if sc.target == "pbf" && sc.faultAt == 0 {
		c07PostChecked(res, key, rd, hist, s, sc.post, mk, scan)
	} else {
		c07Post(hist, s, sc.post, mk, scan)
	}
	// always leave the process clean for the next case
	s.Close()
	if sc.filters && sc.target == "pbf" {
		// give a decoder that outlived Close the chance to show itself
		if filterAfterClose.Load() == 0 {
			time.Sleep(500 * time.Microsecond)
		}
		if n := filterAfterClose.Load(); n > 0 {
			res.Violatef(key+"/filter-called-after-close-returned", "%d filter callbacks started after Close had returned (stop=%s, k=%d, %d decoders): a decoder goroutine outlived Close", n, sc.stop, sc.k, sc.procs)
		}
		res.Add("filter_calls_observed", filterCalls.Load())
	}
	if sc.foreign {
		// Close has been called and the parent is possibly still live: whatever the scanner
		// derived from the parent context must have been released
		if left := mon.WaitNoLibGoroutines(c07CtxWatcher, 600); len(left) > 0 {
			res.Violate(key+"/context-watcher-after-close", fmt.Sprintf("%d goroutine(s) watching the parent context on behalf of the scanner are still alive after Close (parent context implemented outside package context, stop=%s, k=%d)", len(left), sc.stop, sc.k), left)
		}
		res.Add("foreign_context_runs", 1)
	}
	if sc.target == "pbf" {
		if left := mon.WaitNoLibGoroutines(c07Lib, 600); len(left) > 0 {
			res.Violate(key+"/goroutines-after-final-close", fmt.Sprintf("%d osmpbf goroutines alive after the final Close", len(left)), left)
		}
	}

	// (a) linearizability of the history
	hist.mu.Lock()
	ops := append([]porcupine.Operation(nil), hist.ops...)
	hist.mu.Unlock()
	res.Event(int64(len(ops)))
	result, _ := porcupine.CheckOperationsVerbose(c07Model, ops, 20*time.Second)
	switch result {
	case porcupine.Illegal:
		res.Violate(key+"/history", "call history is not linearizable against the scanner model: "+c07Compact(ops),
			map[string]any{"history": c07Describe(tail(ops, 40)), "objects_in_input": N})
	case porcupine.Unknown:
		res.Inconc("linearizability checker timed out")
	}
	res.Add("histories_checked", 1)
	res.Add("history_ops", int64(len(ops)))
}

func tail(ops []porcupine.Operation, n int) []porcupine.Operation {
	if len(ops) > n {
		return ops[len(ops)-n:]
	}
	return ops
}

func c07Post(hist *c07Hist, s c07Scanner, post string, mk func(string) c07In, scan func() c07Out) {
	c07PostChecked(nil, "", nil, hist, s, post, mk, scan)
}

// c07PostChecked runs the post operations; after every Close of a PBF scanner it checks that
// the pipeline really is at rest: nobody is inside the user's Read and no further Read follows.
func c07PostChecked(res *fw.Result, key string, rd *mon.Reader, hist *c07Hist, s c07Scanner, post string, mk func(string) c07In, scan func() c07Out) {
	for _, ch := range post {
		switch ch {
		case 'S':
			scan()
		case 'E':
			hist.do(0, mk("err"), func() c07Out { return c07Out{Err: c07ErrClass(s.Err())} })
		case 'C':
			hist.do(0, mk("close"), func() c07Out { s.Close(); return c07Out{} })
			if res != nil && rd != nil {
				c07AtRest(res, key, rd)
			}
		}
	}
}

// c07AtRest: Close has just returned.
func c07AtRest(res *fw.Result, key string, rd *mon.Reader) {
	if rd.InRead() {
		res.Violatef(key+"/close-returned-during-read", "Close returned while a scanner goroutine is still inside the input reader's Read")
	}
	calls := rd.Calls()
	time.Sleep(1500 * time.Microsecond)
	if n := rd.Calls() - calls; n > 0 {
		res.Violatef(key+"/reads-after-close-returned", "%d Read calls were issued after Close had returned", n)
	}
	res.Add("close_at_rest_checks", 1)
}

// c07Endless: Close / cancel on an endless stream must let the scenario finish without
// draining the (unbounded) rest of the input: the reader refuses to serve more than its
// logical budget after the stop was invoked.
func c07Endless(res *fw.Result, c fw.Case) {
	r := gen.New(c.Seed, "c07endless")
	// dense groups always hold at least one node, so the endless stream never degenerates
	// into an endless run of empty blocks (on which a Scan legitimately never returns)
	f := pbfw.GenFile(r, pbfw.GenOpts{MinBlocks: 3, MaxBlocks: 3, MaxGroups: 1, MaxElems: 4, SmallStrings: true, OnlyKinds: []int{pbfw.KDense}})
	data, lay := f.Encode(nil)
	prefix := data[:lay.Start[1]]
	block := data[lay.Start[1]:lay.End[1]]
	budget := int64(len(block)) * 400
	e := &mon.Endless{Prefix: prefix, Block: block, Budget: budget}
	ctx, cancel := context.WithCancel(context.Background())
	defer cancel()
	procs := int(c.Int("procs"))
	s := osmpbf.New(ctx, e, procs)
	k := int(c.Int("k"))
	for i := 0; i < k && s.Scan(); i++ {
	}
	stop := c.Str("stop")
	key := fmt.Sprintf("C07/pbf/endless/%s", stop)
	e.Mark()
	if stop == "close" {
		s.Close()
	} else {
		cancel()
		mon.WaitNoLibGoroutines(c07Lib, 800)
	}
	served := e.SinceMark()
	if e.Exceeded() {
		res.Violatef(key+"/keeps-reading", "after %s on an endless stream (%d decoders, %d objects consumed) the scanner kept pulling input: more than the budget of %d bytes (400 blocks) after the stop was invoked", stop, procs, k, budget)
	}
	for i := 0; i < 2; i++ {
		if s.Scan() {
			res.Violatef(key+"/scan-true-after-stop", "Scan returned true after %s", stop)
		}
	}
	cl := c07ErrClass(s.Err())
	if (stop == "close" && cl != "closed") || (stop != "close" && cl != "ctx") {
		if !(e.Exceeded() && cl == "other:"+mon.ErrBudget.Error()) {
			res.Violatef(key+"/err", "Err() after %s on an endless stream is %s", stop, cl)
		}
	}
	s.Close()
	if left := mon.WaitNoLibGoroutines(c07Lib, 600); len(left) > 0 {
		res.Violate(key+"/goroutines", fmt.Sprintf("%d osmpbf goroutines alive after Close on an endless stream", len(left)), left)
	}
	res.SetMax("endless_bytes_after_stop", served)
	res.Event(1)
	res.Eval(fmt.Sprintf("endless/%s/procs%d", stop, procs))
	res.Sample = map[string]any{"stop": stop, "procs": procs, "k": k, "bytes_served_after_stop": served, "budget": budget}
}

// c07BadStart: the first block is rejected (unsupported required feature, corrupt header
// blob, truncated header): the error is reported, every later Scan is false, and Close still
// returns and leaves no goroutine behind.
func c07BadStart(res *fw.Result, c fw.Case) {
	r := gen.New(c.Seed, "c07badstart")
	f := pbfw.GenFile(r, pbfw.GenOpts{MinBlocks: 3, MaxBlocks: 3, MaxGroups: 1, MaxElems: 4, SmallStrings: true})
	dmgKind := c.Str("damage")
	data, lay := f.Encode(map[int]pbfw.Damage{-1: {Kind: dmgKind}})
	if dmgKind == "cut-header" {
		data, _ = f.Encode(nil)
		data = data[:lay.HeaderEnd/2]
	}
	key := "C07/pbf/badstart/" + dmgKind
	s := osmpbf.New(context.Background(), mon.NewReader(data), int(c.Int("procs")))
	if c.Int("header") == 1 {
		if _, err := s.Header(); err == nil {
			res.Violatef(key+"/header-no-error", "Header() reported no error for a rejected first block")
		}
	}
	for i := 0; i < 2; i++ {
		if s.Scan() {
			res.Violatef(key+"/scan-true", "Scan returned true although the first block was rejected")
		}
	}
	e1 := s.Err()
	if e1 == nil {
		res.Violatef(key+"/err-nil", "Err() is nil after the first block was rejected")
	}
	done := make(chan struct{})
	go func() { s.Close(); close(done) }()
	<-done // a Close that never returns is reported by the supervisor's watchdog as a hang
	if e2 := s.Err(); e1 != nil && (e2 == nil || c07ErrClass(e2) == "closed") {
		res.Violatef(key+"/err-after-close", "the error recorded before Close (%v) is no longer reported after it: %v", e1, e2)
	}
	s.Close()
	if left := mon.WaitNoLibGoroutines(c07Lib, 300); len(left) > 0 {
		res.Violate(key+"/goroutines", fmt.Sprintf("%d osmpbf goroutines alive after Close", len(left)), left)
	}
	res.Event(4)
	res.Eval(fmt.Sprintf("badstart/%s/procs%d/h%d", dmgKind, c.Int("procs"), c.Int("header")))
	res.Sample = map[string]any{"damage": dmgKind, "procs": c.Int("procs"), "header_called": c.Int("header"), "err": fmt.Sprint(e1)}
}

func c07Exec(c fw.Case) *fw.Result {
	res := fw.NewResult()
	if c.Kind == "endless" {
		c07Endless(res, c)
		return res
	}
	if c.Kind == "badstart" {
		c07BadStart(res, c)
		return res
	}
	target := c.Str("target")
	in := c07MakeInput(c.Seed, target, c.Str("size"))
	sc := c07Scenario{target: target, procs: int(c.Int("procs")), stop: c.Str("stop"), post: c.Str("post"),
		header: c.Int("header") == 1, faultAt: c.Int("fault"), faultKind: int(c.Int("faultkind")), slowCons: c.Int("slow") == 1, slowReader: c.Int("slowreader") == 1}
	N := len(in.keys)
	ks := []int{int(c.Int("k"))}
	if c.Int("allk") == 1 {
		ks = ks[:0]
		for k := 0; k <= N+1; k++ {
			ks = append(ks, k)
		}
	}
	for ki, k := range ks {
		sc.k = k
		// (cancelling a foreign parent reaches a derived context through a watcher goroutine,
		// i.e. asynchronously by design of package context; the history model's "cancel takes
		// effect at once" only holds for package context's own types, so foreign parents are
		// used with Close and run-to-the-end stops only)
		foreigns := []bool{(c.Seed>>3+uint64(ki))%2 == 1 && (sc.stop == "close" || sc.stop == "none")}
		if c.Int("allk") == 1 && sc.stop == "close" {
			foreigns = []bool{false, true}
		}
		bits := c.Seed>>7 + uint64(ki)*3
		sc.errEach = bits%3 == 0
		sc.cause = (bits>>2)%2 == 0 && !strings.HasPrefix(sc.stop, "close") && sc.stop != "none"
		sc.filters = (bits>>4)%2 == 0
		for _, fo := range foreigns {
			sc.foreign = fo && !sc.cause
			sc.nilCtx = !sc.foreign && !sc.cause && (sc.stop == "close" || sc.stop == "none") && (bits>>6)%3 == 0
			key := fmt.Sprintf("C07/%s/%s", target, sc.stop)
			if sc.faultAt > 0 {
				key += "/fault"
			}
			c07Run(res, in, sc, key)
			kc := "mid"
			switch {
			case k == 0:
				kc = "k0"
			case k >= N:
				kc = "end"
			}
			res.Eval(fmt.Sprintf("%s/%s/procs%d/%s/post%s/f%v/foreign%v/err%v/cause%v/filt%v/nil%v", target, sc.stop, sc.procs, kc, sc.post, sc.faultAt > 0, sc.foreign, sc.errEach, sc.cause, sc.filters, sc.nilCtx))
		}
	}
	res.Sample = map[string]any{"target": target, "size": c.Str("size"), "objects": N, "procs": sc.procs, "stop": sc.stop, "post": sc.post, "k_values": len(ks), "fault_at_read_call": sc.faultAt}
	return res
}

// c07SmallSize: a third of the small PBF inputs are header-less (resumed) streams.
func c07SmallSize(target string, i int) string {
	if target == "pbf" && i%3 == 1 {
		return "small-nohdr"
	}
	return "small"
}

var c07Posts = []string{"SE", "ESE", "SECSE", "CCSE", "E", "SSECE"}

func c07Cases(tier string, seed uint64) []fw.Case {
	var cs []fw.Case
	procsList := []int64{1, 2, 4, 16}
	// (1) every stop position of small inputs, ordered stop kinds
	nfiles := 1
	if tier == "thorough" {
		nfiles = 6
	}
	for fi := 0; fi < nfiles; fi++ {
		for _, target := range []string{"pbf", "xml"} {
			for si, stop := range []string{"close", "cancel-self", "cancel-flag", "cancel-close"} {
				for pi, procs := range procsList {
					if target == "xml" && pi > 0 {
						continue
					}
					for hi := int64(0); hi < 2; hi++ {
						if target == "xml" && hi == 1 {
							continue
						}
						cs = append(cs, fw.Case{Kind: "allk", Variant: "race", Seed: gen.Sub(seed, "c07small", fi),
							P: map[string]int64{"procs": procs, "allk": 1, "header": hi, "slowreader": int64(b2i(target == "pbf" && ((si+pi)%2 == 1 || stop == "cancel-close")))},
							S: map[string]string{"target": target, "size": c07SmallSize(target, si+pi+int(hi)), "stop": stop, "post": c07Posts[(si+pi+int(hi)+fi)%len(c07Posts)]}})
					}
				}
			}
		}
	}
	// (2) big inputs: read-ahead after stop, sampled k
	nbig := 24
	if tier == "thorough" {
		nbig = 200
	}
	for i := 0; i < nbig; i++ {
		stop := []string{"close", "cancel-self", "cancel-close"}[i%3]
		target := "pbf"
		if i%6 == 5 {
			target = "xml"
		}
		cs = append(cs, fw.Case{Kind: "readahead", Variant: "plain", Seed: gen.Sub(seed, "c07big", i/8),
			P: map[string]int64{"procs": procsList[i%4], "k": []int64{0, 1, 3, 10, 40}[(i/4)%5], "header": int64(i % 2)},
			S: map[string]string{"target": target, "size": "big", "stop": stop, "post": c07Posts[i%len(c07Posts)]}})
	}
	// (3) cancellation from an independent goroutine (reader callback / timer) with a slow
	// consumer, under the race detector
	nrace := 60
	if tier == "thorough" {
		nrace = 700
	}
	for i := 0; i < nrace; i++ {
		stop := []string{"cancel-reader", "cancel-timer"}[i%2]
		target := "pbf"
		if i%5 == 4 {
			target = "xml"
			stop = "cancel-timer"
		}
		cs = append(cs, fw.Case{Kind: "concurrent", Variant: "race", Seed: gen.Sub(seed, "c07race", i/6),
			P: map[string]int64{"procs": procsList[(i/2)%4], "k": int64(3 + (i*7)%60), "slow": int64(b2i(i%4 < 2))},
			S: map[string]string{"target": target, "size": "big", "stop": stop, "post": "SE"}})
	}
	// (3b) XML: cancellation arriving while a Scan is inside a long run of object-less tokens
	nfill := 6
	if tier == "thorough" {
		nfill = 40
	}
	for i := 0; i < nfill; i++ {
		cs = append(cs, fw.Case{Kind: "xmlfiller", Variant: []string{"plain", "race"}[i%2], Seed: gen.Sub(seed, "c07fill", i),
			P: map[string]int64{"procs": 1, "k": 400, "slow": 0},
			S: map[string]string{"target": "xml", "size": "filler", "stop": "cancel-reader", "post": "SE"}})
	}
	// (4) histories with an injected reader error
	nfault := 24
	if tier == "thorough" {
		nfault = 192
	}
	for i := 0; i < nfault; i++ {
		target := []string{"pbf", "xml"}[i%2]
		stop := []string{"none", "close", "cancel-self"}[i%3]
		k := int64(i % 9)
		if stop == "none" {
			k = 100000 // scan until the scanner stops on its own: the failure is always met
		}
		cs = append(cs, fw.Case{Kind: "fault", Variant: "plain", Seed: gen.Sub(seed, "c07fault", i/4),
			P: map[string]int64{"procs": procsList[i%4], "k": k, "fault": []int64{2, 3, 4, 5, 7, 9}[(i/2)%6], "faultkind": int64(i / 3 % 4)},
			S: map[string]string{"target": target, "size": "small", "stop": stop, "post": []string{"SECE", "CESE", "ECE"}[(i/6)%3]}})
	}
	// (4b) a first block that is rejected, then Close
	for i, d := range []string{"required-feature", "corrupt-zlib", "garbage-blob", "cut-header"} {
		for h := int64(0); h < 2; h++ {
			cs = append(cs, fw.Case{Kind: "badstart", Variant: "plain", Seed: gen.Sub(seed, "c07bad", i),
				P: map[string]int64{"procs": procsList[(i+int(h))%4], "header": h}, S: map[string]string{"damage": d}})
		}
	}
	// (5) endless input
	for i := 0; i < 8; i++ {
		cs = append(cs, fw.Case{Kind: "endless", Variant: "plain", Seed: gen.Sub(seed, "c07endless", i),
			P: map[string]int64{"procs": procsList[i%4], "k": int64(i % 3 * 4)}, S: map[string]string{"stop": []string{"close", "cancel"}[i/4%2]}})
	}
	return fw.Number(cs)
}

func init() {
	fw.Register(&fw.Prop{
		ID:    "C07",
		Level: "fault_enumeration",
		Rule: "call histories Header? Scan×k stop post-ops for EVERY k=0..N+1 of small PBF (with and without header block) and XML inputs × stop kind {Close, cancel from the scanning goroutine, cancel from a second goroutine overlapping further Scans, cancel immediately followed by Close with a slow reader} × decoders {1,2,4,16} (race build), checked for linearizability against a sequential scanner model with porcupine; " +
			"1000-block inputs with a counting reader for the bytes consumed after the stop; cancellation from the reader goroutine's Read callback or a timer with a slow consumer under the race detector; histories with an injected I/O error (plain, wrapping io.EOF as a lost connection does, or being context.Canceled / DeadlineExceeded themselves while the scanner's own context is live); Err() asked after every Scan in a third of the histories; contexts cancelled with a cause (WithCancelCause); nil contexts for the Close / run-to-the-end stops; always-true filter callbacks, every seventh one slow, installed in half of the PBF histories (the decoders' filter path under the race detector; no callback may start once Close has returned); parent contexts implemented outside package context with Close / run-to-the-end stops, after which no context-watcher goroutine may be left; a rejected first block followed by Close; endless input with a logical byte budget. " +
			"Signature = (target, stop kind, decoders, stop-position class, post-ops, fault injected).",
		Assumptions: []string{
			"after a complete scan followed by Close/cancel, Err may be nil or the closed/context error (both satisfy the stated precedence)",
			"a correct pipeline may finish the block read in flight and a few more: the read-ahead allowance after a stop is 25% of the remaining input of a 1000-block file (about 250 blocks, far beyond any sensible pipeline buffering); reading the rest is a violation",
			"after cancel without Close, goroutines are polled: remaining blocked ones are a leak (violation), runnable ones are inconclusive",
		},
		Cases:            c07Cases,
		Exec:             c07Exec,
		RaceIsViolation:  true,
		HangIsViolation:  true,
		CrashIsViolation: true,
		HangSeconds:      45,
		Workers:          8,
		CaseClass:        func(c fw.Case) string { return c.Kind + "/" + c.Str("target") + "/" + c.Str("stop") },
	})
	_ = io.EOF
}
