package props

import (
	"fmt"
	"strings"

	"github.com/paulmach/osm"

	"verif/internal/eq"
	"verif/internal/fw"
	"verif/internal/gen"
	"verif/internal/hist"
)

// C11 — annotation reconstructs, for any time, the child versions that were current.
//
// Monitor shape: generated edit histories (internal/hist) are fed to annotate.Ways /
// annotate.Relations through a recording datasource; the oracle compares the annotated child
// references, the update lists, the returned error class and the state after
// ApplyUpdatesUpTo(t) with an independent reference model (internal/hist/ref.go).

var c11Modes = []string{"clean", "deletes", "ignore", "missing", "filter", "any"}

// regime/threshold combinations: index 0 is the commit regime, 1.. the stamp regime with
// hist.Thresholds[i-1].
func c11Regime(k int64) (hist.Regime, int64) {
	if k == 0 {
		return hist.Commit, -1
	}
	return hist.Stamp, hist.Thresholds[k-1]
}

func c11Params(c fw.Case, r *gen.R) hist.Params {
	reg, eps := c11Regime(c.Int("regime"))
	if eps < 0 { // commit regime: the threshold is passed but must not matter
		eps = hist.Thresholds[r.Intn(len(hist.Thresholds))]
	}
	return hist.Params{Way: c.Int("way") == 1, Regime: reg, Eps: eps, Mode: c.Str("mode"),
		MaxParents: 6, MaxChildren: 8, MaxVers: 10}
}

func c11Outcome(run *hist.Run) string {
	switch {
	case run.Panic != "":
		return "panic"
	case run.Err == nil:
		return "ok"
	}
	t := fmt.Sprintf("%T", run.Err)
	switch {
	case strings.Contains(t, "NoHistoryError"):
		return "no-history"
	case strings.Contains(t, "NoVisibleChildError"):
		return "no-visible-child"
	}
	return "untyped"
}

func c11Opts(h *hist.H) string {
	var o []string
	if h.IgnoreInc {
		o = append(o, "ii")
	}
	if h.IgnoreMissing {
		o = append(o, "im")
	}
	if h.Filter != nil {
		o = append(o, "filter")
	}
	if h.EpsDefault {
		o = append(o, "defeps")
	}
	if len(o) == 0 {
		return "-"
	}
	return strings.Join(o, "+")
}

// c11One executes one history and evaluates the oracles on it.
func c11One(res *fw.Result, h *hist.H, r *gen.R, label string) *hist.Run {
	run := h.Execute()
	fs, st := hist.Check(h, run, r)
	res.Event(int64(run.NCalls + st.States + st.UpdatesChecked + st.BasesStrict + st.BasesPermissive))
	res.Add("histories", 1)
	res.Add("bases_checked_strict", int64(st.BasesStrict))
	res.Add("bases_checked_permissive", int64(st.BasesPermissive))
	res.Add("updates_checked", int64(st.UpdatesChecked))
	res.Add("updates_in_optional_zone", int64(st.OptionalSeen))
	res.Add("timetravel_instants", int64(st.Times))
	res.Add("timetravel_child_states", int64(st.States))
	res.Add("errors_justified", int64(st.ErrorsJustified))
	res.Add("refs_left_untouched_checked", int64(st.Untouched))
	res.Add("outcome_"+c11Outcome(run), 1)
	res.Add("reverse_flags_checked", int64(st.ReverseChecked))
	res.Add("reverse_flags_expected_true", int64(st.ReverseTrue))
	res.Add("timetravel_orientation_states", int64(st.OrientationStates))
	// the same history through the datasource's "children" configuration must give the same result
	{
		run2 := h.ExecuteChildren()
		res.Event(int64(run2.NCalls))
		res.Add("aschildren_runs_compared", 1)
		kindOf := "rel/"
		if h.Way {
			kindOf = "way/"
		}
		switch {
		case run2.Panic != "" && run.Panic == "":
			res.Violate("C11/aschildren-differs/"+kindOf+h.Regime.String()+"/panic", "annotation panicked with the AsChildren datasource only: "+run2.Panic, map[string]any{"history": h})
		case (run2.Err == nil) != (run.Err == nil) || (run2.Panic == "") != (run.Panic == ""):
			// (which of several inconsistencies is reported may depend on map order: only success / failure is compared)
			res.Violate("C11/aschildren-differs/"+kindOf+h.Regime.String()+"/outcome", fmt.Sprintf("outcome %s with the history datasource, %s with the AsChildren datasource", c11Outcome(run), c11Outcome(run2)),
				map[string]any{"history": h, "plain": run.Observed(), "aschildren": run2.Observed()})
		case run.Err == nil && run.Panic == "":
			var a, b string
			if h.Way {
				a, b = eq.Dump(run.Ways), eq.Dump(run2.Ways)
			} else {
				a, b = eq.Dump(run.Relations), eq.Dump(run2.Relations)
			}
			if a != b {
				res.Violate("C11/aschildren-differs/"+kindOf+h.Regime.String()+"/result", "the AsChildren datasource configuration gives a different result: "+eq.Diff(a, b),
					map[string]any{"history": h, "plain": run.Observed(), "aschildren": run2.Observed()})
			}
		}
	}
	for _, f := range fs {
		res.Violate("C11/"+f.Class+"/"+f.Shape, f.Msg, map[string]any{"history": h, "observed": run.Observed(), "label": label})
	}
	kind := "rel"
	if h.Way {
		kind = "way"
	}
	perm := "strict"
	m := hist.NewModel(h)
	for x := range h.Children {
		if !m.Strict(x) {
			perm = "permissive"
		}
	}
	if h.Mixed {
		perm = "run-only"
	}
	if h.Span {
		perm += "/span"
		res.Add("histories_crossing_commit_info_start", 1)
	}
	feats := h.Features()
	for _, f := range feats {
		res.Put("pattern_classes", f)
	}
	res.Put("pattern_class_combinations", strings.Join(feats, ","))
	res.Eval(fmt.Sprintf("%s/%s/eps%d/p%d/%s/%s/%s", kind, h.Regime, h.Eps, len(h.Parents), c11Opts(h), c11Outcome(run), perm))
	return run
}

func c11Exec(c fw.Case) *fw.Result {
	res := fw.NewResult()
	switch c.Kind {
	case "random":
		n := int(c.Int("n"))
		for k := 0; k < n; k++ {
			r := gen.New(gen.Sub(c.Seed, "c11h", k), "c11")
			h := hist.Generate(r, c11Params(c, r))
			if c.Int("span") == 1 {
				// the history crosses osm.CommitInfoStart: the regime is a property of each version
				hist.MakeSpan(h, r)
			}
			run := c11One(res, h, gen.New(gen.Sub(c.Seed, "c11tt", k), "c11tt"), fmt.Sprintf("history %d of the case", k))
			if k == 0 {
				res.Sample = map[string]any{"history": h, "observed": run.Observed()}
			}
		}
	case "burst":
		reg := hist.Commit
		if c.Int("stamp") == 1 {
			reg = hist.Stamp
		}
		h := hist.BurstZ(c.Int("way") == 1, reg, int(c.Int("n")), int(c.Int("idx")), c.Int("zones") == 1)
		run := c11One(res, h, gen.New(1, "c11burst"), "enumerated same-instant burst")
		res.Sample = map[string]any{"history": h, "observed": run.Observed()}
	case "window":
		// enumerated forward-grouping shapes: own / foreign changeset versions after the parent
		// inside the threshold, in every order, with and without a version before T in the window
		way := c.Int("way") == 1
		var pats []string
		for n := 1; n <= 3; n++ {
			for m := 0; m < 1<<n; m++ {
				p := ""
				for b := 0; b < n; b++ {
					p += string("OF"[(m>>b)&1])
				}
				pats = append(pats, p)
			}
		}
		first := true
		for _, pat := range pats {
			for _, before := range []int{0, 1, 2, 4} {
				for _, nIdx := range []int{1, 2} {
					h := hist.WindowShape(way, c.Int("eps"), pat, before, nIdx)
					run := c11One(res, h, gen.New(1, "c11window"), fmt.Sprintf("window shape %s before=%d", pat, before))
					res.Put("window_shapes", fmt.Sprintf("%s/%d", pat, before))
					if first {
						res.Sample = map[string]any{"history": h, "observed": run.Observed()}
						first = false
					}
				}
			}
		}
	case "subsec":
		reg := hist.Commit
		if c.Int("stamp") == 1 {
			reg = hist.Stamp
		}
		h := hist.SubSecond(c.Int("way") == 1, reg, c.Int("tick_ns"), c.Int("eps"), c.Int("delta"), c.Int("samecs") == 1)
		run := c11One(res, h, gen.New(1, "c11subsec"), "enumerated sub-second instants")
		res.Sample = map[string]any{"history": h, "observed": run.Observed()}
	case "corner":
		r := gen.New(c.Seed, "c11corner")
		n := int(c.Int("n"))
		for k := 0; k < n; k++ {
			way := k%2 == 0
			reg, eps := hist.Commit, int64(30)
			if (k/2)%2 == 1 {
				reg = hist.Stamp
			}
			h := hist.Generate(r, hist.Params{Way: way, Regime: reg, Eps: eps, Mode: "clean", MaxParents: 3, MaxChildren: 4, MaxVers: 5})
			switch c.Str("what") {
			case "empty":
				// one referenced child has an empty (but found) history
				x := 0
				for _, p := range h.Parents {
					if p.Visible && len(p.Refs) > 0 {
						x = p.Refs[0].Child
					}
				}
				h.Children[x].Empty = true
				h.IgnoreInc = (k/4)%3 == 1
				h.IgnoreMissing = (k/4)%3 == 2
			case "dsfail":
				x := r.Intn(len(h.Children))
				h.Children[x].Fail = true
				h.IgnoreInc, h.IgnoreMissing = r.Bool(), r.Bool()
			case "mixed":
				// versions before MixSec carry no commit time: executed, not asserted
				h = hist.Generate(r, hist.Params{Way: way, Regime: hist.Commit, Eps: hist.Thresholds[r.Intn(5)], Mode: "any", MaxParents: 5, MaxChildren: 6, MaxVers: 8})
				h.Mixed = true
				h.MixSec = h.Parents[r.Intn(len(h.Parents))].Sec + r.Int64Range(-100, 100)
				if r.Chance(0.3) { // straddle osm.CommitInfoStart itself
					shift := h.Tick(osm.CommitInfoStart) - h.MixSec
					h.MixSec += shift
					for i := range h.Parents {
						h.Parents[i].Sec += shift
					}
					for x := range h.Children {
						for v := range h.Children[x].Vers {
							h.Children[x].Vers[v].Sec += shift
						}
					}
				}
				res.Add("mixed_regime_histories_run_only", 1)
			}
			run := c11One(res, h, gen.New(gen.Sub(c.Seed, "c11tt", k), "c11tt"), c.Str("what"))
			if k == 0 {
				res.Sample = map[string]any{"history": h, "observed": run.Observed()}
			}
		}
	}
	return res
}

func c11Cases(tier string, seed uint64) []fw.Case {
	per, split, corner := int64(21), 1, int64(24)
	if tier == "thorough" {
		per, split, corner = 420, 48, 960
	}
	var cs []fw.Case
	// enumerated same-instant bursts (seed independent)
	for _, way := range []int64{1, 0} {
		for _, stamp := range []int64{0, 1} {
			for _, idx := range []int64{1, 2, 3} {
				for _, n := range []int64{2, 5, 7, 8, 11, 14} {
					cs = append(cs, fw.Case{Kind: "burst", P: map[string]int64{"way": way, "stamp": stamp, "n": n, "idx": idx}})
					if n >= 7 { // the same burst with the shared second expressed in rotating time zones
						cs = append(cs, fw.Case{Kind: "burst", P: map[string]int64{"way": way, "stamp": stamp, "n": n, "idx": idx, "zones": 1}})
					}
				}
			}
		}
	}
	// enumerated sub-second instants (seed independent): a child edit delta ticks from a parent
	// version: the same instant, 1 tick before / after, earlier / later inside the same second
	for _, way := range []int64{1, 0} {
		for _, stamp := range []int64{0, 1} {
			for _, tick := range []int64{1, 1000000} {
				tps := int64(1000000000) / tick
				for _, delta := range []int64{0, 1, -1, tps / 2, -tps / 10, tps*4/5 - 1, tps * 4 / 5, -tps / 5, -tps/5 - 1} {
					for _, samecs := range []int64{0, 1} {
						if stamp == 0 && samecs == 1 {
							continue
						}
						eps := int64(0)
						if stamp == 1 && (delta+samecs)%2 == 0 {
							eps = 1
						}
						cs = append(cs, fw.Case{Kind: "subsec", P: map[string]int64{"way": way, "stamp": stamp, "tick_ns": tick, "delta": delta, "samecs": samecs, "eps": eps}})
					}
				}
			}
		}
	}
	for _, what := range []string{"empty", "dsfail", "mixed"} {
		cs = append(cs, fw.Case{Kind: "corner", Seed: gen.Sub(seed, "c11corner-"+what, 0), P: map[string]int64{"n": corner}, S: map[string]string{"what": what}})
	}
	i := 0
	for way := int64(0); way < 2; way++ {
		for reg := int64(0); reg <= int64(len(hist.Thresholds)); reg++ {
			for _, mode := range c11Modes {
				for s := 0; s < split; s++ {
					cs = append(cs, fw.Case{Kind: "random", Seed: gen.Sub(seed, "c11", i),
						P: map[string]int64{"way": way, "regime": reg, "n": per}, S: map[string]string{"mode": mode}})
					i++
				}
			}
		}
	}
	// histories that cross osm.CommitInfoStart (own seed stream, the streams above are unchanged)
	i = 0
	for way := int64(0); way < 2; way++ {
		for _, mode := range c11Modes {
			for s := 0; s < split; s++ {
				cs = append(cs, fw.Case{Kind: "random", Seed: gen.Sub(seed, "c11span", i),
					P: map[string]int64{"way": way, "regime": 0, "n": per, "span": 1}, S: map[string]string{"mode": mode}})
				i++
			}
		}
	}
	// enumerated forward-grouping window shapes (seed independent)
	for _, way := range []int64{1, 0} {
		for _, eps := range []int64{30, 1800, 7200} {
			cs = append(cs, fw.Case{Kind: "window", P: map[string]int64{"way": way, "eps": eps}})
		}
	}
	return fw.Number(cs)
}

func init() {
	fw.Register(&fw.Prop{
		ID:    "C11",
		Level: "exploration",
		Rule: "generated edit histories (ways over nodes, relations over node/way/relation members; 1-6 parent versions, 1-8 children with repeats, 1-10(+1) versions per child; " +
			"edits before/between/after/at the instant of parent versions and at window edges; deletions, undeletions, children entering and leaving, deleted parent versions; " +
			"commit-time regime and timestamp regime with thresholds {0,1s,30s,30min(default or explicit),2h}; in 40% of the histories the timestamps / commit times are expressed in mixed time.Locations (UTC, fixed zones, same offset with another name, offset 0 that is not UTC, Local) without changing the instants; options IgnoreInconsistency, IgnoreMissingChildren, ChildFilter with pre-annotated input) " +
			"40% of the histories are re-expressed with millisecond / nanosecond fractions (child and parent edits inside one second in both orders, 1 tick apart, exactly together; time-travel instants with fractions), plus an enumerated sub-second family (child edit 0, +-1 tick, earlier/later in the same second as a parent version), " +
			"plus an enumerated family of same-instant bursts (n versions in one second x child at 1-3 indices) and corner inputs (empty history, failing datasource, mixed regimes: run only). " +
			"Each history is annotated once; oracles: base child and update set per (parent version, index) against the reference (exact for the commit regime and for well-separated windows, acceptable-set otherwise), " +
			"error class justified by the history, untouched references (deleted parents, filtered, missing), and time travel: ApplyUpdatesUpTo(t) on a clone for sampled t in [T_i, T_i+1 - eps) compared with the version in effect at t. " +
			"Signature = (parent kind, regime, threshold, #parent versions, option set, outcome class, strict/permissive); pattern classes used (subsecond, same-second-before-parent, same-second-after-parent, at, fwd, foreign, inwin, edge, samesec, samesec-zones, zones, del, undel, enter, leave, repeat, pdel, late-create, after-last, pre, missing, empty) and their combinations are counted separately.",
		Assumptions: []string{
			"child version times are non-decreasing in version order and parent version times strictly increase (histories with clocks running backwards are not generated)",
			"a history is in one regime: all elements carry commit times on or after osm.CommitInfoStart (timestamps too), or none does; mixed-regime histories (incl. timestamp < CommitInfoStart <= committed) are executed (must not panic) but not asserted",
			"timestamp regime: the documented nearest-visible-in-window rule is asserted exactly only for children whose windows [T-eps,T+eps] are well separated (all versions inside visible; only at-or-before-T edits, or only same-changeset later edits, or only foreign-changeset later edits); otherwise only membership in the acceptable set {version in effect at T} + {same-changeset versions in (T,T+eps]} (anything visible at-or-before T inside the window when the version in effect is deleted) is asserted, and updates are derived from the observed bases",
			"child versions after the base that fall on or after T_next - eps (commit regime: exactly at T_next) and precede the next parent's base are optional in the update list: the statement does not say whether 'up to the next parent version' includes that instant; time travel only samples t < T_next - eps",
			"with IgnoreInconsistency, inconsistent children (no visible base, or deleted in between) are only required to receive updates naming real visible versions around [T_i, T_next]; consistent children are checked exactly",
			"error texts are not inspected; a 'child deleted between parent versions' condition only requires some non-nil error; when several inconsistencies coexist any justified one may be reported",
			"Update.Reverse, Member.Orientation and the location of way/relation members are not asserted (not part of the statement)",
			"missing histories are only generated for children that a visible parent version references; whether a child referenced solely by deleted parent versions is looked up is not asserted",
			"an empty history returned with a nil error must give a typed error (either documented type) or, with the ignore options, leave the child unannotated; it must never panic",
		},
		Cases: c11Cases,
		Exec:  c11Exec,
	})
}
