package props

import (
	"context"
	"errors"
	"fmt"
	"math"
	"reflect"
	"sort"
	"time"

	"github.com/paulmach/orb"
	"github.com/paulmach/osm"
	"github.com/paulmach/osm/annotate"

	"verif/internal/eq"
	"verif/internal/fw"
	"verif/internal/gen"
)

// C15 — applying updates is exact, composable and agrees with geometry-at-time.
//
// Monitor shape: reference model. Inputs live in a harness-side model (c15Input: children,
// updates, stored order); the real osm.Way / osm.Relation is built from the model, the
// library call is made, and the resulting element is compared with the element built from
// the model after the reference transition (c15RefApply). Every distinct instant t (before,
// at, between, after every stored timestamp) is enumerated per input.

// ---- model ------------------------------------------------------------------------------

type c15Child struct {
	Type    string  `json:"type,omitempty"` // relation members only
	Ref     int64   `json:"ref"`
	Role    string  `json:"role,omitempty"`
	Version int     `json:"version"`
	CS      int64   `json:"changeset"`
	Lat     float64 `json:"lat"`
	Lon     float64 `json:"lon"`
	Orient  int     `json:"orientation,omitempty"`
}

// c15T is an instant as (unix seconds, nanoseconds); the oracle orders instants on this
// pair and never calls time.Time.After/Before.
type c15T struct {
	Sec  int64 `json:"sec"`
	Nsec int64 `json:"nsec,omitempty"`
}

type c15Upd struct {
	Index   int     `json:"index"`
	Version int     `json:"version"`
	At      c15T    `json:"at"`
	Zone    int     `json:"zone_east_s,omitempty"` // location of the stored time.Time (same instant)
	CS      int64   `json:"changeset"`
	Lat     float64 `json:"lat"`
	Lon     float64 `json:"lon"`
	Reverse bool    `json:"reverse,omitempty"`
}

type c15Input struct {
	Rel      bool       `json:"relation"`
	Children []c15Child `json:"children"`
	Updates  []c15Upd   `json:"updates"`
}

var c15ZeroT = c15T{Sec: -62135596800} // time.Time{}

func (t c15T) less(o c15T) bool { return t.Sec < o.Sec || t.Sec == o.Sec && t.Nsec < o.Nsec }

func (t c15T) add(ns int64) c15T {
	n := t.Nsec + ns
	s := t.Sec + n/1_000_000_000
	n %= 1_000_000_000
	if n < 0 {
		n += 1_000_000_000
		s--
	}
	return c15T{s, n}
}

func (t c15T) time(zone int) time.Time {
	if t == c15ZeroT && zone == 0 {
		return time.Time{}
	}
	x := time.Unix(t.Sec, t.Nsec)
	if zone == 0 {
		return x.UTC()
	}
	return x.In(time.FixedZone("z", zone))
}

func (t c15T) String() string { return t.time(0).Format(time.RFC3339Nano) }

func c15OfTime(x time.Time) c15T { return c15T{x.Unix(), int64(x.Nanosecond())} }

func c15Updates(us []c15Upd) osm.Updates {
	var out osm.Updates
	for _, u := range us {
		out = append(out, osm.Update{Index: u.Index, Version: u.Version, Timestamp: u.At.time(u.Zone),
			ChangesetID: osm.ChangesetID(u.CS), Lat: u.Lat, Lon: u.Lon, Reverse: u.Reverse})
	}
	return out
}

var c15Stamp = time.Date(2014, 3, 1, 12, 0, 0, 0, time.UTC)

// c15FillRest gives every settable field of a child struct that the model does not control
// (whatever the struct has today or gets later: today Member.Nodes) a non-zero value derived
// from the child's position, recursively. Applying updates must leave all of them alone.
func c15FillRest(v reflect.Value, modelled map[string]bool, salt int) {
	switch v.Kind() {
	case reflect.Struct:
		for i := 0; i < v.NumField(); i++ {
			f := v.Type().Field(i)
			if f.PkgPath != "" || modelled[f.Name] || !v.Field(i).CanSet() {
				continue
			}
			c15FillRest(v.Field(i), nil, salt+i+1)
		}
	case reflect.Slice:
		s := reflect.MakeSlice(v.Type(), 2, 2)
		c15FillRest(s.Index(0), nil, salt+1)
		c15FillRest(s.Index(1), nil, salt+2)
		v.Set(s)
	case reflect.Ptr:
		p := reflect.New(v.Type().Elem())
		c15FillRest(p.Elem(), nil, salt+1)
		v.Set(p)
	case reflect.String:
		v.SetString(fmt.Sprintf("keep-%d", salt))
	case reflect.Bool:
		v.SetBool(true)
	case reflect.Int, reflect.Int8, reflect.Int16, reflect.Int32, reflect.Int64:
		v.SetInt(int64(1 + salt%100))
	case reflect.Uint, reflect.Uint8, reflect.Uint16, reflect.Uint32, reflect.Uint64:
		v.SetUint(uint64(1 + salt%100))
	case reflect.Float32, reflect.Float64:
		v.SetFloat(float64(salt) + 0.5)
	}
}

var (
	c15NodeModelled   = map[string]bool{"ID": true, "Version": true, "ChangesetID": true, "Lat": true, "Lon": true}
	c15MemberModelled = map[string]bool{"Type": true, "Ref": true, "Role": true, "Version": true, "ChangesetID": true, "Lat": true, "Lon": true, "Orientation": true}
)

func (in c15Input) way() *osm.Way {
	ct := c15Stamp.Add(time.Minute)
	w := &osm.Way{ID: 77, User: "mapper", UserID: 5, Visible: true, Version: 3, ChangesetID: 9, Timestamp: c15Stamp,
		Tags: osm.Tags{{Key: "highway", Value: "path"}}, Committed: &ct,
		Bounds: &osm.Bounds{MinLat: -1, MaxLat: 1, MinLon: -2, MaxLon: 2}, Updates: c15Updates(in.Updates)}
	for _, c := range in.Children {
		w.Nodes = append(w.Nodes, osm.WayNode{ID: osm.NodeID(c.Ref), Version: c.Version, ChangesetID: osm.ChangesetID(c.CS), Lat: c.Lat, Lon: c.Lon})
	}
	if c15HasRest(reflect.TypeOf(osm.WayNode{}), c15NodeModelled) {
		for i := range w.Nodes {
			c15FillRest(reflect.ValueOf(&w.Nodes[i]).Elem(), c15NodeModelled, 10*i)
		}
	}
	return w
}

var c15RestCache = map[reflect.Type]bool{}

// c15HasRest: the child struct has exported fields the model does not control.
func c15HasRest(t reflect.Type, modelled map[string]bool) bool {
	if v, ok := c15RestCache[t]; ok {
		return v
	}
	has := false
	for i := 0; i < t.NumField(); i++ {
		if f := t.Field(i); f.PkgPath == "" && !modelled[f.Name] {
			has = true
		}
	}
	c15RestCache[t] = has
	return has
}

// relationPlain builds the relation without the reflection fill (used where only the
// modelled fields are compared).
func (in c15Input) relationPlain() *osm.Relation { return in.relationWith(false) }

func (in c15Input) relation() *osm.Relation { return in.relationWith(true) }

func (in c15Input) relationWith(fill bool) *osm.Relation {
	ct := c15Stamp.Add(time.Minute)
	r := &osm.Relation{ID: 88, User: "mapper", UserID: 5, Visible: true, Version: 4, ChangesetID: 9, Timestamp: c15Stamp,
		Tags: osm.Tags{{Key: "type", Value: "multipolygon"}}, Committed: &ct,
		Bounds: &osm.Bounds{MinLat: -1, MaxLat: 1, MinLon: -2, MaxLon: 2}, Updates: c15Updates(in.Updates)}
	for _, c := range in.Children {
		r.Members = append(r.Members, osm.Member{Type: osm.Type(c.Type), Ref: c.Ref, Role: c.Role, Version: c.Version,
			ChangesetID: osm.ChangesetID(c.CS), Orientation: orb.Orientation(c.Orient), Lat: c.Lat, Lon: c.Lon})
	}
	if fill && c15HasRest(reflect.TypeOf(osm.Member{}), c15MemberModelled) {
		for i := range r.Members {
			c15FillRest(reflect.ValueOf(&r.Members[i]).Elem(), c15MemberModelled, 10*i)
		}
	}
	return r
}

type c15Elem interface {
	ApplyUpdatesUpTo(time.Time) error
}

// buildPlain is build without the fill of unmodelled child fields of relation members.
func (in c15Input) buildPlain() c15Elem {
	if in.Rel {
		return in.relationPlain()
	}
	return in.way()
}

func (in c15Input) build() c15Elem {
	if in.Rel {
		return in.relation()
	}
	return in.way()
}

// c15Extract reads the children and pending updates back out of a library element.
func c15Extract(e c15Elem) (cs []c15Child, us []c15Upd) {
	var ups osm.Updates
	switch x := e.(type) {
	case *osm.Way:
		for _, n := range x.Nodes {
			cs = append(cs, c15Child{Ref: int64(n.ID), Version: n.Version, CS: int64(n.ChangesetID), Lat: n.Lat, Lon: n.Lon})
		}
		ups = x.Updates
	case *osm.Relation:
		for _, m := range x.Members {
			cs = append(cs, c15Child{Type: string(m.Type), Ref: m.Ref, Role: m.Role, Version: m.Version, CS: int64(m.ChangesetID),
				Lat: m.Lat, Lon: m.Lon, Orient: int(m.Orientation)})
		}
		ups = x.Updates
	}
	for _, u := range ups {
		us = append(us, c15Upd{Index: u.Index, Version: u.Version, At: c15OfTime(u.Timestamp), CS: int64(u.ChangesetID),
			Lat: u.Lat, Lon: u.Lon, Reverse: u.Reverse})
	}
	return
}

func c15SameChildren(a, b []c15Child) bool {
	if len(a) != len(b) {
		return false
	}
	for i := range a {
		if a[i] != b[i] {
			return false
		}
	}
	return true
}

func c15SameUpdates(a, b []c15Upd) bool {
	if len(a) != len(b) {
		return false
	}
	for i := range a {
		x, y := a[i], b[i]
		x.Zone, y.Zone = 0, 0 // instants compare, locations do not
		if x != y {
			return false
		}
	}
	return true
}

// ---- reference --------------------------------------------------------------------------

// c15RefApply is the reference transition: updates stamped at or before t are applied in
// stored order to the child they name, later ones stay pending in their original order.
// In-time updates naming a child beyond the list are returned in oor (and change nothing).
func c15RefApply(in c15Input, t c15T) (out c15Input, oor []int) {
	out = c15Input{Rel: in.Rel, Children: append([]c15Child(nil), in.Children...)}
	for _, u := range in.Updates {
		if t.less(u.At) {
			out.Updates = append(out.Updates, u)
			continue
		}
		if u.Index >= len(out.Children) {
			oor = append(oor, u.Index)
			continue
		}
		c := &out.Children[u.Index]
		c.Version, c.CS, c.Lat, c.Lon = u.Version, u.CS, u.Lat, u.Lon
		if in.Rel && u.Reverse {
			c.Orient = -c.Orient
		}
	}
	return out, oor
}

// c15RefLine is the geometry of the annotated children ("no location" convention:
// version 0 and lat = lon = 0 means the node is not annotated and contributes no point).
func c15RefLine(cs []c15Child) [][2]float64 {
	out := [][2]float64{}
	for _, c := range cs {
		if c.Version != 0 || c.Lat != 0 || c.Lon != 0 {
			out = append(out, [2]float64{c.Lon, c.Lat})
		}
	}
	return out
}

func c15SameLine(got orb.LineString, want [][2]float64) bool {
	if len(got) != len(want) {
		return false
	}
	for i := range got {
		if got[i][0] != want[i][0] || got[i][1] != want[i][1] {
			return false
		}
	}
	return true
}

func c15FullyAnnotated(cs []c15Child) bool {
	for _, c := range cs {
		if c.Version == 0 && c.Lat == 0 && c.Lon == 0 {
			return false
		}
	}
	return true
}

// c15ChildOrdered: each child's updates appear in time order in the stored list.
func c15ChildOrdered(us []c15Upd) bool {
	last := map[int]c15T{}
	for _, u := range us {
		if p, ok := last[u.Index]; ok && u.At.less(p) {
			return false
		}
		last[u.Index] = u.At
	}
	return true
}

// c15LateBeforeInTime: a too-late update is stored before an in-time one.
func c15LateBeforeInTime(us []c15Upd, t c15T) bool {
	late := false
	for _, u := range us {
		if t.less(u.At) {
			late = true
		} else if late {
			return true
		}
	}
	return false
}

func c15HasOOR(in c15Input) bool {
	for _, u := range in.Updates {
		if u.Index >= len(in.Children) {
			return true
		}
	}
	return false
}

// ---- oracle evaluations -----------------------------------------------------------------

type c15Fail struct {
	key, what string
	detail    map[string]any
}

func (in c15Input) kind() string {
	if in.Rel {
		return "relation"
	}
	return "way"
}

func (in c15Input) describe() map[string]any {
	var us []map[string]any
	for _, u := range in.Updates {
		m := map[string]any{"index": u.Index, "version": u.Version, "timestamp": u.At.String(), "changeset": u.CS, "lat": u.Lat, "lon": u.Lon}
		if u.Reverse {
			m["reverse"] = true
		}
		if u.Zone != 0 {
			m["zone_east_s"] = u.Zone
		}
		us = append(us, m)
	}
	return map[string]any{"kind": in.kind(), "children": in.Children, "updates": us}
}

func c15Call(e c15Elem, t time.Time) (err error, pan any) {
	defer func() { pan = recover() }()
	return e.ApplyUpdatesUpTo(t), nil
}

type c15Counter func(name string)

// c15CheckState compares a library element with the element built from the expected model
// and names the part that differs.
func c15CheckState(got c15Elem, want c15Input, prefix string, deep bool) (string, string) {
	cs, us := c15Extract(got)
	switch {
	case !c15SameChildren(cs, want.Children):
		return prefix + "/children", fmt.Sprintf("children are %s, want %s", fw.JSON(cs), fw.JSON(want.Children))
	case !c15SameUpdates(us, want.Updates):
		return prefix + "/pending", fmt.Sprintf("pending updates are %s, want %s", fw.JSON(us), fw.JSON(want.Updates))
	}
	if !deep {
		return "", ""
	}
	// every field of every child that the statement does not list (the builder fills them all)
	wb := want.build()
	kids := func(e c15Elem) any {
		if r, ok := e.(*osm.Relation); ok {
			return r.Members
		}
		return e.(*osm.Way).Nodes
	}
	if gd, wd := eq.Dump(kids(got)), eq.Dump(kids(wb)); gd != wd {
		return prefix + "/child-other-field", "a field of a child other than version, changeset, location and orientation changed: " + eq.Diff(wd, gd)
	}
	// every other field of the element (canonical dump: times as instants, nil == empty)
	if gd, wd := eq.Dump(got), eq.Dump(wb); gd != wd {
		return prefix + "/other-fields", "a field other than children and updates changed: " + eq.Diff(wd, gd)
	}
	return "", ""
}

// c15StructCopy is the copy a caller makes to "apply on a copy": a struct copy with the
// children cloned. The update list is shared with the original (same backing array), which
// is enough as long as applying only writes children and re-points the Updates field.
func c15StructCopy(e c15Elem) c15Elem {
	switch x := e.(type) {
	case *osm.Way:
		cp := *x
		cp.Nodes = append(osm.WayNodes(nil), x.Nodes...)
		return &cp
	case *osm.Relation:
		cp := *x
		cp.Members = append(osm.Members(nil), x.Members...)
		return &cp
	}
	panic("harness: unknown element")
}

// c15Untouched: the original of a struct copy (children and the update list seen through
// its own slice header) is still what it was built from.
func c15Untouched(o c15Elem, in c15Input) (string, bool) {
	cs, us := c15Extract(o)
	switch {
	case !c15SameUpdates(us, in.Updates):
		return fmt.Sprintf("the update list shared with the copy now reads %s, it was %s", fw.JSON(us), fw.JSON(in.Updates)), false
	case !c15SameChildren(cs, in.Children):
		return fmt.Sprintf("the children of the original now read %s", fw.JSON(cs)), false
	}
	return "", true
}

// c15EvalAt runs every single-instant oracle on (in, t).
func c15EvalAt(in c15Input, t c15T, count c15Counter) (fails []c15Fail) {
	k := "C15/" + in.kind()
	tt := t.time(c15QueryZone(t))
	fail := func(key, what string, extra map[string]any) {
		d := map[string]any{"input": in.describe(), "t": t.String(), "t_zone_east_s": c15QueryZone(t)}
		for a, b := range extra {
			d[a] = b
		}
		fails = append(fails, c15Fail{key, what, d})
	}
	want, oor := c15RefApply(in, t)

	// 1. ApplyUpdatesUpTo, on a struct copy of the original o (shared update list)
	o := in.build()
	e := c15StructCopy(o)
	err, pan := c15Call(e, tt)
	count("apply_calls")
	applied := false
	switch {
	case pan != nil:
		fail(k+"/apply/panic", fmt.Sprintf("ApplyUpdatesUpTo panicked: %v", pan), nil)
	case len(oor) > 0:
		count("apply_with_in_time_out_of_range_index")
		var oe *osm.UpdateIndexOutOfRangeError
		if err == nil || !errors.As(err, &oe) {
			fail(k+"/apply/out-of-range-not-reported", fmt.Sprintf("in-time update names child %d of %d; error is %v (%T), want *osm.UpdateIndexOutOfRangeError", oor[0], len(in.Children), err, err), nil)
		} else {
			ok := false
			for _, u := range in.Updates {
				if u.Index >= len(in.Children) && u.Index == oe.Index {
					ok = true
				}
			}
			if !ok {
				fail(k+"/apply/out-of-range-wrong-index", fmt.Sprintf("error reports index %d, which no out-of-range update of the list carries", oe.Index), nil)
			}
		}
		// state after a refused call: no other child is touched, and every update later
		// than t is still pending, in original order (the in-time ones: not specified)
		cs, eus := c15Extract(e)
		var late []c15Upd
		for _, u := range eus {
			if t.less(u.At) {
				late = append(late, u)
			}
		}
		if pan == nil && !c15SameUpdates(late, want.Updates) {
			fail(k+"/apply/out-of-range-pending-lost", fmt.Sprintf("after the refused call the updates later than t read %s, want %s (all of them, original order)", fw.JSON(late), fw.JSON(want.Updates)), nil)
		}
		if len(cs) != len(in.Children) {
			fail(k+"/apply/out-of-range-children", fmt.Sprintf("child list length changed from %d to %d on the error path", len(in.Children), len(cs)), nil)
		} else {
			named := map[int]bool{} // children some in-time update names (they may be half-way)
			for _, u := range in.Updates {
				if !t.less(u.At) {
					named[u.Index] = true
				}
			}
			for i := range cs {
				if !named[i] && cs[i] != in.Children[i] {
					fail(k+"/apply/out-of-range-children", fmt.Sprintf("child %d, named by no in-time update, changed on the error path", i), nil)
					break
				}
			}
		}
	case err != nil:
		// later updates are not applied, they stay pending: an out-of-range index among them
		// is none of this call's business (it is reported once t reaches it)
		key := k + "/apply/unexpected-error"
		if c15HasOOR(in) {
			key = k + "/apply/pending-out-of-range-reported-early"
		}
		fail(key, fmt.Sprintf("ApplyUpdatesUpTo returned %v although every update stamped at or before t names an existing child", err), nil)
	default:
		applied = true
		if c15HasOOR(in) {
			count("apply_with_pending_only_out_of_range_index")
		}
		if key, what := c15CheckState(e, want, k+"/apply", true); key != "" {
			fail(key, what, nil)
		}
	}

	what, intact := c15Untouched(o, in)
	if !intact && pan == nil {
		fail(k+"/apply/writes-shared-update-list", "ApplyUpdatesUpTo on a struct copy (children cloned, update list shared) changed the original: "+what, nil)
	}

	// 2. Updates.UpTo
	us := c15Updates(in.Updates)
	got := us.UpTo(tt)
	count("upto_calls")
	var inTime []c15Upd
	for _, u := range in.Updates {
		if !t.less(u.At) {
			inTime = append(inTime, u)
		}
	}
	if _, gu := c15Extract(&osm.Way{Updates: got}); !c15SameUpdates(gu, inTime) {
		fail("C15/upto/subset", fmt.Sprintf("UpTo returned %s, want %s", fw.JSON(gu), fw.JSON(inTime)), nil)
	}
	if _, ru := c15Extract(&osm.Way{Updates: us}); !c15SameUpdates(ru, in.Updates) {
		fail("C15/upto/mutates-receiver", "UpTo changed the list it was called on", nil)
	}

	// 3. LineStringAt
	if !in.Rel {
		w := o.(*osm.Way) // the original, after ApplyUpdatesUpTo(t) ran on its struct copy
		var ls orb.LineString
		func() {
			defer func() {
				if p := recover(); p != nil {
					fail("C15/linestring-at/panic", fmt.Sprintf("LineStringAt panicked: %v", p), nil)
				}
			}()
			ls = w.LineStringAt(tt)
		}()
		count("linestring_at_calls")
		if cs, us := c15Extract(w); intact && (!c15SameChildren(cs, in.Children) || !c15SameUpdates(us, in.Updates)) {
			fail("C15/linestring-at/mutates-way", fmt.Sprintf("LineStringAt changed the way it was called on: nodes %s updates %s", fw.JSON(cs), fw.JSON(us)), nil)
		}
		wantLine := c15RefLine(want.Children)
		switch {
		case len(oor) > 0:
			count("linestring_at_not_asserted_out_of_range")
		case !c15FullyAnnotated(in.Children):
			// outside the statement ("fully annotated ways"): observed, never asserted
			count("linestring_at_not_asserted_partially_annotated")
			if !c15SameLine(ls, wantLine) {
				count("linestring_at_partially_annotated_differs_from_apply")
			}
		default:
			count("linestring_at_asserted")
			if !c15SameLine(ls, wantLine) {
				// failure class: too-late updates must have no influence at all on the
				// geometry at t; if the answer is right once they are taken out of the list,
				// the failure is caused by a late update stored before an in-time one
				key := "C15/linestring-at/mismatch"
				if !intact && c15SameLine(in.way().LineStringAt(tt), wantLine) {
					// right on a way nobody else touched: the apply on the struct copy did it
					key = "C15/linestring-at/after-apply-on-struct-copy"
				} else if c15LateBeforeInTime(in.Updates, t) {
					w2 := c15Input{Children: in.Children, Updates: inTime}.way()
					if c15SameLine(w2.LineStringAt(tt), wantLine) {
						key = "C15/linestring-at/late-update-before-intime"
					}
				}
				fail(key, fmt.Sprintf("LineStringAt(t) = %v, LineString() after ApplyUpdatesUpTo(t) on a copy must be %v", ls, wantLine),
					map[string]any{"got": ls, "want": wantLine})
			} else if applied {
				if ref := e.(*osm.Way).LineString(); !c15SameLine(ls, [][2]float64(lineToPairs(ref))) {
					fail("C15/linestring-at/disagrees-with-apply", fmt.Sprintf("LineStringAt(t) = %v but LineString() of the updated copy = %v", ls, ref), nil)
				}
			}
		}
	}
	return fails
}

func lineToPairs(ls orb.LineString) [][2]float64 {
	out := make([][2]float64, len(ls))
	for i, p := range ls {
		out[i] = [2]float64{p[0], p[1]}
	}
	return out
}

// c15EvalPair runs the composability oracle on (in, t1 <= t2). Both applications run on
// struct copies of one original, i.e. on elements that share their update list.
func c15EvalPair(in c15Input, t1, t2 c15T, count c15Counter) (fails []c15Fail) {
	k := "C15/" + in.kind()
	fail := func(key, what string) {
		fails = append(fails, c15Fail{key, what, map[string]any{"input": in.describe(), "t1": t1.String(), "t2": t2.String()}})
	}
	r1, oor1 := c15RefApply(in, t1)
	if len(oor1) > 0 {
		return // the first step is refused: the single-instant oracle covers it
	}
	r2, oor2 := c15RefApply(r1, t2)
	direct, _ := c15RefApply(in, t2)
	ordered := c15ChildOrdered(in.Updates)
	if ordered && len(oor2) == 0 && !(c15SameChildren(r2.Children, direct.Children) && c15SameUpdates(r2.Updates, direct.Updates)) {
		panic("harness: reference model is not composable on a child-ordered list: " + fw.JSON(in))
	}
	o := in.buildPlain()
	e := c15StructCopy(o)
	count("compose_pairs")
	if err, pan := c15Call(e, t1.time(c15QueryZone(t1))); err != nil || pan != nil {
		fail(k+"/compose/error", fmt.Sprintf("ApplyUpdatesUpTo(%s), first of two steps, failed although every update at or before it is in range: %v %v", t1, err, pan))
		return
	}
	err, pan := c15Call(e, t2.time(c15QueryZone(t2)))
	if len(oor2) > 0 {
		// an out-of-range update that was pending after the first step is now due
		count("compose_second_step_out_of_range")
		var oe *osm.UpdateIndexOutOfRangeError
		if pan != nil || err == nil || !errors.As(err, &oe) {
			fail(k+"/compose/out-of-range-not-reported", fmt.Sprintf("second step reaches an update naming child %d of %d; result is %v (%T) panic %v, want *osm.UpdateIndexOutOfRangeError", oor2[0], len(in.Children), err, err, pan))
		}
		return
	}
	if err != nil || pan != nil {
		fail(k+"/compose/error", fmt.Sprintf("ApplyUpdatesUpTo(%s), second of two steps, failed: %v %v", t2, err, pan))
		return
	}
	// each call on its own is an application to the state it finds
	if key, what := c15CheckState(e, r2, k+"/compose/two-step", false); key != "" {
		fail(key, what)
		return
	}
	defer func() {
		if what, ok := c15Untouched(o, in); !ok {
			fail(k+"/apply/writes-shared-update-list", "two-step application on a struct copy changed the original: "+what)
		}
	}()
	if !ordered {
		count("compose_pairs_not_asserted_child_unordered")
		if !c15SameChildren(r2.Children, direct.Children) {
			count("compose_child_unordered_differs_from_direct")
		}
		return
	}
	count("compose_pairs_asserted")
	d := c15StructCopy(o) // second copy of the same original: same update list as e had
	if err, pan := c15Call(d, t2.time(c15QueryZone(t2))); err != nil || pan != nil {
		return // reported by the single-instant oracle
	}
	cs, us := c15Extract(d)
	if ecs, eus := c15Extract(e); !c15SameChildren(cs, ecs) || !c15SameUpdates(us, eus) {
		key := k + "/compose/differs-from-direct"
		f := in.buildPlain()
		if err, pan := c15Call(f, t2.time(c15QueryZone(t2))); err == nil && pan == nil {
			if fcs, fus := c15Extract(f); c15SameChildren(fcs, ecs) && c15SameUpdates(fus, eus) {
				// right on an element with a list of its own: the earlier application on
				// the sibling copy disturbed the shared list
				key = k + "/compose/shared-update-list"
			}
		}
		fail(key, fmt.Sprintf("apply(t1);apply(t2) differs from apply(t2) on a second copy: direct children %s pending %s", fw.JSON(cs), fw.JSON(us)))
	}
	return
}

// c15EvalKept asks one way (and a struct copy of it, alternately) for its geometry at every
// instant, keeps all results, and only then looks at them: a result the caller holds must
// not be changed by later queries, and the results must not share memory with each other.
func c15EvalKept(in c15Input, ts []c15T, count c15Counter) (fails []c15Fail) {
	if in.Rel || len(in.Children) == 0 {
		return nil
	}
	fail := func(key, what string) {
		fails = append(fails, c15Fail{key, what, map[string]any{"input": in.describe()}})
	}
	defer func() {
		if p := recover(); p != nil {
			fail("C15/linestring-at/panic", fmt.Sprintf("LineStringAt panicked: %v", p))
		}
	}()
	w := in.way()
	cp := c15StructCopy(w).(*osm.Way)
	kept := make([]orb.LineString, len(ts))
	snap := make([][][2]float64, len(ts))
	for i, t := range ts {
		q := w
		if i%3 == 2 {
			q = cp
		}
		kept[i] = q.LineStringAt(t.time(c15QueryZone(t)))
		snap[i] = lineToPairs(kept[i]) // the answer as it was handed out
		count("linestring_at_results_kept")
	}
	for i := range kept {
		if !c15SameLine(kept[i], snap[i]) {
			fail("C15/linestring-at/kept-result-overwritten", fmt.Sprintf("the result of LineStringAt(%s) was %v when returned and reads %v after later queries on the same way / its struct copy", ts[i], snap[i], kept[i]))
			return
		}
	}
	// write into one result: the others and the ways must not notice
	for i := range kept {
		if len(kept[i]) == 0 {
			continue
		}
		for j := range kept[i] {
			kept[i][j] = orb.Point{-777.25, 888.5}
		}
		for j := range kept {
			if j != i && !c15SameLine(kept[j], snap[j]) {
				fail("C15/linestring-at/results-share-memory", fmt.Sprintf("writing into the result for %s changed the result for %s", ts[i], ts[j]))
				return
			}
		}
		for _, q := range []*osm.Way{w, cp} {
			if cs, us := c15Extract(q); !c15SameChildren(cs, in.Children) || !c15SameUpdates(us, in.Updates) {
				fail("C15/linestring-at/results-share-memory", "writing into a result changed the way")
				return
			}
		}
		break
	}
	return fails
}

// ---- shrinking --------------------------------------------------------------------------

// c15Shrink removes updates and children while the same failure class is still reported.
func c15Shrink(in c15Input, key string, eval func(c15Input) []c15Fail) (c15Input, c15Fail) {
	has := func(x c15Input) (c15Fail, bool) {
		for _, f := range eval(x) {
			if f.key == key {
				return f, true
			}
		}
		return c15Fail{}, false
	}
	best, _ := has(in)
	for progress := true; progress; {
		progress = false
		for i := 0; i < len(in.Updates); i++ {
			x := in
			x.Updates = append(append([]c15Upd(nil), in.Updates[:i]...), in.Updates[i+1:]...)
			if f, ok := has(x); ok {
				in, best, progress = x, f, true
				i--
			}
		}
		for j := len(in.Children) - 1; j >= 0; j-- {
			x := c15Input{Rel: in.Rel}
			x.Children = append(append([]c15Child(nil), in.Children[:j]...), in.Children[j+1:]...)
			for _, u := range in.Updates {
				if u.Index == j {
					continue
				}
				if u.Index > j {
					u.Index--
				}
				x.Updates = append(x.Updates, u)
			}
			if f, ok := has(x); ok {
				in, best, progress = x, f, true
			}
		}
	}
	return in, best
}

// ---- instants ---------------------------------------------------------------------------

// Extreme instants: the zero time / year 1, both ends of the int64-nanosecond range
// (1677-09-21T00:12:43.145224192Z and 2262-04-11T23:47:16.854775807Z) with their 1 ns
// neighbours, year 9999 and time.Unix(+-1<<40, 0). They stand for "latest state" sentinels
// and uninitialised times; the reference orders them like any other (sec, nsec) pair.
var (
	c15MaxNs = c15T{Sec: 9223372036, Nsec: 854775807}
	c15MinNs = c15T{Sec: -9223372037, Nsec: 145224192}
	// short list: one representative per region
	c15ExtremeShort = []c15T{c15ZeroT, {Sec: -(1 << 40)}, c15MinNs.add(-1), c15MaxNs.add(1), {Sec: 253402300799, Nsec: 999999999}, {Sec: 1 << 40}}
	c15ExtremeFull  = append([]c15T{
		{Sec: c15ZeroT.Sec + 86400*200}, // inside year 1
		c15MinNs, c15MinNs.add(1), c15MaxNs, c15MaxNs.add(-1),
		{Sec: -9214560000},  // 1678-01-01
		{Sec: 9246182400},   // 2263-01-01
		{Sec: 253370764800}, // 9999-01-01
	}, c15ExtremeShort...)
)

// c15QueryZone picks the location in which a query instant is handed to the library
// (a function of the instant only, so that a replay sees the same time.Time).
func c15QueryZone(t c15T) int {
	switch (t.Sec%3 + t.Nsec%3 + 6) % 3 {
	case 1:
		return 5*3600 + 1800
	case 2:
		return -8 * 3600
	}
	return 0
}

// c15Instants lists every distinct instant class of an update list: just below the first
// timestamp, every timestamp, a point strictly between neighbours, just above the last one,
// the year 2100, and the extreme instants (short or full list). Sorted ascending; pos gives
// the position relative to the stored timestamps, prefixed with x for an extreme instant.
func c15Instants(us []c15Upd, extremes []c15T) (ts []c15T, pos []string) {
	var d []c15T
	seen := map[c15T]bool{}
	for _, u := range us {
		if !seen[u.At] {
			seen[u.At] = true
			d = append(d, u.At)
		}
	}
	sort.Slice(d, func(i, j int) bool { return d[i].less(d[j]) })
	extreme := map[c15T]bool{}
	have := map[c15T]bool{}
	add := func(t c15T) {
		if !have[t] {
			have[t] = true
			ts = append(ts, t)
		}
	}
	if len(d) == 0 {
		add(c15OfTime(c15Stamp))
	} else {
		add(d[0].add(-1))
		for i, x := range d {
			add(x)
			if i+1 < len(d) {
				mid := c15T{x.Sec + (d[i+1].Sec-x.Sec)/2, x.Nsec}
				if !(x.less(mid) && mid.less(d[i+1])) {
					mid = x.add(1)
				}
				if x.less(mid) && mid.less(d[i+1]) {
					add(mid)
				}
			}
		}
		add(d[len(d)-1].add(1))
	}
	add(c15T{Sec: 4102444800}) // 2100-01-01
	for _, t := range extremes {
		extreme[t] = true
		add(t)
	}
	sort.Slice(ts, func(i, j int) bool { return ts[i].less(ts[j]) })
	for _, t := range ts {
		p := "between"
		switch {
		case seen[t]:
			p = "at"
		case len(d) == 0 || d[len(d)-1].less(t):
			p = "above"
		case t.less(d[0]):
			p = "below"
		}
		if extreme[t] {
			p = "x" + p
		}
		pos = append(pos, p)
	}
	return
}

// ---- generator --------------------------------------------------------------------------

var c15Roles = []string{"outer", "inner", "", "stop", "platform"}

// c15Gen draws one base input: children (as relation members; the way view drops type, role
// and orientation) and an unordered bag of updates.
func c15Gen(r *gen.R) (children []c15Child, ups []c15Upd, ann string) {
	n := r.Range(0, 12)
	if r.Chance(0.2) {
		n = r.Range(0, 2)
	}
	m := r.Range(0, 30)
	if r.Chance(0.25) {
		m = r.Range(0, 4)
	}
	ann = "full"
	if x := r.Float64(); x < 0.1 {
		ann = "none"
	} else if x < 0.35 {
		ann = "partial"
	}
	for i := 0; i < n; i++ {
		c := c15Child{Type: r.PickS("node", "way", "relation"), Ref: r.Int64Range(1, 1<<33), Role: c15Roles[r.Intn(len(c15Roles))],
			Version: r.Range(1, 40), CS: r.Int64Range(1, 1<<30), Lat: r.Coord(90), Lon: r.Coord(180)}
		if c.Type == "way" {
			c.Orient = r.Pick(-1, 0, 1)
		}
		switch r.Intn(6) { // shapes of "annotated"
		case 0:
			c.Lat, c.Lon = 0, 0 // version known, location (0,0)
		case 1:
			c.Version, c.CS = 0, 0 // location known, version not
		case 2:
			c.Lat = 0
		}
		if ann == "none" || ann == "partial" && r.Chance(0.4) {
			c.Version, c.CS, c.Lat, c.Lon = 0, 0, 0, 0
		}
		children = append(children, c)
	}
	// repeated ids: children are positions, equal ids at different positions are unrelated
	// as far as applying goes (closed way / member listed twice, figure-eight, a node
	// visited twice in the middle, one id everywhere). The twin carries the same child
	// (as annotation produces) or the same id with other values.
	if n >= 2 && r.Chance(0.35) {
		twin := func(dst, src int) {
			if r.Chance(0.7) {
				children[dst] = children[src]
			} else {
				children[dst].Type, children[dst].Ref = children[src].Type, children[src].Ref
				if children[dst].Type != "way" {
					children[dst].Orient = 0
				}
			}
		}
		switch r.Intn(4) {
		case 0: // closed
			twin(n-1, 0)
		case 1: // figure-eight: closed and crossing itself in the middle
			twin(n-1, 0)
			if n >= 5 {
				twin(n-2, 1+r.Intn(n-4))
			}
		case 2: // one child visited twice somewhere
			i := r.Intn(n - 1)
			twin(r.Range(i+1, n-1), i)
		default: // the same id at every position
			for i := 1; i < n; i++ {
				twin(i, 0)
			}
		}
	}
	if ann == "partial" && n > 0 && c15FullyAnnotated(children) {
		c := &children[r.Intn(n)]
		c.Version, c.CS, c.Lat, c.Lon = 0, 0, 0, 0
	}
	// timestamp pool: few distinct values so that duplicates are the rule
	pool := r.Pick(1, 2, 3, 5, 8, 30)
	base := r.Int64Range(1104537600, 1893456000)
	var times []c15T
	for len(times) < pool {
		t := c15T{Sec: base + r.Int64Range(0, 400)*int64(r.Pick(1, 60, 86400))}
		switch r.Intn(5) {
		case 0:
			t.Nsec = int64(r.Intn(1_000_000_000))
		case 1:
			if len(times) > 0 { // one nanosecond away from another pool member
				t = times[r.Intn(len(times))].add(int64(r.Pick(-1, 1)))
			}
		}
		times = append(times, t)
	}
	if r.Chance(0.2) { // extreme update timestamps (sentinels, uninitialised times)
		for i, k := 0, r.Range(1, 3); i < k; i++ {
			times[r.Intn(len(times))] = c15ExtremeFull[r.Intn(len(c15ExtremeFull))]
		}
	}
	focus := -1
	if n > 0 && r.Chance(0.3) {
		focus = r.Intn(n)
	}
	nOOR := 0
	if r.Chance(0.12) {
		nOOR = r.Range(1, 2)
	}
	for i := 0; i < m; i++ {
		u := c15Upd{Version: r.Range(1, 60), At: times[r.Intn(len(times))], CS: r.Int64Range(1, 1<<30),
			Lat: r.Coord(90), Lon: r.Coord(180), Reverse: r.Chance(0.3)}
		switch {
		case n == 0 || i < nOOR:
			u.Index = c15BeyondIndex(r, n)
		case focus >= 0 && r.Chance(0.6):
			u.Index = focus
		default:
			u.Index = r.Intn(n)
		}
		if r.Chance(0.05) {
			u.Lat, u.Lon = 0, 0
		}
		if u.Index < n && r.Chance(0.3) {
			// near-equal update: the child as it is (or as an earlier update of the same
			// child leaves it) with only a subset of {version, changeset, location,
			// reverse} different; mask 0 is the update that changes nothing
			base := c15Upd{Version: children[u.Index].Version, CS: children[u.Index].CS, Lat: children[u.Index].Lat, Lon: children[u.Index].Lon}
			if r.Bool() {
				for j := len(ups) - 1; j >= 0; j-- {
					if ups[j].Index == u.Index {
						base = ups[j]
						break
					}
				}
			}
			u = c15Differ(base, u.Index, u.At, r.Intn(16), r.Range(1, 3))
		}
		if r.Chance(0.25) {
			u.Zone = r.Range(-12, 14) * 3600
		}
		ups = append(ups, u)
	}
	r.Shuffle(len(ups), func(i, j int) { ups[i], ups[j] = ups[j], ups[i] })
	return
}

// c15Differ makes the update that differs from the state base describes in exactly the
// things of mask: 1 version, 2 changeset, 4 location, 8 reverse flag.
func c15Differ(base c15Upd, index int, at c15T, mask, step int) c15Upd {
	u := c15Upd{Index: index, At: at, Version: base.Version, CS: base.CS, Lat: base.Lat, Lon: base.Lon}
	if mask&1 != 0 {
		u.Version += step
	}
	if mask&2 != 0 {
		u.CS += int64(step)
	}
	if mask&4 != 0 {
		u.Lat += 0.125 * float64(step)
		if mask&16 == 0 {
			u.Lon -= 0.25 * float64(step)
		}
	}
	u.Reverse = mask&8 != 0
	return u
}

// c15DiffMask says in which of the four things an update differs from a child.
func c15DiffMask(u c15Upd, c c15Child) int {
	m := 0
	if u.Version != c.Version {
		m |= 1
	}
	if u.CS != c.CS {
		m |= 2
	}
	if u.Lat != c.Lat || u.Lon != c.Lon {
		m |= 4
	}
	if u.Reverse {
		m |= 8
	}
	return m
}

// c15BeyondIndex draws an index beyond a child list of length n, of every magnitude: just
// beyond, around 2^16 and 2^31, 2^32 and 2^40 plus a small (otherwise valid) index, the
// largest int.
func c15BeyondIndex(r *gen.R, n int) int {
	k := 0 // an index that would be valid on its own
	if n > 0 {
		k = r.Intn(n)
	}
	var v int64
	switch r.Intn(10) {
	case 0, 1:
		v = int64(n)
	case 2:
		v = int64(n + r.Range(1, 3))
	case 3:
		v = 1<<16 + int64(r.Pick(-1, 0, 1, k))
	case 4:
		v = 1<<31 + int64(r.Pick(-1, 0, 1, k))
	case 5, 6:
		v = 1<<32 + int64(k)
	case 7:
		v = 1<<32 + int64(n)
	case 8:
		v = 1<<40 + int64(k)
	default:
		v = math.MaxInt64 - int64(r.Pick(0, 1))
	}
	if v < int64(n) || int64(int(v)) != v { // 32-bit int: stay just beyond
		v = int64(n)
	}
	return int(v)
}

func c15IndexClass(idx, n int) string {
	d := int64(idx)
	switch {
	case d < 0:
		return "negative"
	case d < int64(n):
		return "valid"
	case d <= int64(n)+3:
		return "just-beyond"
	case d < 1<<31-1:
		return "lt-2^31"
	case d < 1<<32:
		return "2^31..2^32"
	case d < 1<<33:
		if d-1<<32 < int64(n) {
			return "2^32+valid"
		}
		return "2^32+"
	case d < math.MaxInt64-1:
		if d >= 1<<40 && d-1<<40 < int64(n) {
			return "2^40+valid"
		}
		return "huge"
	}
	return "maxint"
}

var c15Orders = []string{"index", "time", "shuffled", "interleaved"}

// c15Store lays the bag of updates out in one of the stored orders.
func c15Store(r *gen.R, ups []c15Upd, order string) []c15Upd {
	out := append([]c15Upd(nil), ups...)
	byTime := func(s []c15Upd) {
		sort.SliceStable(s, func(i, j int) bool { return s[i].At.less(s[j].At) })
	}
	switch order {
	case "index": // as annotation produces: by child, then time, then version
		sort.SliceStable(out, func(i, j int) bool {
			a, b := out[i], out[j]
			if a.Index != b.Index {
				return a.Index < b.Index
			}
			if a.At != b.At {
				return a.At.less(b.At)
			}
			return a.Version < b.Version
		})
	case "time":
		byTime(out)
	case "shuffled":
		r.Shuffle(len(out), func(i, j int) { out[i], out[j] = out[j], out[i] })
	case "interleaved": // children interleaved at random, each child's own updates in time order
		r.Shuffle(len(out), func(i, j int) { out[i], out[j] = out[j], out[i] })
		slots := map[int][]int{}
		for p, u := range out {
			slots[u.Index] = append(slots[u.Index], p)
		}
		for _, ps := range slots {
			var mine []c15Upd
			for _, p := range ps {
				mine = append(mine, out[p])
			}
			byTime(mine)
			for q, p := range ps {
				out[p] = mine[q]
			}
		}
	}
	return out
}

// ---- consumer: multipolygon member orientation through annotate.Relations --------------

// c15Annotate annotates a multipolygon relation committed at t whose way members are the
// given ring ways, and returns the canonical dump of the annotated relation.
func c15Annotate(rings []c15Input, roles []string, t c15T) (string, error) {
	ds := &osm.HistoryDatasource{Ways: map[osm.WayID]osm.Ways{}}
	rel := &osm.Relation{ID: 501, Visible: true, Version: 1, ChangesetID: 7, Timestamp: t.time(0),
		Tags: osm.Tags{{Key: "type", Value: "multipolygon"}}}
	first := t
	for _, in := range rings {
		for _, u := range in.Updates {
			if u.At.less(first) {
				first = u.At
			}
		}
	}
	for i, in := range rings {
		w := in.way()
		w.ID = osm.WayID(600 + i)
		w.Version, w.ChangesetID, w.Committed, w.Bounds = 1, 3, nil, nil
		w.Timestamp = first.add(-3600_000_000_000).time(0)
		ds.Ways[w.ID] = osm.Ways{w}
		rel.Members = append(rel.Members, osm.Member{Type: osm.TypeWay, Ref: int64(w.ID), Role: roles[i]})
	}
	err := annotate.Relations(context.Background(), osm.Relations{rel}, ds)
	return eq.Dump(rel), err
}

func c15GenRing(r *gen.R, times []c15T) (children []c15Child, bag []c15Upd) {
	k := r.Range(3, 7)
	cx, cy := r.Coord(80), r.Coord(170)
	for i := 0; i < k; i++ {
		children = append(children, c15Child{Ref: int64(1000 + i), Version: r.Range(1, 9), CS: int64(r.Range(1, 99)),
			Lat: cx + float64(r.Range(-5000, 5000))/1e4, Lon: cy + float64(r.Range(-5000, 5000))/1e4})
	}
	children = append(children, children[0]) // closed ring
	m := r.Range(1, 8)
	for i := 0; i < m; i++ {
		bag = append(bag, c15Upd{Index: r.Intn(k + 1), Version: r.Range(10, 40), At: times[r.Intn(len(times))], CS: int64(r.Range(100, 999)),
			Lat: cx + float64(r.Range(-5000, 5000))/1e4, Lon: cy + float64(r.Range(-5000, 5000))/1e4})
	}
	return
}

// consumer checks, for every instant, that annotating with ways that still carry their
// updates gives the same relation as annotating with ways on which the reference has
// already applied the updates up to that instant (geometry-at-time seen through its user).
func (x *c15Run) consumer(rings []c15Input, roles []string, order string) {
	var all []c15Upd
	for _, in := range rings {
		all = append(all, in.Updates...)
	}
	// only extremes after the ways exist: year 9999 and time.Unix(1<<40, 0) as "latest" sentinels
	ts, pos := c15Instants(all, []c15T{{Sec: 253402300799, Nsec: 999999999}, {Sec: 1 << 40}})
	for i, t := range ts {
		applied := make([]c15Input, len(rings))
		stripped := make([]c15Input, len(rings))
		lbi := false
		for j, in := range rings {
			applied[j], _ = c15RefApply(in, t)
			stripped[j] = c15Input{Children: in.Children}
			for _, u := range in.Updates {
				if !t.less(u.At) {
					stripped[j].Updates = append(stripped[j].Updates, u)
				}
			}
			lbi = lbi || c15LateBeforeInTime(in.Updates, t)
		}
		got, errA := c15Annotate(rings, roles, t)
		want, errB := c15Annotate(applied, roles, t)
		x.res.Add("consumer_annotate_pairs", 1)
		x.res.Event(1)
		sig := fmt.Sprintf("consumer/%s/members%d/t-%s/lbi%v", order, len(rings), pos[i], lbi)
		if x.sigs[sig] {
			sig = ""
		} else {
			x.sigs[sig] = true
		}
		x.res.Eval(sig)
		if errA != nil || errB != nil {
			if (errA == nil) != (errB == nil) {
				x.res.Violate("C15/consumer/error-differs", fmt.Sprintf("annotate.Relations: %v with pending updates, %v with the updates applied", errA, errB), nil)
			}
			x.res.Add("consumer_annotate_errors", 1)
			continue
		}
		// the ways differ between the two runs only in what the relation never shows
		if got == want {
			continue
		}
		x.res.Add("violating_observations", 1)
		key := "C15/consumer/mismatch"
		if lbi {
			if again, err := c15Annotate(stripped, roles, t); err == nil && again == want {
				key = "C15/consumer/late-update-before-intime"
			}
		}
		if x.keys[key] {
			continue
		}
		x.keys[key] = true
		var desc []any
		for _, in := range rings {
			desc = append(desc, in.describe())
		}
		x.res.Violate(key, "multipolygon member annotation at the relation's commit time differs from the one computed on ways with the updates already applied: "+eq.Diff(want, got),
			map[string]any{"ways": desc, "roles": roles, "relation_timestamp": t.String()})
	}
}

// ---- driver -----------------------------------------------------------------------------

type c15Run struct {
	res      *fw.Result
	sigs     map[string]bool
	keys     map[string]bool
	maxPair  int
	extremes []c15T
	r        *gen.R
}

func c15Class(n int, bounds ...int) string {
	for _, b := range bounds {
		if n <= b {
			return fmt.Sprintf("le%d", b)
		}
	}
	return "big"
}

func (x *c15Run) report(in c15Input, fails []c15Fail, eval func(c15Input) []c15Fail) {
	for _, f := range fails {
		x.res.Add("violating_observations", 1)
		if x.keys[f.key] {
			continue
		}
		x.keys[f.key] = true
		small, sf := c15Shrink(in, f.key, eval)
		sf.detail["unshrunk_children"] = len(in.Children)
		sf.detail["unshrunk_updates"] = len(in.Updates)
		sf.detail["input"] = small.describe()
		x.res.Violate(f.key, sf.what, sf.detail)
	}
}

// check runs all oracles on one stored input.
func (x *c15Run) check(in c15Input, order, ann string) {
	count := func(name string) { x.res.Add(name, 1) }
	ts, pos := c15Instants(in.Updates, x.extremes)
	distinct := map[c15T]bool{}
	for _, u := range in.Updates {
		distinct[u.At] = true
	}
	oorClass := "inrange"
	if c15HasOOR(in) {
		oorClass = "oor"
	}
	rep := "" // some id occurs at more than one position
	ids := map[string]bool{}
	for _, c := range in.Children {
		id := fmt.Sprint(c.Type, c.Ref)
		if ids[id] {
			rep = "/rep"
			x.res.Add("stored_inputs_with_repeated_ids", 1)
			break
		}
		ids[id] = true
	}
	static := fmt.Sprintf("%s/%s/n%s/m%s/ts%s/%s/%s/ord%v%s", in.kind(), order, c15Class(len(in.Children), 0, 1, 4, 12),
		c15Class(len(in.Updates), 0, 1, 5, 15, 30), c15Class(len(distinct), 0, 1, 3, 8, 30), oorClass, ann, c15ChildOrdered(in.Updates), rep)
	for _, u := range in.Updates {
		if u.Index < len(in.Children) {
			if cl := fmt.Sprintf("diffmask/%s/%02d", in.kind(), c15DiffMask(u, in.Children[u.Index])); !x.sigs[cl] {
				x.sigs[cl] = true
				x.res.Put("update_differs_from_child_in_subsets", cl[len("diffmask/"):])
			}
		}
		if u.Index >= len(in.Children) {
			if cl := "oorclass/" + c15IndexClass(u.Index, len(in.Children)); !x.sigs[cl] {
				x.sigs[cl] = true
				x.res.Put("out_of_range_index_classes", cl[len("oorclass/"):])
			}
		}
	}
	x.res.SetMax("children", int64(len(in.Children)))
	x.res.SetMax("updates", int64(len(in.Updates)))
	x.res.SetMax("distinct_timestamps", int64(len(distinct)))
	x.res.SetMax("instants_per_input", int64(len(ts)))
	x.res.Add("stored_inputs", 1)
	for i, t := range ts {
		t := t
		fails := c15EvalAt(in, t, count)
		oorAt := "" // out-of-range update due at t / only pending at t
		for _, u := range in.Updates {
			if u.Index >= len(in.Children) {
				if !t.less(u.At) {
					oorAt = "/oor-due"
					break
				}
				oorAt = "/oor-pending"
			}
		}
		sig := fmt.Sprintf("%s/t-%s/lbi%v%s", static, pos[i], c15LateBeforeInTime(in.Updates, t), oorAt)
		if len(in.Updates) == 0 && len(in.Children) == 0 {
			sig = ""
		}
		if sig != "" && x.sigs[sig] {
			sig = "" // one signature per case is enough; evaluations are still counted
		} else if sig != "" {
			x.sigs[sig] = true
		}
		x.res.Eval(sig)
		x.res.Event(1)
		if len(fails) > 0 {
			x.report(in, fails, func(y c15Input) []c15Fail { return c15EvalAt(y, t, func(string) {}) })
		}
	}
	if fails := c15EvalKept(in, ts, count); len(fails) > 0 {
		x.report(in, fails, func(y c15Input) []c15Fail { return c15EvalKept(y, ts, func(string) {}) })
	}
	x.res.Eval("")
	// composability: all pairs t1 <= t2 when few, else neighbours, extremes and a sample
	var pairs [][2]int
	if len(ts)*(len(ts)+1)/2 <= x.maxPair {
		for i := range ts {
			for j := i; j < len(ts); j++ {
				pairs = append(pairs, [2]int{i, j})
			}
		}
	} else {
		for i := 0; i+1 < len(ts); i++ {
			pairs = append(pairs, [2]int{i, i + 1})
		}
		pairs = append(pairs, [2]int{0, len(ts) - 1})
		for len(pairs) < x.maxPair {
			i := x.r.Intn(len(ts))
			pairs = append(pairs, [2]int{i, x.r.Range(i, len(ts)-1)})
		}
	}
	for _, p := range pairs {
		t1, t2 := ts[p[0]], ts[p[1]]
		if t2.less(t1) {
			panic("harness: instants not sorted")
		}
		fails := c15EvalPair(in, t1, t2, count)
		x.res.Eval("")
		x.res.Event(1)
		if len(fails) > 0 {
			x.report(in, fails, func(y c15Input) []c15Fail { return c15EvalPair(y, t1, t2, func(string) {}) })
		}
	}
	sig := "pairs/" + static
	if !x.sigs[sig] && len(in.Updates) > 0 {
		x.sigs[sig] = true
		x.res.Eval(sig)
	}
}

func c15WayView(cs []c15Child) []c15Child {
	out := make([]c15Child, len(cs))
	for i, c := range cs {
		out[i] = c15Child{Ref: c.Ref, Version: c.Version, CS: c.CS, Lat: c.Lat, Lon: c.Lon}
	}
	return out
}

// c15EnumChildren gives the fixed children of the enumerated part.
func c15EnumChildren(n int, hole, closed bool) []c15Child {
	var cs []c15Child
	for i := 0; i < n; i++ {
		c := c15Child{Type: "way", Ref: int64(100 + i), Role: "outer", Version: 1 + i, CS: int64(50 + i),
			Lat: float64(i+1) * 1.5, Lon: float64(i+1) * -2.25, Orient: []int{1, -1, 0}[i%3]}
		if hole && i == 0 {
			c.Version, c.CS, c.Lat, c.Lon = 0, 0, 0, 0
		}
		cs = append(cs, c)
	}
	if closed && n >= 2 {
		cs[n-1] = cs[0] // closed way / member listed twice
	}
	return cs
}

func c15Exec(c fw.Case) *fw.Result {
	res := fw.NewResult()
	x := &c15Run{res: res, sigs: map[string]bool{}, keys: map[string]bool{}, maxPair: int(c.Int("maxpair")), r: gen.New(c.Seed, "c15pairs")}
	switch c.Kind {
	case "enum":
		x.extremes = c15ExtremeShort
		// every update list of length <= maxm over (index 0..n, three timestamps[, reverse]);
		// index n is the out-of-range one. Seed independent.
		n, maxm := int(c.Int("n")), int(c.Int("maxm"))
		shard, shards := int(c.Int("shard")), int(c.Int("shards")) // split on the first update
		oorIdx := n                                                // the index used by the out-of-range option
		if c.Int("oor") != 0 {
			oorIdx = int(c.Int("oor"))
		}
		t0 := c15T{Sec: 1400000000}
		stamps := []c15T{t0, t0.add(10_000_000_000), t0.add(20_000_000_000)}
		type opt struct {
			idx, ts int
			rev     bool
		}
		var opts []opt
		for idx := 0; idx <= n; idx++ {
			for ts := range stamps {
				opts = append(opts, opt{idx, ts, false})
			}
		}
		lists := 0
		for _, rel := range []bool{false, true} {
			for _, variant := range []string{"full", "hole", "closed"} {
				hole, closed := variant == "hole", variant == "closed"
				if hole && (n == 0 || rel) || closed && n < 2 {
					continue
				}
				children := c15EnumChildren(n, hole, closed)
				if !rel {
					children = c15WayView(children)
				}
				ann := "full"
				if hole {
					ann = "partial"
				}
				var rec func(prefix []c15Upd)
				rec = func(prefix []c15Upd) {
					if len(prefix) > 0 || shard == 0 {
						in := c15Input{Rel: rel, Children: children, Updates: append([]c15Upd(nil), prefix...)}
						x.check(in, "enum", ann)
						lists++
					}
					if len(prefix) == maxm {
						return
					}
					for oi, o := range opts {
						p := len(prefix)
						if p == 0 && oi%shards != shard {
							continue
						}
						idx := o.idx
						if idx == n {
							idx = oorIdx
						}
						u := c15Upd{Index: idx, Version: 10 + p, At: stamps[o.ts], CS: int64(900 + p), Lat: 40 + float64(p), Lon: -70 - float64(p)}
						rec(append(prefix, u))
						if rel && len(prefix) < 2 && o.idx < n {
							u.Reverse = true
							rec(append(prefix, u))
						}
					}
				}
				rec(nil)
			}
		}
		res.Add("enumerated_lists", int64(lists))
		res.Sample = map[string]any{"children": n, "max_updates": maxm, "timestamps": 3, "lists": lists}
	case "subsets":
		// every subset of {version, changeset, location, reverse} as the difference between
		// an update and the child it names (and between two successive updates of one
		// child), for way nodes and for members; with and without changeset metadata.
		x.extremes = c15ExtremeShort
		t0 := c15T{Sec: 1400000000}
		lists := 0
		sh := int(c.Int("shard")) // 12 shards: kind x changeset metadata x child
		for _, rel := range []bool{sh&1 == 1} {
			for _, nocs := range []bool{sh&2 == 2} {
				children := []c15Child{
					{Type: "way", Ref: 11, Role: "outer", Version: 3, CS: 40, Lat: 1.5, Lon: 2.5, Orient: 1},
					{Type: "node", Ref: 12, Role: "stop", Version: 7, CS: 41, Lat: -3.25, Lon: 4.75},
					{Type: "way", Ref: 13, Role: "inner", Version: 1, CS: 42, Lat: 5.5, Lon: -6.5, Orient: -1},
				}
				if nocs {
					for i := range children {
						children[i].CS = 0
					}
				}
				if !rel {
					children = c15WayView(children)
				}
				for idx := sh >> 2; idx == sh>>2; idx++ {
					c := children[idx]
					base := c15Upd{Version: c.Version, CS: c.CS, Lat: c.Lat, Lon: c.Lon}
					for m1 := 0; m1 < 16; m1++ {
						u1 := c15Differ(base, idx, t0, m1, 1)
						x.check(c15Input{Rel: rel, Children: children, Updates: []c15Upd{u1}}, "subsets", "full")
						lists++
						for m2 := 0; m2 < 16; m2++ {
							for _, later := range []bool{false, true} {
								at := t0
								if later {
									at = t0.add(5_000_000_000)
								}
								u2 := c15Differ(u1, idx, at, m2, 2)
								// a bystander update of another child stored in between
								by := c15Differ(c15Upd{Version: 9, CS: 9, Lat: 9, Lon: 9}, (idx+1)%len(children), t0.add(2_000_000_000), 7, 1)
								x.check(c15Input{Rel: rel, Children: children, Updates: []c15Upd{u1, by, u2}}, "subsets", "full")
								lists++
							}
						}
					}
				}
			}
		}
		res.Add("subset_lists", int64(lists))
		res.Sample = map[string]any{"subsets": 16, "lists": lists}
	case "consumer":
		r := gen.New(c.Seed, "c15consumer")
		for b := 0; b < int(c.Int("batch")); b++ {
			base := r.Int64Range(1262304000, 1893456000)
			var times []c15T
			for i, n := 0, r.Pick(2, 3, 5); i < n; i++ {
				times = append(times, c15T{Sec: base + r.Int64Range(0, 300)*60})
			}
			nw := r.Pick(1, 1, 2)
			roles := []string{"outer", "inner"}[:nw]
			if nw == 1 && r.Chance(0.3) {
				roles = []string{"inner"}
			}
			var kids [][]c15Child
			var bags [][]c15Upd
			for i := 0; i < nw; i++ {
				k, bg := c15GenRing(r, times)
				kids, bags = append(kids, k), append(bags, bg)
			}
			for _, order := range c15Orders {
				rings := make([]c15Input, nw)
				for i := range rings {
					rings[i] = c15Input{Children: kids[i], Updates: c15Store(r, bags[i], order)}
				}
				x.consumer(rings, roles, order)
				if b == 0 && order == "index" {
					res.Sample = map[string]any{"first_way": rings[0].describe(), "roles": roles, "orders": c15Orders}
				}
			}
		}
	case "random":
		x.extremes = c15ExtremeFull
		r := gen.New(c.Seed, "c15")
		for b := 0; b < int(c.Int("batch")); b++ {
			children, bag, ann := c15Gen(r)
			res.Add("base_inputs", 1)
			if len(children) > 0 && b%10 == 0 {
				// negative index: outside the statement. Executed, outcome recorded, nothing asserted.
				for _, rel := range []bool{false, true} {
					in := c15Input{Rel: rel, Children: children, Updates: []c15Upd{{Index: -1 - r.Intn(3), Version: 2, At: c15T{Sec: 1400000000}}}}
					err, pan := c15Call(in.build(), c15T{Sec: 1500000000}.time(0))
					switch {
					case pan != nil:
						res.Add("negative_index_probe_panicked", 1)
					case err != nil:
						res.Add("negative_index_probe_error", 1)
					default:
						res.Add("negative_index_probe_nil", 1)
					}
				}
			}
			for _, order := range c15Orders {
				stored := c15Store(r, bag, order)
				for _, rel := range []bool{false, true} {
					in := c15Input{Rel: rel, Children: children, Updates: stored}
					a := ann
					if !rel {
						in.Children = c15WayView(children)
					} else {
						a = "rel"
					}
					x.check(in, order, a)
					if b == 0 && order == "index" && !rel {
						res.Sample = map[string]any{"first_input_of_batch": in.describe(), "orders": c15Orders, "batch": c.Int("batch")}
					}
				}
			}
		}
	}
	return res
}

func init() {
	fw.Register(&fw.Prop{
		ID:    "C15",
		Level: "exploration",
		Rule: "enumerated part (seed independent): 0-3 children, every update list of length <= 3 (4 in thorough) over (index 0..n where n is out of range, three timestamps, reverse flag on relations), fully annotated, with an unannotated first node, and closed (last child = first child); " +
			"subsets part (seed independent): an update differing from the child it names in every subset of {version, changeset, location, reverse flag} (incl. none), alone and followed by a second update of the same child differing from the first in every subset, way nodes and members, with and without changeset metadata; " +
			"random part: 30% of the in-range updates are such near-equal updates (relative to the child or to an earlier update of it); 0-12 children (annotated in several shapes / partially / not), 0-30 updates drawn over a pool of 1-30 timestamps (duplicates, 1 ns neighbours, non-UTC locations), ids repeated across positions in 35% of inputs with >= 2 children (closed, figure-eight, one child twice, one id everywhere; twin identical or same id with other values), up to 2 out-of-range indices in 12% of inputs, each bag stored index-sorted, time-sorted, shuffled and interleaved (children mixed, each child in time order), as a way and as a relation. " +
			"consumer part: multipolygon relations with 1-2 closed, fully annotated way members (3-7 nodes, 1-8 updates, four stored orders) annotated through annotate.Relations at every instant as the relation's commit time, once with the ways carrying their updates and once with the reference-applied ways (the only public path into internal/mputil.Group -> LineStringAt). " +
			"Per stored input every distinct instant (zero time, just below, at, between, just above, far future) is evaluated against the reference transition; pairs t1<=t2 for composability (all pairs when few). " +
			"A signature is (kind, stored order, size classes of children/updates/distinct timestamps, out-of-range class, annotation class, child-ordered flag, position of t, late-update-stored-before-in-time-one flag); distinct_nontrivial counts distinct signatures.",
		Assumptions: []string{
			"negative update indices are outside the statement: never part of an asserted input; a few are executed under recover and the outcome (panic / error / nil) is only counted",
			"out-of-range indices come in every magnitude (len, len+1.., around 2^16 and 2^31, 2^32+valid, 2^32+len, 2^40+valid, MaxInt64); the statement's 'beyond the child list => error' is the only thing asserted for them",
			"children are built with every field populated: fields the model does not control (found by reflection, today Member.Nodes) get position-derived values and must survive an apply unchanged",
			"when an in-time update is out of range only the error (errors.As *osm.UpdateIndexOutOfRangeError, carrying an out-of-range index of the list), absence of a panic and 'no unnamed child changed' are asserted; whether in-range updates before it were applied and what Updates then holds is not",
			"an out-of-range index carried only by an update later than t is not this call's business: the in-time updates must be applied, nil returned and the bad update stay pending; it must be reported by the call whose t reaches it (also as the second step of a two-step application)",
			"shared update lists are ordinary inputs: every application runs on a struct copy (children cloned, Updates backing array shared with the original and with sibling copies), as a caller makes 'a copy' of an element; the original's update list and children must read exactly as before and LineStringAt on the original must still answer correctly. ApplyUpdatesUpTo may re-point the Updates field of its receiver but must not write into the list's elements",
			"LineStringAt equality is asserted only for fully annotated ways (every node has a version or a location) whose in-time updates are in range; generated updates always carry version >= 1, so an applied update never turns a node into the 'no location' shape; partially annotated ways are executed and their disagreement with apply-then-LineString is only counted",
			"composition with apply(t2) directly is asserted only when each child's updates are stored in time order; otherwise the two-step result is compared with two reference steps only",
			"the Reverse flag is generated for every update but only way members carry a non-zero orientation; way nodes have no orientation and must ignore it",
			"LineStringAt and Updates.UpTo are queries: they must leave their receiver unchanged",
			"a LineStringAt result belongs to the caller: results for all instants of one way (and of a struct copy of it) are kept and compared afterwards; a later query must not change an earlier result and writing into one result must not change another or the way",
			"after a refused ApplyUpdatesUpTo (in-time out-of-range index) the updates later than t must all still be in the list in original order; which in-time updates remain is not asserted",
			"consumer part: no orientation semantics are asserted, only that annotate.Relations gives the same relation whether a member way still carries its updates or has had those up to the relation's commit time applied by the reference model",
		},
		Cases: func(tier string, seed uint64) []fw.Case {
			ncases, batch, maxm, maxpair, ncons := 100, 20, 3, 80, 8
			if tier == "thorough" {
				ncases, batch, maxm, maxpair, ncons = 1000, 100, 4, 80, 80
			}
			var cs []fw.Case
			for n := 0; n <= 3; n++ {
				shards := []int{1, 1, 3, 6}[n] // keeps every enum case short (a first update option has 3(n+1) values)
				if tier == "thorough" {
					shards = []int{1, 2, 9, 12}[n]
				}
				for sh := 0; sh < shards; sh++ {
					cs = append(cs, fw.Case{Kind: "enum", P: map[string]int64{"n": int64(n), "maxm": int64(maxm), "maxpair": 1000, "shard": int64(sh), "shards": int64(shards)}})
				}
			}
			if math.MaxInt > 1<<32 { // out-of-range option = 2^32 + a valid index
				for n := 1; n <= 2; n++ {
					cs = append(cs, fw.Case{Kind: "enum", P: map[string]int64{"n": int64(n), "maxm": int64(maxm - 1), "maxpair": 1000, "shard": 0, "shards": 1, "oor": 1<<32 + int64(n-1)}})
				}
			}
			for sh := 0; sh < 12; sh++ {
				cs = append(cs, fw.Case{Kind: "subsets", P: map[string]int64{"maxpair": 1000, "shard": int64(sh)}})
			}
			for i := 0; i < ncases; i++ {
				cs = append(cs, fw.Case{Kind: "random", Seed: gen.Sub(seed, "c15", i), P: map[string]int64{"batch": int64(batch), "maxpair": int64(maxpair)}})
			}
			for i := 0; i < ncons; i++ {
				cs = append(cs, fw.Case{Kind: "consumer", Seed: gen.Sub(seed, "c15consumer", i), P: map[string]int64{"batch": 25}})
			}
			return fw.Number(cs)
		},
		Exec:        c15Exec,
		HangSeconds: 600,
		Exhaustive:  func(string) bool { return true },
	})
}
