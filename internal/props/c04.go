package props

import (
	"bytes"
	"encoding/xml"
	"fmt"
	"reflect"
	"runtime"
	"strings"
	"sync"
	"time"

	"github.com/paulmach/osm"

	"verif/internal/eq"
	"verif/internal/fw"
	"verif/internal/gen"
	"verif/internal/xmlw"
)

// C04 — XML marshal/unmarshal round-trips every object and container.
//
// Monitor shape: round trip against the generated value itself (marshalled by pointer and by
// value; parts held by value also on their own) plus two independent readers of the text: (1) xml.Unmarshal(xml.Marshal(v)) must equal v; (2) the text,
// tokenised by encoding/xml's raw tokenizer, may only use element and attribute names of the
// OSM XML vocabulary table (internal/xmlw/vocab.go) in the places the vocabulary allows;
// (3) osmxml.Scanner over the text must deliver exactly the objects of v, matched to v through
// the positions the tokenizer found (so no marshalling order is assumed).

// c04Fresh returns an empty value of v's type to decode into (v is a pointer).
func c04Fresh(v any) any { return reflect.New(reflect.TypeOf(v).Elem()).Interface() }

// c04ByValue returns the value v points to, boxed as a non-pointer: what a caller hands over
// with xml.Marshal(note) instead of xml.Marshal(&note). Nothing inside it is addressable for
// encoding/xml (except through pointers and slices), so methods with pointer receivers on
// fields held by value are out of reach.
func c04ByValue(v any) any { return reflect.ValueOf(v).Elem().Interface() }

// c04Expected finds the object of v that stands at a position of the marshalled text.
func c04Expected(v any, p xmlw.ObjectPath, counter map[string]int) osm.Object {
	ck := strings.Join(p.Path, "/") + fmt.Sprintf("#%d/", p.ActionIdx) + p.Kind
	idx := counter[ck]
	counter[ck]++
	switch x := v.(type) {
	case *osm.OSM:
		if len(p.Path) == 1 && p.Path[0] == "osm" {
			return xmlPick(x, p.Kind, idx)
		}
	case *osm.Change:
		if len(p.Path) == 2 && p.Path[0] == "osmChange" {
			switch p.Path[1] {
			case "create":
				return xmlPick(x.Create, p.Kind, idx)
			case "modify":
				return xmlPick(x.Modify, p.Kind, idx)
			case "delete":
				return xmlPick(x.Delete, p.Kind, idx)
			}
		}
	case *osm.Diff:
		switch {
		case len(p.Path) == 1 && p.Path[0] == "osm" && p.Kind == "changeset":
			if idx < len(x.Changesets) {
				return x.Changesets[idx]
			}
		case len(p.Path) >= 2 && p.Path[0] == "osm" && p.Path[1] == "action" && p.ActionIdx >= 0 && p.ActionIdx < len(x.Actions):
			a := x.Actions[p.ActionIdx]
			switch {
			case len(p.Path) == 2:
				return xmlPick(a.OSM, p.Kind, idx)
			case len(p.Path) == 3 && p.Path[2] == "old":
				return xmlPick(a.Old, p.Kind, idx)
			case len(p.Path) == 3 && p.Path[2] == "new":
				return xmlPick(a.New, p.Kind, idx)
			}
		}
	default:
		if len(p.Path) == 0 && idx == 0 {
			if o, ok := v.(osm.Object); ok && xmlObjKind(o) == p.Kind {
				return o
			}
		}
	}
	return nil
}

// c04Check runs the oracles for v marshalled by pointer and by value, for the parts of v
// marshalled on their own by value, and attaches to every violation the smallest systematic
// value (one optional part populated) that produces the same violation key, when there is one.
// A by-value violation is only reported when the by-pointer run did not already report the
// same class (one defect, one key).
func c04Check(res *fw.Result, kind string, v any, indent bool, detail map[string]any) {
	first := len(res.Violations)
	c04Run(res, kind, v, indent, false, detail)
	have := map[string]bool{}
	for _, viol := range res.Violations[first:] {
		have[viol.Key] = true
	}
	tmp := fw.NewResult()
	c04Run(tmp, kind, v, indent, true, detail)
	res.Event(tmp.Events)
	for k, n := range tmp.Counts {
		res.Add(k, n)
	}
	for _, viol := range tmp.Violations {
		if !have[strings.Replace(viol.Key, "/"+kind+".byvalue/", "/"+kind+"/", 1)] {
			res.Violate(viol.Key, viol.What, viol.Detail)
		}
	}
	c04PartsRun(res, kind, v, detail)
	for i := first; i < len(res.Violations); i++ {
		if m, ok := res.Violations[i].Detail.(map[string]any); ok {
			if min := c04Minimal(kind, res.Violations[i].Key); min != nil {
				m["minimal_input_with_same_key"] = min
			}
		}
	}
}

var (
	c04MinMu    sync.Mutex
	c04MinCache = map[string]map[string]any{}
)

// c04Minimal is memoised per key: a failing library produces the same key many times.
func c04Minimal(kind, key string) map[string]any {
	c04MinMu.Lock()
	defer c04MinMu.Unlock()
	if m, ok := c04MinCache[kind+"|"+key]; ok {
		return m
	}
	m := c04MinimalSearch(kind, key)
	c04MinCache[kind+"|"+key] = m
	return m
}

func c04MinimalSearch(kind, key string) map[string]any {
	for _, f := range xmlw.Features(kind) {
		g := &xmlw.G{R: gen.New(1, "c04minimal"), Simple: true, MaxList: 1, Only: f}
		v := g.Value(kind)
		tmp := fw.NewResult()
		c04Run(tmp, kind, v, false, false, nil)
		c04Run(tmp, kind, v, false, true, nil)
		c04PartsRun(tmp, kind, v, nil)
		for _, viol := range tmp.Violations {
			if viol.Key == key {
				out := map[string]any{"only_populated": f, "value": eq.Dump(v)}
				if m, ok := viol.Detail.(map[string]any); ok {
					out["xml"] = m["xml"]
					if g, ok := m["got"]; ok {
						out["got"] = g
					}
					if g, ok := m["part"]; ok {
						out["part"] = g
					}
				}
				return out
			}
		}
	}
	return nil
}

// c04Part is a piece of a value that the library's types hold *by value* (or that has its own
// marshalling method) and that a caller can therefore hand to xml.Marshal on its own.
type c04Part struct {
	name   string // Go type name
	ptr    any    // pointer to a copy of the part
	rootAs map[string]string
}

// c04Parts picks the first part of each type out of v.
func c04Parts(v any) []c04Part {
	var ps []c04Part
	add := func(name string, ptr any, docElem, entry string) {
		for _, p := range ps {
			if p.name == name {
				return
			}
		}
		ps = append(ps, c04Part{name: name, ptr: ptr, rootAs: map[string]string{docElem: entry}})
	}
	tags := func(ts osm.Tags) {
		if len(ts) > 0 {
			t := ts[0]
			add("Tag", &t, "Tag", "tag")
		}
	}
	wayNodes := func(ns osm.WayNodes) {
		if len(ns) > 0 {
			n := ns[0]
			add("WayNode", &n, "WayNode", "nd")
		}
	}
	updates := func(us osm.Updates) {
		if len(us) > 0 {
			u := us[0]
			add("Update", &u, "Update", "update")
		}
	}
	var obj func(o any)
	obj = func(o any) {
		switch x := o.(type) {
		case *osm.Node:
			tags(x.Tags)
		case *osm.Way:
			tags(x.Tags)
			wayNodes(x.Nodes)
			updates(x.Updates)
		case *osm.Relation:
			tags(x.Tags)
			updates(x.Updates)
			for _, m := range x.Members { // prefer a member with nested nodes
				if len(m.Nodes) > 0 {
					m := m
					add("Member", &m, "Member", "member")
					wayNodes(m.Nodes)
					break
				}
			}
			if len(x.Members) > 0 {
				m := x.Members[0]
				add("Member", &m, "Member", "member")
			}
		case *osm.Changeset:
			tags(x.Tags)
			if x.Discussion != nil && len(x.Discussion.Comments) > 0 {
				d := *x.Discussion
				add("ChangesetDiscussion", &d, "ChangesetDiscussion", "discussion")
				c := *x.Discussion.Comments[0]
				add("ChangesetComment", &c, "ChangesetComment", "discussion/comment")
			}
		case *osm.Note:
			if !x.DateCreated.IsZero() {
				d := x.DateCreated
				add("Date", &d, "Date", "date_created")
			}
			if len(x.Comments) > 0 {
				c := *x.Comments[0]
				add("NoteComment", &c, "comment", "comments/comment")
			}
		case *osm.OSM:
			if x == nil {
				return
			}
			for _, e := range x.Nodes {
				obj(e)
			}
			for _, e := range x.Ways {
				obj(e)
			}
			for _, e := range x.Relations {
				obj(e)
			}
			for _, e := range x.Changesets {
				obj(e)
			}
			for _, e := range x.Notes {
				obj(e)
			}
		case *osm.Change:
			obj(x.Create)
			obj(x.Modify)
			obj(x.Delete)
		case *osm.Diff:
			seen := map[osm.ActionType]bool{}
			for _, a := range x.Actions {
				if !seen[a.Type] {
					seen[a.Type] = true
					a := a
					ps = append(ps, c04Part{name: "Action", ptr: &a, rootAs: map[string]string{"Action": "action"}})
				}
				obj(a.OSM)
				obj(a.Old)
				obj(a.New)
			}
			for _, e := range x.Changesets {
				obj(e)
			}
		}
	}
	obj(v)
	return ps
}

// c04PartsRun marshals every part of v on its own, by value and by pointer: the text must
// decode back into an equal part and, apart from the document element (named after the Go
// type by encoding/xml, not judged), use only vocabulary names.
func c04PartsRun(res *fw.Result, kind string, v any, detail map[string]any) {
	for _, p := range c04Parts(v) {
		want := eq.Dump(xmlNorm(p.ptr))
		for _, byValue := range []bool{false, true} {
			label := p.name
			if byValue {
				label += ".byvalue"
			}
			arg := p.ptr
			if byValue {
				arg = c04ByValue(p.ptr)
			}
			det := func(text []byte, extra map[string]any) map[string]any {
				m := map[string]any{"kind": kind, "part": p.name + " " + xmlTrim(want, 2000), "by_value": byValue}
				if text != nil {
					m["xml"] = xmlTrim(string(text), 4000)
				}
				for k, x := range detail {
					m[k] = x
				}
				for k, x := range extra {
					m[k] = x
				}
				return m
			}
			text, err, pan := xmlMarshal(arg, false)
			res.Event(1)
			res.Add("parts_marshalled", 1)
			res.Put("part_types", label)
			if pan != "" || err != nil {
				res.Violate("C04/part/"+label+"/marshal", fmt.Sprintf("xml.Marshal of a %s failed: %v %s", p.name, err, xmlTrim(pan, 300)), det(nil, map[string]any{"panic": xmlTrim(pan, 3000)}))
				break
			}
			back := c04Fresh(p.ptr)
			err, pan = xmlUnmarshal(text, back)
			failed := true
			switch {
			case pan != "":
				res.Violate("C04/part/"+label+"/roundtrip/panic", "xml.Unmarshal panicked on the library's own output", det(text, map[string]any{"panic": xmlTrim(pan, 3000)}))
			case err != nil:
				res.Violate("C04/part/"+label+"/roundtrip/error", fmt.Sprintf("the library cannot decode the %s it wrote: %v", p.name, err), det(text, nil))
			default:
				if g := eq.Dump(xmlNorm(back)); g != want {
					path, class := xmlFirstDiff(xmlNorm(p.ptr), xmlNorm(back))
					res.Violate("C04/part/"+label+"/roundtrip/"+class, fmt.Sprintf("unmarshal(marshal(%s)) differs at %s: %s", p.name, path, eq.Diff(want, g)), det(text, map[string]any{"got": xmlTrim(g, 3000)}))
				} else {
					failed = false
				}
			}
			if issues, _, terr := xmlw.CheckVocabulary(text, p.rootAs); terr != nil {
				res.Violate("C04/part/"+label+"/vocab/not-well-formed", fmt.Sprintf("marshalled %s is not well-formed: %v", p.name, terr), det(text, nil))
				failed = true
			} else {
				seen := map[string]bool{}
				for _, is := range issues {
					if !seen[is.Class] {
						seen[is.Class] = true
						failed = true
						res.Violate("C04/part/"+label+"/vocab/"+is.Class, fmt.Sprintf("marshalled %s uses %s (below %q), which is not OSM XML vocabulary there", p.name, is.Class, is.Where), det(text, nil))
					}
				}
			}
			if failed {
				break // the by-value form would at best repeat the finding under a second key
			}
		}
	}
}

// c04Run marshals v (by pointer or by value) and runs the round trip and the two readers.
func c04Run(res *fw.Result, kindName string, v any, indent, byValue bool, detail map[string]any) {
	kind := kindName
	if byValue {
		kind += ".byvalue" // label used in keys and messages
	}
	wantDump := eq.Dump(xmlNorm(v))
	arg := v
	if byValue {
		arg = c04ByValue(v)
	}
	text, err, pan := xmlMarshal(arg, indent)
	det := map[string]any{"indent": indent, "by_value": byValue}
	for k, x := range detail {
		det[k] = x
	}
	c04Verify(res, kindName, kind, v, wantDump, text, err, pan, det)
}

// c04Verify judges the outcome (text, err, pan) of marshalling v. kind is the label used in
// keys (kindName plus the marshalling form), wantDump the dump of v taken before marshalling.
func c04Verify(res *fw.Result, kindName, kind string, v any, wantDump string, text []byte, err error, pan string, detail map[string]any) {
	det := func(text []byte, extra map[string]any) map[string]any {
		m := map[string]any{"kind": kind, "value": xmlTrim(eq.Dump(v), 5000)}
		if text != nil {
			m["xml"] = xmlTrim(string(text), 6000)
		}
		for k, x := range detail {
			m[k] = x
		}
		for k, x := range extra {
			m[k] = x
		}
		return m
	}
	res.Event(1)
	switch {
	case pan != "":
		res.Violate("C04/marshal/"+kind+"/panic", "xml.Marshal panicked", det(nil, map[string]any{"panic": xmlTrim(pan, 3000)}))
		return
	case err != nil:
		res.Violate("C04/marshal/"+kind+"/error", fmt.Sprintf("xml.Marshal of a representable %s value failed: %v", kind, err), det(nil, nil))
		return
	}
	if after := eq.Dump(xmlNorm(v)); after != wantDump {
		res.Violate("C04/marshal/"+kind+"/mutated", "xml.Marshal changed its argument: "+eq.Diff(wantDump, after), det(text, nil))
		return
	}
	res.Add("marshalled_bytes", int64(len(text)))

	// (1) whole-document round trip
	back := c04Fresh(v)
	err, pan = xmlUnmarshal(text, back)
	res.Event(1)
	switch {
	case pan != "":
		res.Violate("C04/roundtrip/"+kind+"/panic", "xml.Unmarshal panicked on the library's own output", det(text, map[string]any{"panic": xmlTrim(pan, 3000)}))
	case err != nil:
		res.Violate("C04/roundtrip/"+kind+"/error", fmt.Sprintf("the library cannot decode its own output: %v", err), det(text, nil))
	default:
		if g := eq.Dump(xmlNorm(back)); g != wantDump {
			path, class := xmlFirstDiff(xmlNorm(v), xmlNorm(back))
			res.Violate("C04/roundtrip/"+kind+"/"+class, fmt.Sprintf("unmarshal(marshal(v)) differs from v at %s: %s", path, eq.Diff(wantDump, g)),
				det(text, map[string]any{"got": xmlTrim(g, 5000)}))
		}
	}

	// (2) vocabulary
	var rootAs map[string]string
	if kindName == "bounds" {
		// A Bounds marshalled on its own gets encoding/xml's default document-element name,
		// the Go type name "Bounds" (the struct has no XMLName). Both readers accept it and
		// the round trip holds, so the purpose clause of the property is met; whether the
		// document element of a lone value must be "bounds" is ambiguous and not asserted.
		// Only observed.
		rootAs = map[string]string{"Bounds": "bounds"}
		if bytes.HasPrefix(bytes.TrimSpace(text), []byte("<Bounds")) {
			res.Add("standalone_bounds_document_element_is_go_type_name", 1)
		}
	}
	issues, positions, terr := xmlw.CheckVocabulary(text, rootAs)
	if terr != nil {
		res.Violate("C04/vocab/"+kind+"/not-well-formed", fmt.Sprintf("marshalled text is not well-formed XML: %v", terr), det(text, nil))
		return
	}
	seen := map[string]bool{}
	for _, is := range issues {
		if seen[is.Class] {
			continue
		}
		seen[is.Class] = true
		res.Violate("C04/vocab/"+kind+"/"+is.Class, fmt.Sprintf("marshalled %s uses %s (below %q), which is not OSM XML vocabulary there", kind, is.Class, is.Where), det(text, nil))
	}
	res.Add("names_checked_docs", 1)
	if len(issues) > 0 {
		// positions cannot be matched reliably when names are off; the scanner comparison
		// would only repeat the finding
		res.Add("scanner_comparisons_skipped_after_vocabulary_issue", 1)
		return
	}

	// (3) streaming scanner reads the text back
	// ... through a conforming but unhelpful reader (whole / one byte at a time / half of what
	// was asked / random chunks / data together with io.EOF / zero-length reads in between),
	// chosen by the text itself so that the case stays deterministic
	mode := (len(text) + int(text[len(text)/2])) % len(xmlReaderModes)
	res.Add("scanner_reader_"+xmlReaderModes[mode], 1)
	withReader := map[string]any{"reader": xmlReaderModes[mode]}
	for k, x := range detail {
		withReader[k] = x
	}
	detail = withReader
	// ... and driven in one of six legal consumer styles, also chosen by the text
	style := (len(text)/7 + int(text[len(text)/3])) % len(xmlConsumerStyles)
	res.Add("scanner_consumer_"+xmlConsumerStyles[style], 1)
	detail["consumer"] = xmlConsumerStyles[style]
	sc := xmlScanStyled(&xmlHostileReader{data: text, mode: mode, rnd: 0x9E3779B97F4A7C15 ^ uint64(len(text))}, style, len(text))
	objs, skipped, serr, span := sc.Objs, sc.Skipped, sc.Err, sc.Pan
	res.Event(int64(len(objs)))
	for _, p := range sc.Proto {
		res.Violate("C04/scanner/"+kind+"/protocol", p, det(text, nil))
	}
	switch {
	case span != "":
		res.Violate("C04/scanner/"+kind+"/panic", "osmxml.Scanner panicked on the library's own output", det(text, map[string]any{"panic": xmlTrim(span, 3000)}))
	case serr != nil:
		res.Violate("C04/scanner/"+kind+"/error", fmt.Sprintf("scanner cannot read the library's own output: %v", serr), det(text, nil))
	case len(objs) != len(positions):
		res.Violate("C04/scanner/"+kind+"/count", fmt.Sprintf("scanner delivered %d objects (%s), the text holds %d object elements", len(objs), c03Kinds(objs), len(positions)), det(text, nil))
	default:
		counter := map[string]int{}
		for i, o := range objs {
			want := c04Expected(v, positions[i], counter)
			if want == nil {
				res.Violate("C04/scanner/"+kind+"/unexpected-"+positions[i].Kind, fmt.Sprintf("text holds a %s element at %v (action %d) that corresponds to nothing in the value",
					positions[i].Kind, positions[i].Path, positions[i].ActionIdx), det(text, nil))
				break
			}
			if skipped[i] {
				continue
			}
			w, g := eq.Dump(xmlNorm(want)), eq.Dump(xmlNorm(o))
			if w != g {
				path, class := xmlFirstDiff(xmlNorm(want), xmlNorm(o))
				res.Violate("C04/scanner/"+kind+"/"+class, fmt.Sprintf("scanner object %d (%s below %v) differs from the value at %s: %s", i, positions[i].Kind, positions[i].Path, path, eq.Diff(w, g)),
					det(text, map[string]any{"got": xmlTrim(g, 4000)}))
				break
			}
			res.Add("scanner_objects_compared", 1)
		}
	}
}

func c04Observe(res *fw.Result, kind string, v any, g *xmlw.G) {
	res.Add("values", 1)
	res.Add("values_"+kind, 1)
	switch x := v.(type) {
	case *osm.OSM:
		if x.Bounds != nil {
			res.Add("osm_values_with_toplevel_bounds", 1)
		}
	case *osm.Change:
		for _, b := range []*osm.OSM{x.Create, x.Modify, x.Delete} {
			if b != nil && b.Bounds != nil {
				res.Add("osmchange_blocks_with_bounds", 1)
			}
		}
	case *osm.Diff:
		for _, a := range x.Actions {
			res.Add("diff_actions_"+string(a.Type), 1)
		}
	}
}

func c04Exec(c fw.Case) *fw.Result {
	res := fw.NewResult()
	switch c.Kind {
	case "feature":
		kind, feature, mode := c.Str("kind"), c.Str("feature"), c.Str("mode")
		g := &xmlw.G{R: gen.New(c.Seed, "c04feature"), Simple: true, MaxList: 2, Nanos: true}
		if mode == "only" {
			g.Only = feature
		} else {
			g.AllBut = feature
		}
		v := g.Value(kind)
		c04Check(res, kind, v, c.Int("indent") == 1, map[string]any{"systematic": mode + " " + feature})
		c04Observe(res, kind, v, g)
		res.Eval("feature|" + mode + "|" + feature)
		res.Sample = map[string]any{"kind": kind, "feature": feature, "mode": mode, "value": xmlTrim(eq.Dump(v), 1200)}
	case "concurrent":
		c04Concurrent(res, c)
	case "probe":
		c04Probe(res, c)
	case "counts":
		c04CountsCase(res, c)
	case "collisions":
		c04Collisions(res, c)
	case "globals":
		c04Globals(res, c)
	case "random":
		n := int(c.Int("values"))
		for i := 0; i < n; i++ {
			seed := gen.Sub(c.Seed, "c04value", i)
			r := gen.New(seed, "c04random")
			kind := xmlw.Kinds[r.Intn(len(xmlw.Kinds))]
			if r.Chance(0.35) {
				kind = []string{"osm", "change", "diff"}[r.Intn(3)]
			}
			p := []float64{0.2, 0.5, 0.5, 0.8, 1}[r.Intn(5)]
			g := xmlw.NewG(r, p)
			g.Nanos = true
			g.WildFloats = true
			g.MaxList = r.Pick(1, 3, 5)
			v := g.Value(kind)
			indent := r.Chance(0.25)
			c04Check(res, kind, v, indent, map[string]any{"value_seed": seed, "value_index": i})
			c04Observe(res, kind, v, g)
			res.Eval(c04Shape(kind, v))
			if i == 0 {
				res.Sample = map[string]any{"kind": kind, "indent": indent, "marshalled": "by pointer and by value, parts on their own", "value": xmlTrim(eq.Dump(v), 1200)}
			}
		}
	}
	return res
}

// c04YieldWriter is the io.Writer below the encoder in the concurrent cases: the library (through
// encoding/xml's buffered printer) calls it whenever 4 KiB of output are ready — with a long
// root attribute that is in the middle of the start tag — and it yields the processor there.
// Pure schedule perturbation; nothing is measured.
type c04YieldWriter struct {
	buf bytes.Buffer
	n   int
}

func (w *c04YieldWriter) Write(p []byte) (int, error) {
	w.n++
	runtime.Gosched()
	if w.n%3 == 0 {
		time.Sleep(20 * time.Microsecond)
	}
	return w.buf.Write(p)
}

// c04Concurrent: many goroutines marshal different containers (distinct root attributes and
// contents) at the same time; every text must still be the text of *its* value. Marshalling is
// a function of its argument, so concurrent callers must not influence each other (shared
// scratch state in the marshaller is what this looks for). Run plain and under the race
// detector.
func c04Concurrent(res *fw.Result, c fw.Case) {
	type job struct {
		kind string
		v    any
		want string
	}
	n := int(c.Int("values"))
	var jobs []job
	for i := 0; i < n; i++ {
		seed := gen.Sub(c.Seed, "c04cvalue", i)
		r := gen.New(seed, "c04concurrent")
		g := xmlw.NewG(r, 0.6)
		g.Nanos = true
		g.MaxList = 2
		kind := []string{"osm", "change", "osm", "change", "diff"}[i%5]
		v := g.Value(kind)
		// five distinct root attributes per value; one of them (or none) longer than the
		// encoder's output buffer, so that the writer is entered in the middle of the start tag
		hdr := []string{fmt.Sprintf("0.6-%d", i), fmt.Sprintf("generator-%d", i), fmt.Sprintf("copyright-%d", i), fmt.Sprintf("attribution-%d", i), fmt.Sprintf("license-%d", i)}
		for k := range hdr {
			if !r.Chance(0.85) {
				hdr[k] = "" // absent attributes make the attribute lists differ in length too
			}
		}
		if long := i % 6; long < 5 && hdr[long] != "" {
			hdr[long] += strings.Repeat(string(rune('a'+i%26)), 4200+17*i)
		}
		switch x := v.(type) {
		case *osm.OSM:
			x.Version, x.Generator, x.Copyright, x.Attribution, x.License = hdr[0], hdr[1], hdr[2], hdr[3], hdr[4]
		case *osm.Change:
			x.Version, x.Generator, x.Copyright, x.Attribution, x.License = hdr[0], hdr[1], hdr[2], hdr[3], hdr[4]
		}
		jobs = append(jobs, job{kind, v, eq.Dump(xmlNorm(v))})
	}
	const goroutines = 24
	var wg sync.WaitGroup
	start := make(chan struct{})
	for gi := 0; gi < goroutines; gi++ {
		wg.Add(1)
		go func(gi int) {
			defer wg.Done()
			<-start
			for rep := 0; rep < 2; rep++ {
				for i := range jobs {
					j := jobs[(i+gi*7)%len(jobs)]
					var text []byte
					var err error
					var pan string
					if (rep+gi)%2 == 0 {
						w := &c04YieldWriter{}
						pan = xmlGuard(func() { err = xml.NewEncoder(w).Encode(j.v) })
						text = w.buf.Bytes()
					} else {
						text, err, pan = xmlMarshal(j.v, false)
					}
					c04Verify(res, j.kind, j.kind+".concurrent", j.v, j.want, text, err, pan, map[string]any{"goroutine": gi, "goroutines": goroutines})
				}
			}
		}(gi)
	}
	close(start)
	wg.Wait()
	res.Add("concurrent_marshals", int64(goroutines*2*len(jobs)))
	res.Eval("concurrent|" + c.Variant)
	res.Sample = map[string]any{"goroutines": goroutines, "values": len(jobs), "variant": c.Variant}
}

// c04Probe records, without asserting, what happens to container parts the documented shape
// of a diff action does not provide for: a *create* action whose OSM holds more than the one
// new element (further elements, top-level bounds, changesets, notes, users) and header
// attributes on the OSM of old/new. See notes/C04.md ("create containers").
func c04Probe(res *fw.Result, c fw.Case) {
	g := &xmlw.G{R: gen.New(c.Seed, "c04probe"), Simple: true, MaxList: 1, P: 1}
	full := func() *osm.OSM {
		return &osm.OSM{Bounds: &osm.Bounds{MinLat: 1, MaxLat: 2, MinLon: 3, MaxLon: 4}, Nodes: osm.Nodes{g.Node(), g.Node()}, Ways: osm.Ways{g.Way()},
			Changesets: osm.Changesets{g.Changeset()}, Notes: osm.Notes{g.Note()}, Users: osm.Users{g.User()}}
	}
	old, nw := full(), full()
	old.Version, nw.Generator = "0.6", "probe"
	d := &osm.Diff{Actions: osm.Actions{{Type: osm.ActionCreate, OSM: full()}, {Type: osm.ActionModify, Old: old, New: nw}}}
	text, err, pan := xmlMarshal(d, false)
	back := &osm.Diff{}
	var uerr error
	var upan string
	if err == nil && pan == "" {
		uerr, upan = xmlUnmarshal(text, back)
	}
	res.Event(2)
	if pan != "" || upan != "" {
		res.Violate("C04/probe/diff/panic", "marshalling or unmarshalling a diff whose actions hold general containers panicked", map[string]any{"panic": xmlTrim(pan+upan, 3000), "xml": xmlTrim(string(text), 3000)})
	}
	obs := map[string]any{"marshal_error": fmt.Sprint(err), "unmarshal_error": fmt.Sprint(uerr)}
	if err == nil && uerr == nil && len(back.Actions) == 2 {
		lost := func(name string, want, got *osm.OSM) {
			if got == nil {
				got = &osm.OSM{}
			}
			count := func(what string, w, g int) {
				if w != g {
					res.Add("probe_"+name+"_"+what+"_lost", 1)
					obs[name+"."+what] = fmt.Sprintf("%d written, %d read back", w, g)
				} else {
					res.Add("probe_"+name+"_"+what+"_kept", 1)
				}
			}
			b := func(o *osm.OSM) int {
				if o.Bounds != nil {
					return 1
				}
				return 0
			}
			count("bounds", b(want), b(got))
			count("elements", len(want.Nodes)+len(want.Ways)+len(want.Relations), len(got.Nodes)+len(got.Ways)+len(got.Relations))
			count("changesets", len(want.Changesets), len(got.Changesets))
			count("notes", len(want.Notes), len(got.Notes))
			count("users", len(want.Users), len(got.Users))
			h := func(o *osm.OSM) int { return len(o.Version) + len(o.Generator) }
			if h(want) > 0 {
				count("header_attributes", 1, min(h(got), 1))
			}
		}
		lost("create_container", d.Actions[0].OSM, back.Actions[0].OSM)
		lost("old_container", d.Actions[1].Old, back.Actions[1].Old)
		lost("new_container", d.Actions[1].New, back.Actions[1].New)
	}
	res.Eval("")
	obs["xml"] = xmlTrim(string(text), 1500)
	res.Sample = obs
}

// c04Shape is the feature signature of a random value: its kind and, per field of the top
// level (and of block containers), whether it is populated.
func c04Shape(kind string, v any) string {
	d := eq.Dump(v)
	// the dump is "Type{Field:val Field:val ...}"; reduce every top-level field to set/unset
	var sb strings.Builder
	sb.WriteString(kind + "|")
	depth, start := 0, -1
	field := ""
	flush := func(val string) {
		if field == "" {
			return
		}
		switch val {
		case "0", `""`, "false", "nil", "[]", "T0", "Date{Time:T0}":
			sb.WriteByte('0')
		default:
			sb.WriteByte('1')
		}
	}
	inStr := false
	for i := 0; i < len(d); i++ {
		ch := d[i]
		if inStr {
			if ch == '\\' {
				i++
			} else if ch == '"' {
				inStr = false
			}
			continue
		}
		switch ch {
		case '"':
			inStr = true
		case '{', '[':
			depth++
			if depth == 1 {
				start = i + 1
			}
		case '}', ']':
			if depth == 1 && start >= 0 {
				seg := d[start:i]
				if j := strings.IndexByte(seg, ':'); j >= 0 {
					field = seg[:j]
					flush(seg[j+1:])
				}
			}
			depth--
		case ' ':
			if depth == 1 && start >= 0 {
				seg := d[start:i]
				if j := strings.IndexByte(seg, ':'); j >= 0 {
					field = seg[:j]
					flush(seg[j+1:])
				}
				start = i + 1
			}
		}
	}
	return sb.String()
}

func c04Cases(tier string, seed uint64) []fw.Case {
	var cs []fw.Case
	reps := 1
	if tier == "thorough" {
		reps = 4
	}
	for rep := 0; rep < reps; rep++ {
		for ki, kind := range xmlw.Kinds {
			for fi, f := range xmlw.Features(kind) {
				for mi, mode := range []string{"only", "allbut"} {
					cs = append(cs, fw.Case{Kind: "feature", Seed: gen.Sub(seed, "c04f"+mode, ki*1000+fi*10+rep),
						S: map[string]string{"kind": kind, "feature": f, "mode": mode},
						P: map[string]int64{"indent": int64((rep + mi) % 2 * (rep % 2))}})
				}
			}
		}
	}
	// element counts at and around powers of two and multiples of 1024, per container slot
	for _, slot := range c04CountSlots {
		for i := range c04Counts {
			cs = append(cs, fw.Case{Kind: "counts", Seed: gen.Sub(seed, "c04counts", i), S: map[string]string{"slot": slot}, P: map[string]int64{"i": int64(i)}})
		}
	}
	// pairs of distinct strings with equal 32-bit fingerprints (12 functions), planted as
	// neighbouring tag values / keys / roles / user names
	for ri, root := range []string{"osm", "osmChange"} {
		cs = append(cs, fw.Case{Kind: "collisions", Seed: gen.Sub(seed, "xmlcoll", ri), S: map[string]string{"root": root}})
	}
	// process-global settings
	for gi := range xmlGlobals {
		vals := int64(10)
		if tier == "thorough" {
			vals = 100
		}
		cs = append(cs, fw.Case{Kind: "globals", Seed: gen.Sub(seed, "c04glob", gi), P: map[string]int64{"global": int64(gi), "values": vals}})
	}
	for i, v := range []string{"plain", "race", "plain", "race"} {
		if tier != "thorough" && i >= 2 {
			break
		}
		cs = append(cs, fw.Case{Kind: "concurrent", Variant: v, Seed: gen.Sub(seed, "c04conc", i), P: map[string]int64{"values": 24}})
	}
	cs = append(cs, fw.Case{Kind: "probe", Seed: gen.Sub(seed, "c04probe", 0)})
	n := 45
	if tier == "thorough" {
		n = 20000
	}
	for i := 0; i < n; i++ {
		cs = append(cs, fw.Case{Kind: "random", Seed: gen.Sub(seed, "c04r", i), P: map[string]int64{"values": 10}})
	}
	return fw.Number(cs)
}

func init() {
	fw.Register(&fw.Prop{
		ID:    "C04",
		Level: "exploration",
		Rule: "values built by the harness' generator: (a) systematic — for each of bounds/node/way/relation/changeset/note/user/OSM/Change/Diff and each of its optional parts (incl. way-node version/changeset/lat/lon, member version/changeset/lat/lon/orientation/nested nodes, updates, committed, element bounds, top-level bounds of OSM and of each osmChange block, create/modify/delete diff actions) one value with only that part populated and one with all but it; " +
			"(b) PRNG values of all ten kinds with each optional part populated with probability 0.2/0.5/0.8/1, Unicode strings incl. XML specials, tab/LF/CR and boundary code points, nanosecond times (whole seconds for note dates), 7-decimal and arbitrary finite float coordinates, negative/large ids; xml.Marshal and xml.MarshalIndent. " +
			"Every value is marshalled twice — by pointer (xml.Marshal(&v)) and by value (xml.Marshal(v), nothing held by value is addressable) — under the same three oracles, and the parts the types hold by value or that have their own marshalling method (Tag, WayNode, Update, Member, Action per type, Date, NoteComment, ChangesetComment, ChangesetDiscussion) are additionally marshalled on their own, by pointer and by value (round trip + vocabulary below the document element). " +
			"Diff values: create actions hold one element; the Old and New containers of modify/delete actions are general osm.OSM containers (old/new element plus optional top-level bounds, further elements, changesets, notes, users — features diff.actions.container.*). " +
			"(c) concurrent: 24 goroutines marshal 24 different OSM/Change/Diff values (distinct root attributes, one of them longer than the encoder's 4 KiB buffer so that the yielding io.Writer below the encoder is entered in the middle of the start tag) at the same time, plain and under the race detector; every text must be the text of its own value. " +
			"A signature is (kind, populated/unpopulated vector of the top-level fields) for random values and (mode, feature) for systematic ones; distinct_nontrivial counts distinct signatures.",
		Assumptions: []string{
			"equality is eq.Dump equality: times by instant, nil ≡ empty slices, XMLName ignored; a changeset discussion without comments ≡ nil (the marshaller omits it by design); an osmChange block without content ≡ nil",
			"strings hold only characters XML 1.0 can carry (tab, LF, CR, U+0020–U+D7FF, U+E000–U+FFFD, U+10000–U+10FFFF); floats are finite and never negative zero (an omitted zero would read back as +0)",
			"note and note-comment dates are whole seconds (their text format has no fraction); all times are UTC",
			"slices hold no nil pointers; create/modify/delete blocks of a Change carry no header attributes of their own (osmChange has none); diff actions have the documented shape: create holds one element, modify/delete hold one element in Old and one in New",
			"the vocabulary table includes the annotation names the library documents on its structs (committed, update, index, reverse, orientation, nd/member version/changeset/lat/lon)",
			"the document-element name of a Bounds value marshalled on its own (encoding/xml's default, the Go type name) is observed but not asserted: both readers accept it and the round trip holds; bounds inside OSM / osmChange blocks / ways / relations are asserted",
			"parts marshalled on their own get encoding/xml's default document-element name (the Go type name); it is not judged, everything below it is; a by-value violation is reported only when the by-pointer form of the same input did not already report the same class",
			"a create action whose OSM holds more than its one new element (further elements, bounds, changesets, notes, users) and header attributes on an action's OSM/Old/New are outside the documented action shape; one non-asserting probe case records what the library does with them (probe_* counters; on the current tree: all of these are lost, see notes/C04.md)",
			"concurrent cases: marshalling is taken to be a function of its argument, so independent values marshalled at the same time must not influence each other and a data race with a library frame is a violation; the yields in the io.Writer only perturb the schedule",
			"the scanner reads the marshalled text through a conforming but unhelpful io.Reader chosen by the text (whole, one byte at a time, half of the request, random chunks, last data together with io.EOF, zero-length reads with nil error in between); optional times are drawn from a small pool half of the time so that committed == timestamp, update timestamp == parent timestamp, closed_at == created_at, date_closed == date_created and equal times across objects are frequent (all times stay UTC, as the property's quantifier says)",
			"the scanner is driven in six legal consumer styles chosen by the text (canonical; Err after every Scan; Err once after the k-th Scan; Object twice; Object not fetched for every third object, those positions are not compared; Scan called again after it returned false): read-only accessors and legal call orders must not change what is delivered; the value Err returns in mid-scan is not judged",
			"element counts: containers (OSM, each osmChange block, old/new of a diff action) with 0,1,2,1023,1024,1025,2047,2048,2049,3072,4096 nodes / ways / relations of cheap elements round-trip in full; process globals: the same expectations hold with time.Local set to +05:30 / -05:00 / a DST zone / +14:00, GOMAXPROCS=1 and a de_DE locale environment (restored after the case; no goroutines)",
			"collisions: pairs of different equal-length strings with equal 32-bit fingerprints (12 common hash functions; found by a deterministic birthday search at first use) are planted as neighbouring tag values, tag keys, member roles and user names; they are ordinary strings and must come back as written",
			"the scanner comparison matches delivered objects to the value through the positions an independent tokenizer finds in the text; it is skipped for a text that already failed the vocabulary check",
		},
		Cases:   c04Cases,
		Exec:    c04Exec,
		Workers: 12,
		// marshalling is a function of its argument: a data race with a library frame while
		// independent values are marshalled concurrently refutes that
		RaceIsViolation: true,
	})
}
