package props

import (
	"bytes"
	"fmt"
	"strings"

	"github.com/paulmach/osm"

	"verif/internal/eq"
	"verif/internal/fw"
	"verif/internal/gen"
	"verif/internal/xmlw"
)

// C04 — XML marshal/unmarshal round-trips every object and container.
//
// Monitor shape: round trip against the generated value itself plus two independent readers
// of the marshalled text: (1) xml.Unmarshal(xml.Marshal(v)) must equal v; (2) the text,
// tokenised by encoding/xml's raw tokenizer, may only use element and attribute names of the
// OSM XML vocabulary table (internal/xmlw/vocab.go) in the places the vocabulary allows;
// (3) osmxml.Scanner over the text must deliver exactly the objects of v, matched to v through
// the positions the tokenizer found (so no marshalling order is assumed).

// c04Fresh returns an empty value of v's type to decode into.
func c04Fresh(v any) any {
	switch v.(type) {
	case *osm.Bounds:
		return &osm.Bounds{}
	case *osm.Node:
		return &osm.Node{}
	case *osm.Way:
		return &osm.Way{}
	case *osm.Relation:
		return &osm.Relation{}
	case *osm.Changeset:
		return &osm.Changeset{}
	case *osm.Note:
		return &osm.Note{}
	case *osm.User:
		return &osm.User{}
	case *osm.OSM:
		return &osm.OSM{}
	case *osm.Change:
		return &osm.Change{}
	case *osm.Diff:
		return &osm.Diff{}
	}
	panic(fmt.Sprintf("c04: unexpected %T", v))
}

// c04ByValue dereferences containers so that the marshaller is also entered with a
// non-pointer value (MarshalXML methods have value receivers).
func c04ByValue(v any) any {
	switch x := v.(type) {
	case *osm.OSM:
		return *x
	case *osm.Change:
		return *x
	case *osm.Diff:
		return *x
	case *osm.Bounds:
		return *x
	}
	return v
}

// c04Expected finds the object of v that stands at a position of the marshalled text.
func c04Expected(v any, p xmlw.ObjectPath, counter map[string]int) osm.Object {
	ck := strings.Join(p.Path, "/") + fmt.Sprintf("#%d/", p.ActionIdx) + p.Kind
	idx := counter[ck]
	counter[ck]++
	switch x := v.(type) {
	case *osm.OSM:
		if len(p.Path) == 1 && p.Path[0] == "osm" {
			return xmlPick(x, p.Kind, idx)
		}
	case *osm.Change:
		if len(p.Path) == 2 && p.Path[0] == "osmChange" {
			switch p.Path[1] {
			case "create":
				return xmlPick(x.Create, p.Kind, idx)
			case "modify":
				return xmlPick(x.Modify, p.Kind, idx)
			case "delete":
				return xmlPick(x.Delete, p.Kind, idx)
			}
		}
	case *osm.Diff:
		switch {
		case len(p.Path) == 1 && p.Path[0] == "osm" && p.Kind == "changeset":
			if idx < len(x.Changesets) {
				return x.Changesets[idx]
			}
		case len(p.Path) >= 2 && p.Path[0] == "osm" && p.Path[1] == "action" && p.ActionIdx >= 0 && p.ActionIdx < len(x.Actions):
			a := x.Actions[p.ActionIdx]
			switch {
			case len(p.Path) == 2:
				return xmlPick(a.OSM, p.Kind, idx)
			case len(p.Path) == 3 && p.Path[2] == "old":
				return xmlPick(a.Old, p.Kind, idx)
			case len(p.Path) == 3 && p.Path[2] == "new":
				return xmlPick(a.New, p.Kind, idx)
			}
		}
	default:
		if len(p.Path) == 0 && idx == 0 {
			if o, ok := v.(osm.Object); ok && xmlObjKind(o) == p.Kind {
				return o
			}
		}
	}
	return nil
}

// c04Check runs c04Run and attaches to every violation the smallest systematic value (one
// optional part populated) that produces the same violation key, when there is one.
func c04Check(res *fw.Result, kind string, v any, indent, byValue bool, detail map[string]any) {
	first := len(res.Violations)
	c04Run(res, kind, v, indent, byValue, detail)
	for i := first; i < len(res.Violations); i++ {
		if m, ok := res.Violations[i].Detail.(map[string]any); ok {
			if min := c04Minimal(kind, res.Violations[i].Key); min != nil {
				m["minimal_input_with_same_key"] = min
			}
		}
	}
}

func c04Minimal(kind, key string) map[string]any {
	for _, f := range xmlw.Features(kind) {
		g := &xmlw.G{R: gen.New(1, "c04minimal"), Simple: true, MaxList: 1, Only: f}
		v := g.Value(kind)
		tmp := fw.NewResult()
		c04Run(tmp, kind, v, false, false, nil)
		for _, viol := range tmp.Violations {
			if viol.Key == key {
				out := map[string]any{"only_populated": f, "value": eq.Dump(v)}
				if m, ok := viol.Detail.(map[string]any); ok {
					out["xml"] = m["xml"]
					if g, ok := m["got"]; ok {
						out["got"] = g
					}
				}
				return out
			}
		}
	}
	return nil
}

// c04Run runs the round trip and the two readers for one value.
func c04Run(res *fw.Result, kind string, v any, indent, byValue bool, detail map[string]any) {
	wantDump := eq.Dump(xmlNorm(v))
	det := func(text []byte, extra map[string]any) map[string]any {
		m := map[string]any{"kind": kind, "value": xmlTrim(eq.Dump(v), 5000), "indent": indent, "by_value": byValue}
		if text != nil {
			m["xml"] = xmlTrim(string(text), 6000)
		}
		for k, x := range detail {
			m[k] = x
		}
		for k, x := range extra {
			m[k] = x
		}
		return m
	}
	arg := v
	if byValue {
		arg = c04ByValue(v)
	}
	text, err, pan := xmlMarshal(arg, indent)
	res.Event(1)
	switch {
	case pan != "":
		res.Violate("C04/marshal/"+kind+"/panic", "xml.Marshal panicked", det(nil, map[string]any{"panic": xmlTrim(pan, 3000)}))
		return
	case err != nil:
		res.Violate("C04/marshal/"+kind+"/error", fmt.Sprintf("xml.Marshal of a representable %s value failed: %v", kind, err), det(nil, nil))
		return
	}
	if after := eq.Dump(xmlNorm(v)); after != wantDump {
		res.Violate("C04/marshal/"+kind+"/mutated", "xml.Marshal changed its argument: "+eq.Diff(wantDump, after), det(text, nil))
		return
	}
	res.Add("marshalled_bytes", int64(len(text)))

	// (1) whole-document round trip
	back := c04Fresh(v)
	err, pan = xmlUnmarshal(text, back)
	res.Event(1)
	switch {
	case pan != "":
		res.Violate("C04/roundtrip/"+kind+"/panic", "xml.Unmarshal panicked on the library's own output", det(text, map[string]any{"panic": xmlTrim(pan, 3000)}))
	case err != nil:
		res.Violate("C04/roundtrip/"+kind+"/error", fmt.Sprintf("the library cannot decode its own output: %v", err), det(text, nil))
	default:
		if g := eq.Dump(xmlNorm(back)); g != wantDump {
			path, class := xmlFirstDiff(xmlNorm(v), xmlNorm(back))
			res.Violate("C04/roundtrip/"+kind+"/"+class, fmt.Sprintf("unmarshal(marshal(v)) differs from v at %s: %s", path, eq.Diff(wantDump, g)),
				det(text, map[string]any{"got": xmlTrim(g, 5000)}))
		}
	}

	// (2) vocabulary
	var rootAs map[string]string
	if kind == "bounds" {
		// A Bounds marshalled on its own gets encoding/xml's default document-element name,
		// the Go type name "Bounds" (the struct has no XMLName). Both readers accept it and
		// the round trip holds, so the purpose clause of the property is met; whether the
		// document element of a lone value must be "bounds" is ambiguous and not asserted.
		// Only observed.
		rootAs = map[string]string{"Bounds": "bounds"}
		if bytes.HasPrefix(bytes.TrimSpace(text), []byte("<Bounds")) {
			res.Add("standalone_bounds_document_element_is_go_type_name", 1)
		}
	}
	issues, positions, terr := xmlw.CheckVocabulary(text, rootAs)
	if terr != nil {
		res.Violate("C04/vocab/"+kind+"/not-well-formed", fmt.Sprintf("marshalled text is not well-formed XML: %v", terr), det(text, nil))
		return
	}
	seen := map[string]bool{}
	for _, is := range issues {
		if seen[is.Class] {
			continue
		}
		seen[is.Class] = true
		res.Violate("C04/vocab/"+kind+"/"+is.Class, fmt.Sprintf("marshalled %s uses %s (below %q), which is not OSM XML vocabulary there", kind, is.Class, is.Where), det(text, nil))
	}
	res.Add("names_checked_docs", 1)
	if len(issues) > 0 {
		// positions cannot be matched reliably when names are off; the scanner comparison
		// would only repeat the finding
		res.Add("scanner_comparisons_skipped_after_vocabulary_issue", 1)
		return
	}

	// (3) streaming scanner reads the text back
	objs, serr, span := xmlScan(text, 0)
	res.Event(int64(len(objs)))
	switch {
	case span != "":
		res.Violate("C04/scanner/"+kind+"/panic", "osmxml.Scanner panicked on the library's own output", det(text, map[string]any{"panic": xmlTrim(span, 3000)}))
	case serr != nil:
		res.Violate("C04/scanner/"+kind+"/error", fmt.Sprintf("scanner cannot read the library's own output: %v", serr), det(text, nil))
	case len(objs) != len(positions):
		res.Violate("C04/scanner/"+kind+"/count", fmt.Sprintf("scanner delivered %d objects (%s), the text holds %d object elements", len(objs), c03Kinds(objs), len(positions)), det(text, nil))
	default:
		counter := map[string]int{}
		for i, o := range objs {
			want := c04Expected(v, positions[i], counter)
			if want == nil {
				res.Violate("C04/scanner/"+kind+"/unexpected-"+positions[i].Kind, fmt.Sprintf("text holds a %s element at %v (action %d) that corresponds to nothing in the value",
					positions[i].Kind, positions[i].Path, positions[i].ActionIdx), det(text, nil))
				break
			}
			w, g := eq.Dump(xmlNorm(want)), eq.Dump(xmlNorm(o))
			if w != g {
				path, class := xmlFirstDiff(xmlNorm(want), xmlNorm(o))
				res.Violate("C04/scanner/"+kind+"/"+class, fmt.Sprintf("scanner object %d (%s below %v) differs from the value at %s: %s", i, positions[i].Kind, positions[i].Path, path, eq.Diff(w, g)),
					det(text, map[string]any{"got": xmlTrim(g, 4000)}))
				break
			}
			res.Add("scanner_objects_compared", 1)
		}
	}
}

func c04Observe(res *fw.Result, kind string, v any, g *xmlw.G) {
	res.Add("values", 1)
	res.Add("values_"+kind, 1)
	switch x := v.(type) {
	case *osm.OSM:
		if x.Bounds != nil {
			res.Add("osm_values_with_toplevel_bounds", 1)
		}
	case *osm.Change:
		for _, b := range []*osm.OSM{x.Create, x.Modify, x.Delete} {
			if b != nil && b.Bounds != nil {
				res.Add("osmchange_blocks_with_bounds", 1)
			}
		}
	case *osm.Diff:
		for _, a := range x.Actions {
			res.Add("diff_actions_"+string(a.Type), 1)
		}
	}
}

func c04Exec(c fw.Case) *fw.Result {
	res := fw.NewResult()
	switch c.Kind {
	case "feature":
		kind, feature, mode := c.Str("kind"), c.Str("feature"), c.Str("mode")
		g := &xmlw.G{R: gen.New(c.Seed, "c04feature"), Simple: true, MaxList: 2, Nanos: true}
		if mode == "only" {
			g.Only = feature
		} else {
			g.AllBut = feature
		}
		v := g.Value(kind)
		c04Check(res, kind, v, c.Int("indent") == 1, c.Int("byvalue") == 1, map[string]any{"systematic": mode + " " + feature})
		c04Observe(res, kind, v, g)
		res.Eval("feature|" + mode + "|" + feature)
		res.Sample = map[string]any{"kind": kind, "feature": feature, "mode": mode, "value": xmlTrim(eq.Dump(v), 1200)}
	case "random":
		n := int(c.Int("values"))
		for i := 0; i < n; i++ {
			seed := gen.Sub(c.Seed, "c04value", i)
			r := gen.New(seed, "c04random")
			kind := xmlw.Kinds[r.Intn(len(xmlw.Kinds))]
			if r.Chance(0.35) {
				kind = []string{"osm", "change", "diff"}[r.Intn(3)]
			}
			p := []float64{0.2, 0.5, 0.5, 0.8, 1}[r.Intn(5)]
			g := xmlw.NewG(r, p)
			g.Nanos = true
			g.WildFloats = true
			g.MaxList = r.Pick(1, 3, 5)
			v := g.Value(kind)
			indent, byValue := r.Chance(0.25), r.Chance(0.3)
			c04Check(res, kind, v, indent, byValue, map[string]any{"value_seed": seed, "value_index": i})
			c04Observe(res, kind, v, g)
			res.Eval(c04Shape(kind, v))
			if i == 0 {
				res.Sample = map[string]any{"kind": kind, "indent": indent, "by_value": byValue, "value": xmlTrim(eq.Dump(v), 1200)}
			}
		}
	}
	return res
}

// c04Shape is the feature signature of a random value: its kind and, per field of the top
// level (and of block containers), whether it is populated.
func c04Shape(kind string, v any) string {
	d := eq.Dump(v)
	// the dump is "Type{Field:val Field:val ...}"; reduce every top-level field to set/unset
	var sb strings.Builder
	sb.WriteString(kind + "|")
	depth, start := 0, -1
	field := ""
	flush := func(val string) {
		if field == "" {
			return
		}
		switch val {
		case "0", `""`, "false", "nil", "[]", "T0", "Date{Time:T0}":
			sb.WriteByte('0')
		default:
			sb.WriteByte('1')
		}
	}
	inStr := false
	for i := 0; i < len(d); i++ {
		ch := d[i]
		if inStr {
			if ch == '\\' {
				i++
			} else if ch == '"' {
				inStr = false
			}
			continue
		}
		switch ch {
		case '"':
			inStr = true
		case '{', '[':
			depth++
			if depth == 1 {
				start = i + 1
			}
		case '}', ']':
			if depth == 1 && start >= 0 {
				seg := d[start:i]
				if j := strings.IndexByte(seg, ':'); j >= 0 {
					field = seg[:j]
					flush(seg[j+1:])
				}
			}
			depth--
		case ' ':
			if depth == 1 && start >= 0 {
				seg := d[start:i]
				if j := strings.IndexByte(seg, ':'); j >= 0 {
					field = seg[:j]
					flush(seg[j+1:])
				}
				start = i + 1
			}
		}
	}
	return sb.String()
}

func c04Cases(tier string, seed uint64) []fw.Case {
	var cs []fw.Case
	reps := 1
	if tier == "thorough" {
		reps = 4
	}
	for rep := 0; rep < reps; rep++ {
		for ki, kind := range xmlw.Kinds {
			for fi, f := range xmlw.Features(kind) {
				for mi, mode := range []string{"only", "allbut"} {
					cs = append(cs, fw.Case{Kind: "feature", Seed: gen.Sub(seed, "c04f"+mode, ki*1000+fi*10+rep),
						S: map[string]string{"kind": kind, "feature": f, "mode": mode},
						P: map[string]int64{"indent": int64((rep + mi) % 2 * (rep % 2)), "byvalue": int64(rep / 2 % 2)}})
				}
			}
		}
	}
	n := 45
	if tier == "thorough" {
		n = 2350
	}
	for i := 0; i < n; i++ {
		cs = append(cs, fw.Case{Kind: "random", Seed: gen.Sub(seed, "c04r", i), P: map[string]int64{"values": 10}})
	}
	return fw.Number(cs)
}

func init() {
	fw.Register(&fw.Prop{
		ID:    "C04",
		Level: "exploration",
		Rule: "values built by the harness' generator: (a) systematic — for each of bounds/node/way/relation/changeset/note/user/OSM/Change/Diff and each of its optional parts (incl. way-node version/changeset/lat/lon, member version/changeset/lat/lon/orientation/nested nodes, updates, committed, element bounds, top-level bounds of OSM and of each osmChange block, create/modify/delete diff actions) one value with only that part populated and one with all but it; " +
			"(b) PRNG values of all ten kinds with each optional part populated with probability 0.2/0.5/0.8/1, Unicode strings incl. XML specials, tab/LF/CR and boundary code points, nanosecond times (whole seconds for note dates), 7-decimal and arbitrary finite float coordinates, negative/large ids; xml.Marshal and xml.MarshalIndent, by pointer and by value. " +
			"A signature is (kind, populated/unpopulated vector of the top-level fields) for random values and (mode, feature) for systematic ones; distinct_nontrivial counts distinct signatures.",
		Assumptions: []string{
			"equality is eq.Dump equality: times by instant, nil ≡ empty slices, XMLName ignored; a changeset discussion without comments ≡ nil (the marshaller omits it by design); an osmChange block without content ≡ nil",
			"strings hold only characters XML 1.0 can carry (tab, LF, CR, U+0020–U+D7FF, U+E000–U+FFFD, U+10000–U+10FFFF); floats are finite and never negative zero (an omitted zero would read back as +0)",
			"note and note-comment dates are whole seconds (their text format has no fraction); all times are UTC",
			"slices hold no nil pointers; create/modify/delete blocks of a Change carry no header attributes of their own (osmChange has none); diff actions have the documented shape: create holds one element, modify/delete hold one element in Old and one in New",
			"the vocabulary table includes the annotation names the library documents on its structs (committed, update, index, reverse, orientation, nd/member version/changeset/lat/lon)",
			"the document-element name of a Bounds value marshalled on its own (encoding/xml's default, the Go type name) is observed but not asserted: both readers accept it and the round trip holds; bounds inside OSM / osmChange blocks / ways / relations are asserted",
			"the scanner comparison matches delivered objects to the value through the positions an independent tokenizer finds in the text; it is skipped for a text that already failed the vocabulary check",
		},
		Cases:   c04Cases,
		Exec:    c04Exec,
		Workers: 12,
	})
}
