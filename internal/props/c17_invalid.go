package props

import (
	"bytes"
	"encoding/json"
	"fmt"
	"math"
	"sort"
	"strconv"
	"strings"
	"time"

	"github.com/paulmach/orb"
	"github.com/paulmach/osm"

	"verif/internal/eq"
	"verif/internal/fw"
	"verif/internal/gen"
)

func c17Sub(seed uint64, label string, i int) uint64 { return gen.Sub(seed, label, i) }

func c17Int(v any) (int64, bool) {
	n, ok := v.(json.Number)
	if !ok {
		return 0, false
	}
	x, err := strconv.ParseInt(string(n), 10, 64)
	return x, err == nil
}

// C17, invalid / partial multipolygons and the IncludeInvalidPolygons option.
//
// Class: multipolygon / boundary relations that are invalid or partial in one named way
// (c17InvalidClasses), embedded in a small random data set, converted under all 16 option sets.
// What such a relation itself turns into is NOT asserted (the statement does not say; ring
// assembly is C16). Asserted is only what the statement says for any input:
//
//   - Convert neither panics nor fails;
//   - no element identity (properties.type/id) is carried by two features;
//   - NoID / NoMeta / NoRelationMembership delete exactly their key, compared with the output
//     of the same data set under the same IncludeInvalidPolygons setting;
//   - IncludeInvalidPolygons off vs on: after removing the features of the invalid relations
//     themselves, the feature lists are identical (same order, same JSON);
//   - three conversions of equal input are byte-identical; the input is not modified.
//
// "Features of the relation itself" are those that carry the relation's identity, or - by the
// documented old-style rule (exactly one outer member, relation without interesting tag other
// than type) - the identity of that outer member way.
//
// Second class (c17InlineTrio): one VALID multipolygon given three ways - member ways present;
// member ways absent but carried as Member.Nodes with coordinates ("Nodes are sometimes
// included in members of type way to include the lat/lon path of the way", relation.go);
// both - must give the same polygon geometry.

var c17InvalidClasses = []string{
	"missing-outer-piece", "missing-only-outer", "missing-inner-way",
	"outer-missing-nodes", "member-without-any-node", "inner-missing-nodes",
	"unclosed-single-outer", "unclosed-two-outers", "three-point-outer",
	"no-outer", "hole-outside", "two-outers-one-unclosed", "two-outers-hole-outside",
	"other-roles-extra", "other-roles-only",
	"inline-absent-partial", "inline-absent-unclosed", "mixed",
	// tainted for a reason that leaves every ring of the relation closed and valid: here the
	// option has nothing to do and the whole output must stay the same
	"closed-outer-one-node-missing", "two-pieces-missing-inner", "two-rings-missing-inner", "closed-outer-missing-other-role",
}

// ring makes a star-shaped ring of k fresh node ids around (cx,cy); the node elements are added
// to the data set only when present is true. Direction and start are random.
func (d *c17DS) ring(cx, cy, rad float64, k int, lo, hi float64, present bool) ([]int64, map[int64]c17Pt) {
	r := d.r
	pos := map[int64]c17Pt{}
	var ids []int64
	for j := 0; j < k; j++ {
		a := (float64(j) + 0.2 + 0.5*r.Float64()) * 2 * math.Pi / float64(k)
		rr := rad * (lo + (hi-lo)*r.Float64())
		p := c17Pt{math.Round((cx+rr*math.Cos(a))*1e7) / 1e7, math.Round((cy+rr*math.Sin(a))*1e7) / 1e7}
		var id int64
		if present {
			n := d.addNode("loc", r.PickS("none", "none", "none", "boring", "interesting"))
			n.Lon, n.Lat = p[0], p[1]
			id = int64(n.ID)
		} else {
			id = d.newID(d.usedN)
		}
		pos[id] = p
		ids = append(ids, id)
	}
	if r.Bool() {
		for i, j := 0, len(ids)-1; i < j; i, j = i+1, j-1 {
			ids[i], ids[j] = ids[j], ids[i]
		}
	}
	rot := r.Intn(len(ids))
	return append(append([]int64{}, ids[rot:]...), ids[:rot]...), pos
}

func c17Closed(ids []int64) []int64 { return append(append([]int64{}, ids...), ids[0]) }

func (d *c17DS) removeNode(id int64) {
	for i, n := range d.o.Nodes {
		if int64(n.ID) == id {
			d.o.Nodes = append(d.o.Nodes[:i:i], d.o.Nodes[i+1:]...)
			return
		}
	}
}

// inlineNodes renders refs as Member.Nodes; withCoords puts the coordinates on them.
func c17InlineNodes(refs []int64, pos map[int64]c17Pt, withCoords func(id int64) bool) osm.WayNodes {
	var out osm.WayNodes
	for _, id := range refs {
		wn := osm.WayNode{ID: osm.NodeID(id)}
		if withCoords(id) {
			wn.Lon, wn.Lat = pos[id][0], pos[id][1]
		}
		out = append(out, wn)
	}
	return out
}

// addInvalidMP adds one relation of the class and returns the identities its own feature(s)
// may carry.
func (d *c17DS) addInvalidMP(class string, tagged bool) map[c17Key]bool {
	own, rel := d.addInvalidMPRel(class, tagged)
	// containment of a hole in its outer ring is known by construction only
	geom := class == "hole-outside" || class == "two-outers-hole-outside" || class == "mixed" || class == "outer-missing-nodes"
	if geom || d.mpSensitive(rel) {
		d.relCls["mp-option-sensitive"] = true
		return own
	}
	// every ring that the present members describe is closed and has >= 4 points and every hole
	// lies in an outer ring: neither documented effect of IncludeInvalidPolygons applies, so
	// not even the relation's own features may change with the option
	d.relCls["mp-option-insensitive"] = true
	return map[c17Key]bool{}
}

// mpSensitive: may IncludeInvalidPolygons, as documented ("a polygon with nil outer/first ring
// if the outer ring is not found in the data", "rings whose endpoints do not match"; README:
// rings of fewer than 4 points count as invalid too), change this relation's feature? Decided
// from the member lines alone: some outer or inner member lines do not close into rings of
// >= 4 points, or there are hole rings but no outer ring at all.
func (d *c17DS) mpSensitive(rel *osm.Relation) bool {
	pos := map[int64]c17Pt{}
	for _, n := range d.o.Nodes {
		if n.Lat != 0 || n.Lon != 0 {
			pos[int64(n.ID)] = c17Pt{n.Lon, n.Lat}
		}
	}
	line := func(wns osm.WayNodes) []c17Pt {
		var out []c17Pt
		for _, wn := range wns {
			if wn.Lat != 0 || wn.Lon != 0 {
				out = append(out, c17Pt{wn.Lon, wn.Lat})
			} else if p, ok := pos[int64(wn.ID)]; ok {
				out = append(out, p)
			}
		}
		return out
	}
	lines := map[string][][]c17Pt{}
	for _, m := range rel.Members {
		if m.Type != osm.TypeWay || (m.Role != "outer" && m.Role != "inner") {
			continue
		}
		var l []c17Pt
		if w := d.wayOrRel(c17Key{"way", m.Ref}); w != nil {
			l = line(w.(*osm.Way).Nodes)
		} else {
			l = line(m.Nodes)
		}
		if len(l) >= 2 {
			lines[m.Role] = append(lines[m.Role], l)
		}
	}
	// ringsOK: the lines close into rings of >= 4 points; also returns the number of rings
	ringsOK := func(ls [][]c17Pt) (bool, int) {
		deg := map[c17Pt]int{}
		parent := map[c17Pt]c17Pt{}
		var find func(p c17Pt) c17Pt
		find = func(p c17Pt) c17Pt {
			if q, ok := parent[p]; ok && q != p {
				r := find(q)
				parent[p] = r
				return r
			}
			parent[p] = p
			return p
		}
		rings := 0
		for _, l := range ls {
			a, b := l[0], l[len(l)-1]
			if a == b {
				if len(l) < 4 {
					return false, 0
				}
				rings++
				continue
			}
			deg[a]++
			deg[b]++
			parent[find(a)] = find(b)
		}
		size := map[c17Pt]int{}
		for _, l := range ls {
			if l[0] != l[len(l)-1] {
				size[find(l[0])] += len(l) - 1
			}
		}
		for p, n := range deg {
			if n != 2 {
				return false, 0
			}
			_ = p
		}
		for _, n := range size {
			if n < 3 {
				return false, 0
			}
			rings++
		}
		return true, rings
	}
	okO, nO := ringsOK(lines["outer"])
	okI, nI := ringsOK(lines["inner"])
	return !okO || !okI || (nO == 0 && nI > 0)
}

func (d *c17DS) addInvalidMPRel(class string, tagged bool) (map[c17Key]bool, *osm.Relation) {
	r := d.r
	cx, cy := float64(r.Range(-150, 150))+0.5, float64(r.Range(-60, 60))+0.5
	rad := float64(r.Range(5, 400)) / 1000
	wayTags := func() osm.Tags { return d.tags(r.PickS("none", "none", "boring", "interesting"), true) }
	var ms osm.Members
	way := func(refs []int64, role string) *osm.Way {
		w := d.addWay(refs, wayTags())
		ms = append(ms, osm.Member{Type: osm.TypeWay, Ref: int64(w.ID), Role: role})
		return w
	}
	absent := func(role string) {
		ms = append(ms, osm.Member{Type: osm.TypeWay, Ref: d.newID(d.usedW), Role: role})
	}
	twoPieces := func(ids []int64) ([]int64, []int64) {
		c := c17Closed(ids)
		cut := r.Range(1, len(c)-2)
		a, b := append([]int64{}, c[:cut+1]...), append([]int64{}, c[cut:]...)
		if r.Bool() {
			for i, j := 0, len(b)-1; i < j; i, j = i+1, j-1 {
				b[i], b[j] = b[j], b[i]
			}
		}
		return a, b
	}
	outer, opos := d.ring(cx, cy, rad, r.Range(4, 7), 0.7, 1.0, true)
	innerRing := func(present bool) ([]int64, map[int64]c17Pt) {
		return d.ring(cx, cy, rad, r.Range(3, 5), 0.1, 0.25, present) // inside any star ring of radii >= 0.7 (gaps <= 135 degrees)
	}
	switch class {
	case "missing-outer-piece":
		a, _ := twoPieces(outer)
		way(a, "outer")
		absent("outer")
		if r.Bool() {
			in, _ := innerRing(true)
			way(c17Closed(in), "inner")
		}
	case "missing-only-outer":
		absent("outer")
		in, _ := innerRing(true)
		way(c17Closed(in), "inner")
	case "missing-inner-way":
		way(c17Closed(outer), "outer")
		absent("inner")
	case "outer-missing-nodes":
		c := c17Closed(outer)
		at := r.Intn(len(outer))
		d.removeNode(outer[at]) // at 0: both ends of the closed way are gone
		if r.Chance(0.3) {
			d.removeNode(outer[(at+2)%len(outer)])
		}
		way(c, "outer")
		if r.Bool() {
			in, _ := innerRing(true)
			way(c17Closed(in), "inner")
		}
	case "member-without-any-node":
		if r.Bool() {
			for _, id := range outer {
				d.removeNode(id)
			}
			way(c17Closed(outer), "outer")
			in, _ := innerRing(true)
			way(c17Closed(in), "inner")
		} else {
			way(c17Closed(outer), "outer")
			in, _ := innerRing(false)
			way(c17Closed(in), "inner")
		}
	case "inner-missing-nodes":
		way(c17Closed(outer), "outer")
		in, _ := innerRing(true)
		d.removeNode(in[r.Intn(len(in))])
		way(c17Closed(in), "inner")
	case "unclosed-single-outer":
		way(append([]int64{}, outer...), "outer") // never returns to its first node
		if r.Bool() {
			in, _ := innerRing(true)
			way(c17Closed(in), "inner")
		}
	case "unclosed-two-outers":
		a, b := twoPieces(outer)
		if len(b) > 2 {
			b = b[:len(b)-1]
		} else {
			a = a[1:]
		}
		if len(a) < 2 {
			a = append(a, outer[len(outer)-1])
		}
		way(a, "outer")
		way(b, "outer")
		if r.Bool() {
			in, _ := innerRing(true)
			way(c17Closed(in), "inner")
		}
	case "three-point-outer":
		way([]int64{outer[0], outer[1], outer[0]}, "outer")
		if r.Bool() {
			way(c17Closed(outer[1:]), "outer")
		}
	case "no-outer":
		in, _ := innerRing(true)
		way(c17Closed(in), "inner")
		if r.Bool() {
			in2, _ := d.ring(cx+3*rad, cy, rad, 4, 0.1, 0.3, true)
			a, b := twoPieces(in2)
			way(a, "inner")
			way(b, "inner")
		}
		for _, id := range outer {
			d.removeNode(id)
		}
	case "hole-outside":
		way(c17Closed(outer), "outer")
		far, _ := d.ring(cx+5*rad, cy+5*rad, rad, r.Range(3, 5), 0.1, 0.3, true)
		way(c17Closed(far), "inner")
		if r.Bool() {
			in, _ := innerRing(true)
			way(c17Closed(in), "inner")
		}
	case "two-outers-one-unclosed":
		way(c17Closed(outer), "outer")
		o2, _ := d.ring(cx+4*rad, cy, rad, r.Range(4, 6), 0.7, 1.0, true)
		way(append([]int64{}, o2...), "outer")
		if r.Bool() {
			in, _ := innerRing(true)
			way(c17Closed(in), "inner")
		}
	case "two-outers-hole-outside":
		way(c17Closed(outer), "outer")
		o2, _ := d.ring(cx+4*rad, cy, rad, r.Range(4, 6), 0.7, 1.0, true)
		a, b := twoPieces(o2)
		way(a, "outer")
		way(b, "outer")
		far, _ := d.ring(cx, cy+6*rad, rad, 4, 0.1, 0.3, true)
		way(c17Closed(far), "inner")
	case "other-roles-extra":
		way(c17Closed(outer), "outer")
		in, _ := innerRing(true)
		way(c17Closed(in), r.PickS("", "subarea", "Outer", "enclave"))
		ms = append(ms, d.nodeMember(0.1))
	case "other-roles-only":
		way(c17Closed(outer), r.PickS("", "main", "exclave"))
		in, _ := innerRing(true)
		way(c17Closed(in), r.PickS("", "hole"))
	case "inline-absent-partial":
		// the way is not in the data set; its member nodes carry coordinates only in part
		for _, id := range outer {
			d.removeNode(id)
		}
		skip := outer[r.Intn(len(outer))]
		ms = append(ms, osm.Member{Type: osm.TypeWay, Ref: d.newID(d.usedW), Role: "outer",
			Nodes: c17InlineNodes(c17Closed(outer), opos, func(id int64) bool { return id != skip })})
	case "inline-absent-unclosed":
		for _, id := range outer {
			d.removeNode(id)
		}
		ms = append(ms, osm.Member{Type: osm.TypeWay, Ref: d.newID(d.usedW), Role: "outer",
			Nodes: c17InlineNodes(outer, opos, func(int64) bool { return true })})
		in, ipos := innerRing(false)
		ms = append(ms, osm.Member{Type: osm.TypeWay, Ref: d.newID(d.usedW), Role: "inner",
			Nodes: c17InlineNodes(c17Closed(in), ipos, func(int64) bool { return true })})
	case "mixed":
		a, _ := twoPieces(outer)
		way(a, "outer")
		absent("outer")
		absent("inner")
		far, _ := d.ring(cx+5*rad, cy-5*rad, rad, 4, 0.1, 0.3, true)
		d.removeNode(far[0])
		way(c17Closed(far), "inner")
		o2, _ := d.ring(cx-4*rad, cy, rad, 5, 0.7, 1.0, true)
		way(c17Closed(o2), r.PickS("outer", ""))
		ms = append(ms, d.nodeMember(0.2), d.relMember())
	case "closed-outer-one-node-missing":
		big, _ := d.ring(cx, cy, rad, r.Range(5, 8), 0.7, 1.0, true)
		d.removeNode(big[1+r.Intn(len(big)-1)]) // never the closing node: the ring stays closed
		way(c17Closed(big), "outer")
		for _, id := range outer {
			d.removeNode(id)
		}
	case "two-pieces-missing-inner":
		a, b := twoPieces(outer)
		way(a, "outer")
		way(b, "outer")
		absent("inner")
	case "two-rings-missing-inner":
		way(c17Closed(outer), "outer")
		o2, _ := d.ring(cx+4*rad, cy, rad, r.Range(4, 6), 0.7, 1.0, true)
		way(c17Closed(o2), "outer")
		absent("inner")
		if r.Bool() {
			in, _ := innerRing(true)
			way(c17Closed(in), "inner")
		}
	case "closed-outer-missing-other-role":
		way(c17Closed(outer), "outer")
		absent(r.PickS("", "subarea"))
		absent("inner")
	default:
		panic("C17 harness: unknown invalid-multipolygon class " + class)
	}
	r.Shuffle(len(ms), func(i, j int) { ms[i], ms[j] = ms[j], ms[i] })
	fixed := []osm.Tag{{Key: "type", Value: r.PickS("multipolygon", "multipolygon", "boundary")}}
	tagClass := r.PickS("none", "none", "boring")
	if tagged {
		tagClass = "interesting"
		if r.Bool() {
			fixed = append(fixed, osm.Tag{Key: "landuse", Value: "forest"})
		}
	}
	rel := d.addRelation(d.tags(tagClass, true, fixed...), ms)
	own := map[c17Key]bool{{"relation", int64(rel.ID)}: true}
	if !tagged {
		outers := 0
		var ref int64
		for _, m := range ms {
			if m.Type == osm.TypeWay && m.Role == "outer" {
				outers++
				ref = m.Ref
			}
		}
		if outers == 1 {
			own[c17Key{"way", ref}] = true
		}
	}
	d.relCls["mp-invalid/"+class] = true
	return own, rel
}

func c17Identity(ft map[string]any) (c17Key, bool) {
	props, _ := ft["properties"].(map[string]any)
	typ, _ := props["type"].(string)
	id, ok := c17Int(props["id"])
	return c17Key{typ, id}, ok && typ != ""
}

// c17CheckLight is the reduced oracle described at the top of this file. own = identities of
// the features that belong to the invalid relations themselves. It returns the decoded
// outputs per option mask (nil where a conversion failed).
func c17CheckLight(res *fw.Result, d *c17DS, class string, own map[c17Key]bool) [16][]map[string]any {
	pristine := eq.Clone(d.o)
	snapshot := eq.Dump(pristine)
	desc := c17Describe(pristine)
	seen := map[string]bool{}
	viol := func(what, msg string, extra map[string]any) {
		key := "C17/mpinvalid/" + class + "/" + what
		if seen[key] {
			return
		}
		seen[key] = true
		det := map[string]any{"dataset": d.label, "input": desc}
		for k, v := range extra {
			det[k] = v
		}
		res.Violate(key, msg, det)
	}
	sig := d.label
	var feats [16][]map[string]any
	var jss [16][]byte
	for mask := 0; mask < 16; mask++ {
		on := c17MaskName(mask)
		in := eq.Clone(pristine)
		opts := c17Options(mask, d.r, false)
		js, err, pan := c17Convert(in, opts)
		res.Add("conversions", 1)
		res.Eval(sig)
		if pan != "" {
			viol("convert-panic", "Convert panicked: "+pan, map[string]any{"options": on})
			continue
		}
		if err != nil {
			viol("convert-error", "Convert / json.Marshal failed: "+err.Error(), map[string]any{"options": on})
			continue
		}
		if after := eq.Dump(in); after != snapshot {
			viol("immutability", "the input data set differs from its snapshot after Convert: "+eq.Diff(snapshot, after), map[string]any{"options": on})
		}
		js2, _, pan2 := c17Convert(in, opts)
		js3, _, pan3 := c17Convert(eq.Clone(pristine), c17Options(mask, nil, true))
		res.Add("conversions", 2)
		if pan2 != "" || pan3 != "" {
			viol("convert-panic", "repeated Convert panicked: "+pan2+pan3, map[string]any{"options": on})
		} else if !bytes.Equal(js, js2) || !bytes.Equal(js, js3) {
			viol("determinism", "conversions of equal input differ", map[string]any{"options": on, "first": string(js), "second": string(js2), "third": string(js3)})
		}
		if after := eq.Dump(in); after != snapshot {
			viol("immutability", "the input data set differs from its snapshot after a second Convert", map[string]any{"options": on})
		}
		fs, derr := c17Decode(js)
		if derr != nil {
			viol("output-not-geojson", derr.Error(), map[string]any{"options": on, "json": string(js)})
			continue
		}
		feats[mask], jss[mask] = fs, js
		res.Event(int64(len(fs)))
		claimed := map[c17Key]bool{}
		for _, ft := range fs {
			k, ok := c17Identity(ft)
			if !ok {
				res.Add("mpinvalid_features_without_identity", 1)
				continue
			}
			if claimed[k] {
				viol("duplicate-feature/"+k.typ, fmt.Sprintf("more than one feature for %s %d", k.typ, k.id), map[string]any{"options": on, "json": string(js)})
			}
			claimed[k] = true
			if own[k] {
				res.Add("mpinvalid_own_features", 1)
			}
		}
	}
	// NoID / NoMeta / NoRelationMembership against the output under the same invalid setting
	for mask := 0; mask < 16; mask++ {
		base := mask & 8
		if mask == base || feats[mask] == nil || feats[base] == nil {
			continue
		}
		on := c17MaskName(mask)
		if len(feats[mask]) != len(feats[base]) {
			viol("option/"+c17MaskName(mask&7)+"/feature-count", fmt.Sprintf("%d features with %s, %d with %s", len(feats[mask]), on, len(feats[base]), c17MaskName(base)),
				map[string]any{"options": on, "baseline": string(jss[base]), "output": string(jss[mask])})
			continue
		}
		for i := range feats[mask] {
			want := c17Expect(feats[base][i], mask&7)
			if fw.JSON(want) != fw.JSON(feats[mask][i]) {
				path := c17DiffPath(want, feats[mask][i])
				viol("option/"+c17MaskName(mask&7)+"/differs/"+path, fmt.Sprintf("feature %d under %s differs from the %s output beyond the documented keys, at %s", i, on, c17MaskName(base), path),
					map[string]any{"options": on, "baseline_feature": c17Feat(feats[base][i]), "feature": c17Feat(feats[mask][i])})
				break
			}
		}
		res.Add("option_comparisons", 1)
	}
	// IncludeInvalidPolygons off vs on: everything but the relations' own features identical
	others := func(fs []map[string]any) []string {
		var out []string
		for _, ft := range fs {
			if k, ok := c17Identity(ft); ok && own[k] {
				continue
			}
			out = append(out, fw.JSON(ft))
		}
		return out
	}
	for mask := 0; mask < 8; mask++ {
		if feats[mask] == nil || feats[mask|8] == nil {
			continue
		}
		off, onn := others(feats[mask]), others(feats[mask|8])
		if strings.Join(off, "\n") != strings.Join(onn, "\n") {
			first := ""
			for i := 0; i < len(off) || i < len(onn); i++ {
				a, b := "", ""
				if i < len(off) {
					a = off[i]
				}
				if i < len(onn) {
					b = onn[i]
				}
				if a != b {
					first = fmt.Sprintf("position %d: without %s / with %s", i, a, b)
					break
				}
			}
			what := "invalid-option/unrelated-feature-changed"
			if len(own) == 0 {
				what = "invalid-option/changed-although-all-rings-valid"
			}
			viol(what, "IncludeInvalidPolygons changed a feature that does not belong to a relation with a missing outer ring or an unclosed / short ring: "+first,
				map[string]any{"options": c17MaskName(mask), "own": fmt.Sprint(own), "without": string(jss[mask]), "with": string(jss[mask|8])})
		}
		if !bytes.Equal(jss[mask], jss[mask|8]) {
			res.Add("invalid_option_changed_output", 1)
			res.Put("invalid_option_effective_classes", class)
		}
		res.Add("invalid_option_comparisons", 1)
		if len(own) == 0 {
			res.Add("invalid_option_comparisons_whole_output", 1)
		}
	}
	if res.Sample == nil {
		res.Sample = map[string]any{"dataset": d.label, "class": class, "input": desc, "output_default": string(jss[0]), "output_include_invalid": string(jss[8])}
	}
	return feats
}

// c17InvalidDS builds the data set of one case: a small random context plus 1-2 relations of
// the class.
func c17InvalidDS(seed uint64, class string, tagged bool, size int) (*c17DS, map[c17Key]bool) {
	d := c17Random(seed, size, 8, 0)
	d.label = fmt.Sprintf("mpinvalid/%s/tagged=%v", class, tagged)
	own := d.addInvalidMP(class, tagged)
	if d.r.Chance(0.3) {
		for k := range d.addInvalidMP(c17InvalidClasses[d.r.Intn(len(c17InvalidClasses))], d.r.Bool()) {
			own[k] = true
		}
	}
	o := d.o
	d.r.Shuffle(len(o.Nodes), func(i, j int) { o.Nodes[i], o.Nodes[j] = o.Nodes[j], o.Nodes[i] })
	d.r.Shuffle(len(o.Ways), func(i, j int) { o.Ways[i], o.Ways[j] = o.Ways[j], o.Ways[i] })
	d.r.Shuffle(len(o.Relations), func(i, j int) { o.Relations[i], o.Relations[j] = o.Relations[j], o.Relations[i] })
	return d, own
}

// c17InlineTrio builds one valid multipolygon three ways. Variants, all with the same member
// order, roles and coordinates:
//
//	ways      member ways and their nodes are elements of the data set, members carry no Nodes
//	inline    neither ways nor nodes are elements; members carry Nodes with coordinates
//	inline+n  ways are not elements, nodes are; members carry Nodes WITHOUT coordinates
//	both      ways and nodes are elements and members carry Nodes with coordinates
//	ways+orient  as "ways", members annotated with the (correct) Orientation of their way
func c17InlineTrio(seed uint64, tagged bool) (map[string]*c17DS, map[c17Key]bool) {
	type piece struct {
		refs   []int64
		role   string
		id     int64
		orient orb.Orientation // direction the way, as stored, runs around its ring
	}
	dirOf := func(closed []int64, pos map[int64]c17Pt) orb.Orientation {
		var ring []c17Pt
		for _, id := range closed[:len(closed)-1] {
			ring = append(ring, pos[id])
		}
		if c17SignedArea(ring) > 0 {
			return orb.CCW
		}
		return orb.CW
	}
	out := map[string]*c17DS{}
	var own map[c17Key]bool
	for _, variant := range c17InlineVariants {
		d := c17NewDS(seed, "mpinline/"+variant) // same seed: same PRNG stream, same shapes and ids
		r := d.r
		cx, cy := float64(r.Range(-150, 150))+0.5, float64(r.Range(-60, 60))+0.5
		rad := float64(r.Range(5, 400)) / 1000
		pos := map[int64]c17Pt{}
		outer, p1 := d.ring(cx, cy, rad, r.Range(4, 7), 0.7, 1.0, false)
		for k, v := range p1 {
			pos[k] = v
		}
		var ps []piece
		if r.Bool() {
			ps = append(ps, piece{refs: c17Closed(outer), role: "outer", orient: dirOf(c17Closed(outer), pos)})
		} else {
			c := c17Closed(outer)
			dir := dirOf(c, pos)
			cut := r.Range(1, len(c)-2)
			a, b := append([]int64{}, c[:cut+1]...), append([]int64{}, c[cut:]...)
			bdir := dir
			if r.Bool() {
				for i, j := 0, len(b)-1; i < j; i, j = i+1, j-1 {
					b[i], b[j] = b[j], b[i]
				}
				bdir = -dir
			}
			ps = append(ps, piece{refs: a, role: "outer", orient: dir}, piece{refs: b, role: "outer", orient: bdir})
		}
		if r.Bool() {
			in, p2 := d.ring(cx, cy, rad, r.Range(3, 5), 0.1, 0.25, false)
			var oring []c17Pt
			for _, id := range outer {
				oring = append(oring, pos[id])
			}
			for _, id := range in {
				if !c17InRing(p2[id], oring) {
					panic("C17 harness: generated hole vertex outside its outer ring")
				}
			}
			for k, v := range p2 {
				pos[k] = v
			}
			ps = append(ps, piece{refs: c17Closed(in), role: "inner", orient: dirOf(c17Closed(in), pos)})
		}
		for i := range ps {
			ps[i].id = d.newID(d.usedW)
		}
		r.Shuffle(len(ps), func(i, j int) { ps[i], ps[j] = ps[j], ps[i] })
		relID := d.newID(d.usedR)
		// from here on the variants differ; no more PRNG draws
		taggedWays := strings.HasSuffix(variant, "-tagged")
		waysPresent := variant == "ways" || variant == "both" || variant == "ways+orient" || taggedWays
		nodesPresent := variant != "inline"
		if nodesPresent {
			var ids []int64
			for id := range pos {
				ids = append(ids, id)
			}
			sort.Slice(ids, func(i, j int) bool { return ids[i] < ids[j] })
			for _, id := range ids {
				d.o.Nodes = append(d.o.Nodes, &osm.Node{ID: osm.NodeID(id), Lon: pos[id][0], Lat: pos[id][1], Version: 1})
			}
		}
		var ms osm.Members
		for _, p := range ps {
			if waysPresent {
				w := &osm.Way{ID: osm.WayID(p.id), Version: 1}
				if taggedWays {
					// tags and meta of their own: old-style relations take them, and the
					// ways are features in their own right
					w.Version, w.ChangesetID, w.UserID, w.User = 3, osm.ChangesetID(1000+p.id%1000), 77, "mapper"
					w.Timestamp = time.Date(2020, 2, 3, 4, 5, 6, 0, time.UTC)
					w.Tags = osm.Tags{{Key: "name", Value: p.role + " piece"}}
					if p.role == "outer" {
						w.Tags = append(w.Tags, osm.Tag{Key: "building", Value: "yes"})
					} else {
						w.Tags = append(w.Tags, osm.Tag{Key: "landuse", Value: "grass"})
					}
				}
				for _, id := range p.refs {
					w.Nodes = append(w.Nodes, osm.WayNode{ID: osm.NodeID(id)})
				}
				d.o.Ways = append(d.o.Ways, w)
			}
			m := osm.Member{Type: osm.TypeWay, Ref: p.id, Role: p.role}
			switch variant {
			case "ways+orient":
				m.Orientation = p.orient
			case "inline", "both", "both-tagged":
				m.Nodes = c17InlineNodes(p.refs, pos, func(int64) bool { return true })
			case "inline+n":
				m.Nodes = c17InlineNodes(p.refs, pos, func(int64) bool { return false })
			}
			ms = append(ms, m)
		}
		tags := osm.Tags{{Key: "type", Value: "multipolygon"}}
		if tagged {
			tags = append(tags, osm.Tag{Key: "natural", Value: "water"})
		}
		d.o.Relations = osm.Relations{{ID: osm.RelationID(relID), Version: 2, Tags: tags, Members: ms}}
		own = map[c17Key]bool{{"relation", relID}: true}
		for _, p := range ps {
			own[c17Key{"way", p.id}] = true
		}
		d.relCls["mp-inline/"+variant] = true
		out[variant] = d
	}
	return out, own
}

var c17InlineVariants = []string{"ways", "inline", "inline+n", "both", "ways+orient", "ways-tagged", "both-tagged"}

func c17ExecInvalid(c fw.Case, res *fw.Result) {
	switch c.Kind {
	case "mpinvalid":
		d, own := c17InvalidDS(c.Seed, c.Str("class"), c.Int("tagged") != 0, int(c.Int("size")))
		c17CheckLight(res, d, c.Str("class"), own)
	case "mpinline":
		tagged := c.Int("tagged") != 0
		trio, own := c17InlineTrio(c.Seed, tagged)
		geom := map[string][16]string{}
		whole := map[string][16][]map[string]any{}
		defer func() {
			// member geometry on top of the real, tagged ways must not change anything
			a, b := whole["ways-tagged"], whole["both-tagged"]
			for mask := 0; mask < 16; mask++ {
				if a[mask] == nil || b[mask] == nil {
					continue
				}
				res.Add("mpinline_whole_output_comparisons", 1)
				if fw.JSON(a[mask]) != fw.JSON(b[mask]) {
					res.Violate("C17/mpinline/member-nodes-change-output-of-present-ways", fmt.Sprintf("a valid multipolygon over tagged ways converts differently when its members also carry their (agreeing) path as member nodes (options %s): without %s / with %s",
						c17MaskName(mask), fw.JSON(a[mask]), fw.JSON(b[mask])), map[string]any{"input_ways": c17Describe(trio["ways-tagged"].o), "input_both": c17DescribeMembers(trio["both-tagged"].o)})
					break
				}
			}
		}()
		for _, variant := range c17InlineVariants {
			feats := c17CheckLight(res, trio[variant], "inline-"+variant, own)
			whole[variant] = feats
			var g [16]string
			for mask, fs := range feats {
				var polys []string
				for _, ft := range fs {
					if k, ok := c17Identity(ft); ok && own[k] {
						gm, _ := ft["geometry"].(map[string]any)
						if t, _ := gm["type"].(string); t == "Polygon" || t == "MultiPolygon" {
							polys = append(polys, c17CanonPolygon(gm))
						}
						if trio[variant].wayOrRel(k) == nil {
							res.Add("mpinline_feature_names_element_not_in_input", 1)
						}
					}
				}
				g[mask] = strings.Join(polys, " | ")
			}
			geom[variant] = g
		}
		for _, variant := range c17InlineVariants[1:] {
			if strings.HasSuffix(variant, "-tagged") {
				continue
			}
			for mask := 0; mask < 16; mask++ {
				if geom["ways"][mask] == "" {
					res.Add("mpinline_reference_without_polygon", 1)
					continue
				}
				res.Add("mpinline_geometry_comparisons", 1)
				if geom[variant][mask] != geom["ways"][mask] {
					res.Violate("C17/mpinline/geometry-differs/"+variant, fmt.Sprintf("the same valid multipolygon in variant %q converts to %s, in variant \"ways\" to %s (options %s)",
						variant, geom[variant][mask], geom["ways"][mask], c17MaskName(mask)),
						map[string]any{"input_ways": c17Describe(trio["ways"].o), "input_variant": c17DescribeMembers(trio[variant].o)})
					break
				}
			}
		}
	}
}

// c17CanonPolygon renders a Polygon / MultiPolygon geometry with every closed ring rotated to
// start at its smallest point (direction kept), so that two outputs that describe the same
// rings in the same order and winding compare equal whatever vertex a ring starts at.
func c17CanonPolygon(gm map[string]any) string {
	var polys [][][]c17Pt
	switch gm["type"] {
	case "Polygon":
		rings, ok := c17ParseLines(gm["coordinates"])
		if !ok {
			return fw.JSON(gm)
		}
		polys = [][][]c17Pt{rings}
	default:
		a, _ := gm["coordinates"].([]any)
		for _, e := range a {
			rings, ok := c17ParseLines(e)
			if !ok {
				return fw.JSON(gm)
			}
			polys = append(polys, rings)
		}
	}
	var sb strings.Builder
	fmt.Fprintf(&sb, "%v:", gm["type"])
	for _, p := range polys {
		sb.WriteString("(")
		for _, ring := range p {
			if len(ring) >= 2 && ring[0] == ring[len(ring)-1] {
				o := ring[:len(ring)-1]
				best := 0
				for i := range o {
					if c17PtLess(o[i], o[best]) {
						best = i
					}
				}
				rot := append(append([]c17Pt{}, o[best:]...), o[:best]...)
				fmt.Fprintf(&sb, "closed%v", rot)
			} else {
				fmt.Fprintf(&sb, "open%v", ring)
			}
		}
		sb.WriteString(")")
	}
	return sb.String()
}

// wayOrRel finds the element a feature identity names.
func (d *c17DS) wayOrRel(k c17Key) any {
	switch k.typ {
	case "way":
		for _, w := range d.o.Ways {
			if int64(w.ID) == k.id {
				return w
			}
		}
	case "relation":
		for _, r := range d.o.Relations {
			if int64(r.ID) == k.id {
				return r
			}
		}
	}
	return nil
}

// c17DescribeMembers is c17Describe plus the member nodes of relations.
func c17DescribeMembers(o *osm.OSM) map[string]any {
	m := c17Describe(o)
	var extra []string
	for _, r := range o.Relations {
		for _, mb := range r.Members {
			if len(mb.Nodes) > 0 {
				var s []string
				for _, wn := range mb.Nodes {
					s = append(s, fmt.Sprintf("%d@(%v,%v)", wn.ID, wn.Lon, wn.Lat))
				}
				extra = append(extra, fmt.Sprintf("relation %d member %s/%d nodes [%s]", r.ID, mb.Type, mb.Ref, strings.Join(s, " ")))
			}
		}
	}
	m["member_nodes"] = extra
	return m
}

func c17InvalidCases(tier string, seed uint64) []fw.Case {
	perClass, inline := 3, 40
	if tier == "thorough" {
		perClass, inline = 60, 800
	}
	var cs []fw.Case
	n := 0
	for _, class := range c17InvalidClasses {
		for tagged := int64(0); tagged < 2; tagged++ {
			for i := 0; i < perClass; i++ {
				cs = append(cs, fw.Case{Kind: "mpinvalid", Seed: c17Sub(seed, "c17inv", n), S: map[string]string{"class": class},
					P: map[string]int64{"tagged": tagged, "size": int64(i % 2)}})
				n++
			}
		}
	}
	for i := 0; i < inline; i++ {
		cs = append(cs, fw.Case{Kind: "mpinline", Seed: c17Sub(seed, "c17inl", i), P: map[string]int64{"tagged": int64(i % 2)}})
	}
	return cs
}
